package main

// C18 fact extractor (go/ast over the tree under test): where the code COPIES a token's position
// into something the user sees. Every site gets a verdict
//
//	0 established  — the expected shape: Line / Pos taken from Lline / Lpos of ONE token, Line printed before Pos
//	1 refuted      — the site exists and does something else with these operands
//	2 unknown      — the site has a shape the extractor does not understand
//
// Sites:
//   - every composite literal of parser.Error and util.RuntimeError (all packages, no test files)
//   - the Sprintf with "(Line:%d Pos:%d)" in (*parser.Error).Error and (*util.RuntimeError).Error
//   - GetTraceString: "(%v:%v)" with Token.Lsource, Token.Lline
//   - the break point key in ecalDebugger.VisitState / SetBreakPoint
//   - errObj["line"] / errObj["pos"] in the try runtime
//
// Output: lean/Ecal/Gen/C18.lean (deterministic; no positions, no local names besides the operands).

import (
	"fmt"
	"go/ast"
	"go/parser"
	"go/token"
	"os"
	"path/filepath"
	"sort"
	"strconv"
	"strings"
)

type c18Site struct {
	kind    int // 1 construct parser.Error, 2 construct util.RuntimeError, 3 text of parser.Error, 4 text of util.RuntimeError,
	// 5 other message text, 6 stack trace entry, 7 break point key in VisitState, 8 break point key elsewhere, 9 except object line, 10 except object pos
	name    string
	verdict int
	detail  string
}

func c18Expr(e ast.Expr) string {
	switch x := e.(type) {
	case *ast.Ident:
		return x.Name
	case *ast.SelectorExpr:
		return c18Expr(x.X) + "." + x.Sel.Name
	case *ast.BasicLit:
		return x.Value
	case *ast.StarExpr:
		return "*" + c18Expr(x.X)
	case *ast.UnaryExpr:
		return x.Op.String() + c18Expr(x.X)
	case *ast.BinaryExpr:
		return c18Expr(x.X) + x.Op.String() + c18Expr(x.Y)
	case *ast.ParenExpr:
		return "(" + c18Expr(x.X) + ")"
	case *ast.CallExpr:
		return c18Expr(x.Fun) + "(…)"
	case *ast.IndexExpr:
		return c18Expr(x.X) + "[" + c18Expr(x.Index) + "]"
	}
	return fmt.Sprintf("%T", e)
}

// c18Pair judges (lineExpr, posExpr): established (0) for "<X>.Lline" with "<X>.Lpos" (or the given
// suffixes) of ONE base, or 0 with 0; refuted (1) when position fields are used in a wrong
// arrangement — swapped, taken from different tokens, another field of the token (byte offset,
// PrefixNewlines), or arithmetic on them; unknown (2) for any other shape (locals, helper calls): a
// behaviour-preserving rewrite may produce those, they break nothing.
func c18Pair(line, pos string, sufL, sufP string) (int, string) {
	d := line + " / " + pos
	if line == "0" && pos == "0" {
		return 0, d
	}
	okL, okP := strings.HasSuffix(line, sufL), strings.HasSuffix(pos, sufP)
	if okL && okP {
		if strings.TrimSuffix(line, sufL) == strings.TrimSuffix(pos, sufP) {
			return 0, d
		}
		return 1, d // two different tokens / objects
	}
	posFields := []string{".Lline", ".Lpos", ".Line", ".Pos", ".PrefixNewlines"}
	mentions := func(e string) bool {
		for _, f := range posFields {
			if strings.Contains(e, f) {
				return true
			}
		}
		return false
	}
	arith := func(e string) bool { return strings.ContainsAny(e, "+-*/%") && mentions(e) }
	wrong := func(e, want string) bool { // a bare selector of a position field other than the wanted one
		if !mentions(e) || strings.ContainsAny(e, "+-*/%(") {
			return false
		}
		return !strings.HasSuffix(e, want)
	}
	if arith(line) || arith(pos) || wrong(line, sufL) || wrong(pos, sufP) {
		return 1, d
	}
	return 2, d
}

func c18Extract(out string) int {
	root := repoDir()
	fset := token.NewFileSet()
	var sites []c18Site
	add := func(kind int, name string, v int, detail string) { sites = append(sites, c18Site{kind, name, v, detail}) }
	// field order of the two structs
	fieldIdx := map[string]map[string]int{}
	type fileInfo struct {
		pkg  string
		rel  string
		file *ast.File
	}
	var files []fileInfo
	filepath.Walk(root, func(p string, info os.FileInfo, err error) error {
		if err != nil {
			return nil
		}
		if info.IsDir() {
			if n := info.Name(); n == ".git" || n == "examples" || n == "verifhook" || n == "ecal-support" {
				return filepath.SkipDir
			}
			return nil
		}
		if !strings.HasSuffix(p, ".go") || strings.HasSuffix(p, "_test.go") {
			return nil
		}
		f, perr := parser.ParseFile(fset, p, nil, 0)
		if perr != nil {
			return nil
		}
		rel, _ := filepath.Rel(root, p)
		files = append(files, fileInfo{f.Name.Name, rel, f})
		return nil
	})
	sort.Slice(files, func(i, j int) bool { return files[i].rel < files[j].rel })
	for _, fi := range files {
		for _, d := range fi.file.Decls {
			gd, ok := d.(*ast.GenDecl)
			if !ok {
				continue
			}
			for _, s := range gd.Specs {
				ts, ok := s.(*ast.TypeSpec)
				if !ok {
					continue
				}
				st, ok := ts.Type.(*ast.StructType)
				if !ok {
					continue
				}
				key := fi.pkg + "." + ts.Name.Name
				if key != "parser.Error" && key != "util.RuntimeError" {
					continue
				}
				m := map[string]int{}
				i := 0
				for _, f := range st.Fields.List {
					for _, n := range f.Names {
						m[n.Name] = i
						i++
					}
				}
				fieldIdx[key] = m
			}
		}
	}
	for _, k := range []string{"parser.Error", "util.RuntimeError"} {
		if _, ok := fieldIdx[k]; !ok {
			add(map[string]int{"parser.Error": 1, "util.RuntimeError": 2}[k], "struct "+k, 2, "declaration not found")
		}
	}
	typeKey := func(pkg string, t ast.Expr) string {
		switch x := t.(type) {
		case *ast.Ident:
			return pkg + "." + x.Name
		case *ast.SelectorExpr:
			if id, ok := x.X.(*ast.Ident); ok {
				return id.Name + "." + x.Sel.Name
			}
		}
		return ""
	}
	for _, fi := range files {
		var fn string
		ast.Inspect(fi.file, func(n ast.Node) bool {
			switch x := n.(type) {
			case *ast.FuncDecl:
				fn = x.Name.Name
				if x.Recv != nil && len(x.Recv.List) == 1 {
					fn = strings.TrimPrefix(c18Expr(x.Recv.List[0].Type), "*") + "." + fn
				}
			case *ast.CompositeLit:
				key := typeKey(fi.pkg, x.Type)
				idx, ok := fieldIdx[key]
				if !ok || (key != "parser.Error" && key != "util.RuntimeError") {
					return true
				}
				name := "construct " + key + " in " + fi.pkg + "." + fn
				var line, pos string
				if len(x.Elts) > 0 {
					if _, kv := x.Elts[0].(*ast.KeyValueExpr); kv {
						for _, e := range x.Elts {
							kve := e.(*ast.KeyValueExpr)
							switch c18Expr(kve.Key) {
							case "Line":
								line = c18Expr(kve.Value)
							case "Pos":
								pos = c18Expr(kve.Value)
							}
						}
					} else if len(x.Elts) > idx["Line"] && len(x.Elts) > idx["Pos"] {
						line, pos = c18Expr(x.Elts[idx["Line"]]), c18Expr(x.Elts[idx["Pos"]])
					}
				}
				ck := map[string]int{"parser.Error": 1, "util.RuntimeError": 2}[key]
				if line == "" || pos == "" {
					add(ck, name, 2, "Line / Pos elements not found")
					return true
				}
				sufL, sufP := ".Lline", ".Lpos"
				v, d := c18Pair(line, pos, sufL, sufP)
				add(ck, name, v, d)
			case *ast.CallExpr:
				if fi.pkg == "interpreter" && fn == "ecalDebugger.VisitState" {
					for i := 0; i+1 < len(x.Args); i++ {
						src := c18Expr(x.Args[i])
						if strings.HasSuffix(src, ".Token.Lsource") {
							v, d := c18Pair(c18Expr(x.Args[i+1]), src, ".Token.Lline", ".Token.Lsource")
							add(7, "break point key in "+fi.pkg+"."+fn, v, d)
						}
					}
				}
				if c18Expr(x.Fun) != "fmt.Sprintf" || len(x.Args) < 3 {
					return true
				}
				lit, ok := x.Args[0].(*ast.BasicLit)
				if !ok {
					return true
				}
				format, _ := strconv.Unquote(lit.Value)
				a1, a2 := c18Expr(x.Args[len(x.Args)-2]), c18Expr(x.Args[len(x.Args)-1])
				switch {
				case strings.Contains(format, "(Line:%d Pos:%d)"):
					v, d := c18Pair(a1, a2, ".Line", ".Pos")
					if v != 0 {
						if v2, d2 := c18Pair(a1, a2, ".Lline", ".Lpos"); v2 == 0 {
							v, d = v2, d2
						}
					}
					mk := 5
					if fi.pkg == "parser" && fn == "Error.Error" {
						mk = 3
					} else if fi.pkg == "util" && fn == "RuntimeError.Error" {
						mk = 4
					}
					add(mk, "message text in "+fi.pkg+"."+fn, v, d)
				case strings.HasSuffix(format, "(%v:%v)") && fn == "RuntimeError.GetTraceString":
					v, d := c18Pair(a2, a1, ".Token.Lline", ".Token.Lsource")
					add(6, "stack trace entry in "+fi.pkg+"."+fn, v, d)
				case format == "%v:%v" && fi.pkg == "interpreter" && !strings.HasSuffix(a1, ".Token.Lsource"):
					// the key built from what the caller of SetBreakPoint & co. hands in
					v := 2
					if _, ok1 := x.Args[1].(*ast.Ident); ok1 {
						if _, ok2 := x.Args[2].(*ast.Ident); ok2 {
							v = 0
						}
					}
					add(8, "break point key in "+fi.pkg+"."+fn, v, a1+" / "+a2)
				}
			case *ast.AssignStmt:
				if len(x.Lhs) != 1 || len(x.Rhs) != 1 {
					return true
				}
				ie, ok := x.Lhs[0].(*ast.IndexExpr)
				if !ok || c18Expr(ie.X) != "errObj" {
					return true
				}
				k := c18Expr(ie.Index)
				r := c18Expr(x.Rhs[0])
				if k == `"line"` || k == `"pos"` {
					want := map[string]string{`"line"`: ".Line", `"pos"`: ".Pos"}[k]
					v := 1
					if strings.HasSuffix(r, want) {
						v = 0
					}
					add(map[string]int{`"line"`: 9, `"pos"`: 10}[k], "except object "+k[1:len(k)-1]+" in "+fi.pkg+"."+fn, v, r)
				}
			}
			return true
		})
	}
	sort.SliceStable(sites, func(i, j int) bool { return sites[i].name < sites[j].name })
	var sb strings.Builder
	sb.WriteString("/-! GENERATED on every run by `harness C18 -tool extract` (go/ast over the tree under test) — do not edit.\n")
	sb.WriteString("Where the code copies a token's position into something the user sees. Verdicts: 0 established, 1 refuted, 2 unknown shape. -/\n")
	sb.WriteString("namespace Ecal.Gen.C18\n\n")
	sb.WriteString("/-- (kind, verdict, site, the Line-operand / the Pos-operand as written in the source); kinds: 1 construct parser.Error,\n")
	sb.WriteString("    2 construct util.RuntimeError, 3 text of (*parser.Error).Error, 4 text of (*util.RuntimeError).Error, 5 other message text,\n")
	sb.WriteString("    6 stack trace entry, 7 break point key in VisitState, 8 break point key elsewhere, 9 / 10 except object line / pos -/\n")
	sb.WriteString("def sites : List (Nat × Nat × String × String) :=\n  [")
	for i, s := range sites {
		if i > 0 {
			sb.WriteString(",\n   ")
		}
		fmt.Fprintf(&sb, "(%d, %d, %s, %s)", s.kind, s.verdict, strconv.Quote(s.name), strconv.Quote(s.detail))
	}
	sb.WriteString("]\n\nend Ecal.Gen.C18\n")
	if err := os.WriteFile(out, []byte(sb.String()), 0644); err != nil {
		fmt.Println(err)
		return 1
	}
	for _, s := range sites {
		fmt.Printf("%d %s: %s\n", s.verdict, s.name, s.detail)
	}
	return 0
}
