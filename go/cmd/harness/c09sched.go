package main

// Controlled scheduler for the thread pool (property C09): the verifhook handler
// appends every hook event to one ordered trace and may park the calling goroutine.
// See c09.go for the trace format.

import (
	"fmt"
	"runtime"
	"strconv"
	"strings"
	"sync"
	"sync/atomic"
	"time"
)

type c09Item struct {
	thread string
	text   string
	n      int
}

type c09Rule struct {
	thread  string // "w*" = any worker, else exact label
	point   string
	max     int // how many goroutines may park on it (0 = unlimited)
	parked  int32
	taken   int
	release chan struct{}
	done    bool
	timeout time.Duration
}

type c09Sched struct {
	mu        sync.Mutex
	items     []c09Item
	recording bool
	labels    map[int64]string
	ncallers  int
	last      map[string]string // thread -> code of its last record
	lastNano  int64             // time of the last new record
	nEvents   int64
	rules     []*c09Rule
	parked    int32
	rnd       *Rand
	prio      map[string]int
	random    bool
	pHits     int
	holdAt    map[int]bool
	inflight  int // AddTask between ap and as/ad
	swcPend   int // SetWorkerCount between sd and sb
	lastWS    map[string][3]int
	qsize     int
	// shadow of the condition variable: who waits (in order), who was notified and has not returned yet
	waiters map[string]bool
	transit []time.Time // notifications sent under L whose receiver has not returned from Wait yet
	polls    map[string]int    // per caller thread: polling records (js / sp) so far
	decided  map[string]int    // per caller thread: its polls at the time of the last SetWorkerCount decision of ANOTHER thread
	reassert map[string]int    // per caller thread: its polls at its last jk
	foreign  map[interface{}]int
	bcasting int   // unlocked broadcasts between their pre hook and their record
	decidedAny bool
	nRecords int64 // every handled hook event / note
	created  int   // workers created so far (from su records), exited = ex records
	exited   int
	started  int
}

func newC09Sched() *c09Sched {
	return &c09Sched{recording: true, labels: map[int64]string{}, last: map[string]string{},
		prio: map[string]int{}, holdAt: map[int]bool{}, lastWS: map[string][3]int{}, waiters: map[string]bool{}, foreign: map[interface{}]int{}, polls: map[string]int{}, decided: map[string]int{}, reassert: map[string]int{}, lastNano: time.Now().UnixNano()}
}

func c09Goid() int64 {
	var buf [64]byte
	n := runtime.Stack(buf[:], false)
	f := strings.Fields(string(buf[:n]))
	if len(f) < 2 {
		return -1
	}
	id, _ := strconv.ParseInt(f[1], 10, 64)
	return id
}

func c09Num(v interface{}) string {
	var n int64
	switch x := v.(type) {
	case int:
		n = int64(x)
	case uint64:
		n = int64(x)
	case int64:
		n = x
	default:
		return "x"
	}
	if n < 0 {
		return "m" + strconv.FormatInt(-n, 10)
	}
	return strconv.FormatInt(n, 10)
}

// taskName encodes a task argument: n = nil, i = the pool's idle task, t<id> = a task of the case
// (own tasks carry their id; foreign ones — engine tasks — are numbered by identity from 1000).
func (s *c09Sched) taskName(v interface{}) string {
	if v == nil {
		return "n"
	}
	if t, ok := v.(*c09Task); ok {
		if t == nil {
			return "n"
		}
		return "t" + strconv.Itoa(t.id)
	}
	if strings.HasSuffix(fmt.Sprintf("%T", v), "idleTask") {
		return "i"
	}
	id, ok := s.foreign[v]
	if !ok {
		id = 1000 + len(s.foreign)
		s.foreign[v] = id
	}
	return "t" + strconv.Itoa(id)
}

// c09Points: point -> (code, park point?, argument kinds: w = worker id (label only), n = number, t = task, s = string)
var c09Points = map[string]struct {
	code string
	park bool
	args string
}{
	"pool.add.pushed": {"ap", false, "tn"}, "pool.add.unlocked": {"au", true, "t"},
	"pool.add.signal": {"as", false, "t"}, "pool.add.done": {"ad", true, "t"},
	"pool.get.kill": {"kx", false, "n"}, "pool.get.killexit": {"ke", true, ""},
	"pool.get.nokill": {"nk", false, "n"}, "pool.get.popped": {"pp", false, "tn"},
	"pool.get.empty":  {"em", true, ""}, "pool.get.drain": {"dr", false, "n"},
	"pool.worker.start": {"st", true, "w"}, "pool.worker.head": {"hd", true, "w"},
	"pool.worker.idle.reg": {"ir", false, "w"}, "pool.worker.idle.unreg": {"iu", false, "w"},
	"pool.worker.task.begin": {"tb", true, "wt"}, "pool.worker.task.end": {"te", true, "wt"},
	"pool.worker.exit": {"ex", false, "w"},
	"pool.idle.locked": {"il", true, "w"}, "pool.idle.pending": {"ip", false, "wn"},
	"pool.idle.kill": {"ik", false, "wn"}, "pool.idle.beforeWait": {"bw", true, "w"},
	"pool.idle.afterWait": {"aw", true, "w"}, "pool.idle.return": {"rt", true, "w"},
	"pool.swc.read": {"sr", false, "nn"}, "pool.swc.up": {"su", false, "n"},
	"pool.swc.down": {"sd", false, "n"}, "pool.swc.bcast": {"sb", false, ""},
	"pool.swc.poll": {"sp", false, "nn"}, "pool.waitall.snap": {"ws", false, "nnn"},
	"pool.joinall.kill": {"jk", false, ""}, "pool.joinall.snap": {"js", false, "nn"},
	"pool.bcast": {"bc", false, "s"},
}

// label returns the thread label of a goroutine: workers are bound at pool.worker.start, caller
// goroutines must have been adopted by the harness (Adopt); anything else (left-overs of an earlier
// case in the same process) is ignored ("").
func (s *c09Sched) label(gid int64, point string, args []interface{}) string {
	if l, ok := s.labels[gid]; ok {
		return l
	}
	if point == "pool.worker.start" && len(args) > 0 {
		l := "w" + c09Num(args[0])
		s.labels[gid] = l
		return l
	}
	return ""
}

// Adopt registers the calling goroutine as a caller thread of this case.
func (s *c09Sched) Adopt() {
	gid := c09Goid()
	s.mu.Lock()
	if _, ok := s.labels[gid]; !ok {
		s.labels[gid] = "c" + strconv.Itoa(s.ncallers)
		s.ncallers++
	}
	s.mu.Unlock()
}

// appendLocked adds a record (caller holds mu).
func (s *c09Sched) appendLocked(thread, text string) {
	n := len(s.items)
	if strings.HasPrefix(text, "bc.") && n > 0 {
		li := &s.items[n-1]
		if li.thread == thread && li.n == 1 && !strings.HasSuffix(li.text, ".B") &&
			(strings.HasPrefix(li.text, "ws.") || strings.HasPrefix(li.text, "js.") || strings.HasPrefix(li.text, "sp.")) {
			li.text += ".B"
			// merge with an identical predecessor
			if n > 1 && s.items[n-2].thread == thread && s.items[n-2].text == li.text {
				s.items[n-2].n++
				s.items = s.items[:n-1]
			} else {
				atomic.StoreInt64(&s.lastNano, time.Now().UnixNano())
				s.nEvents++
			}
			return
		}
	}
	if n > 0 && s.items[n-1].thread == thread && s.items[n-1].text == text {
		s.items[n-1].n++
		return
	}
	s.items = append(s.items, c09Item{thread, text, 1})
	// a polling record that only repeats the one before the previous `.B` item is no news
	news := true
	if n > 0 && s.items[n-1].thread == thread && strings.TrimSuffix(s.items[n-1].text, ".B") == text {
		news = false
	}
	if news {
		atomic.StoreInt64(&s.lastNano, time.Now().UnixNano())
		s.nEvents++
	}
}

// Note adds a harness-level record (WC, WR, …) for the calling goroutine.
func (s *c09Sched) Note(text string) {
	gid := c09Goid()
	s.mu.Lock()
	if l := s.label(gid, "", nil); s.recording && l != "" {
		s.appendLocked(l, text)
		s.nRecords++
	}
	s.mu.Unlock()
}

func (s *c09Sched) handle(point string, args ...interface{}) {
	pre := point == "pool.bcast.pre"
	info, ok := c09Points[point]
	if !ok && !pre {
		return
	}
	gid := c09Goid()
	s.mu.Lock()
	if !s.recording {
		s.mu.Unlock()
		return
	}
	thread := s.label(gid, point, args)
	if thread == "" {
		s.mu.Unlock()
		return
	}
	// An unlocked Broadcast is made atomic with its record: between its pre hook and its record no
	// worker passes `bw` (before Wait) or `aw` (after Wait). The broadcaster only executes
	// Broadcast() in between, so the gate always opens again.
	if pre {
		s.bcasting++
		s.mu.Unlock()
		return
	}
	if info.code == "bc" && s.bcasting > 0 {
		s.bcasting--
	}
	for spin, t0 := 0, time.Now(); (info.code == "bw" || info.code == "aw") && s.bcasting > 0 && s.recording; spin++ {
		// bounded (2 s): the gate is only up while a broadcaster is between its pre hook and its record — a
		// few instructions unless that goroutine is descheduled; after the bound the record is taken anyway
		// (the validator then resolves the order by its alternatives)
		if spin > 1000 && time.Since(t0) > 2*time.Second {
			break
		}
		s.mu.Unlock()
		if spin < 1000 {
			runtime.Gosched()
		} else {
			time.Sleep(20 * time.Microsecond)
		}
		s.mu.Lock()
	}
	text := info.code
	for k, kind := range info.args {
		if k >= len(args) {
			break
		}
		switch kind {
		case 'n':
			text += "." + c09Num(args[k])
		case 't':
			text += "." + s.taskName(args[k])
		case 's':
			text += "." + fmt.Sprint(args[k])[:1]
		}
	}
	s.appendLocked(thread, text)
	s.nRecords++
	s.last[thread] = info.code
	switch info.code {
	case "st":
		s.started++
	case "ex":
		s.exited++
	case "su":
		s.created = args[0].(int) + s.exited
	case "ap":
		s.inflight++
		s.qsize = args[1].(int)
	case "pp":
		s.qsize = args[1].(int)
	case "sd":
		s.swcPend++
	case "bw":
		s.waiters[thread] = true
	case "aw":
		delete(s.waiters, thread)
		if len(s.transit) > 0 {
			s.transit = s.transit[1:]
		}
	case "as":
		s.inflight--
		if len(s.transit) < len(s.waiters) {
			s.transit = append(s.transit, time.Now())
		}
	case "sb":
		s.swcPend--
		for len(s.transit) < len(s.waiters) {
			s.transit = append(s.transit, time.Now())
		}
	case "js":
		s.lastWS[thread] = [3]int{args[0].(int), 0, args[1].(int)}
		s.polls[thread]++
	case "sp":
		s.polls[thread]++
	case "jk":
		s.reassert[thread] = 1 // re-asserted since the last decision of another thread

	case "ws":
		s.lastWS[thread] = [3]int{args[0].(int), args[1].(int), args[2].(int)}
	}
	if info.code == "su" || info.code == "sd" {
		// a SetWorkerCount decision: every other polling caller has been overruled from here on
		for th, n := range s.polls {
			if th != thread {
				s.decided[th] = n
				s.reassert[th] = 0
			}
		}
		s.decidedAny = true
	}
	var rule *c09Rule
	delay, hold := 0, false
	if info.park {
		s.pHits++
		if s.holdAt[s.pHits] {
			hold = true
		}
		for _, r := range s.rules {
			if r.done || r.point != point || (r.max > 0 && r.taken >= r.max) {
				continue
			}
			if r.thread == thread || (r.thread == "w*" && thread[0] == 'w') {
				r.taken++
				rule = r
				break
			}
		}
		if rule == nil && s.random {
			p, ok := s.prio[thread]
			if !ok {
				p = s.rnd.Intn(4)
				s.prio[thread] = p
			}
			if s.rnd.Intn(40) == 0 {
				s.prio[thread] = s.rnd.Intn(4)
			}
			// low priority threads are delayed more often
			if s.rnd.Intn(20) < 1+2*p {
				delay = 1 + s.rnd.Intn(4)
			}
			if delay == 4 {
				delay = 4 + s.rnd.Intn(20) // park for that many further events
			}
		}
	}
	ev := s.nEvents
	s.mu.Unlock()

	switch {
	case rule != nil:
		atomic.AddInt32(&s.parked, 1)
		atomic.AddInt32(&rule.parked, 1)
		select {
		case <-rule.release:
		case <-time.After(rule.timeout):
		}
		atomic.AddInt32(&rule.parked, -1)
		atomic.AddInt32(&s.parked, -1)
	case hold:
		// systematic: hold until everything else is quiet
		atomic.AddInt32(&s.parked, 1)
		t0 := time.Now()
		for time.Since(t0) < 200*time.Millisecond {
			time.Sleep(200 * time.Microsecond)
			if time.Now().UnixNano()-atomic.LoadInt64(&s.lastNano) > int64(2*time.Millisecond) {
				break
			}
		}
		atomic.AddInt32(&s.parked, -1)
	case delay >= 4:
		atomic.AddInt32(&s.parked, 1)
		t0 := time.Now()
		target := ev + int64(delay-3)
		for time.Since(t0) < time.Millisecond {
			s.mu.Lock()
			n := s.nEvents
			s.mu.Unlock()
			if n >= target {
				break
			}
			time.Sleep(20 * time.Microsecond)
		}
		atomic.AddInt32(&s.parked, -1)
	case delay == 3:
		time.Sleep(time.Duration(10+ev%190) * time.Microsecond)
	case delay > 0:
		for k := 0; k < delay; k++ {
			runtime.Gosched()
		}
	}
}

// AddRule installs a park rule.
func (s *c09Sched) AddRule(thread, point string, max int) *c09Rule {
	r := &c09Rule{thread: thread, point: point, max: max, release: make(chan struct{}), timeout: 2 * time.Second}
	s.mu.Lock()
	s.rules = append(s.rules, r)
	s.mu.Unlock()
	return r
}

// WaitParked waits until n goroutines sit on the rule.
func (r *c09Rule) WaitParked(n int, d time.Duration) bool {
	t0 := time.Now()
	for time.Since(t0) < d {
		if int(atomic.LoadInt32(&r.parked)) >= n {
			return true
		}
		time.Sleep(50 * time.Microsecond)
	}
	return false
}

// Release frees everybody parked on the rule and disables it.
func (s *c09Sched) Release(r *c09Rule) {
	s.mu.Lock()
	if !r.done {
		r.done = true
		close(r.release)
	}
	s.mu.Unlock()
}

// WaitRecord waits until some record of the trace starts with the given text.
func (s *c09Sched) WaitRecord(prefix string, d time.Duration) bool {
	t0 := time.Now()
	for time.Since(t0) < d {
		s.mu.Lock()
		for _, it := range s.items {
			if strings.HasPrefix(it.text, prefix) {
				s.mu.Unlock()
				return true
			}
		}
		s.mu.Unlock()
		time.Sleep(50 * time.Microsecond)
	}
	return false
}

type c09Snapshot struct {
	liveWorkers, notWaiting, inflight, swcPend, qsize int
	events                                            int64
}

func (s *c09Sched) snapshot() c09Snapshot {
	s.mu.Lock()
	defer s.mu.Unlock()
	var sn c09Snapshot
	for th, code := range s.last {
		if th[0] != 'w' || code == "ex" {
			continue
		}
		sn.liveWorkers++
		if code != "bw" {
			sn.notWaiting++
		}
	}
	for _, t := range s.transit {
		// a notified worker that has not come back yet is still moving (the count is a guess when
		// unlocked broadcasts are around: forget it after a while)
		if time.Since(t) < 800*time.Millisecond {
			sn.notWaiting++
		}
	}
	// workers created by SetWorkerCount whose goroutine has not started yet
	if s.started < s.created {
		sn.notWaiting += s.created - s.started
		sn.liveWorkers += s.created - s.started
	}
	sn.inflight, sn.swcPend, sn.qsize, sn.events = s.inflight, s.swcPend, s.qsize, s.nEvents
	return sn
}

// Quiesce waits until nothing moves: no new record for 3 ms, nobody parked by the
// scheduler, every live worker's last record is `bw` (or `ex`).
// It gives up when nothing was recorded for `max` although the pool is not quiescent, or after 12 s.
func (s *c09Sched) Quiesce(max time.Duration) bool {
	t0 := time.Now()
	for time.Since(t0) < 12*time.Second {
		quiet := time.Now().UnixNano()-atomic.LoadInt64(&s.lastNano) > int64(3*time.Millisecond)
		if quiet && atomic.LoadInt32(&s.parked) == 0 {
			sn := s.snapshot()
			if sn.notWaiting == 0 && sn.inflight == 0 && sn.swcPend == 0 {
				return true
			}
		}
		if time.Since(t0) > 5*max && time.Now().UnixNano()-atomic.LoadInt64(&s.lastNano) > int64(5*max) {
			return false
		}
		time.Sleep(300 * time.Microsecond)
	}
	return false
}

// PollsSinceOverruled: how many polling iterations a caller thread made since another thread's
// SetWorkerCount decision without re-asserting (jk) since then; -1 if it was never overruled. This
// counts the caller's OWN loop iterations, so it does not depend on the machine's load.
func (s *c09Sched) PollsSinceOverruled(thread string) int {
	s.mu.Lock()
	defer s.mu.Unlock()
	d, ok := s.decided[thread]
	if !ok {
		return -1
	}
	if s.reassert[thread] != 0 {
		return 0
	}
	return s.polls[thread] - d
}

func (s *c09Sched) Polls(thread string) int {
	s.mu.Lock()
	defer s.mu.Unlock()
	return s.polls[thread]
}

func (s *c09Sched) ThreadOf(gid int64) string {
	s.mu.Lock()
	defer s.mu.Unlock()
	return s.labels[gid]
}

// WorkersParked reports, from the goroutine stacks, whether EVERY live worker goroutine is blocked
// inside sync.Cond.Wait without having been notified (state "sync.Cond.Wait"; a notified goroutine that
// has not run yet is "runnable"). live = number of live workers looked at.
func (s *c09Sched) WorkersParked() (all bool, live int) {
	buf := make([]byte, 1<<20)
	n := runtime.Stack(buf, true)
	state := map[int64]string{}
	for _, blk := range strings.Split(string(buf[:n]), "\n\n") {
		var id int64
		var st string
		if k := strings.Index(blk, "goroutine "); k >= 0 {
			rest := blk[k+10:]
			if sp := strings.Index(rest, " ["); sp > 0 {
				id, _ = strconv.ParseInt(rest[:sp], 10, 64)
				if e := strings.Index(rest, "]"); e > sp {
					st = rest[sp+2 : e]
				}
			}
		}
		if id != 0 {
			state[id] = st
		}
	}
	s.mu.Lock()
	defer s.mu.Unlock()
	all = true
	for gid, th := range s.labels {
		if th[0] != 'w' || s.last[th] == "ex" {
			continue
		}
		st, ok := state[gid]
		if !ok {
			continue // goroutine ended
		}
		live++
		if !strings.HasPrefix(st, "sync.Cond.Wait") {
			all = false
		}
	}
	if s.started < s.created {
		all = false
	}
	return all, live
}

// Records returns the number of records handled so far.
func (s *c09Sched) Records() int64 {
	s.mu.Lock()
	defer s.mu.Unlock()
	return s.nRecords
}

// StopIf ends the recording if exactly n records were handled so far.
func (s *c09Sched) StopIf(n int64) bool {
	s.mu.Lock()
	defer s.mu.Unlock()
	if s.nRecords != n {
		return false
	}
	s.recording = false
	return true
}

// Heartbeat reports whether a freshly started goroutine got to run within d: evidence that the Go
// scheduler had the opportunity to run every ready goroutine.
func c09Heartbeat(d time.Duration) bool {
	ch := make(chan struct{})
	go func() { close(ch) }()
	select {
	case <-ch:
		return true
	case <-time.After(d):
		return false
	}
}

// Stop ends the recording and returns the encoded trace.
func (s *c09Sched) Stop() string {
	s.mu.Lock()
	defer s.mu.Unlock()
	s.recording = false
	for _, r := range s.rules {
		if !r.done {
			r.done = true
			close(r.release)
		}
	}
	var b strings.Builder
	for k, it := range s.items {
		if k > 0 {
			b.WriteByte(',')
		}
		b.WriteString(it.thread)
		b.WriteByte('.')
		b.WriteString(it.text)
		if it.n > 1 {
			b.WriteByte('*')
			b.WriteString(strconv.Itoa(it.n))
		}
	}
	return b.String()
}
