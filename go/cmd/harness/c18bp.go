package main

// C18, case kind B: a debugger break point refers to the line the user sees.
//
//	B <src-hex> <markoff>     result: "pos,line" of the node the thread is suspended on
//
// The program has one marked statement that starts its line (after blanks / block comments only).
// The harness computes the line of the marked token from the bytes alone (1 + number of '\n'
// before it), sets a break point there on the REAL debugger, runs the program and reads, from
// Describe(), the node the thread is suspended on: it must be the marked token — the first node the
// interpreter evaluates on that line.

import (
	"fmt"
	"strings"
	"time"
	"unicode"
	"unicode/utf8"

	"github.com/krotik/ecal/interpreter"
	"github.com/krotik/ecal/parser"
	"github.com/krotik/ecal/util"
)

func c18Break(src string, markoff int) string { return c18BreakMulti(src, []int{markoff}, "both") }

// c18BreakMulti sets a break point at the true line of every marked offset, then (mode "dis" / "rm")
// disables / removes the LAST one again through the debugger API, runs the program and collects the
// node of every suspension (Continue with Resume in between). Expected: one suspension per active
// break point, in source order, each on the marked token; "-" stands for the deactivated one.
func c18BreakMulti(src string, offs []int, mode string) string {
	lines := make([]int, len(offs))
	for i, o := range offs {
		lines[i] = 1 + strings.Count(src[:o], "\n")
	}
	vs := newGlobalScope()
	erp := interpreter.NewECALRuntimeProvider("t", nil, &memLog{})
	defer erp.Cron.Stop()
	dbg := interpreter.NewECALDebugger(vs)
	dbg.BreakOnError(false)
	erp.Debugger = dbg
	for _, l := range lines {
		dbg.SetBreakPoint("t", l)
	}
	active := len(lines)
	switch mode {
	case "dis":
		dbg.DisableBreakPoint("t", lines[len(lines)-1])
		active--
	case "rm":
		dbg.RemoveBreakPoint("t", lines[len(lines)-1])
		active--
	}
	ast, err := parser.ParseWithRuntime("t", src, erp)
	if err == nil {
		err = ast.Runtime.Validate()
	}
	if err != nil {
		return "PARSE " + oneLine(err.Error())
	}
	tid := erp.NewThreadID()
	done := make(chan error, 1)
	go func() {
		defer func() {
			if e := recover(); e != nil {
				done <- fmt.Errorf("PANIC %v", e)
			}
		}()
		_, err := ast.Runtime.Eval(vs, make(map[string]interface{}), tid)
		done <- err
	}()
	var hits []string
	finish := func(extra string) string {
		for len(hits) < len(lines) {
			hits = append(hits, "-")
		}
		return strings.TrimSpace(strings.Join(hits, " ") + " " + extra)
	}
	deadline := time.Now().Add(4 * time.Second)
	for time.Now().Before(deadline) {
		select {
		case err := <-done:
			if err != nil {
				return finish("FINISHED-WITH-ERROR " + oneLine(err.Error()))
			}
			if len(hits) < active {
				return finish("NOT-SUSPENDED")
			}
			return finish("")
		default:
		}
		if d, ok := dbg.Describe(tid).(map[string]interface{}); ok && d != nil {
			if running, ok := d["threadRunning"].(bool); ok && !running {
				node, _ := d["node"].(map[string]interface{})
				hit := fmt.Sprintf("%v,%v", node["pos"], node["line"])
				if len(hits) >= active {
					hits = append(hits, "EXTRA:"+hit)
				} else {
					hits = append(hits, hit)
				}
				dbg.Continue(tid, util.Resume)
				// wait until the thread runs again (or is gone) before looking for the next suspension
				for k := 0; k < 20000; k++ {
					d2, _ := dbg.Describe(tid).(map[string]interface{})
					if d2 == nil {
						break
					}
					if r2, ok := d2["threadRunning"].(bool); !ok || r2 {
						break
					}
					time.Sleep(50 * time.Microsecond)
				}
				if len(hits) > len(lines)+2 {
					return finish("TOO-MANY-SUSPENSIONS")
				}
				continue
			}
		}
		time.Sleep(200 * time.Microsecond)
	}
	return finish("TIMEOUT")
}

// marked statements: text and the offset (inside it) of the token whose node is evaluated first
var c18Marks = []struct {
	text string
	off  int
}{
	{"log(7)", 0},
	{"mk := 7", 3},
	{"log(\"a\",\n 7)", 0},
	{"mk := [1,\n 2]", 3},
	{"if mk == null {\n log(1)\n}", 0},
	// a break point on a CONTINUATION line: the first node evaluated there
	{"mk := [1,\n 2]", 11},
	{"log(\"a\",\n\n 7)", 11},
}

var c18MarkLead = []string{"", "", " ", "\t", "  ", "/* c */ ", "/* l1\nl2 */ ", "/* é */", "/* a */ /* b\n\n */\t"}

func c18BreakGen(g *Gen, n int) {
	for i := 0; i < n; i++ {
		var sb strings.Builder
		for k, m := 0, g.R.Intn(5); k < m; k++ {
			sb.WriteString(g.R.Pick(c18Lines))
		}
		// blank lines in front of the marked statement (0 … 6)
		sb.WriteString(strings.Repeat("\n", g.R.Intn(7)))
		if g.R.Intn(4) == 0 {
			sb.WriteString("# c\n")
		}
		sb.WriteString(g.R.Pick(c18MarkLead))
		mk := c18Marks[g.R.Intn(len(c18Marks))]
		off := sb.Len() + mk.off
		sb.WriteString(mk.text)
		if m := g.R.Intn(3); m == 0 {
			sb.WriteString(g.R.Pick([]string{"", "\n", " # c", " # c\n", "\n\n"}))
		} else {
			sb.WriteString(g.R.Pick([]string{"\n", " # c\n", "\n\n"}))
			for k := 0; k < m; k++ {
				sb.WriteString(g.R.Pick(c18Lines))
			}
		}
		if i%3 == 0 {
			g.Count("break point")
			g.Emit(fmt.Sprintf("B %s %d", hx(sb.String()), off))
			continue
		}
		// a second marked statement further down; both / the second disabled / the second removed
		if !strings.HasSuffix(sb.String(), "\n") {
			sb.WriteString("\n")
		}
		sb.WriteString(strings.Repeat("\n", g.R.Intn(5)))
		sb.WriteString(g.R.Pick(c18MarkLead))
		mk2 := c18Marks[g.R.Intn(len(c18Marks))]
		off2 := sb.Len() + mk2.off
		sb.WriteString(mk2.text)
		sb.WriteString(g.R.Pick([]string{"", "\n", " # c\n", "\nu := 3\n"}))
		mode := []string{"both", "dis", "rm"}[g.R.Intn(3)]
		g.Count("break point x2 " + mode)
		g.Emit(fmt.Sprintf("B2 %s %d %d %s", hx(sb.String()), off, off2, mode))
	}
}

// ---------------------------------------------------------------- code point sweep (case kind U)

// c18RawUTF8 encodes cp by the bare UTF-8 bit layout (also surrogates and values above U+10FFFF,
// which DecodeRune must reject).
func c18RawUTF8(cp int) []byte {
	switch {
	case cp < 0x80:
		return []byte{byte(cp)}
	case cp < 0x800:
		return []byte{byte(0xC0 + cp/64), byte(0x80 + cp%64)}
	case cp < 0x10000:
		return []byte{byte(0xE0 + cp/4096), byte(0x80 + cp/64%64), byte(0x80 + cp%64)}
	}
	return []byte{byte(0xF0 + cp/262144), byte(0x80 + cp/4096%64), byte(0x80 + cp/64%64), byte(0x80 + cp%64)}
}

// c18Sweep: for every code point in [lo,hi) two hex digits: bit 1 unicode.IsSpace, 2 IsControl,
// 4 IsNumber, 8 utf8.DecodeRune of its raw encoding gives it back with the full width; then the
// width DecodeRune reports. Removes the trust in the model's hand-copied tables.
func c18Sweep(lo, hi int) string {
	var sb strings.Builder
	for cp := lo; cp < hi; cp++ {
		bits := 0
		r := rune(cp)
		if unicode.IsSpace(r) {
			bits |= 1
		}
		if unicode.IsControl(r) {
			bits |= 2
		}
		if unicode.IsNumber(r) {
			bits |= 4
		}
		b := c18RawUTF8(cp)
		d, w := utf8.DecodeRune(b)
		if int(d) == cp && w == len(b) {
			bits |= 8
		}
		fmt.Fprintf(&sb, "%x%x", bits, w)
	}
	return sb.String()
}

func c18SweepGen(g *Gen) {
	hi := 0x3000
	if g.Thorough() {
		hi = 0x112000
	}
	for lo := 0; lo < hi; lo += 4096 {
		g.Count("code point sweep")
		g.Emit(fmt.Sprintf("U %d %d", lo, lo+4096))
	}
}
