package main

// C18, case kind B: a debugger break point refers to the line the user sees.
//
//	B <src-hex> <markoff>     result: "pos,line" of the node the thread is suspended on
//
// The program has one marked statement that starts its line (after blanks / block comments only).
// The harness computes the line of the marked token from the bytes alone (1 + number of '\n'
// before it), sets a break point there on the REAL debugger, runs the program and reads, from
// Describe(), the node the thread is suspended on: it must be the marked token — the first node the
// interpreter evaluates on that line.

import (
	"fmt"
	"strings"
	"time"

	"github.com/krotik/ecal/interpreter"
	"github.com/krotik/ecal/parser"
	"github.com/krotik/ecal/util"
)

func c18Break(src string, markoff int) string {
	line := 1 + strings.Count(src[:markoff], "\n")
	vs := newGlobalScope()
	erp := interpreter.NewECALRuntimeProvider("t", nil, &memLog{})
	defer erp.Cron.Stop()
	dbg := interpreter.NewECALDebugger(vs)
	dbg.BreakOnError(false)
	erp.Debugger = dbg
	dbg.SetBreakPoint("t", line)
	ast, err := parser.ParseWithRuntime("t", src, erp)
	if err == nil {
		err = ast.Runtime.Validate()
	}
	if err != nil {
		return "PARSE " + oneLine(err.Error())
	}
	tid := erp.NewThreadID()
	done := make(chan error, 1)
	go func() {
		defer func() {
			if e := recover(); e != nil {
				done <- fmt.Errorf("PANIC %v", e)
			}
		}()
		_, err := ast.Runtime.Eval(vs, make(map[string]interface{}), tid)
		done <- err
	}()
	deadline := time.Now().Add(3 * time.Second)
	for time.Now().Before(deadline) {
		select {
		case err := <-done:
			if err != nil {
				return "FINISHED-WITH-ERROR " + oneLine(err.Error())
			}
			return "NOT-SUSPENDED"
		default:
		}
		if d, ok := dbg.Describe(tid).(map[string]interface{}); ok && d != nil {
			if running, ok := d["threadRunning"].(bool); ok && !running {
				node, _ := d["node"].(map[string]interface{})
				res := fmt.Sprintf("%v,%v", node["pos"], node["line"])
				dbg.RemoveBreakPoint("t", line)
				dbg.Continue(tid, util.Resume)
				select {
				case <-done:
				case <-time.After(3 * time.Second):
					return res + " STUCK-AFTER-CONTINUE"
				}
				return res
			}
		}
		time.Sleep(200 * time.Microsecond)
	}
	return "TIMEOUT"
}

// marked statements: text and the offset (inside it) of the token whose node is evaluated first
var c18Marks = []struct {
	text string
	off  int
}{
	{"log(7)", 0},
	{"mk := 7", 3},
	{"log(\"a\",\n 7)", 0},
	{"mk := [1,\n 2]", 3},
	{"if mk == null {\n log(1)\n}", 0},
}

var c18MarkLead = []string{"", "", " ", "\t", "  ", "/* c */ ", "/* l1\nl2 */ ", "/* é */", "/* a */ /* b\n\n */\t"}

func c18BreakGen(g *Gen, n int) {
	for i := 0; i < n; i++ {
		var sb strings.Builder
		for k, m := 0, g.R.Intn(5); k < m; k++ {
			sb.WriteString(g.R.Pick(c18Lines))
		}
		// blank lines in front of the marked statement (0 … 6)
		sb.WriteString(strings.Repeat("\n", g.R.Intn(7)))
		if g.R.Intn(4) == 0 {
			sb.WriteString("# c\n")
		}
		sb.WriteString(g.R.Pick(c18MarkLead))
		mk := c18Marks[g.R.Intn(len(c18Marks))]
		off := sb.Len() + mk.off
		sb.WriteString(mk.text)
		if m := g.R.Intn(3); m == 0 {
			sb.WriteString(g.R.Pick([]string{"", "\n", " # c", " # c\n", "\n\n"}))
		} else {
			sb.WriteString(g.R.Pick([]string{"\n", " # c\n", "\n\n"}))
			for k := 0; k < m; k++ {
				sb.WriteString(g.R.Pick(c18Lines))
			}
		}
		g.Count("break point")
		g.Emit(fmt.Sprintf("B %s %d", hx(sb.String()), off))
	}
}
