package main

// C09 — the thread pool runs every accepted task exactly once without outside help.
//
// One case = one schedule / configuration, executed on the REAL pool
// (engine/pool/threadpool.go) under the controlled scheduler of c09sched.go.
//
// payload:
//   D <name> <workers>            directed schedule (corpus, runs first)
//   R <seed> <workers> <prog>     randomised schedule (seeded delay/park decisions at hook points);
//                                 prog = ops joined by ';' executed by the case goroutine c0:
//                                 a<n> add n tasks; A<n> n goroutines add one task each (joined);
//                                 b<n> background goroutine adds n tasks; u<k>/U<k> SetWorkerCount(k,false/true);
//                                 w WaitAll; q wait for quiescence without any pool call; j JoinAll (last op)
//   S <workers> <tasks> <i> <j>   systematic: SetWorkerCount(W), add the tasks one by one; the i-th and j-th
//                                 park-point hits are held until everything else is quiet
//
// result: `<monitors> | <trace>`
//   monitors: added=<n> done=<n> q=<queue> w=<workers> i=<idle> stuck=<0|1|T> exec=<ok|bad:…> wa=<ok|bad|na>
//             ja=<ok|bad|na> rs=<ok|bad|na>     (q,w,i = ThreadPool.State() at quiescence)
//   trace: records `<thread>.<code>[.<arg>…][*<repeat>]` joined by ','; thread = w<worker id> | c<k> (caller
//   goroutines in order of appearance, c0 = the case goroutine). Codes (hook point → code):
//     worker: st hd | nk.<kill> | kx.<remaining> ke | pp.t<id>|n.<queue size> em | ir iu ex | tb.t<id>|i te.t<id>|i
//             il ip.<pending> ik.<kill> bw aw rt
//     AddTask: ap.t<id>.<queue size> au.t<id> as.t<id> ad.t<id>
//     SetWorkerCount: SC.<count>.<wait> sr.<workers>.<count> su.<len> | sd.<kill> sb sp.<workers>.<count> SR
//     WaitAll: WC ws.<workers>.<idle>.<tasks> WR   JoinAll: JC jk js.<workers>.<tasks> JR
//     bc.<s|w|j> unlocked Broadcast of a polling loop; directly after the same thread's ws/js/sp it is folded
//     into that record as suffix `.B`; identical consecutive records are run-length encoded `*k`; -1 = m1.

import (
	"fmt"
	"os"
	"sort"
	"strconv"
	"strings"
	"sync"
	"sync/atomic"
	"time"

	"github.com/krotik/ecal/engine"
	"github.com/krotik/ecal/engine/pool"
	"github.com/krotik/ecal/verifhook"
)

type c09Task struct {
	id       int
	c        *c09Case
	children int // tasks this task adds from inside Run (the engine's normal mode)
	waitFor  int // id of a task that must have STARTED before this one returns (-1: none)
}

func (t *c09Task) Run(tid uint64) error {
	atomic.AddInt32(&t.c.count[t.id], 1)
	atomic.StoreInt32(&t.c.started[t.id], 1)
	atomic.AddInt32(&t.c.nStarted, 1)
	for k := 0; k < t.children; k++ {
		t.c.add()
	}
	if t.waitFor == -2 {
		<-t.c.gate // a task that keeps its worker busy until the case opens the gate
	}
	if t.waitFor >= 0 {
		// dependent task: another worker has to start the other task while this one is running
		t0 := time.Now()
		for atomic.LoadInt32(&t.c.started[t.waitFor]) == 0 {
			if time.Since(t0) > 1500*time.Millisecond {
				atomic.StoreInt32(&t.c.depTimeout, 1)
				break
			}
			time.Sleep(50 * time.Microsecond)
		}
	}
	if t.c.spin > 0 {
		x := 0
		for k := 0; k < t.c.spin; k++ {
			x += k
		}
		_ = x
	}
	atomic.StoreInt64(&t.c.end[t.id], atomic.AddInt64(&t.c.clock, 1))
	atomic.AddInt32(&t.c.done, 1)
	return nil
}

func (t *c09Task) HandleError(e error) { panic(e) }

const c09MaxTasks = 256

type c09Case struct {
	s      *c09Sched
	tp     *pool.ThreadPool
	count  [c09MaxTasks]int32
	started [c09MaxTasks]int32
	depTimeout int32
	nStarted   int32
	gate   chan struct{}
	win    string // directed schedules: was the intended window hit (1/0), na otherwise
	rsMid  bool   // a mid-case worker count check failed
	rsAlt  []int  // concurrent resizers: acceptable final counts
	end    [c09MaxTasks]int64
	clock  int64
	done   int32
	spin   int
	mu     sync.Mutex
	next   int
	added  []int // tasks whose AddTask returned
	bg     sync.WaitGroup
	wa, ja string
	joined bool
	lastSet int
	extAdded, extDone int // processor family: task counts known from the rule firings
}

func newC09Case() *c09Case {
	c := &c09Case{s: newC09Sched(), wa: "na", ja: "na", lastSet: -1, win: "na", gate: make(chan struct{})}
	c.tp = pool.NewThreadPool()
	c.s.Adopt()
	verifhook.SetHandler(c.s.handle)
	return c
}

func (c *c09Case) newID() int {
	c.mu.Lock()
	id := c.next
	c.next++
	c.mu.Unlock()
	return id
}

func (c *c09Case) add() { c.addTask(c.newID(), 0, -1) }

func (c *c09Case) addTask(id, children, waitFor int) {
	if id >= c09MaxTasks {
		return
	}
	c.tp.AddTask(&c09Task{id, c, children, waitFor})
	c.mu.Lock()
	c.added = append(c.added, id)
	c.mu.Unlock()
}

func (c *c09Case) addedSnapshot() []int {
	c.mu.Lock()
	defer c.mu.Unlock()
	return append([]int(nil), c.added...)
}

func (c *c09Case) setWorkers(k int, wait bool) {
	w := 0
	if wait {
		w = 1
	}
	c.mu.Lock()
	c.lastSet = k
	c.joined = false
	c.mu.Unlock()
	c.s.Note(fmt.Sprintf("SC.%d.%d", k, w))
	c.tp.SetWorkerCount(k, wait)
	c.s.Note("SR")
}

func (c *c09Case) waitAll() {
	before := c.addedSnapshot()
	c.s.Note("WC")
	c.tp.WaitAll()
	stamp := atomic.LoadInt64(&c.clock)
	c.s.Note("WR")
	c.s.mu.Lock()
	ws := c.s.lastWS[c.s.labels[c09Goid()]]
	c.s.mu.Unlock()
	if c.wa == "na" {
		c.wa = "ok"
	}
	if ws[0] > 0 {
		for _, id := range before {
			e := atomic.LoadInt64(&c.end[id])
			if e == 0 || e > stamp {
				c.wa = "bad"
			}
		}
	}
}

func (c *c09Case) joinAll() {
	before := c.addedSnapshot()
	c.s.Note("JC")
	c.tp.JoinAll()
	c.s.Note("JR")
	ja := "ok"
	// the snapshot JoinAll left its loop with (tasks may be added concurrently with the return)
	c.s.mu.Lock()
	js := c.s.lastWS[c.s.labels[c09Goid()]]
	c.s.mu.Unlock()
	if js[0] != 0 || js[2] != 0 {
		ja = "bad"
	}
	for _, id := range before {
		if atomic.LoadInt64(&c.end[id]) == 0 {
			ja = "bad"
		}
	}
	// JoinAll may run in its own goroutine next to SetWorkerCount calls of the case goroutine
	c.mu.Lock()
	c.joined = true
	if c.ja != "bad" {
		c.ja = ja
	}
	c.mu.Unlock()
}

// setThread publishes the calling goroutine's thread label (read by awaitJoin under c.mu)
func (c *c09Case) setThread(p *string) {
	th := c.s.ThreadOf(c09Goid())
	c.mu.Lock()
	*p = th
	c.mu.Unlock()
}

func (c *c09Case) quiesce() bool {
	return c.s.Quiesce(time.Second)
}

// finish: quiescence, stuck detection, final observation, monitors, cleanup.
func (c *c09Case) finish() string {
	bgDone := make(chan struct{})
	go func() { c.bg.Wait(); close(bgDone) }()
	select {
	case <-bgDone:
	case <-time.After(2 * time.Second):
	}
	stuck := "0"
	var st map[string]interface{}
	q := 0
	for attempt := 0; ; attempt++ {
		if !c.s.Quiesce(time.Second) {
			stuck = "T"
		}
		n := c.s.Records()
		st = c.tp.State()
		q = st["TaskQueueSize"].(int)
		sn := c.s.snapshot()
		if stuck == "0" && q > 0 && sn.liveWorkers > 0 && sn.notWaiting == 0 && sn.inflight == 0 && sn.swcPend == 0 {
			// stuck by the hook states: every worker's last record is before-Wait, nothing is in flight, a
			// task is queued. Confirm from the goroutine stacks (independent of the machine's load): every
			// live worker is blocked in sync.Cond.Wait WITHOUT a pending notification (a notified goroutine
			// is "runnable"), twice, with no record in between — then nothing will ever wake them.
			p1, l1 := c.s.WorkersParked()
			time.Sleep(20 * time.Millisecond)
			p2, l2 := c.s.WorkersParked()
			if p1 && p2 && l1 > 0 && l1 == l2 && c.s.Records() == n {
				stuck = "1"
			}
		}
		// the observation State() and the end of the trace must belong together
		if c.s.StopIf(n) {
			break
		}
		if attempt > 200 {
			stuck = "T"
			break
		}
		stuck = "0"
	}
	w := len(st["TotalWorkerThreads"].([]uint64))
	idle := len(st["IdleWorkerThreads"].([]uint64))
	trace := c.s.Stop()
	added := c.addedSnapshot()
	var bad []string
	complete := stuck == "0" && (w > 0 || c.joined)
	sort.Ints(added)
	for _, id := range added {
		n := int(atomic.LoadInt32(&c.count[id]))
		if n > 1 || (complete && n != 1) {
			bad = append(bad, fmt.Sprintf("t%dx%d", id, n))
		}
	}
	// the other read accessors must agree with State() at quiescence
	if wc := c.tp.WorkerCount(); stuck != "T" && wc != w {
		bad = append(bad, fmt.Sprintf("WorkerCount=%d", wc))
	}
	if stt := c.tp.Status(); stuck != "T" && ((w == 0) != (stt == pool.StatusStopped)) {
		bad = append(bad, "Status="+stt)
	}
	if atomic.LoadInt32(&c.depTimeout) != 0 {
		bad = append(bad, "dep-timeout") // a queued task was not started while the task waiting for it ran
	}
	exec := "ok"
	if len(bad) > 0 {
		exec = "bad:" + strings.Join(bad, ",")
	}
	rs := "na"
	if c.lastSet >= 0 && !c.joined && stuck == "0" {
		rs = "ok"
		if w != c.lastSet {
			rs = "bad"
		}
		if len(c.rsAlt) > 0 {
			// concurrent resizers: the one deciding last wins; the model knows which (sr records)
			rs = "bad"
			for _, k := range c.rsAlt {
				if w == k {
					rs = "na"
				}
			}
		}
	}
	if c.rsMid {
		rs = "bad"
	}
	nAdded, nDone := len(added), int(atomic.LoadInt32(&c.done))
	if c.extAdded > 0 {
		nAdded, nDone = c.extAdded, c.extDone
		if stuck == "0" && nAdded != nDone {
			exec = "bad:processor-tasks"
		}
	}
	res := fmt.Sprintf("added=%d done=%d q=%d w=%d i=%d stuck=%s exec=%s wa=%s ja=%s rs=%s win=%s | %s",
		nAdded, nDone, q, w, idle, stuck, exec, c.wa, c.ja, rs, c.win, trace)
	// cleanup (not recorded)
	if stuck == "0" && w > 0 {
		d := make(chan struct{})
		go func() { c.tp.JoinAll(); close(d) }()
		select {
		case <-d:
		case <-time.After(5 * time.Second):
		}
	}
	verifhook.SetHandler(nil)
	return res
}

// ---------------------------------------------------------------- directed schedules

var c09Directed = []string{"lostwakeup-empty", "lostwakeup-locked", "lostwakeup-checked", "kill-vs-wait",
	"kill-vs-wait-empty", "resize-up-burst", "resize-down-burst", "joinall-burst", "waitall-running", "plain",
	"resize-overkill", "resize-undershoot", "resize-spin", "joinall-vs-resize", "joinall-vs-add", "zero-and-back",
	"dependent", "nested-add", "joinall-vs-setworkercount", "joinall-vs-wait", "resize-down-and-back",
	"resize-superseded"}

// cycleAndPark makes every worker go once through its loop and parks them at `point`
// (workers that reach it), returns the rule. The workers are woken by adding and
// finishing task(s).
func (c *c09Case) cycleAndPark(point string, n int) *c09Rule {
	r := c.s.AddRule("w*", point, n)
	return r
}

func c09RunDirected(name string, W int) string {
	c := newC09Case()
	s := c.s
	switch name {
	case "plain":
		c.setWorkers(W, false)
		c.add()
		c.quiesce()
		c.add()
	case "lostwakeup-empty", "lostwakeup-locked", "lostwakeup-checked":
		point := map[string]string{"lostwakeup-empty": "pool.get.empty", "lostwakeup-locked": "pool.idle.locked",
			"lostwakeup-checked": "pool.idle.beforeWait"}[name]
		c.setWorkers(W, false)
		c.quiesce()
		// all workers wait. Wake them with W tasks; each worker that comes back is parked at `point`.
		// Points inside the idle task hold the condition's lock: only one worker can sit there.
		n := W
		if point != "pool.get.empty" {
			n = 1
		}
		r := s.AddRule("w*", point, n)
		for k := 0; k < W; k++ {
			c.add()
		}
		r.WaitParked(n, 500*time.Millisecond)
		if n < W {
			// let the others settle (they block on L behind the parked worker or wait)
			time.Sleep(2 * time.Millisecond)
		}
		// the window: AddTask runs while the worker(s) sit between the empty Pop and Wait
		d := make(chan struct{})
		go func() { s.Adopt(); c.add(); close(d) }()
		select {
		case <-d: // AddTask ran to completion (no lock needed / lock free)
		case <-time.After(5 * time.Millisecond): // AddTask blocks on L held by the parked worker
		}
		// the intended window: the push of the extra task was recorded while the worker(s) sat at the point
		c.win = "0"
		if s.WaitRecord(fmt.Sprintf("ap.t%d.", W), 200*time.Millisecond) && int(atomic.LoadInt32(&r.parked)) >= n {
			c.win = "1"
		}
		s.Release(r)
		<-d
	case "kill-vs-wait", "kill-vs-wait-empty":
		point := "pool.idle.beforeWait"
		if name == "kill-vs-wait-empty" {
			point = "pool.get.empty"
		}
		c.setWorkers(W+1, false)
		c.quiesce()
		r := s.AddRule("w*", point, 1)
		c.add()
		r.WaitParked(1, 500*time.Millisecond)
		d := make(chan struct{})
		go func() { s.Adopt(); c.setWorkers(W, false); close(d) }()
		select {
		case <-d:
		case <-time.After(5 * time.Millisecond):
		}
		s.Release(r)
		<-d
	case "resize-up-burst", "resize-down-burst":
		up := name == "resize-up-burst"
		if up {
			c.setWorkers(W, false)
		} else {
			c.setWorkers(W+3, false)
		}
		c.bg.Add(1)
		go func() {
			defer c.bg.Done()
			s.Adopt()
			for k := 0; k < 20; k++ {
				c.add()
			}
		}()
		if up {
			c.setWorkers(W+3, false)
		} else {
			c.setWorkers(W, true)
		}
	case "resize-overkill":
		// the resize race (repaired by fixes/C09-resize-race.patch): a worker that took a kill request is
		// still in workerMap when the next SetWorkerCount computes workerKill
		c.setWorkers(W+2, false)
		c.quiesce()
		r := s.AddRule("w*", "pool.get.killexit", 1)
		c.setWorkers(W+1, false)
		r.WaitParked(1, 500*time.Millisecond)
		c.setWorkers(W, false)
		s.Release(r)
	case "resize-undershoot":
		// a worker that took a kill request is still in workerMap when the next SetWorkerCount grows the pool
		c.setWorkers(W+2, false)
		c.quiesce()
		r := s.AddRule("w*", "pool.get.killexit", 1)
		c.setWorkers(W+1, false)
		r.WaitParked(1, 500*time.Millisecond)
		c.setWorkers(W+3, false)
		s.Release(r)
	case "resize-spin":
		// … when the next SetWorkerCount shrinks further and waits: it must return
		c.setWorkers(W+2, false)
		c.quiesce()
		r := s.AddRule("w*", "pool.get.killexit", 1)
		c.setWorkers(W+1, false)
		r.WaitParked(1, 500*time.Millisecond)
		d := make(chan struct{})
		go func() { s.Adopt(); c.setWorkers(W, true); close(d) }()
		s.WaitRecord("sd.", 500*time.Millisecond)
		time.Sleep(time.Millisecond)
		s.Release(r)
		<-d
	case "joinall-vs-resize":
		// SetWorkerCount while a JoinAll is being carried out: the worker has found the queue empty on the
		// exit-when-drained path (held at pool.get.empty) when the pool is resized to W+1. The worker is still
		// counted on (no under-shoot at that moment); JoinAll keeps its request up, so it is decided last:
		// it returns and leaves no worker.
		c.setWorkers(W, false)
		c.quiesce()
		r := s.AddRule("w*", "pool.get.empty", W)
		jd := make(chan struct{})
		var jt string
		go func() { s.Adopt(); c.setThread(&jt); c.joinAll(); close(jd) }()
		c.win = "0"
		if r.WaitParked(W, 500*time.Millisecond) {
			c.win = "1"
		}
		c.setWorkers(W+1, false)
		s.Release(r)
		c.awaitJoin(jd, &jt)
	case "joinall-vs-setworkercount":
		// a SetWorkerCount(n>0) overwrites the request of a JoinAll that is being carried out (its workers,
		// woken by JoinAll, are held before their kill check): SOME order must win, JoinAll must return
		c.setWorkers(W, false)
		c.quiesce()
		r := s.AddRule("w*", "pool.worker.head", W)
		jd := make(chan struct{})
		var jt string
		go func() { s.Adopt(); c.setThread(&jt); c.joinAll(); close(jd) }()
		c.win = "0"
		if r.WaitParked(W, 500*time.Millisecond) {
			c.win = "1"
		}
		c.setWorkers(W+1, false)
		s.Release(r)
		c.awaitJoin(jd, &jt)
	case "joinall-vs-wait":
		// JoinAll's first Broadcast is not under L: a worker between its predicate check and Wait misses it and
		// sleeps with workerKill = -1; JoinAll's loop has to broadcast again
		c.setWorkers(W, false)
		c.quiesce()
		r := s.AddRule("w*", "pool.idle.beforeWait", 1)
		c.add()
		c.win = "0"
		if r.WaitParked(1, 500*time.Millisecond) {
			c.win = "1"
		}
		jd := make(chan struct{})
		var jt string
		go func() { s.Adopt(); c.setThread(&jt); c.joinAll(); close(jd) }()
		s.WaitRecord("bc.j", 500*time.Millisecond)
		s.Release(r)
		c.awaitJoin(jd, &jt)
	case "resize-down-and-back":
		// shrink, then resize back to the old count while the kill requests are still pending (the woken
		// workers are held before their kill check): the old count must result
		c.setWorkers(W+2, false)
		c.quiesce()
		r := s.AddRule("w*", "pool.worker.head", W+2)
		c.setWorkers(W, false)
		c.win = "0"
		if r.WaitParked(W+2, 500*time.Millisecond) {
			c.win = "1"
		}
		c.setWorkers(W+2, false)
		s.Release(r)
	case "resize-superseded":
		// a waiting resize that is superseded by a later one must return: W+2 busy workers,
		// SetWorkerCount(W,true), then SetWorkerCount(W+1,true), the tasks finish
		c.setWorkers(W+2, false)
		for k := 0; k < W+2; k++ {
			c.addTask(c.newID(), 0, -2)
		}
		for k := 0; k < 2000 && int(atomic.LoadInt32(&c.nStarted)) < W+2; k++ {
			time.Sleep(100 * time.Microsecond)
		}
		ad, bd := make(chan struct{}), make(chan struct{})
		var at, bt string
		go func() { s.Adopt(); c.setThread(&at); c.setWorkers(W, true); close(ad) }()
		s.WaitRecord("sd.2", 500*time.Millisecond)
		go func() { s.Adopt(); c.setThread(&bt); c.setWorkers(W+1, true); close(bd) }()
		s.WaitRecord("sd.1", 500*time.Millisecond)
		close(c.gate)
		c.awaitResize(bd, &bt, W+1)
		c.awaitResize(ad, &at, W)
	case "joinall-vs-add":
		// tasks arrive while JoinAll is being carried out
		c.setWorkers(W, false)
		c.quiesce()
		c.joinWithAdds(6)
	case "zero-and-back":
		// SetWorkerCount(0) with a backlog and back
		c.setWorkers(W, false)
		for k := 0; k < 3; k++ {
			c.add()
		}
		c.setWorkers(0, true)
		for k := 0; k < 4; k++ {
			c.add()
		}
		c.quiesce()
		c.setWorkers(W, false)
	case "dependent":
		// a running task waits for the start of a task queued behind it: another worker has to be woken
		c.setWorkers(W+1, false)
		c.quiesce()
		c.addDependent(2)
	case "nested-add":
		c.setWorkers(W, false)
		c.addTask(c.newID(), 4, -1)
	case "joinall-burst":
		c.setWorkers(W, false)
		for k := 0; k < 10; k++ {
			c.add()
		}
		c.joinAll()
	case "waitall-running":
		c.setWorkers(W, false)
		c.quiesce()
		r := s.AddRule("w*", "pool.worker.task.begin", 1)
		// the rule must only catch a real task: the idle task also passes task.begin, so add first
		c.add()
		// a worker parks either with the real task or with its idle task; either way WaitAll must wait
		r.WaitParked(1, 500*time.Millisecond)
		d := make(chan struct{})
		go func() { s.Adopt(); c.waitAll(); close(d) }()
		time.Sleep(3 * time.Millisecond)
		s.Release(r)
		<-d
	default:
		return "unknown-directed-schedule"
	}
	return c.finish()
}

// ---------------------------------------------------------------- programs (random / systematic)

// addDependent adds `extra` ordinary tasks, then a task that waits for the START of the task added
// right after it.
func (c *c09Case) addDependent(extra int) {
	for k := 0; k < extra; k++ {
		c.add()
	}
	a, b := c.newID(), c.newID()
	c.addTask(a, 0, b)
	c.addTask(b, 0, -1)
}

// joinWithAdds calls JoinAll while a background goroutine adds n tasks. Tasks that arrive after the
// last worker left stay queued (a pool without workers: outside the property); the pool is then
// restarted with one worker and emptied so that JoinAll can return.
func (c *c09Case) joinWithAdds(n int) {
	jd := make(chan struct{})
	ad := make(chan struct{})
	go func() {
		c.s.Adopt()
		for k := 0; k < n; k++ {
			c.add()
		}
		close(ad)
	}()
	go func() { c.s.Adopt(); c.joinAll(); close(jd) }()
	<-ad
	select {
	case <-jd:
	case <-time.After(30 * time.Millisecond):
		c.quiesce()
		select {
		case <-jd:
		default:
			c.setWorkers(1, false)
			c.quiesce()
			c.setWorkers(0, true)
			<-jd
		}
	}
	if c.tp.State()["TaskQueueSize"].(int) > 0 {
		// tasks that arrived after the last worker had left: restart the pool to run them
		c.setWorkers(1, false)
		c.quiesce()
		c.setWorkers(0, true)
	}
	c.mu.Lock()
	c.lastSet = -1
	c.joined = true
	c.mu.Unlock()
}

// awaitJoin waits for a JoinAll running in another goroutine (thread label jt). "JoinAll does not
// return" is never judged by wall-clock time alone:
//   (1) JoinAll made >= 50 iterations of its OWN loop after a SetWorkerCount of another thread decided,
//       without re-asserting its request and with workers left (its loop keeps the request up), or
//   (2) the goroutine stacks show every live worker blocked in sync.Cond.Wait without a pending
//       notification at two samples between which JoinAll made >= 50 iterations (its loop broadcasts).
// A JoinAll that spins is reported (ja=bad) and then freed by emptying the pool. If neither holds
// within 8 s the case is not judged (ja=ud, counted) and JoinAll is freed the same way.
func (c *c09Case) awaitJoin(jd chan struct{}, jt *string) {
	t0 := time.Now()
	verdict := ""
	var parkedAt = -1
	for verdict == "" && time.Since(t0) < 8*time.Second {
		select {
		case <-jd:
			return
		case <-time.After(5 * time.Millisecond):
		}
		c.mu.Lock()
		th := *jt
		c.mu.Unlock()
		if th == "" {
			continue
		}
		if c.s.PollsSinceOverruled(th) >= 50 && c.s.snapshot().liveWorkers > 0 {
			c.s.mu.Lock()
			ws := c.s.lastWS[th]
			c.s.mu.Unlock()
			if ws[0] > 0 {
				verdict = "bad"
			}
		}
		if all, live := c.s.WorkersParked(); all && live > 0 {
			if parkedAt < 0 {
				parkedAt = c.s.Polls(th)
			} else if c.s.Polls(th)-parkedAt >= 50 {
				verdict = "bad"
			}
		} else {
			parkedAt = -1
		}
	}
	select {
	case <-jd:
		return
	default:
	}
	if verdict == "" {
		verdict = "ud"
		CountRun("undetermined.joinall")
	}
	c.setWorkers(0, true)
	<-jd
	c.mu.Lock()
	c.ja = verdict // "bad": JoinAll did not return although its own loop kept running
	c.lastSet = -1
	c.mu.Unlock()
}

// awaitResize waits for a SetWorkerCount(count, true) running in another goroutine (thread label t).
// It is judged to spin when it made >= 50 iterations of its OWN polling loop after a later
// SetWorkerCount of another thread decided (load independent); it is then freed by requesting its count
// again. Not decided within 8 s: not judged.
func (c *c09Case) awaitResize(done chan struct{}, t *string, count int) {
	t0 := time.Now()
	for time.Since(t0) < 8*time.Second {
		select {
		case <-done:
			return
		case <-time.After(2 * time.Millisecond):
		}
		c.mu.Lock()
		th := *t
		c.mu.Unlock()
		if th != "" && c.s.PollsSinceOverruled(th) >= 50 {
			c.mu.Lock()
			c.rsMid = true // a superseded waiting resize does not return
			c.mu.Unlock()
			break
		}
	}
	select {
	case <-done:
		return
	default:
	}
	CountRun("freed.superseded-resize")
	c.setWorkers(count, false)
	<-done
}

func (c *c09Case) runProg(prog string) {
	for _, op := range strings.Split(prog, ";") {
		if op == "" {
			continue
		}
		n := 0
		if len(op) > 1 {
			n, _ = strconv.Atoi(op[1:])
		}
		switch op[0] {
		case 'a':
			for k := 0; k < n; k++ {
				c.add()
			}
		case 'A':
			var wg sync.WaitGroup
			for k := 0; k < n; k++ {
				wg.Add(1)
				go func() { defer wg.Done(); c.s.Adopt(); c.add() }()
			}
			wg.Wait()
		case 'b':
			c.bg.Add(1)
			go func() {
				defer c.bg.Done()
				c.s.Adopt()
				for k := 0; k < n; k++ {
					c.add()
				}
			}()
		case 'u':
			c.setWorkers(n, false)
		case 'U':
			c.setWorkers(n, true)
		case 'w':
			c.waitAll()
		case 'q':
			c.quiesce()
		case 'j':
			c.bg.Wait()
			c.joinAll()
		case 'J':
			c.bg.Wait()
			c.joinWithAdds(n)
		case 'Z':
			// JoinAll overlapping a SetWorkerCount(n): whichever is decided last wins, both return
			c.bg.Wait()
			jd := make(chan struct{})
			var jt string
			go func() { c.s.Adopt(); c.setThread(&jt); c.joinAll(); close(jd) }()
			c.setWorkers(n, false)
			c.awaitJoin(jd, &jt)
			c.rsAlt = []int{0, n}
		case 'n':
			c.addTask(c.newID(), n, -1)
		case 'd':
			c.addDependent(n)
		case 'X', 'Y':
			// two concurrent resizers (Y: both wait for their count; the superseded one must return too)
			var a, b int
			fmt.Sscanf(op[1:], "%d.%d", &a, &b)
			wait := op[0] == 'Y'
			dn := []chan struct{}{make(chan struct{}), make(chan struct{})}
			ths := make([]string, 2)
			for x, k := range []int{a, b} {
				x, k := x, k
				go func() { c.s.Adopt(); c.setThread(&ths[x]); c.setWorkers(k, wait); close(dn[x]) }()
			}
			c.awaitResize(dn[0], &ths[0], a)
			c.awaitResize(dn[1], &ths[1], b)
			c.rsAlt = []int{a, b}
		}
		if op[0] == 'u' || op[0] == 'U' {
			c.rsAlt = nil
		}
	}
}

func c09RunRandom(seed uint64, W int, prog string) string {
	c := newC09Case()
	c.s.random = true
	c.s.rnd = NewRand(seed)
	c.spin = int(seed % 3 * 200)
	c.setWorkers(W, false)
	c.runProg(prog)
	return c.finish()
}

// c09RunProcessor: the pool inside a real engine.Processor (engine.TaskQueue: priority / random
// pick instead of FIFO; tasks add tasks from inside Run through rule actions that inject child events;
// AddEventAndWait has no polling loop that would repair a lost wake-up).
func c09RunProcessor(seed uint64, W, n int) string {
	c := newC09Case()
	c.s.random = true
	c.s.rnd = NewRand(seed)
	proc := engine.NewProcessor(W)
	proc.ThreadPool().TooManyCallback = func() {}
	c.tp = proc.ThreadPool()
	var fired int64
	check(proc.AddRule(&engine.Rule{Name: "parent", KindMatch: []string{"a"}, ScopeMatch: []string{},
		Action: func(p engine.Processor, m engine.Monitor, e *engine.Event, tid uint64) error {
			atomic.AddInt64(&fired, 1)
			_, err := p.AddEvent(engine.NewEvent("child", []string{"b"}, nil), m.NewChildMonitor(int(seed%3)))
			return err
		}}))
	check(proc.AddRule(&engine.Rule{Name: "child", KindMatch: []string{"b"}, ScopeMatch: []string{},
		Action: func(p engine.Processor, m engine.Monitor, e *engine.Event, tid uint64) error {
			atomic.AddInt64(&fired, 1)
			return nil
		}}))
	c.s.Note(fmt.Sprintf("SC.%d.0", W))
	proc.Start()
	c.s.Note("SR")
	c.lastSet = W
	r := NewRand(seed + 1)
	for k := 0; k < n; k++ {
		ev := engine.NewEvent("parent", []string{"a"}, nil)
		if r.Intn(2) == 0 {
			if _, err := proc.AddEventAndWait(ev, nil); err != nil {
				return "processor-error " + oneLine(err.Error())
			}
		} else if _, err := proc.AddEvent(ev, nil); err != nil {
			return "processor-error " + oneLine(err.Error())
		}
		if r.Intn(3) == 0 {
			c.quiesce()
		}
	}
	c.quiesce()
	c.extAdded, c.extDone = 2*n, int(atomic.LoadInt64(&fired))
	return c.finish()
}

func c09RunSystematic(W, T, i, j int) string {
	c := newC09Case()
	c.s.holdAt[i] = true
	if j > 0 {
		c.s.holdAt[j] = true
	}
	c.setWorkers(W, false)
	for k := 0; k < T; k++ {
		c.add()
	}
	return c.finish()
}

func c09Run(payload string) string {
	f := strings.Fields(payload)
	if len(f) < 3 {
		return "bad-payload"
	}
	switch f[0] {
	case "D":
		w, _ := strconv.Atoi(f[2])
		return c09RunDirected(f[1], w)
	case "R":
		if len(f) < 4 {
			return "bad-payload"
		}
		seed, _ := strconv.ParseUint(f[1], 10, 64)
		w, _ := strconv.Atoi(f[2])
		return c09RunRandom(seed, w, f[3])
	case "P":
		if len(f) < 4 {
			return "bad-payload"
		}
		seed, _ := strconv.ParseUint(f[1], 10, 64)
		w, _ := strconv.Atoi(f[2])
		n, _ := strconv.Atoi(f[3])
		return c09RunProcessor(seed, w, n)
	case "S":
		if len(f) < 5 {
			return "bad-payload"
		}
		w, _ := strconv.Atoi(f[1])
		t, _ := strconv.Atoi(f[2])
		i, _ := strconv.Atoi(f[3])
		j, _ := strconv.Atoi(f[4])
		return c09RunSystematic(w, t, i, j)
	}
	return "bad-payload"
}

func c09GenProg(r *Rand, W int, g *Gen) string {
	var ops []string
	n := 1 + r.Intn(6)
	cur := W
	for k := 0; k < n; k++ {
		switch x := r.Intn(13); {
		case x == 10:
			ops = append(ops, "n"+strconv.Itoa(1+r.Intn(4)))
			g.Count("op.nested-add")
		case x == 11:
			if cur >= 2 {
				// a dependent pair needs a second worker for as long as it runs: settle before and after
				ops = append(ops, "q", "d"+strconv.Itoa(r.Intn(4)), "q")
				g.Count("op.dependent")
			} else {
				ops = append(ops, "a1")
			}
		case x == 12:
			a, b := 1+r.Intn(6), 1+r.Intn(6)
			if r.Intn(2) == 0 {
				ops = append(ops, fmt.Sprintf("X%d.%d", a, b))
			} else {
				ops = append(ops, fmt.Sprintf("Y%d.%d", a, b))
			}
			cur = a
			if b < a {
				cur = b
			}
			g.Count("op.concurrent-resize")
		case x < 3:
			ops = append(ops, "a"+strconv.Itoa(1+r.Intn(3)))
			g.Count("op.add")
		case x < 4:
			ops = append(ops, "a"+strconv.Itoa(5+r.Intn(20)))
			g.Count("op.burst")
		case x < 5:
			ops = append(ops, "A"+strconv.Itoa(2+r.Intn(4)))
			g.Count("op.concurrent-add")
		case x < 6:
			ops = append(ops, "b"+strconv.Itoa(1+r.Intn(15)))
			g.Count("op.background-add")
		case x < 8:
			k := 1 + r.Intn(16)
			if r.Intn(3) == 0 {
				k = 1 + r.Intn(3)
			}
			if r.Intn(8) == 0 {
				k = 0 // no workers: tasks stay queued until the pool is resized again
				g.Count("op.resize-zero")
			}
			wait := r.Intn(3) == 0
			if wait {
				ops = append(ops, "U"+strconv.Itoa(k))
			} else {
				ops = append(ops, "u"+strconv.Itoa(k))
			}
			if k < cur {
				g.Count("op.resize-down")
			} else {
				g.Count("op.resize-up")
			}
			cur = k
		case x < 9:
			ops = append(ops, "w")
			g.Count("op.waitall")
		default:
			ops = append(ops, "q")
			g.Count("op.quiesce")
		}
	}
	if x := r.Intn(8); x < 3 {
		if cur == 0 {
			ops = append(ops, "u"+strconv.Itoa(1+r.Intn(3))) // JoinAll on a pool without workers never returns
		}
		if x == 0 {
			ops = append(ops, "J"+strconv.Itoa(1+r.Intn(8)))
			g.Count("op.joinall-with-adds")
		} else if x == 1 {
			ops = append(ops, "Z"+strconv.Itoa(1+r.Intn(5)))
			g.Count("op.joinall-with-resize")
		} else {
			ops = append(ops, "j")
			g.Count("op.joinall")
		}
	}
	return strings.Join(ops, ";")
}

func c09Gen(g *Gen) {
	for _, name := range c09Directed {
		for _, w := range []int{1, 2, 4} {
			g.Emit(fmt.Sprintf("D %s %d", name, w))
			g.Count("kind.directed")
		}
	}
	nr := 360
	if g.Thorough() {
		nr = 6000
	}
	if a, _ := strconv.Atoi(os.Getenv("C09_AMPLIFY")); a > 1 {
		nr *= a // a skeleton fact could not be established from the source: search more
	}
	for k := 0; k < nr; k++ {
		W := 1 + g.R.Intn(3)
		if g.R.Intn(3) == 0 {
			W = 1 + g.R.Intn(16)
		}
		seed := g.R.U64() % 1000000007
		g.Emit(fmt.Sprintf("R %d %d %s", seed, W, c09GenProg(g.R, W, g)))
		g.Count("kind.random")
		switch {
		case W == 1:
			g.Count("workers.1")
		case W <= 4:
			g.Count("workers.2-4")
		default:
			g.Count("workers.5-16")
		}
	}
	np := 24
	if g.Thorough() {
		np = 400
	}
	for k := 0; k < np; k++ {
		g.Emit(fmt.Sprintf("P %d %d %d", g.R.U64()%1000000007, 1+g.R.Intn(4), 1+g.R.Intn(6)))
		g.Count("kind.processor")
	}
	if g.Thorough() {
		// delay-bounded systematic exploration of tiny configurations
		for W := 1; W <= 2; W++ {
			for T := 1; T <= 3; T++ {
				hits := 14*W + 12*T // upper estimate of the park-point hits of an undisturbed run
				for i := 1; i <= hits; i++ {
					g.Emit(fmt.Sprintf("S %d %d %d 0", W, T, i))
					g.Count("kind.systematic")
				}
				for i := 1; i <= hits; i += 2 {
					for j := i + 1; j <= hits; j += 3 {
						g.Emit(fmt.Sprintf("S %d %d %d %d", W, T, i, j))
						g.Count("kind.systematic")
					}
				}
			}
		}
	}
}

func init() {
	register("C09", &Prop{Gen: c09Gen, Run: c09Run, Timeout: 12 * time.Second, Tool: c09Tool})
}
