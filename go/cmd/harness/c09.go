package main

// C09 — the thread pool runs every accepted task exactly once without outside help.
//
// One case = one schedule / configuration, executed on the REAL pool
// (engine/pool/threadpool.go) under the controlled scheduler of c09sched.go.
//
// payload:
//   D <name> <workers>            directed schedule (corpus, runs first)
//   R <seed> <workers> <prog>     randomised schedule (seeded delay/park decisions at hook points);
//                                 prog = ops joined by ';' executed by the case goroutine c0:
//                                 a<n> add n tasks; A<n> n goroutines add one task each (joined);
//                                 b<n> background goroutine adds n tasks; u<k>/U<k> SetWorkerCount(k,false/true);
//                                 w WaitAll; q wait for quiescence without any pool call; j JoinAll (last op)
//   S <workers> <tasks> <i> <j>   systematic: SetWorkerCount(W), add the tasks one by one; the i-th and j-th
//                                 park-point hits are held until everything else is quiet
//
// result: `<monitors> | <trace>`
//   monitors: added=<n> done=<n> q=<queue> w=<workers> i=<idle> stuck=<0|1|T> exec=<ok|bad:…> wa=<ok|bad|na>
//             ja=<ok|bad|na> rs=<ok|bad|na>     (q,w,i = ThreadPool.State() at quiescence)
//   trace: records `<thread>.<code>[.<arg>…][*<repeat>]` joined by ','; thread = w<worker id> | c<k> (caller
//   goroutines in order of appearance, c0 = the case goroutine). Codes (hook point → code):
//     worker: st hd | nk.<kill> | kx.<remaining> ke | pp.t<id>|n.<queue size> em | ir iu ex | tb.t<id>|i te.t<id>|i
//             il ip.<pending> ik.<kill> bw aw rt
//     AddTask: ap.t<id>.<queue size> au.t<id> as.t<id> ad.t<id>
//     SetWorkerCount: SC.<count>.<wait> sr.<workers>.<count> su.<len> | sd.<kill> sb sp.<workers>.<count> SR
//     WaitAll: WC ws.<workers>.<idle>.<tasks> WR   JoinAll: JC jk js.<workers>.<tasks> JR
//     bc.<s|w|j> unlocked Broadcast of a polling loop; directly after the same thread's ws/js/sp it is folded
//     into that record as suffix `.B`; identical consecutive records are run-length encoded `*k`; -1 = m1.

import (
	"fmt"
	"sort"
	"strconv"
	"strings"
	"sync"
	"sync/atomic"
	"time"

	"github.com/krotik/ecal/engine/pool"
	"github.com/krotik/ecal/verifhook"
)

type c09Task struct {
	id int
	c  *c09Case
}

func (t *c09Task) Run(tid uint64) error {
	atomic.AddInt32(&t.c.count[t.id], 1)
	if t.c.spin > 0 {
		x := 0
		for k := 0; k < t.c.spin; k++ {
			x += k
		}
		_ = x
	}
	atomic.StoreInt64(&t.c.end[t.id], atomic.AddInt64(&t.c.clock, 1))
	atomic.AddInt32(&t.c.done, 1)
	return nil
}

func (t *c09Task) HandleError(e error) { panic(e) }

const c09MaxTasks = 256

type c09Case struct {
	s      *c09Sched
	tp     *pool.ThreadPool
	count  [c09MaxTasks]int32
	end    [c09MaxTasks]int64
	clock  int64
	done   int32
	spin   int
	mu     sync.Mutex
	next   int
	added  []int // tasks whose AddTask returned
	bg     sync.WaitGroup
	wa, ja string
	joined bool
	lastSet int
}

func newC09Case() *c09Case {
	c := &c09Case{s: newC09Sched(), wa: "na", ja: "na", lastSet: -1}
	c.tp = pool.NewThreadPool()
	c.s.Adopt()
	verifhook.SetHandler(c.s.handle)
	return c
}

func (c *c09Case) add() {
	c.mu.Lock()
	id := c.next
	c.next++
	c.mu.Unlock()
	if id >= c09MaxTasks {
		return
	}
	c.tp.AddTask(&c09Task{id, c})
	c.mu.Lock()
	c.added = append(c.added, id)
	c.mu.Unlock()
}

func (c *c09Case) addedSnapshot() []int {
	c.mu.Lock()
	defer c.mu.Unlock()
	return append([]int(nil), c.added...)
}

func (c *c09Case) setWorkers(k int, wait bool) {
	w := 0
	if wait {
		w = 1
	}
	c.lastSet = k
	c.s.Note(fmt.Sprintf("SC.%d.%d", k, w))
	c.tp.SetWorkerCount(k, wait)
	c.s.Note("SR")
}

func (c *c09Case) waitAll() {
	before := c.addedSnapshot()
	c.s.Note("WC")
	c.tp.WaitAll()
	stamp := atomic.LoadInt64(&c.clock)
	c.s.Note("WR")
	c.s.mu.Lock()
	ws := c.s.lastWS[c.s.labels[c09Goid()]]
	c.s.mu.Unlock()
	if c.wa == "na" {
		c.wa = "ok"
	}
	if ws[0] > 0 {
		for _, id := range before {
			e := atomic.LoadInt64(&c.end[id])
			if e == 0 || e > stamp {
				c.wa = "bad"
			}
		}
	}
}

func (c *c09Case) joinAll() {
	before := c.addedSnapshot()
	c.s.Note("JC")
	c.tp.JoinAll()
	c.s.Note("JR")
	c.joined = true
	c.ja = "ok"
	st := c.tp.State()
	if st["TaskQueueSize"].(int) != 0 || len(st["TotalWorkerThreads"].([]uint64)) != 0 {
		c.ja = "bad"
	}
	for _, id := range before {
		if atomic.LoadInt64(&c.end[id]) == 0 {
			c.ja = "bad"
		}
	}
}

func (c *c09Case) quiesce() bool {
	return c.s.Quiesce(time.Second)
}

// finish: quiescence, stuck detection, final observation, monitors, cleanup.
func (c *c09Case) finish() string {
	bgDone := make(chan struct{})
	go func() { c.bg.Wait(); close(bgDone) }()
	select {
	case <-bgDone:
	case <-time.After(2 * time.Second):
	}
	stuck := "0"
	var st map[string]interface{}
	q := 0
	for attempt := 0; ; attempt++ {
		if !c.s.Quiesce(time.Second) {
			stuck = "T"
		}
		n := c.s.Records()
		st = c.tp.State()
		q = st["TaskQueueSize"].(int)
		sn := c.s.snapshot()
		if stuck == "0" && q > 0 && sn.liveWorkers > 0 && sn.notWaiting == 0 && sn.inflight == 0 && sn.swcPend == 0 {
			// stuck by the hook states: every worker is parked in Wait, nothing is in flight, a task is
			// queued. Confirm: nothing moves during a grace period in which the Go scheduler provably ran
			// freshly started goroutines (3 rounds of 50 ms).
			rounds := 0
			for k := 0; k < 40 && rounds < 3; k++ {
				time.Sleep(50 * time.Millisecond)
				if c.s.Records() != n {
					break
				}
				if c09Heartbeat(50 * time.Millisecond) {
					rounds++
				}
			}
			if rounds == 3 && c.s.Records() == n {
				stuck = "1"
			}
		}
		// the observation State() and the end of the trace must belong together
		if c.s.StopIf(n) {
			break
		}
		if attempt > 200 {
			stuck = "T"
			break
		}
		stuck = "0"
	}
	w := len(st["TotalWorkerThreads"].([]uint64))
	idle := len(st["IdleWorkerThreads"].([]uint64))
	trace := c.s.Stop()
	added := c.addedSnapshot()
	var bad []string
	complete := stuck == "0" && (w > 0 || c.joined)
	sort.Ints(added)
	for _, id := range added {
		n := int(atomic.LoadInt32(&c.count[id]))
		if n > 1 || (complete && n != 1) {
			bad = append(bad, fmt.Sprintf("t%dx%d", id, n))
		}
	}
	exec := "ok"
	if len(bad) > 0 {
		exec = "bad:" + strings.Join(bad, ",")
	}
	rs := "na"
	if c.lastSet >= 0 && !c.joined && stuck == "0" {
		rs = "ok"
		if w != c.lastSet {
			rs = "bad"
		}
	}
	res := fmt.Sprintf("added=%d done=%d q=%d w=%d i=%d stuck=%s exec=%s wa=%s ja=%s rs=%s | %s",
		len(added), atomic.LoadInt32(&c.done), q, w, idle, stuck, exec, c.wa, c.ja, rs, trace)
	// cleanup (not recorded)
	if stuck == "0" && w > 0 {
		d := make(chan struct{})
		go func() { c.tp.JoinAll(); close(d) }()
		select {
		case <-d:
		case <-time.After(5 * time.Second):
		}
	}
	verifhook.SetHandler(nil)
	return res
}

// ---------------------------------------------------------------- directed schedules

var c09Directed = []string{"lostwakeup-empty", "lostwakeup-locked", "lostwakeup-checked", "kill-vs-wait",
	"kill-vs-wait-empty", "resize-up-burst", "resize-down-burst", "joinall-burst", "waitall-running", "plain",
	"resize-overkill", "resize-undershoot", "resize-spin"}

// cycleAndPark makes every worker go once through its loop and parks them at `point`
// (workers that reach it), returns the rule. The workers are woken by adding and
// finishing task(s).
func (c *c09Case) cycleAndPark(point string, n int) *c09Rule {
	r := c.s.AddRule("w*", point, n)
	return r
}

func c09RunDirected(name string, W int) string {
	c := newC09Case()
	s := c.s
	switch name {
	case "plain":
		c.setWorkers(W, false)
		c.add()
		c.quiesce()
		c.add()
	case "lostwakeup-empty", "lostwakeup-locked", "lostwakeup-checked":
		point := map[string]string{"lostwakeup-empty": "pool.get.empty", "lostwakeup-locked": "pool.idle.locked",
			"lostwakeup-checked": "pool.idle.beforeWait"}[name]
		c.setWorkers(W, false)
		c.quiesce()
		// all workers wait. Wake them with W tasks; each worker that comes back is parked at `point`.
		// Points inside the idle task hold the condition's lock: only one worker can sit there.
		n := W
		if point != "pool.get.empty" {
			n = 1
		}
		r := s.AddRule("w*", point, n)
		for k := 0; k < W; k++ {
			c.add()
		}
		r.WaitParked(n, 500*time.Millisecond)
		if n < W {
			// let the others settle (they block on L behind the parked worker or wait)
			time.Sleep(2 * time.Millisecond)
		}
		// the window: AddTask runs while the worker(s) sit between the empty Pop and Wait
		d := make(chan struct{})
		go func() { s.Adopt(); c.add(); close(d) }()
		select {
		case <-d: // AddTask ran to completion (no lock needed / lock free)
		case <-time.After(5 * time.Millisecond): // AddTask blocks on L held by the parked worker
		}
		s.Release(r)
		<-d
	case "kill-vs-wait", "kill-vs-wait-empty":
		point := "pool.idle.beforeWait"
		if name == "kill-vs-wait-empty" {
			point = "pool.get.empty"
		}
		c.setWorkers(W+1, false)
		c.quiesce()
		r := s.AddRule("w*", point, 1)
		c.add()
		r.WaitParked(1, 500*time.Millisecond)
		d := make(chan struct{})
		go func() { s.Adopt(); c.setWorkers(W, false); close(d) }()
		select {
		case <-d:
		case <-time.After(5 * time.Millisecond):
		}
		s.Release(r)
		<-d
	case "resize-up-burst", "resize-down-burst":
		up := name == "resize-up-burst"
		if up {
			c.setWorkers(W, false)
		} else {
			c.setWorkers(W+3, false)
		}
		c.bg.Add(1)
		go func() {
			defer c.bg.Done()
			s.Adopt()
			for k := 0; k < 20; k++ {
				c.add()
			}
		}()
		if up {
			c.setWorkers(W+3, false)
		} else {
			c.setWorkers(W, true)
		}
	case "resize-overkill":
		// the resize race (repaired by fixes/C09-resize-race.patch): a worker that took a kill request is
		// still in workerMap when the next SetWorkerCount computes workerKill
		c.setWorkers(W+2, false)
		c.quiesce()
		r := s.AddRule("w*", "pool.get.killexit", 1)
		c.setWorkers(W+1, false)
		r.WaitParked(1, 500*time.Millisecond)
		c.setWorkers(W, false)
		s.Release(r)
	case "resize-undershoot":
		// a worker that took a kill request is still in workerMap when the next SetWorkerCount grows the pool
		c.setWorkers(W+2, false)
		c.quiesce()
		r := s.AddRule("w*", "pool.get.killexit", 1)
		c.setWorkers(W+1, false)
		r.WaitParked(1, 500*time.Millisecond)
		c.setWorkers(W+3, false)
		s.Release(r)
	case "resize-spin":
		// … when the next SetWorkerCount shrinks further and waits: it must return
		c.setWorkers(W+2, false)
		c.quiesce()
		r := s.AddRule("w*", "pool.get.killexit", 1)
		c.setWorkers(W+1, false)
		r.WaitParked(1, 500*time.Millisecond)
		d := make(chan struct{})
		go func() { s.Adopt(); c.setWorkers(W, true); close(d) }()
		s.WaitRecord("sd.", 500*time.Millisecond)
		time.Sleep(time.Millisecond)
		s.Release(r)
		<-d
	case "joinall-burst":
		c.setWorkers(W, false)
		for k := 0; k < 10; k++ {
			c.add()
		}
		c.joinAll()
	case "waitall-running":
		c.setWorkers(W, false)
		c.quiesce()
		r := s.AddRule("w*", "pool.worker.task.begin", 1)
		// the rule must only catch a real task: the idle task also passes task.begin, so add first
		c.add()
		// a worker parks either with the real task or with its idle task; either way WaitAll must wait
		r.WaitParked(1, 500*time.Millisecond)
		d := make(chan struct{})
		go func() { s.Adopt(); c.waitAll(); close(d) }()
		time.Sleep(3 * time.Millisecond)
		s.Release(r)
		<-d
	default:
		return "unknown-directed-schedule"
	}
	return c.finish()
}

// ---------------------------------------------------------------- programs (random / systematic)

func (c *c09Case) runProg(prog string) {
	for _, op := range strings.Split(prog, ";") {
		if op == "" {
			continue
		}
		n := 0
		if len(op) > 1 {
			n, _ = strconv.Atoi(op[1:])
		}
		switch op[0] {
		case 'a':
			for k := 0; k < n; k++ {
				c.add()
			}
		case 'A':
			var wg sync.WaitGroup
			for k := 0; k < n; k++ {
				wg.Add(1)
				go func() { defer wg.Done(); c.s.Adopt(); c.add() }()
			}
			wg.Wait()
		case 'b':
			c.bg.Add(1)
			go func() {
				defer c.bg.Done()
				c.s.Adopt()
				for k := 0; k < n; k++ {
					c.add()
				}
			}()
		case 'u':
			c.setWorkers(n, false)
		case 'U':
			c.setWorkers(n, true)
		case 'w':
			c.waitAll()
		case 'q':
			c.quiesce()
		case 'j':
			c.bg.Wait()
			c.joinAll()
		}
	}
}

func c09RunRandom(seed uint64, W int, prog string) string {
	c := newC09Case()
	c.s.random = true
	c.s.rnd = NewRand(seed)
	c.spin = int(seed % 3 * 200)
	c.setWorkers(W, false)
	c.runProg(prog)
	return c.finish()
}

func c09RunSystematic(W, T, i, j int) string {
	c := newC09Case()
	c.s.holdAt[i] = true
	if j > 0 {
		c.s.holdAt[j] = true
	}
	c.setWorkers(W, false)
	for k := 0; k < T; k++ {
		c.add()
	}
	return c.finish()
}

func c09Run(payload string) string {
	f := strings.Fields(payload)
	if len(f) < 3 {
		return "bad-payload"
	}
	switch f[0] {
	case "D":
		w, _ := strconv.Atoi(f[2])
		return c09RunDirected(f[1], w)
	case "R":
		if len(f) < 4 {
			return "bad-payload"
		}
		seed, _ := strconv.ParseUint(f[1], 10, 64)
		w, _ := strconv.Atoi(f[2])
		return c09RunRandom(seed, w, f[3])
	case "S":
		if len(f) < 5 {
			return "bad-payload"
		}
		w, _ := strconv.Atoi(f[1])
		t, _ := strconv.Atoi(f[2])
		i, _ := strconv.Atoi(f[3])
		j, _ := strconv.Atoi(f[4])
		return c09RunSystematic(w, t, i, j)
	}
	return "bad-payload"
}

func c09GenProg(r *Rand, W int, g *Gen) string {
	var ops []string
	n := 1 + r.Intn(6)
	cur := W
	for k := 0; k < n; k++ {
		switch x := r.Intn(10); {
		case x < 3:
			ops = append(ops, "a"+strconv.Itoa(1+r.Intn(3)))
			g.Count("op.add")
		case x < 4:
			ops = append(ops, "a"+strconv.Itoa(5+r.Intn(20)))
			g.Count("op.burst")
		case x < 5:
			ops = append(ops, "A"+strconv.Itoa(2+r.Intn(4)))
			g.Count("op.concurrent-add")
		case x < 6:
			ops = append(ops, "b"+strconv.Itoa(1+r.Intn(15)))
			g.Count("op.background-add")
		case x < 8:
			k := 1 + r.Intn(16)
			if r.Intn(3) == 0 {
				k = 1 + r.Intn(3)
			}
			wait := r.Intn(3) == 0
			if wait {
				ops = append(ops, "U"+strconv.Itoa(k))
			} else {
				ops = append(ops, "u"+strconv.Itoa(k))
			}
			if k < cur {
				g.Count("op.resize-down")
			} else {
				g.Count("op.resize-up")
			}
			cur = k
		case x < 9:
			ops = append(ops, "w")
			g.Count("op.waitall")
		default:
			ops = append(ops, "q")
			g.Count("op.quiesce")
		}
	}
	if r.Intn(4) == 0 {
		ops = append(ops, "j")
		g.Count("op.joinall")
	}
	return strings.Join(ops, ";")
}

func c09Gen(g *Gen) {
	for _, name := range c09Directed {
		for _, w := range []int{1, 2, 4} {
			g.Emit(fmt.Sprintf("D %s %d", name, w))
			g.Count("kind.directed")
		}
	}
	nr := 360
	if g.Thorough() {
		nr = 6000
	}
	for k := 0; k < nr; k++ {
		W := 1 + g.R.Intn(3)
		if g.R.Intn(3) == 0 {
			W = 1 + g.R.Intn(16)
		}
		seed := g.R.U64() % 1000000007
		g.Emit(fmt.Sprintf("R %d %d %s", seed, W, c09GenProg(g.R, W, g)))
		g.Count("kind.random")
		switch {
		case W == 1:
			g.Count("workers.1")
		case W <= 4:
			g.Count("workers.2-4")
		default:
			g.Count("workers.5-16")
		}
	}
	if g.Thorough() {
		// delay-bounded systematic exploration of tiny configurations
		for W := 1; W <= 2; W++ {
			for T := 1; T <= 3; T++ {
				hits := 14*W + 12*T // upper estimate of the park-point hits of an undisturbed run
				for i := 1; i <= hits; i++ {
					g.Emit(fmt.Sprintf("S %d %d %d 0", W, T, i))
					g.Count("kind.systematic")
				}
				for i := 1; i <= hits; i += 2 {
					for j := i + 1; j <= hits; j += 3 {
						g.Emit(fmt.Sprintf("S %d %d %d %d", W, T, i, j))
						g.Count("kind.systematic")
					}
				}
			}
		}
	}
}

func init() {
	register("C09", &Prop{Gen: c09Gen, Run: c09Run, Timeout: 20 * time.Second})
}
