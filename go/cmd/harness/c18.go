package main

// C18 — tokens, errors and breakpoints carry the true source position.
//
// Two case kinds:
//
//	L <src-hex>              result: "pos,line,col" of every token of parser.LexToList (space separated)
//	E <P|R|X|A|Y> <src-hex> <off> [<calloff>]
//	                         a program with a planted parse (P) / runtime (R) error, or a runtime error the
//	                         program catches itself (X), whose offending token starts at byte offset <off>
//	                         ("eof": the EOF token); result: see c18Err
//
//	S <ref-hex> <var-hex> <tree>  statement separation under inserted comments, see c18sep.go
//	B <src-hex> <markoff>         a break point on the real debugger, see c18bp.go
//	U <lo> <hi>                   IsSpace / IsControl / IsNumber / DecodeRune for the code points lo..hi-1
//
// The model side (lean/Ecal/Drivers/C18.lean) lexes the same bytes with the lexer model, and
// recomputes the true line / column from the byte offsets.

import (
	"encoding/json"
	"fmt"
	"regexp"
	"strconv"
	"strings"
	"time"

	"github.com/krotik/ecal/parser"
	"github.com/krotik/ecal/util"
)

func c18Lex(src string) string {
	toks := parser.LexToList("t", src)
	if len(toks) == 0 {
		return "-"
	}
	out := make([]string, len(toks))
	sawError := false
	for i, t := range toks {
		if t.ID == parser.TokenEOF && sawError {
			// the lexer stopped at an error token; the parser never reads past it and the
			// property constrains nothing about an EOF token that happens to follow
			out[i] = "eof-after-error"
			continue
		}
		sawError = sawError || t.ID == parser.TokenError
		out[i] = fmt.Sprintf("%d,%d,%d", t.Pos, t.Lline, t.Lpos)
	}
	return strings.Join(out, " ")
}

var c18LinePos = regexp.MustCompile(`\(Line:(-?\d+) Pos:(-?\d+)\)`)
var c18TraceLine = regexp.MustCompile(`\(t:(-?\d+)\)$`)

// c18Text extracts the position a user reads in an error message: "(Line:n Pos:m)".
func c18Text(msg string) string {
	m := c18LinePos.FindStringSubmatch(msg)
	if m == nil {
		return "notext"
	}
	return m[1] + "," + m[2]
}

// c18Rec is what the program under test handed to x.rec (the except object's fields).
var c18Rec []interface{}

func c18TraceItem(ts interface{}) string {
	// the entries run from the innermost call outwards: the last one is the call at calloff
	var last string
	switch t := ts.(type) {
	case []string:
		if len(t) > 0 {
			last = t[len(t)-1]
		}
	case []interface{}:
		if len(t) > 0 {
			last = fmt.Sprint(t[len(t)-1])
		}
	}
	m := c18TraceLine.FindStringSubmatch(last)
	if m == nil {
		return "notrace"
	}
	return m[1]
}

// c18Err runs a planted-error program. Result: space separated items, every one of which must be
// the position of the offending token:
//
//	P: <Line,Pos fields of parser.Error> <numbers in the text of Error()>
//	R: <Line,Pos fields of util.RuntimeError> <numbers in the text of Error()> <line,linepos of the node in MarshalJSON>
//	X: <e.line,e.pos of the error object an except clause receives>   (the program catches the error itself)
//
// and, if calloff is given (the error passes through the call at that offset), the line of the
// outermost stack trace entry (GetTraceString / e.trace).
func c18Err(kind, src, off, calloff string) string {
	if kind == "P" {
		_, err := parser.Parse("t", src)
		if err == nil {
			return "NOERROR"
		}
		pe, ok := err.(*parser.Error)
		if !ok {
			return fmt.Sprintf("OTHER %T", err)
		}
		return fmt.Sprintf("%d,%d %s", pe.Line, pe.Pos, c18Text(pe.Error()))
	}
	if kind == "A" || kind == "Y" {
		// the code as it is answers without a position; a repaired tree answers like kinds R / X
		k2 := map[string]string{"A": "R", "Y": "X"}[kind]
		res := c18Err(k2, src, off, calloff)
		if strings.HasPrefix(res, "OTHER *errors.errorString") || res == "<nil>,<nil>" {
			return "unpositioned"
		}
		return res
	}
	if kind == "X" {
		c18Rec = nil
		_, err := evalProgram(src, newGlobalScope(), &memLog{})
		if err != nil {
			return "UNCAUGHT " + oneLine(err.Error())
		}
		if len(c18Rec) != 3 {
			return "NOTRECORDED"
		}
		res := fmt.Sprintf("%v,%v", c18Rec[0], c18Rec[1])
		if calloff != "" {
			res += " " + c18TraceItem(c18Rec[2])
		}
		return res
	}
	_, err := evalProgram(src, newGlobalScope(), &memLog{})
	if err == nil {
		return "NOERROR"
	}
	re, ok := err.(*util.RuntimeError)
	if !ok {
		rd, ok2 := err.(*util.RuntimeErrorWithDetail)
		if !ok2 {
			return fmt.Sprintf("OTHER %T %s", err, oneLine(err.Error()))
		}
		re = rd.RuntimeError
	}
	if re.Node == nil || re.Node.Token == nil {
		return "NOTOKEN"
	}
	if fmt.Sprint(re.Node.Token.Pos) != off {
		return fmt.Sprintf("OTHERTOKEN pos=%d", re.Node.Token.Pos)
	}
	js := "nojson"
	if b, jerr := json.Marshal(err); jerr == nil {
		var m map[string]interface{}
		if json.Unmarshal(b, &m) == nil {
			if n, ok := m["Node"].(map[string]interface{}); ok {
				if t, ok := n["Token"].(map[string]interface{}); ok {
					js = fmt.Sprintf("%v,%v", t["Lline"], t["Lpos"])
				}
			}
		}
	}
	res := fmt.Sprintf("%d,%d %s %s", re.Line, re.Pos, c18Text(err.Error()), js)
	if calloff != "" {
		res += " " + c18TraceItem(re.GetTraceString())
	}
	return res
}

// ---------------------------------------------------------------- generators

// atoms of the exhaustive part (every sequence up to a small length)
var c18Small = []string{
	"a", "1", "+", " ", "\n", "#c", "/*c*/", "/*\n*/", `"s"`, "r\"x\ny\"", "\"x\ny\"", "\r", "\t", "é", "\xff",
	`"\\"`, "'", "*/", ";",
	// bare openers and what may stand inside a comment / raw string or at offset 0: the content of
	// comments and strings is part of the quantifier ("any mix of …"), not only complete literals
	"/*", "r\"", "#", "\\", "!", "\r\n", "\"", "\\\n",
}

// atoms of the random part
var c18Atoms = []string{
	// identifiers, keywords, numbers
	"a", "foo", "B2", "if", "FOR", "not", "r", "e", "1", "12.5", "1e+3", "1e5", "0x", "1.2.3", "²", "1e+308", "1e+309", "٣", "1₅", "İ", "İf", "K",
	// symbols
	"+", "-", "*", "/", "//", ":=", ">=", "(", ")", "[", "]", "{", "}", ".", ",", ";", ":", "=", "!", "?", "@",
	// blanks
	" ", " ", "  ", "\t", "\n", "\n", "\n\n", "\r", "\r\n", "\v", "\f", "\x00", "\x7f", "\u0085", "\u2029", "\ufeff", " ", " ", "　",
	// strings
	`"s"`, `'s'`, `r"s"`, `r's'`, `""`, `"a\nb"`, `"a\\"`, `"a\\\""`, `'it"s'`, "r\"l1\nl2\"", "r'l1\n\nl3'", "r\"\n\"",
	"\"x\ny\"", "'x\ny'", `"\q"`, `"é"`, "r\"é\nü\"", `"`, `'`, `r"`, "\"\n", `"\`, `\`,
	// comments
	"#", "# c", "#c\n", "# é\n", "#\n", "# a\r\n", "# /* \n", "/**/", "/* c */", "/*\n*/", "/* l1\nl2\nl3 */", "/* é\n */",
	"/* # */", "/* # \n */", "/*", "/* \n", "*/", "/*/", "/* * / */", "/***/",
	// multi-byte and invalid
	"é", "日本", "\xf0\x9f\x98\x80", "\xff", "\xc3", "\xe2\x82", "\xed\xa0\x80", "\xc0\xaf", "aé", "é1",
}

func c18Random(g *Gen, n int) string {
	var sb strings.Builder
	for k := 0; k < n; k++ {
		switch g.R.Intn(10) {
		case 0: // a raw byte
			sb.WriteByte(byte(g.R.Intn(256)))
		case 1, 2: // bias towards what moves lines
			sb.WriteString(g.R.Pick([]string{"\n", "# c\n", "#\n", "/*\n*/", "r\"\n\"", "\r\n", "a\n", " \n "}))
		default:
			sb.WriteString(g.R.Pick(c18Atoms))
		}
	}
	return sb.String()
}

// well-formed program fragments used in front of / behind a planted error; every fragment is a
// complete statement or a comment and ends its line
var c18Lines = []string{
	"u := 1\n", "y := \"s\"\n", "z := r\"l1\nl2\"\n", "# comment\n", "#\n", "/* c */\n", "/* l1\nl2 */\n", "\n", "\r\n",
	"\tq := [1,\n 2]\n", "/* é */ w := 'é' # ü\n", "u := 1; y := 2\n", "  \n", "v := {\n \"a\" : 1 # c\n}\n", "if true {\n u := 2\n}\n",
	"/* a */ /* b\n */ k := 1\n", "s := \"a\\\\\" # c\n", "u := 1 # é\n\n",
}

// in-line material allowed between the start of the line and the planted statement
var c18Lead = []string{"", "", " ", "\t", "  ", "/* c */ ", "/* l1\nl2 */ ", "/* é */", "u := 1; ", "u := \"é\" ; ", "r\"a\nb\" ; "}

type c18Plant struct {
	kind string // P | R
	text string
	off  int // offset of the offending token inside text; -1: the EOF token
	last bool
}

var c18Plants = []c18Plant{
	// parse errors
	{"P", "a := )", 5, false},
	{"P", "a := 1 + )", 9, false},
	{"P", "a := \"abc", 5, true},       // lexical error: unclosed quote
	{"P", "a := b?c", 5, false},        // lexical error: identifier
	{"P", "a := \"x\ny\"", 5, false},   // lexical error: raw newline in an interpolating literal
	{"P", "a := /* c", 7, true},        // lexical error: unclosed comment (Pos is the offset after the opener)
	{"P", "a := [1, 2", -1, true},      // unexpected end
	{"P", "a := [1, # c\n 2", -1, true},
	{"P", "a := [1,\n )", 10, false},
	{"P", "if a { b := 1 ]", 14, false}, // unexpected term
	{"P", "a := 1 2", 7, false},
	// runtime errors (the offending token is the one of the AST node the error names)
	{"R", "a := 1 + \"s\"", 9, false},
	{"R", "a := nosuch(1)", 5, false},
	{"R", "raise(\"E\", \"m\")", 0, false},
	{"R", "a := not 1", 9, false},
	{"R", "a := 1 +\n\n \"s\"", 11, false},
	{"R", "a := 1 + /* c\n */ \"s\"", 18, false},
	{"R", "a := -\"s\"", 6, false},
	{"R", "a := [1, # c\n nosuch()]", 14, false},
	{"R", "a := r\"x\ny\" + 1", 5, false},
	// failed variable / container access and a failed import (kind A, caught in try: Y): bare errors
	// without any position — known finding access-errors-unpositioned; the position asked for is that
	// of the identifier / the import token (what fixes/C18-access-errors-positioned.patch would give)
	{"A", "xs := [1, 2]; y := xs[5]", 19, false},
	{"A", "un := 1; y := un.a", 14, false},
	{"A", "un := 1\nun[0]", 8, false},
	{"A", "import \"nofile\" as imp", 0, false},
}

// c18Plant1 puts a plant into random well-formed surroundings. Runtime plants come in four
// shapes: plain, inside a function that is called further down (stack trace), inside try/except
// (the error object the program itself sees), and both.
func c18Plant1(g *Gen, pl c18Plant) string {
	var sb strings.Builder
	for k, n := 0, g.R.Intn(5); k < n; k++ {
		sb.WriteString(g.R.Pick(c18Lines))
	}
	shape := 0
	if pl.kind == "R" {
		shape = g.R.Intn(4)
	} else if pl.kind == "A" {
		// not inside a called function: there the interpreter re-wraps a bare error at the CALL token
		shape = 2 * g.R.Intn(2)
	}
	inFunc, inTry := shape == 1 || shape == 3, shape >= 2
	if inFunc {
		sb.WriteString("func zz() {\n")
	} else if inTry {
		sb.WriteString("try {\n")
	}
	sb.WriteString(g.R.Pick(c18Lead))
	off := "eof"
	if pl.off >= 0 {
		off = fmt.Sprint(sb.Len() + pl.off)
	}
	sb.WriteString(pl.text)
	calloff := ""
	if inFunc {
		sb.WriteString(g.R.Pick([]string{"\n", " # c\n", "\n\n"}) + "}\n")
		for k, n := 0, g.R.Intn(3); k < n; k++ {
			sb.WriteString(g.R.Pick(c18Lines))
		}
		if inTry {
			sb.WriteString("try {\n")
		}
		sb.WriteString(g.R.Pick(c18Lead))
		calloff = " " + fmt.Sprint(sb.Len())
		sb.WriteString("zz()")
	}
	if inTry {
		sb.WriteString(g.R.Pick([]string{"\n", " # c\n", "\n\n"}) + "} except e {\n x.rec(e.line, e.pos, e.trace)\n}")
	}
	kind := pl.kind
	if inTry {
		kind = map[string]string{"R": "X", "A": "Y"}[pl.kind]
	}
	if !pl.last {
		switch g.R.Intn(4) {
		case 0:
		case 1:
			sb.WriteString(" # c")
		default:
			sb.WriteString("\n")
			for k, n := 0, g.R.Intn(3); k < n; k++ {
				sb.WriteString(g.R.Pick(c18Lines))
			}
		}
	} else if g.R.Intn(2) == 0 {
		sb.WriteString(g.R.Pick([]string{"\n", " ", "\n\n", " \n\t"}))
	}
	return "E " + kind + " " + hx(sb.String()) + " " + off + calloff
}

func init() {
	register("C18", &Prop{
		Timeout: 5 * time.Second,
		Setup: func() {
			registerX("rec", func(args []interface{}) (interface{}, error) {
				c18Rec = args
				return nil, nil
			})
		},
		Gen: func(g *Gen) {
			lexCase := func(class, src string) {
				g.Count(class)
				g.Emit("L " + hx(src))
			}
			// corpus: the known finding, the repaired string end, position-relevant shapes
			for _, s := range []string{"a # c\nb", "a # c\n\nb", "a # c\n  b c\nd", "# c\n\"s\" x", "# c\n/* \n */ x", "# c\n# d\nx",
				"a \"x\\\\\" b", "r\"a\nb\" c\nd", "/* a\nb */ c\nd", "a\r\nb", "a\n", "a\n\n", "", "\n", "\"a\nb\" c", "\"abc", "/* x\n",
				"#!x\na", "#!/usr/bin/env ecal\na := 1", "r\"a\\\nb\" c", "r\"a\r\nb\" c", "/* a\r\nb */ c", "/*\rx*/ a", "\ufeffa", "a\u2029b", "r\"\f\n\v\" a",
				"r'a\\\n\\\nb' c\nd", "/* \\\n */ a", "# \\\na", "\u2028a", "a\u0085b", "r\"\u2029\n\" a",
				"é b\nü c", "a\n\xffb", "İ a", "İf a\nb", "K2 a", "aİ\nb", "1e+308 a", "1e+309 a", "1.7976931348623158e+308 a", "1.7976931348623159e+308 a", "0e+999999999 a",
				"1e+0000000000001 a", "1e+311e5 a", "1₅ a", "٣ a", "0.0000001e+315 a", "0.0000001e+316 a", "17976931348623158" + strings.Repeat("0", 292) + " a",
				"17976931348623159" + strings.Repeat("0", 292) + " a", "a /*\n*/ # c\nb /* # \n */ c", "#", "#\n", "# c", "a#c\r\nb"} {
				lexCase("corpus", s)
			}
			maxLen, nRandom, nPlant := 3, 12000, 6000
			if g.Thorough() {
				maxLen, nRandom, nPlant = 4, 300000, 100000
			}
			var rec func(prefix string, n int)
			rec = func(prefix string, n int) {
				if n > 0 {
					lexCase(fmt.Sprintf("exhaustive len %d", n), prefix)
				}
				if n == maxLen {
					return
				}
				for _, a := range c18Small {
					rec(prefix+a, n+1)
				}
			}
			rec("", 0)
			// planted errors: every plant bare first, then in random surroundings
			for _, pl := range c18Plants {
				off := "eof"
				if pl.off >= 0 {
					off = fmt.Sprint(pl.off)
				}
				g.Count("planted " + pl.kind + " bare")
				g.Emit("E " + pl.kind + " " + hx(pl.text) + " " + off)
			}
			for i := 0; i < nPlant; i++ {
				pl := c18Plants[g.R.Intn(len(c18Plants))]
				g.Count("planted " + pl.kind)
				g.Emit(c18Plant1(g, pl))
			}
			if g.Thorough() {
				c18SepGen(g, 40, 60000, 60000)
				c18BreakGen(g, 6000)
			} else {
				c18SepGen(g, 8, 3000, 3000)
				c18BreakGen(g, 600)
			}
			c18SweepGen(g)
			for i := 0; i < nRandom; i++ {
				n := 2 + g.R.Intn(4)
				if i%3 == 0 {
					n = 6 + g.R.Intn(20)
				}
				lexCase("random", c18Random(g, n))
			}
		},
		Run: func(payload string) string {
			f := strings.Split(payload, " ")
			switch {
			case len(f) == 2 && f[0] == "L":
				return c18Lex(unhx(f[1]))
			case len(f) == 4 && f[0] == "E":
				return c18Err(f[1], unhx(f[2]), f[3], "")
			case len(f) == 5 && f[0] == "E":
				return c18Err(f[1], unhx(f[2]), f[3], f[4])
			case len(f) == 3 && f[0] == "U":
				lo, _ := strconv.Atoi(f[1])
				hi, _ := strconv.Atoi(f[2])
				return c18Sweep(lo, hi)
			case len(f) == 5 && f[0] == "B2":
				o1, _ := strconv.Atoi(f[2])
				o2, _ := strconv.Atoi(f[3])
				return c18BreakMulti(unhx(f[1]), []int{o1, o2}, f[4])
			case len(f) == 3 && f[0] == "B":
				off, _ := strconv.Atoi(f[2])
				return c18Break(unhx(f[1]), off)
			case len(f) == 4 && f[0] == "S":
				return c18Parse(unhx(f[2]))
			}
			return "bad-payload"
		},
		Tool: func(args []string) int {
			if len(args) == 2 && args[0] == "extract" {
				return c18Extract(args[1])
			}
			// probe <src as Go-quoted text without the quotes>: tokens, parse error, runtime error
			for _, a := range args {
				src, err := strconvUnquote(a)
				if err != nil {
					fmt.Println("bad quoted text:", a)
					return 2
				}
				fmt.Printf("%q\n  tokens: %s\n", src, c18Lex(src))
				_, perr := parser.Parse("t", src)
				fmt.Printf("  parse : %v\n", perr)
				if perr == nil {
					_, rerr := evalProgram(src, newGlobalScope(), &memLog{})
					fmt.Printf("  eval  : %v\n", rerr)
					if re, ok := rerr.(*util.RuntimeError); ok && re.Node != nil && re.Node.Token != nil {
						fmt.Printf("  node token pos: %d\n", re.Node.Token.Pos)
					}
				}
			}
			return 0
		},
	})
}

func strconvUnquote(a string) (string, error) { return strconv.Unquote("\"" + a + "\"") }
