package main

// C19 — the Go function bridge is total and converts numbers faithfully.
//
// A case is (bridged function, mode, argument vector). The functions are ≈50
// synthetic Go functions wrapped with stdlib.NewECALFunctionAdapter (every numeric
// parameter kind, interfaces, slices, maps, variadic, multi-result, trailing error,
// panicking, zero-arg, non-functions; each one records what it RECEIVED so that the
// conversion is observable) plus every function of the generated stdlib. The payload
// carries the signature as reflect reports it, a description of the synthetic body,
// and the argument values; the Lean model computes from these alone what Run must
// return and what the function must have received.
//
//	payload: <name> <D|I|T> <params>;<V|N>;<results> <body> <arg>…   (I: arguments written as ECAL literals where one exists)
//	result : V <value> recv=[…] | E f recv=… | E b recv=… | X        (mode D: Run called directly)
//	         V <value> recv=…   | E recv=…   | C recv=…               (I: through the interpreter, T: inside try)
//
// See lean/Ecal/Drivers/C19.lean for the value syntax.

import (
	"errors"
	"fmt"
	"hash/fnv"
	"math"
	"math/big"
	"os"
	"plugin"
	"reflect"
	"sort"
	"strconv"
	"strings"
	"time"
	"unsafe"

	"github.com/krotik/ecal/interpreter"
	eparser "github.com/krotik/ecal/parser"
	"github.com/krotik/ecal/stdlib"
	"github.com/krotik/ecal/util"
)

// ---------------------------------------------------------------- observation of the function side

var c19Reached bool
var c19Recv []interface{}

func c19rec(vals ...interface{}) {
	c19Reached = true
	c19Recv = vals
}

var c19Err = errors.New("c19 sentinel error")

// error values whose handling AFTER Run has returned can go wrong (executeFunction: err.Error(), AddTrace)
type c19PtrErr struct{ msg string }

func (e *c19PtrErr) Error() string { return e.msg } // dereferences the receiver: panics for a nil pointer

type c19BadErr struct{}

func (c19BadErr) Error() string { panic("Error() panics") }

var c19ErrTypedNil error = (*c19PtrErr)(nil)
var c19ErrBad error = c19BadErr{}
var c19ErrNilRT error = (*util.RuntimeError)(nil)
var c19ErrNilRTD error = (*util.RuntimeErrorWithDetail)(nil)
var c19ErrRT error = &util.RuntimeError{Source: "c19", Type: util.ErrRuntimeError, Detail: "a proper runtime error"}
var c19ErrRTDEmpty error = &util.RuntimeErrorWithDetail{}                                                        // non-nil, embedded pointer nil
var c19ErrRTNoType error = &util.RuntimeError{Source: "c19", Detail: "no type"}                                  // Type == nil
var c19ErrRTDNoType error = &util.RuntimeErrorWithDetail{RuntimeError: &util.RuntimeError{Source: "c19"}}        // Type == nil
var c19ErrPtr = &c19PtrErr{"a concrete error type"}

// an interface derived from error
type c19CodedErr interface {
	error
	Code() int
}

// c19ErrToken: the canonical token of one of the harness's error values ("" = not one of them)
func c19ErrToken(e error) string {
	switch {
	case e == c19Err:
		return "e"
	case e == c19ErrTypedNil:
		return "en"
	case e == c19ErrBad:
		return "eb"
	case e == c19ErrRT:
		return "er"
	case e == c19ErrNilRT, e == c19ErrNilRTD:
		return "ez"
	case e == c19ErrRTDEmpty:
		return "ezd"
	case e == c19ErrRTNoType:
		return "et"
	case e == c19ErrRTDNoType:
		return "etd"
	case e == error(c19ErrPtr):
		return "ep"
	}
	return ""
}

type c19U8 uint8
type c19F32 float32
type c19Name string
type c19Flag bool

type c19Fn struct {
	name string
	fn   interface{} // a Go function (or, for the notfunc cases, something else)
	body string      // what the model is told about the body
}

// c19NumericValues: one value of every Go numeric kind (the model's IntKind.all + float32 + float64) and of
// defined numeric types — returned through interface{} by generated synthetic and plugin functions.
func c19NumericValues() []interface{} {
	return []interface{}{int(5), int8(-5), int16(-300), int32(70000), int64(-1 << 40), uint(6), uint8(200), uint16(60000),
		uint32(4000000000), uint64(1 << 53), uintptr(7), float32(1.5), float64(2.5), time.Duration(5), c19U8(9), c19F32(0.5)}
}

func c19Synthetic() []c19Fn {
	var nilMap map[string]int
	var nilSlice []int
	return []c19Fn{
		// every numeric parameter kind, echoing
		{"e_int", func(x int) int { c19rec(x); return x }, "echo"},
		{"e_int8", func(x int8) int8 { c19rec(x); return x }, "echo"},
		{"e_int16", func(x int16) int16 { c19rec(x); return x }, "echo"},
		{"e_int32", func(x int32) int32 { c19rec(x); return x }, "echo"},
		{"e_int64", func(x int64) int64 { c19rec(x); return x }, "echo"},
		{"e_uint", func(x uint) uint { c19rec(x); return x }, "echo"},
		{"e_uint8", func(x uint8) uint8 { c19rec(x); return x }, "echo"},
		{"e_uint16", func(x uint16) uint16 { c19rec(x); return x }, "echo"},
		{"e_uint32", func(x uint32) uint32 { c19rec(x); return x }, "echo"},
		{"e_uint64", func(x uint64) uint64 { c19rec(x); return x }, "echo"},
		{"e_uintptr", func(x uintptr) uintptr { c19rec(x); return x }, "echo"},
		{"e_f32", func(x float32) float32 { c19rec(x); return x }, "echo"},
		{"e_f64", func(x float64) float64 { c19rec(x); return x }, "echo"},
		// the other ECAL kinds
		{"e_str", func(x string) string { c19rec(x); return x }, "echo"},
		{"e_bool", func(x bool) bool { c19rec(x); return x }, "echo"},
		{"e_list", func(x []interface{}) []interface{} { c19rec(x); return x }, "echo"},
		{"e_map", func(x map[interface{}]interface{}) map[interface{}]interface{} { c19rec(x); return x }, "echo"},
		{"e_iface", func(x interface{}) interface{} { c19rec(x); return x }, "echo"},
		// interface and foreign parameter types
		{"p_stringer", func(x fmt.Stringer) bool { c19rec(x); return true }, "k:b:1"},
		{"p_error", func(x error) bool { c19rec(x); return true }, "k:b:1"},
		{"p_ecalfunc", func(x util.ECALFunction) bool { c19rec(x); return true }, "k:b:1"},
		{"p_intslice", func(x []int) bool { c19rec(x); return true }, "k:b:1"},
		{"p_strmap", func(x map[string]interface{}) bool { c19rec(x); return true }, "k:b:1"},
		{"p_func", func(x func()) bool { c19rec(x); return true }, "k:b:1"},
		{"p_ptr", func(x *int) bool { c19rec(x); return true }, "k:b:1"},
		// several parameters
		{"e2_int_str", func(a int, b string) (int, string) { c19rec(a, b); return a, b }, "echo"},
		{"e3_mixed", func(a uint8, b int16, c float32) (uint8, int16, float32) { c19rec(a, b, c); return a, b, c }, "echo"},
		{"e2_f64_list", func(a float64, b []interface{}) (float64, []interface{}) { c19rec(a, b); return a, b }, "echo"},
		{"e2_bool_map", func(a bool, b map[interface{}]interface{}) (bool, map[interface{}]interface{}) {
			c19rec(a, b)
			return a, b
		}, "echo"},
		// zero-arg, constant results of several kinds
		{"z_none", func() { c19rec() }, "k:"},
		{"z_int", func() int { c19rec(); return 42 }, "k:i:int:42"},
		{"z_multi", func() (int, string, bool) { c19rec(); return 1, "a", true }, "k:i:int:1|s:61|b:1"},
		{"z_u64_2p53", func() uint64 { c19rec(); return 1 << 53 }, "k:i:uint64:9007199254740992"},
		{"z_i64_m2p53", func() int64 { c19rec(); return -(1 << 53) }, "k:i:int64:-9007199254740992"},
		{"z_u64_max", func() uint64 { c19rec(); return math.MaxUint64 }, "k:i:uint64:18446744073709551615"},
		{"z_i64_odd", func() int64 { c19rec(); return 1<<62 + 1<<8 + 1 }, "k:i:int64:4611686018427388161"},
		{"z_u8", func() uint8 { c19rec(); return 255 }, "k:i:uint8:255"},
		{"z_i8", func() int8 { c19rec(); return -128 }, "k:i:int8:-128"},
		{"z_uintptr", func() uintptr { c19rec(); return 7 }, "k:i:uintptr:7"},
		{"z_f32", func() float32 { c19rec(); return 1.5 }, "k:g:3ff8000000000000"},
		{"z_iface_int", func() interface{} { c19rec(); return 5 }, "k:i:int:5"},
		{"z_iface_nil", func() interface{} { c19rec(); return nil }, "k:z"},
		{"z_iface_f32", func() interface{} { c19rec(); return float32(1.5) }, "k:g:3ff8000000000000"},
		{"z_iface_u8", func() (interface{}, string) { c19rec(); return uint8(200), "a" }, "k:i:uint8:200|s:61"},
		{"z_iface_str", func() interface{} { c19rec(); return "a" }, "k:s:61"},
		{"z_f32_tiny", func() float32 { c19rec(); return math.SmallestNonzeroFloat32 }, "k:g:36a0000000000000"},
		{"z_f64_negzero", func() float64 { c19rec(); return math.Copysign(0, -1) }, "k:n:8000000000000000"},
		// numbers nested in returned slices / arrays / maps of Go values
		{"z_ints", func() []int { c19rec(); return []int{1, 2, 3} }, "k:" + c19Canon([]int{1, 2, 3}, 0)},
		{"z_f32s", func() []float32 { c19rec(); return []float32{1.5, 0.1} }, "k:" + c19Canon([]float32{1.5, 0.1}, 0)},
		{"z_arr", func() [2]uint8 { c19rec(); return [2]uint8{200, 7} }, "k:" + c19Canon([2]uint8{200, 7}, 0)},
		{"z_nested", func() [][]int { c19rec(); return [][]int{{1}, {2, 3}, {}} }, "k:" + c19Canon([][]int{{1}, {2, 3}, {}}, 0)},
		{"z_strs", func() []string { c19rec(); return []string{"a", ""} }, "k:" + c19Canon([]string{"a", ""}, 0)},
		{"z_durs", func() []time.Duration { c19rec(); return []time.Duration{5} }, "k:" + c19Canon([]time.Duration{5}, 0)},
		{"z_big", func() []uint64 { c19rec(); return []uint64{1 << 53, math.MaxUint64} }, "k:" + c19Canon([]uint64{1 << 53, math.MaxUint64}, 0)},
		{"z_map", func() map[string]int { c19rec(); return map[string]int{"a": 1, "b": 2} }, "k:" + c19Canon(map[string]int{"a": 1, "b": 2}, 0)},
		{"z_mapkeys", func() map[int8]float32 { c19rec(); return map[int8]float32{1: 1.5, -2: 0.5} }, "k:" + c19Canon(map[int8]float32{1: 1.5, -2: 0.5}, 0)},
		{"z_maplist", func() map[string][]int { c19rec(); return map[string][]int{"a": {1, 2}} }, "k:" + c19Canon(map[string][]int{"a": {1, 2}}, 0)},
		{"z_iface_ints", func() interface{} { c19rec(); return []int{1, 2} }, "k:" + c19Canon([]int{1, 2}, 0)},
		{"z_ints_int", func() ([]int, int, error) { c19rec(); return []int{4}, 5, nil }, "k:" + c19Canon([]int{4}, 0) + "|i:int:5|z"},
		{"z_nilints", func() []int { c19rec(); return nil }, "k:" + c19Canon([]int(nil), 0)},
		// a list of ECAL values is passed on as it is — Go numbers inside it are not looked for
		{"z_mixedlist", func() []interface{} { c19rec(); return []interface{}{1, int8(2), 3.5} }, "k:l[i:int:1,i:int8:2,n:400c000000000000]"},
		// trailing error
		{"r_err_nil", func() error { c19rec(); return nil }, "k:z"},
		{"r_err", func() error { c19rec(); return c19Err }, "k:e"},
		{"r_err_typednil", func() error { c19rec(); var e *c19PtrErr; return e }, "k:en"},
		{"r_err_badmethod", func() error { c19rec(); return c19BadErr{} }, "k:eb"},
		{"r_err_nilrt", func() error { c19rec(); var e *util.RuntimeError; return e }, "k:ez"},
		{"r_err_nilrtd", func() (int, error) { c19rec(); var e *util.RuntimeErrorWithDetail; return 1, e }, "k:i:int:1|ez"},
		{"r_err_rt", func() error { c19rec(); return c19ErrRT }, "k:er"},
		{"r_err_rtd_empty", func() error { c19rec(); return c19ErrRTDEmpty }, "k:ezd"},
		{"r_err_rt_notype", func() error { c19rec(); return c19ErrRTNoType }, "k:et"},
		{"r_err_rtd_notype", func() (int, error) { c19rec(); return 1, c19ErrRTDNoType }, "k:i:int:1|etd"},
		// a last result of a concrete / derived error type is NOT the trailing error: it is an ordinary result
		{"r_int_ptrerr_nil", func() (int, *c19PtrErr) { c19rec(); return 1, nil }, "k:i:int:1|en"},
		{"r_int_ptrerr", func() (int, *c19PtrErr) { c19rec(); return 1, c19ErrPtr }, "k:i:int:1|ep"},
		{"r_int_codederr_nil", func() (int, c19CodedErr) { c19rec(); return 1, nil }, "k:i:int:1|z"},
		{"r_ptrerr_only", func() *c19PtrErr { c19rec(); return nil }, "k:en"},
		{"r_int_err_typednil", func(x int) (int, error) { c19rec(x); return x, c19ErrTypedNil }, "echo+en"},
		{"r_int_err_nil", func(x int) (int, error) { c19rec(x); return x, nil }, "echo+z"},
		{"r_int_err", func(x int) (int, error) { c19rec(x); return x, c19Err }, "echo+e"},
		{"r_2_err_nil", func() (int, string, error) { c19rec(); return 5, "a", nil }, "k:i:int:5|s:61|z"},
		{"r_err_not_last", func() (error, int) { c19rec(); return c19Err, 5 }, "k:e|i:int:5"},
		{"r_list_err_nil", func(l []interface{}) ([]interface{}, error) { c19rec(l); return l, nil }, "echo+z"},
		// panicking bodies
		{"x_panic_str", func() int { c19rec(); panic("boom") }, "panic"},
		{"x_panic_err", func(x float64) float64 { c19rec(x); panic(fmt.Errorf("boom %v", x)) }, "panic"},
		{"x_panic_nil", func() { c19rec(); panic(nil) }, "panic"},
		// panic VALUES the deferred function must survive: a typed nil error, an error whose Error() panics
		{"x_panic_typednil", func() int { c19rec(); panic(c19ErrTypedNil) }, "panic"},
		{"x_panic_baderr", func(x float64) float64 { c19rec(x); panic(c19BadErr{}) }, "panic"},
		{"x_index", func(a int) int { c19rec(a); return nilSlice[a] }, "panic"},
		{"x_nilmap", func() { c19rec(); nilMap["a"] = 1 }, "panic"},
		{"x_nilderef", func(s string) int { c19rec(s); var p *int; return *p }, "panic"},
		// variadic
		{"v_iface", func(a ...interface{}) int { c19rec(a...); return len(a) }, "vlen"},
		{"v_str_iface", func(s string, a ...interface{}) (string, int) {
			c19rec(append([]interface{}{s}, a...)...)
			return s, len(a)
		}, "vlen"},
		{"v_int", func(a ...int) int { c19rec(); return len(a) }, "vlen"},
		{"v_f64", func(a ...float64) int { c19rec(); return len(a) }, "vlen"},
		{"v_int_str", func(x int, a ...string) (int, int) { c19rec(x); return x, len(a) }, "vlen"},
		{"v_iface_err", func(a ...interface{}) (interface{}, error) { c19rec(a...); return nil, nil }, "k:z|z"},
		// defined types of primitive kind (time.Duration style)
		{"d_dur", func() time.Duration { c19rec(); return 5 * time.Second }, "k:" + c19Canon(5*time.Second, 0)},
		{"d_dur_echo", func(d time.Duration) time.Duration { c19rec(d); return d }, "echo"},
		{"d_u8_echo", func(x c19U8) c19U8 { c19rec(x); return x }, "echo"},
		{"d_f32", func() c19F32 { c19rec(); return 1.5 }, "k:" + c19Canon(c19F32(1.5), 0)},
		{"d_name", func() c19Name { c19rec(); return "a" }, "k:" + c19Canon(c19Name("a"), 0)},
		{"d_flag", func() (c19Flag, error) { c19rec(); return true, nil }, "k:" + c19Canon(c19Flag(true), 0) + "|z"},
		// (interface{} results of every numeric kind: see c19NumericValues, appended in c19Setup)
		// not a function at all
		{"n_int", 5, "notfunc"},
		{"n_nil", nil, "notfunc"},
	}
}

// ---------------------------------------------------------------- plugin functions

// The plugin path: util.ECALPluginFunction objects registered through the REAL
// stdlib.AddStdlibPluginFunc / stdlib.LoadStdlibPlugin. Without a .so file the only way in is the
// package's own test hook `pluginTestLookup` (an unexported variable, see stdlib_test.go); the harness
// reaches it by symbol name. Its type there is the unexported interface
// `pluginLookup{ Lookup(string) (plugin.Symbol, error) }`: an interface value of the identical method
// set has the same representation.
//
//go:linkname c19PluginTestLookup github.com/krotik/ecal/stdlib.pluginTestLookup
var c19PluginTestLookup interface {
	Lookup(symName string) (plugin.Symbol, error)
}

type c19PluginFn struct {
	name string
	body string
	run  func(args []interface{}) (interface{}, error)
}

func (f *c19PluginFn) Run(args []interface{}) (interface{}, error) { return f.run(args) }
func (f *c19PluginFn) DocString() string                           { return "c19 plugin function " + f.name }

type c19Lookup map[string]*c19PluginFn

func (l c19Lookup) Lookup(symName string) (plugin.Symbol, error) {
	if f, ok := l[symName]; ok {
		return f, nil
	}
	return nil, fmt.Errorf("no such symbol")
}

// the shape AddStdlibPluginFunc gives every plugin function: func(a ...interface{}) (interface{}, error)
const c19PluginSig = "Siface;V;iface,error"

func c19Plugins() []*c19PluginFn {
	var nilMap map[string]int
	return []*c19PluginFn{
		// returns its first argument: runtime error (index out of range) when it is missing
		{"first", "pfirst", func(a []interface{}) (interface{}, error) { c19rec(a...); return a[0], nil }},
		// the examples/plugin pattern: asserts the kind of its argument (panics on NULL / wrong kind / none)
		{"str", "pstr", func(a []interface{}) (interface{}, error) { c19rec(a...); return a[0].(string), nil }},
		{"num", "pnum", func(a []interface{}) (interface{}, error) { c19rec(a...); return a[0].(float64), nil }},
		{"len", "plen", func(a []interface{}) (interface{}, error) { c19rec(a...); return float64(len(a)), nil }},
		{"const", "k:n:4045000000000000|z", func(a []interface{}) (interface{}, error) { c19rec(a...); return 42.0, nil }},
		{"null", "k:z|z", func(a []interface{}) (interface{}, error) { c19rec(a...); return nil, nil }},
		{"err", "k:z|e", func(a []interface{}) (interface{}, error) { c19rec(a...); return nil, c19Err }},
		{"valerr", "k:s:61|e", func(a []interface{}) (interface{}, error) { c19rec(a...); return "a", c19Err }},
		{"int", "k:i:int:7|z", func(a []interface{}) (interface{}, error) { c19rec(a...); return 7, nil }},
		{"f32", "k:g:3ff8000000000000|z", func(a []interface{}) (interface{}, error) { c19rec(a...); return float32(1.5), nil }},
		{"ints", "k:" + c19Canon([]int{1, 2}, 0) + "|z", func(a []interface{}) (interface{}, error) { c19rec(a...); return []int{1, 2}, nil }},
		{"lenint", "plenint", func(a []interface{}) (interface{}, error) { c19rec(a...); return len(a), nil }},
		{"errtypednil", "k:z|en", func(a []interface{}) (interface{}, error) { c19rec(a...); return nil, c19ErrTypedNil }},
		{"panicnil", "panic", func(a []interface{}) (interface{}, error) { c19rec(a...); panic(nil) }},
		{"panictypednil", "panic", func(a []interface{}) (interface{}, error) { c19rec(a...); panic(c19ErrTypedNil) }},
		{"panicbaderr", "panic", func(a []interface{}) (interface{}, error) { c19rec(a...); panic(c19BadErr{}) }},
		{"errnotype", "k:z|et", func(a []interface{}) (interface{}, error) { c19rec(a...); return nil, c19ErrRTNoType }},
		{"panic", "panic", func(a []interface{}) (interface{}, error) { c19rec(a...); panic("boom") }},
		{"panicerr", "panic", func(a []interface{}) (interface{}, error) { c19rec(a...); panic(c19Err) }},
		{"nilmap", "panic", func(a []interface{}) (interface{}, error) { c19rec(a...); nilMap["a"] = 1; return nil, nil }},
		{"nilderef", "panic", func(a []interface{}) (interface{}, error) {
			c19rec(a...)
			var p *int
			return float64(*p), nil
		}},
	}
}

// c19RegisterPlugins drives the real registration code and returns the targets.
func c19RegisterPlugins() []*c19Target {
	fns := c19Plugins()
	for i, v := range c19NumericValues() {
		v := v
		fns = append(fns, &c19PluginFn{fmt.Sprintf("kind%d", i), "k:" + c19Canon(v, 0) + "|z",
			func(a []interface{}) (interface{}, error) { c19rec(a...); return v, nil }})
	}
	lk := c19Lookup{}
	for _, f := range fns {
		lk["Sym"+f.name] = f
	}
	c19PluginTestLookup = lk
	defer func() { c19PluginTestLookup = nil }()
	var ts []*c19Target
	// every third function through LoadStdlibPlugins (the list form of the .ecal.json configuration), together
	// with a definition whose symbol does not exist: exactly that one must be reported as an error
	var batch []interface{}
	for i, f := range fns {
		if i%3 == 2 {
			batch = append(batch, map[string]interface{}{"package": "c19p", "name": "fn" + f.name, "path": "", "symbol": "Sym" + f.name})
		}
	}
	batch = append(batch, map[string]interface{}{"package": "c19p", "name": "fnmissing", "path": "", "symbol": "SymDoesNotExist"})
	if errs := stdlib.LoadStdlibPlugins(batch); len(errs) != 1 {
		panic(fmt.Sprintf("LoadStdlibPlugins: expected exactly one error (the missing symbol), got %v", errs))
	}
	if _, ok := stdlib.GetStdlibFunc("c19p.fnmissing"); ok {
		panic("LoadStdlibPlugins registered a function for a missing symbol")
	}
	for i, f := range fns {
		var err error
		switch i % 3 {
		case 0:
			err = stdlib.AddStdlibPluginFunc("c19p", "fn"+f.name, "", "Sym"+f.name)
		case 1:
			err = stdlib.LoadStdlibPlugin(map[string]interface{}{"package": "c19p", "name": "fn" + f.name, "path": "", "symbol": "Sym" + f.name})
		}
		if err != nil {
			panic("plugin registration failed: " + err.Error())
		}
		fo, ok := stdlib.GetStdlibFunc("c19p.fn" + f.name) // "fn": null, len … are ECAL keywords / inbuilt names
		if !ok {
			panic("plugin function not registered: " + f.name)
		}
		ts = append(ts, &c19Target{name: "c19p.fn" + f.name, adapter: fo, sig: c19PluginSig, body: f.body, plugin: true})
	}
	return ts
}

// ---------------------------------------------------------------- value universe

type c19Val struct {
	v   interface{}
	src string // name of the variable holding it in the ECAL scope
	lit string // ECAL literal denoting it ("" = none): used in mode I, the variable in mode T
}

var c19Universe []c19Val
var c19Numbers []int // indices of the numbers in the universe
var c19Core int // the first c19Core values are the core universe (exhaustive for the longer vectors)
var c19CanonIdx = map[string]int{}
var c19DirectScope eparser.Scope
var c19FuncObj interface{}

func c19BuildUniverse() {
	vs := newGlobalScope()
	if _, err := evalProgram("func c19f() {\n return 1\n}\n", vs, &memLog{}); err != nil {
		panic(err)
	}
	f, _, _ := vs.GetValue("c19f")
	if _, ok := f.(util.ECALFunction); !ok {
		panic(fmt.Sprintf("no ECAL function object: %T", f))
	}
	c19FuncObj = f
	vals := []interface{}{nil, true, false, 0.0, -1.0, 1.0, 1.5, 127.0, 128.0, 255.0, 256.0,
		float64(1 << 31), float64(1 << 53), 1e300, math.NaN(), "", "a", "1",
		[]interface{}{}, []interface{}{1.0}, map[interface{}]interface{}{}, map[interface{}]interface{}{"a": 1.0}, f,
		// beyond the stated universe: negative out of range, fraction below zero, 2^63, -Inf
		-129.0, -0.5, 9223372036854775808.0, math.Inf(-1),
		// 1.5*2^63: in the range of the 64-bit unsigned kinds only
		13835058055282163712.0,
		// the kind boundaries and float32 rounding (review E4)
		40000.0, 2147483647.0, 65536.0, 4294967296.0, 18446744073709551616.0, -2147483649.0, -9223372036854775808.0,
		0.1, 16777217.0, 3.4028235677973366e38, math.Inf(1), math.Copysign(0, -1), 1e-40, 1e-46}
	c19Core = 28
	c19Universe = nil
	lits := []string{"null", "true", "false", "0", "-1", "1", "1.5", "127", "128", "255", "256",
		"2147483648", "9007199254740992", "", "", `""`, `"a"`, `"1"`,
		"[]", "[1]", "{}", `{"a":1}`, "",
		"-129", "-0.5", "", "", "13835058055282163712",
		"40000", "2147483647", "65536", "4294967296", "18446744073709551616", "-2147483649", "-9223372036854775808",
		"0.1", "16777217", "", "", "", "", ""}
	// lo, hi, lo-1, hi+1 of every integer kind (the model's IntKind.lo / hi), where exactly a float64
	have := map[float64]bool{}
	for _, v := range vals {
		if f, ok := v.(float64); ok {
			have[f] = true
		}
	}
	for _, bits := range []uint{8, 16, 32, 64} {
		one := big.NewInt(1)
		sLo := new(big.Int).Neg(new(big.Int).Lsh(one, bits-1))
		sHi := new(big.Int).Sub(new(big.Int).Lsh(one, bits-1), one)
		uHi := new(big.Int).Sub(new(big.Int).Lsh(one, bits), one)
		for _, b := range []*big.Int{sLo, sHi, new(big.Int).Sub(sLo, one), new(big.Int).Add(sHi, one),
			big.NewInt(0), big.NewInt(-1), uHi, new(big.Int).Add(uHi, one)} {
			f, _ := new(big.Float).SetInt(b).Float64()
			if back, acc := new(big.Float).SetFloat64(f).Int(nil); acc != big.Exact || back.Cmp(b) != 0 || have[f] {
				continue // not exactly a float64 (2^63-1 …) or already there
			}
			have[f] = true
			vals = append(vals, f)
			lits = append(lits, b.String())
		}
	}
	if len(lits) != len(vals) {
		panic("C19 universe: literals and values out of step")
	}
	for i, v := range vals {
		c19Universe = append(c19Universe, c19Val{v, fmt.Sprintf("u%d", i), lits[i]})
	}
	c19Numbers = nil
	for i, u := range c19Universe {
		c19CanonIdx[c19Canon(u.v, 0)] = i
		if _, ok := u.v.(float64); ok {
			c19Numbers = append(c19Numbers, i)
		}
	}
	c19DirectScope = newGlobalScope()
}

// c19Canon prints a Go value canonically (see the driver for the syntax).
func c19Canon(v interface{}, depth int) string {
	if depth > 6 {
		return "?deep"
	}
	switch x := v.(type) {
	case nil:
		return "z"
	case bool:
		if x {
			return "b:1"
		}
		return "b:0"
	case float64:
		return "n:" + c19Bits(x)
	case float32:
		return "g:" + c19Bits(float64(x))
	case int:
		return "i:int:" + strconv.FormatInt(int64(x), 10)
	case int8:
		return "i:int8:" + strconv.FormatInt(int64(x), 10)
	case int16:
		return "i:int16:" + strconv.FormatInt(int64(x), 10)
	case int32:
		return "i:int32:" + strconv.FormatInt(int64(x), 10)
	case int64:
		return "i:int64:" + strconv.FormatInt(x, 10)
	case uint:
		return "i:uint:" + strconv.FormatUint(uint64(x), 10)
	case uint8:
		return "i:uint8:" + strconv.FormatUint(uint64(x), 10)
	case uint16:
		return "i:uint16:" + strconv.FormatUint(uint64(x), 10)
	case uint32:
		return "i:uint32:" + strconv.FormatUint(uint64(x), 10)
	case uint64:
		return "i:uint64:" + strconv.FormatUint(x, 10)
	case uintptr:
		return "i:uintptr:" + strconv.FormatUint(uint64(x), 10)
	case string:
		return "s:" + hx(x)
	case []interface{}:
		parts := make([]string, len(x))
		for i, e := range x {
			parts[i] = c19Canon(e, depth+1)
		}
		return "l[" + strings.Join(parts, ",") + "]"
	case map[interface{}]interface{}:
		parts := make([]string, 0, len(x))
		for k, e := range x {
			parts = append(parts, c19Canon(k, depth+1)+"="+c19Canon(e, depth+1))
		}
		sort.Strings(parts)
		return "m{" + strings.Join(parts, ",") + "}"
	}
	if v == c19FuncObj {
		return "f"
	}
	if e, ok := v.(error); ok {
		if tok := c19ErrToken(e); tok != "" {
			return tok
		}
	}
	rv := reflect.ValueOf(v)
	// a Go slice / array / map that is not an ECAL list / map: q<type>[…], p<ktype>/<vtype>{…}
	switch rv.Kind() {
	case reflect.Slice, reflect.Array:
		parts := make([]string, rv.Len())
		for i := range parts {
			parts[i] = c19Canon(rv.Index(i).Interface(), depth+1)
		}
		return "q" + c19Ty(rv.Type().Elem()) + "[" + strings.Join(parts, ",") + "]"
	case reflect.Map:
		parts := make([]string, 0, rv.Len())
		for it := rv.MapRange(); it.Next(); {
			parts = append(parts, c19Canon(it.Key().Interface(), depth+1)+"="+c19Canon(it.Value().Interface(), depth+1))
		}
		sort.Strings(parts)
		return "p" + c19Ty(rv.Type().Key()) + "/" + c19Ty(rv.Type().Elem()) + "{" + strings.Join(parts, ",") + "}"
	}
	// a value of a defined type of primitive kind: N<type id>(<the value as its underlying type>)
	if rv.Type().PkgPath() != "" {
		var u interface{}
		switch rv.Kind() {
		case reflect.Int, reflect.Int8, reflect.Int16, reflect.Int32, reflect.Int64,
			reflect.Uint, reflect.Uint8, reflect.Uint16, reflect.Uint32, reflect.Uint64, reflect.Uintptr,
			reflect.Float32, reflect.Float64, reflect.Bool, reflect.String:
			u = rv.Convert(c19Underlying[rv.Kind()]).Interface()
		}
		if u != nil {
			return "N" + c19Hash(rv.Type().String()) + "(" + c19Canon(u, depth+1) + ")"
		}
	}
	return "?" + strings.Map(func(r rune) rune {
		if r == ' ' || r == '\t' || r == '\n' {
			return '_'
		}
		return r
	}, fmt.Sprintf("%T", v))
}

var c19Underlying = map[reflect.Kind]reflect.Type{
	reflect.Int: reflect.TypeOf(int(0)), reflect.Int8: reflect.TypeOf(int8(0)), reflect.Int16: reflect.TypeOf(int16(0)),
	reflect.Int32: reflect.TypeOf(int32(0)), reflect.Int64: reflect.TypeOf(int64(0)),
	reflect.Uint: reflect.TypeOf(uint(0)), reflect.Uint8: reflect.TypeOf(uint8(0)), reflect.Uint16: reflect.TypeOf(uint16(0)),
	reflect.Uint32: reflect.TypeOf(uint32(0)), reflect.Uint64: reflect.TypeOf(uint64(0)), reflect.Uintptr: reflect.TypeOf(uintptr(0)),
	reflect.Float32: reflect.TypeOf(float32(0)), reflect.Float64: reflect.TypeOf(float64(0)),
	reflect.Bool: reflect.TypeOf(false), reflect.String: reflect.TypeOf(""),
}

func c19Bits(f float64) string {
	if math.IsNaN(f) {
		return "nan"
	}
	return fmt.Sprintf("%016x", math.Float64bits(f))
}

// ---------------------------------------------------------------- signatures

var c19ErrorType = reflect.TypeOf((*error)(nil)).Elem()

var c19KindNames = map[reflect.Kind]string{
	reflect.Int: "int", reflect.Int8: "int8", reflect.Int16: "int16", reflect.Int32: "int32", reflect.Int64: "int64",
	reflect.Uint: "uint", reflect.Uint8: "uint8", reflect.Uint16: "uint16", reflect.Uint32: "uint32", reflect.Uint64: "uint64",
	reflect.Uintptr: "uintptr", reflect.Float32: "f32", reflect.Float64: "f64", reflect.Bool: "bool", reflect.String: "str",
}

func c19Hash(s string) string {
	h := fnv.New32a()
	h.Write([]byte(s))
	return strconv.Itoa(int(h.Sum32()%900000) + 10)
}

// c19Ty encodes a reflect.Type in the model's type language.
func c19Ty(t reflect.Type) string {
	if n, ok := c19KindNames[t.Kind()]; ok {
		if t.PkgPath() != "" {
			return "N" + c19Hash(t.String()) + "(" + n + ")" // a defined type of primitive kind
		}
		return n
	}
	switch t.Kind() {
	case reflect.Interface:
		if t.NumMethod() == 0 && t.PkgPath() == "" {
			return "iface"
		}
		if t == c19ErrorType {
			return "error"
		}
		return "io" + c19Hash(t.String())
	case reflect.Slice:
		if t.PkgPath() == "" {
			return "S" + c19Ty(t.Elem())
		}
	case reflect.Map:
		if t == reflect.TypeOf(map[interface{}]interface{}{}) {
			return "emap"
		}
	}
	return "o" + c19Hash(t.String())
}

func c19Sig(t reflect.Type) string {
	enc := func(n int, at func(int) reflect.Type) string {
		if n == 0 {
			return "-"
		}
		parts := make([]string, n)
		for i := 0; i < n; i++ {
			parts[i] = c19Ty(at(i))
		}
		return strings.Join(parts, ",")
	}
	v := "N"
	if t.IsVariadic() {
		v = "V"
	}
	return enc(t.NumIn(), t.In) + ";" + v + ";" + enc(t.NumOut(), t.Out)
}

// c19Oracle is the platform's float→integer conversion for the given kind (the model uses it
// only where Go leaves the result implementation-defined).
// c19InRange: the platform's conversion result o (decimal) denotes exactly trunc(f) — which is the case
// if and only if trunc(f) is representable in the target kind.
func c19InRange(f float64, o string) bool {
	if math.IsNaN(f) || math.IsInf(f, 0) {
		return false
	}
	bi, ok := new(big.Int).SetString(o, 10)
	if !ok {
		return false
	}
	bf, _ := new(big.Float).SetFloat64(math.Trunc(f)).Int(nil)
	return bi.Cmp(bf) == 0
}

func c19Oracle(f float64, k reflect.Kind) string {
	switch k {
	case reflect.Int:
		return strconv.FormatInt(int64(int(f)), 10)
	case reflect.Int8:
		return strconv.FormatInt(int64(int8(f)), 10)
	case reflect.Int16:
		return strconv.FormatInt(int64(int16(f)), 10)
	case reflect.Int32:
		return strconv.FormatInt(int64(int32(f)), 10)
	case reflect.Int64:
		return strconv.FormatInt(int64(f), 10)
	case reflect.Uint:
		return strconv.FormatUint(uint64(uint(f)), 10)
	case reflect.Uint8:
		return strconv.FormatUint(uint64(uint8(f)), 10)
	case reflect.Uint16:
		return strconv.FormatUint(uint64(uint16(f)), 10)
	case reflect.Uint32:
		return strconv.FormatUint(uint64(uint32(f)), 10)
	case reflect.Uint64:
		return strconv.FormatUint(uint64(f), 10)
	case reflect.Uintptr:
		return strconv.FormatUint(uint64(uintptr(f)), 10)
	}
	return "-"
}

// ---------------------------------------------------------------- the bridged functions

type c19Target struct {
	name    string // name in the payload; "math.floor" style for stdlib, "c19.<n>" for synthetic
	adapter util.ECALFunction
	ftype   reflect.Type // nil for the notfunc targets
	sig     string
	body    string
	plugin  bool // registered through AddStdlibPluginFunc / LoadStdlibPlugin
	fv      reflect.Value // generated stdlib: the wrapped Go function itself
}

var c19Targets []*c19Target
var c19ByName = map[string]*c19Target{}

func c19Setup() {
	c19BuildUniverse()
	stdlib.AddStdlibPkg("c19", "C19 synthetic bridged functions")
	syn := c19Synthetic()
	for i, v := range c19NumericValues() {
		v := v
		syn = append(syn,
			c19Fn{fmt.Sprintf("z_ifacek%d", i), func() interface{} { c19rec(); return v }, "k:" + c19Canon(v, 0)},
			c19Fn{fmt.Sprintf("z_iface2k%d", i), func() (string, interface{}, error) { c19rec(); return "a", v, nil }, "k:s:61|" + c19Canon(v, 0) + "|z"})
	}
	for _, f := range syn {
		// ECAL identifiers have no underscore
		short := strings.ReplaceAll(f.name, "_", "")
		if _, dup := c19ByName["c19."+short]; dup {
			panic("duplicate synthetic function name " + short)
		}
		t := &c19Target{name: "c19." + short, body: f.body}
		c19ByName[t.name] = t
		rv := reflect.ValueOf(f.fn)
		t.adapter = stdlib.NewECALFunctionAdapter(rv, "synthetic")
		if f.body == "notfunc" {
			t.sig = "-;N;-"
		} else {
			t.ftype = rv.Type()
			t.sig = c19Sig(t.ftype)
		}
		if err := stdlib.AddStdlibFunc("c19", short, t.adapter); err != nil {
			panic(err)
		}
		c19Targets = append(c19Targets, t)
	}
	c19RegisterReentry()
	// plugin functions, through the real registration machinery
	c19Targets = append(c19Targets, c19RegisterPlugins()...)
	// every function of the generated stdlib
	_, _, funcs := stdlib.GetStdlibSymbols()
	sort.Strings(funcs)
	for _, name := range funcs {
		if strings.HasPrefix(name, "c19.") || strings.HasPrefix(name, "c19p.") || strings.HasPrefix(name, "x.") {
			continue
		}
		fo, ok := stdlib.GetStdlibFunc(name)
		if !ok {
			panic("stdlib symbol without function: " + name)
		}
		ad, ok := fo.(*stdlib.ECALFunctionAdapter)
		if !ok {
			continue // not bridged through the adapter
		}
		// the wrapped reflect.Value is the first (unexported) field of the adapter
		fld := reflect.ValueOf(ad).Elem().Field(0)
		fv := *(*reflect.Value)(unsafe.Pointer(fld.UnsafeAddr()))
		t := &c19Target{name: name, adapter: ad, ftype: fv.Type(), sig: c19Sig(fv.Type()), body: "opaque", fv: fv}
		c19Targets = append(c19Targets, t)
	}
	for _, t := range c19Targets {
		c19ByName[t.name] = t
	}
}

func c19Payload(t *c19Target, mode string, idx []int) string {
	var sb strings.Builder
	sb.WriteString(t.name + " " + mode + " " + t.sig + " " + t.body)
	for i, u := range idx {
		v := c19Universe[u].v
		tok := c19Canon(v, 0)
		if f, ok := v.(float64); ok {
			o := "-"
			if t.ftype != nil && i < t.ftype.NumIn() {
				o = c19Oracle(f, t.ftype.In(i).Kind())
				if o != "-" && !c19InRange(f, o) {
					o += "!" // out of the kind's range: Go leaves the converted value implementation-defined
				}
			}
			tok += ":" + o
		}
		sb.WriteString(" " + tok)
	}
	return sb.String()
}

// c19Args maps the argument tokens of a payload back to universe indices.
func c19Args(toks []string) []int {
	var idx []int
	for _, tok := range toks {
		if strings.HasPrefix(tok, "n:") {
			tok = tok[:strings.LastIndex(tok, ":")]
			c19Marks = append(c19Marks, strings.HasSuffix(toks[len(idx)], "!"))
		} else {
			c19Marks = append(c19Marks, false)
		}
		found, ok := c19CanonIdx[tok]
		if !ok {
			panic("argument not in the universe: " + tok)
		}
		idx = append(idx, found)
	}
	return idx
}

// c19Marks: per argument of the current case, is it converted out of its parameter kind's range? There the
// value is implementation-defined: the received value at that position, and the returned one where the body
// hands the argument back, are printed as "~".
var c19Marks []bool

func c19Mark(i int) bool { return i < len(c19Marks) && c19Marks[i] }

func c19AnyMark() bool {
	for _, m := range c19Marks {
		if m {
			return true
		}
	}
	return false
}

func c19RecvStr(opaque bool) string {
	if !c19Reached {
		if opaque {
			return "recv=?" // stdlib functions do not report; the model assumes they were reached iff a value came back
		}
		return "recv=-"
	}
	parts := make([]string, len(c19Recv))
	for i, v := range c19Recv {
		parts[i] = c19Canon(v, 0)
		if c19Mark(i) {
			parts[i] = "~"
		}
	}
	return "recv=[" + strings.Join(parts, ";") + "]"
}

func c19Scope() eparser.Scope {
	vs := newGlobalScope()
	for _, u := range c19Universe {
		vs.SetValue(u.src, u.v)
	}
	return vs
}

var c19Erp *interpreter.ECALRuntimeProvider

// c19Eval is evalProgram with ONE runtime provider per process: every provider starts a cron
// goroutine that is never stopped, and a thorough run evaluates some 10^5 programs per process.
func c19Eval(src string) (interface{}, error) {
	if c19Erp == nil {
		c19Erp = interpreter.NewECALRuntimeProvider("t", nil, &memLog{})
	}
	ast, err := eparser.ParseWithRuntime("t", src, c19Erp)
	if err != nil {
		return nil, err
	}
	if err = ast.Runtime.Validate(); err != nil {
		return nil, err
	}
	return ast.Runtime.Eval(c19Scope(), make(map[string]interface{}), c19Erp.NewThreadID())
}

// c19StdlibValue: a function of the generated stdlib returned v through the bridge. The same Go function is
// called directly (reflect) on the arguments converted to its parameter types; both results, converted to ECAL
// numbers, must be identical (float bits). "?" = identical (what the model, which does not know the body,
// prints), otherwise the difference. Not compared where an argument is converted out of range.
func c19StdlibValue(t *c19Target, idx []int, v interface{}) string {
	if c19AnyMark() || !t.fv.IsValid() || len(idx) != t.ftype.NumIn() {
		return "?"
	}
	in := make([]reflect.Value, len(idx))
	for i, u := range idx {
		a := reflect.ValueOf(c19Universe[u].v)
		if !a.IsValid() {
			return "?"
		}
		if a.Kind() == reflect.Float64 {
			switch t.ftype.In(i).Kind() {
			case reflect.Int, reflect.Int8, reflect.Int16, reflect.Int32, reflect.Int64,
				reflect.Uint, reflect.Uint8, reflect.Uint16, reflect.Uint32, reflect.Uint64, reflect.Uintptr,
				reflect.Float32, reflect.Float64:
				a = a.Convert(t.ftype.In(i))
			}
		}
		if a.Type() != t.ftype.In(i) {
			return "?"
		}
		in[i] = a
	}
	outs := t.fv.Call(in)
	want := make([]interface{}, len(outs))
	for i, o := range outs {
		switch o.Kind() {
		case reflect.Int, reflect.Int8, reflect.Int16, reflect.Int32, reflect.Int64:
			want[i] = float64(o.Int())
		case reflect.Uint, reflect.Uint8, reflect.Uint16, reflect.Uint32, reflect.Uint64, reflect.Uintptr:
			want[i] = float64(o.Uint())
		case reflect.Float32, reflect.Float64:
			want[i] = o.Float()
		default:
			want[i] = o.Interface()
		}
	}
	var w interface{} = want
	if len(want) == 1 {
		w = want[0]
	}
	CountRun("stdlib value compared with a direct call")
	if g, e := c19Canon(v, 0), c19Canon(w, 0); g != e {
		return "STDLIB-VALUE-DIFFERS:" + g + "/direct:" + e
	}
	return "?"
}

// c19Run wraps the execution of a case: a panic that escapes the code under test is the result "X" — also a
// panic(nil) under GODEBUG=panicnil=1, for which recover() returns nil (hence the completion flag).
func c19Run(payload string) (res string) {
	finished := false
	defer func() {
		if r := recover(); r != nil || !finished {
			CountRun("escaped panic")
			res = "X"
		}
	}()
	res = c19RunCase(payload)
	finished = true
	return res
}

func c19RunCase(payload string) (res string) {
	f := strings.Split(payload, " ")
	if len(f) > 4 && f[1] == "R" {
		return c19RunReentry(f[2:])
	}
	t := c19ByName[f[0]]
	if t == nil {
		return "unknown-function"
	}
	mode := f[1]
	c19Marks = nil
	idx := c19Args(f[4:])
	// d / i / t: the same under GODEBUG=panicnil=1 — the semantics of panic(nil) in every binary whose main
	// module declares go < 1.21 (as /repo's go.mod does): recover() returns nil. The runtime re-reads the
	// setting when the environment changes.
	if mode == strings.ToLower(mode) {
		old := os.Getenv("GODEBUG")
		os.Setenv("GODEBUG", "panicnil=1")
		defer os.Setenv("GODEBUG", old)
		mode = strings.ToUpper(mode)
	}
	opaque := t.body == "opaque"
	c19Reached, c19Recv = false, nil
	CountRun("mode " + mode)
	val := func(v interface{}) string {
		if opaque {
			return c19StdlibValue(t, idx, v)
		}
		// which returned positions hand a marked argument back (same rule as the model driver)
		var mask []bool
		switch {
		case t.body == "echo" || strings.HasPrefix(t.body, "echo+"):
			mask = c19Marks
		case t.body == "vlen" && t.ftype != nil:
			n := t.ftype.NumIn() - 1
			if n > len(c19Marks) {
				n = len(c19Marks)
			}
			mask = c19Marks[:n]
		}
		m := func(i int) bool { return i < len(mask) && mask[i] }
		nres := 0
		if t.ftype != nil {
			nres = t.ftype.NumOut()
			if nres > 0 && t.ftype.Out(nres-1) == c19ErrorType {
				nres--
			}
		}
		if l, ok := v.([]interface{}); ok && nres != 1 {
			parts := make([]string, len(l))
			for i, e := range l {
				parts[i] = c19Canon(e, 1)
				if m(i) {
					parts[i] = "~"
				}
			}
			return "l[" + strings.Join(parts, ",") + "]"
		}
		if m(0) {
			return "~"
		}
		return c19Canon(v, 0)
	}
	if mode == "D" {
		args := make([]interface{}, len(idx))
		for i, u := range idx {
			args[i] = c19Universe[u].v
		}
		ret, err := t.adapter.Run("c19", c19DirectScope, map[string]interface{}{}, 0, args)
		if err != nil {
			who := "b"
			if c19ErrToken(err) != "" {
				who = "f"
			}
			r := c19RecvStr(false)
			if opaque {
				r = "recv=-"
			}
			return "E " + who + " " + r
		}
		return "V " + val(ret) + " " + c19RecvStr(opaque)
	}
	names := make([]string, len(idx))
	for i, u := range idx {
		names[i] = c19Universe[u].src
		if mode == "I" && c19Universe[u].lit != "" {
			names[i] = c19Universe[u].lit
		}
	}
	call := t.name + "(" + strings.Join(names, ", ") + ")"
	src := call
	if mode == "T" {
		src = "r := \"c19-none\"\ntry {\n  r := " + call + "\n} except e {\n  r := \"c19-caught\"\n}\nr"
	}
	ret, err := c19Eval(src)
	if err != nil {
		if _, ok := err.(*util.RuntimeError); !ok {
			return fmt.Sprintf("NOT-A-RUNTIME-ERROR %T", err)
		}
		r := c19RecvStr(false)
		if opaque {
			r = "recv=-"
		}
		return "E " + r
	}
	if s, ok := ret.(string); ok && s == "c19-caught" {
		r := c19RecvStr(false)
		if opaque {
			r = "recv=-"
		}
		return "C " + r
	}
	return "V " + val(ret) + " " + c19RecvStr(opaque)
}

// ---------------------------------------------------------------- generator

func c19Gen(g *Gen) {
	nU := len(c19Universe)
	emit := func(t *c19Target, mode string, idx []int) {
		// math.Jn / math.Yn iterate |n| times: an order beyond 256 is a slow BODY (minutes), which is
		// not what this property is about — such vectors are left out for these two functions
		if (t.name == "math.jn" || t.name == "math.yn") && len(idx) > 0 {
			if f, ok := c19Universe[idx[0]].v.(float64); ok && (math.Abs(f) > 256 || math.IsNaN(f)) {
				g.Count("skipped: slow body (jn/yn of huge order)")
				return
			}
		}
		g.Count("mode " + mode)
		g.Count(fmt.Sprintf("len %d", len(idx)))
		if t.body == "opaque" {
			g.Count("stdlib function")
		} else if t.plugin {
			g.Count("plugin function")
		} else {
			g.Count("synthetic function")
		}
		g.Emit(c19Payload(t, mode, idx))
	}
	// exhaustive over the first `lim` universe values
	var exhL func(t *c19Target, mode string, prefix []int, n, lim int)
	exhL = func(t *c19Target, mode string, prefix []int, n, lim int) {
		if len(prefix) == n {
			emit(t, mode, append([]int(nil), prefix...))
			return
		}
		for u := 0; u < lim; u++ {
			exhL(t, mode, append(prefix, u), n, lim)
		}
	}
	sample := func(t *c19Target, mode string, n, count int) {
		for c := 0; c < count; c++ {
			idx := make([]int, n)
			for i := range idx {
				idx[i] = g.R.Intn(nU)
				// bias towards numbers so that longer vectors get past the first parameters
				if g.R.Intn(3) != 0 {
					idx[i] = c19Numbers[g.R.Intn(len(c19Numbers))]
				}
			}
			emit(t, mode, idx)
		}
	}
	c19GenReentry(g) // first: few and small
	dExh, iExh, dSample, iSample := 2, 2, 40, 20
	if g.Thorough() {
		dExh, iExh, dSample, iSample = 3, 2, 600, 300
	}
	// panic(nil) under both semantics: D/I/T run with the harness's own (go >= 1.21: an ordinary panic),
	// d/i/t with GODEBUG=panicnil=1 (recover() returns nil) — there the body is described as "panicnil"
	for _, name := range []string{"c19.xpanicnil", "c19p.fnpanicnil", "c19.xpanicstr", "c19.zint", "c19p.fnconst"} {
		t := c19ByName[name]
		if t == nil {
			panic("no target " + name)
		}
		tt := *t
		if strings.HasSuffix(name, "panicnil") {
			tt.body = "panicnil"
		}
		for _, mode := range []string{"d", "i", "t"} {
			exhL(&tt, mode, nil, 0, nU)
			exhL(&tt, mode, nil, 1, c19Core)
		}
	}
	// all vectors up to length 2 over the whole universe (directly), the longer ones over the core universe
	// per position: the whole universe where the function has a parameter, the core universe behind its
	// last parameter (there every value is just "one argument too many")
	var exhP func(t *c19Target, mode string, prefix []int, n int)
	exhP = func(t *c19Target, mode string, prefix []int, n int) {
		if len(prefix) == n {
			emit(t, mode, append([]int(nil), prefix...))
			return
		}
		lim := c19Core
		if t.ftype != nil && len(prefix) < t.ftype.NumIn() || t.plugin && len(prefix) == 0 {
			lim = nU
		}
		for u := 0; u < lim; u++ {
			exhP(t, mode, append(prefix, u), n)
		}
	}
	for n := 0; n <= dExh; n++ { // small cases first
		for _, t := range c19Targets {
			if n <= 2 {
				exhP(t, "D", nil, n)
			} else {
				exhL(t, "D", nil, n, c19Core)
			}
		}
	}
	for n := 0; n <= iExh; n++ {
		for _, t := range c19Targets {
			lim := nU
			if n >= 2 {
				lim = c19Core
				if t.body == "opaque" && !g.Thorough() {
					// generated stdlib through the interpreter: length 2 sampled in the quick tier
					// (exhaustive directly, where the values are compared with a direct call)
					sample(t, "I", n, 60)
					sample(t, "T", n, 60)
					continue
				}
			}
			if n <= 1 && lim == nU {
				exhP(t, "I", nil, n)
				exhP(t, "T", nil, n)
				continue
			}
			exhL(t, "I", nil, n, lim)
			exhL(t, "T", nil, n, lim)
		}
	}
	// directed: functions with three or more parameters get every vector of numbers of their own length
	for _, t := range c19Targets {
		if t.ftype == nil || t.ftype.NumIn() < 3 || t.ftype.NumIn() <= dExh {
			continue
		}
		n := t.ftype.NumIn()
		idx := make([]int, n)
		var rec func(i int)
		rec = func(i int) {
			if i == n {
				emit(t, "D", append([]int(nil), idx...))
				return
			}
			for u := range c19Universe {
				if _, ok := c19Universe[u].v.(float64); ok {
					idx[i] = u
					rec(i + 1)
				}
			}
		}
		if n <= 3 {
			rec(0)
		}
	}
	for _, t := range c19Targets {
		sample(t, "D", dExh+1, dSample)
		sample(t, "I", iExh+1, iSample)
		sample(t, "T", iExh+1, iSample)
		if g.Thorough() {
			sample(t, "I", iExh+2, iSample/2)
			sample(t, "T", iExh+2, iSample/2)
			sample(t, "D", dExh+2, dSample/2)
		}
	}
}

func init() {
	register("C19", &Prop{
		Timeout:          5 * time.Second,
		Setup:            c19Setup,
		Gen:              c19Gen,
		Run:              c19Run,
		Tool:             c19Extract,
		NoRestartOnPanic: true,
	})
}
