package main

// C17 — file imports cannot escape the configured root directory.
//
// Three kinds of cases (strings hex encoded, "-" = empty):
//
//	P <a> <b>
//	    the path primitives themselves: result "<Clean a> <Join a b> <Rel a b | ERR>"
//	    from Go's path/filepath — ties the model's clean/join/rel to the library.
//	R <cwd> <files> <root> <rootpos> <pre|~> <depth> <alphabet>
//	    util.FileImportLocator{Root: root}.Resolve(path) for the paths `pre` followed by every
//	    sequence of exactly `depth` alphabet elements, joined by "/" ("~": no pre), executed
//	    with working directory B/<cwd> in a directory tree created under the harness's working
//	    directory (a per-run scratch directory). `files` lists the files of the tree; every
//	    file's content names its own position, so the result says which file came back:
//	    per path "E" (error), "I<n>" (file n, which lies inside B/<rootpos>) or "O<n>"
//	    (file n, OUTSIDE the root — a violation whatever the model says), comma separated.
//	    A string starting with "@" stands for the absolute directory B followed by the rest.
//	I …  the same through the interpreter: `import "<path>" as x` with that locator.
//	J <cwd> <files+modules> <root> <rootpos> <srcname> <path>
//	    the import statement `import "<path>" as x` in an entry program parsed under the source
//	    NAME <srcname> (plain, with directories, starting with "..", absolute, equal to a file
//	    outside the root), with a locator rooted at <root>. The file list also names MODULE files
//	    ("<pos>><inner>": the file at <pos> contains `import "<inner>" as y; p := y.p`), so an
//	    import may lead to a nested import whose source name is the import path. Result E/I<n>/O<n>
//	    of the sentinel finally reached. Model: every import statement resolves its path alone
//	    through the CONFIGURED locator; the source name has no influence.
//	T <cwd> <files> <dir> <modelroot> <rootpos> <pre|~> <depth> <alphabet>
//	    the real cli/tool: CLIInterpreter{Dir: <dir>}.CreateRuntimeProvider, then an entry file
//	    with the import statement loaded by LoadInitialFile, for every path as in R. <dir> is an
//	    existing directory, a MISSING one, a DANGLING symlink, "", "." or a symlink to a directory
//	    (then <modelroot> is the link's target spelled lexically; symlinks are otherwise out of
//	    scope). Model: the locator's root is the configured string itself — a missing / dangling
//	    root never falls back to another directory: every import fails.

import (
	"flag"
	"fmt"
	"io"
	"os"
	"path/filepath"
	"sort"
	"strconv"
	"strings"
	"sync"
	"time"

	"github.com/krotik/ecal/cli/tool"
	"github.com/krotik/ecal/interpreter"
	"github.com/krotik/ecal/parser"
	"github.com/krotik/ecal/util"
	"github.com/krotik/ecal/verifhook"
)

var c17Base string // absolute directory B of this process's tree

// the files of the tree, relative to B; content of each: `p := "<its relative path>"`
var c17Files = []string{
	"top/root/nm",
	"top/root/a.b/nm",
	"top/root/a b",
	"top/root/..x",
	"top/root/sub/nm",
	"top/root/sub/root/nm",
	"top/root/root/nm",
	"top/root/rootX/nm",
	"top/rootX/nm",      // sibling whose name has the root's name as a prefix
	"top/rootX/root/nm", // the root's name below the sibling
	"top/nm",            // parent
	"top/a.b/nm",
	"nm",     // grandparent
	"abs/nm", // somewhere else, addressed absolutely
	"abs/root/nm",
	"top/r t/nm", // directories with odd names, used as roots
	"top/r.t/nm",
	"top/..r/nm",
	"top/ r/nm",
}

// module files: position and the path their import statement names
var c17Modules = [][2]string{
	{"top/root/chain1", "./nm"},
	{"top/root/sub/chain2", "./nm"},
	{"top/root/sub/chain3", "../nm"},
	{"top/root/sub/chain4", "sub/nm"},
	{"top/root/a.b/chain5", "./../nm"},
	{"top/root/chain6", "sub/chain2"},
	{"top/root/sub/chain7", "./chain2"},
	{"top/chainout", "./nm"},
	{"top/root/sub/sub/chain8", "./root/nm"},
}

func c17FilesWithModules() string {
	all := append([]string{}, c17Files...)
	for _, m := range c17Modules {
		all = append(all, m[0]+">"+m[1])
	}
	return strings.Join(all, ",")
}

var c17Alphabet = []string{"nm", ".", "..", "", "/nm", "a.b", "a b", "..x", "rootX", "root"}

// elements that become ".." (or another directory) under a rewrite AFTER the containment test: environment
// expansion ($u is unset), percent decoding, home expansion (HOME = B/abs), backslash conversion,
// dot / blank trimming, NUL truncation. For Clean and Rel they are ordinary names.
var c17Tricks = []string{"$u..", "${u}..", "%2e%2e", "..%2f", "~", "..\\", "...", ".. ", " ..", "..\x00"}

type c17Root struct{ cwd, root, pos string }

// root spellings with the position (relative to B) they denote for that working directory
var c17Roots = []c17Root{
	{"top", "@/top/root", "top/root"},   // absolute
	{"top", "root", "top/root"},         // relative
	{"top", ".", "top"},                 // "."
	{"top/root", ".", "top/root"},       // "." with the root as working directory
	{"top", "root/", "top/root"},        // trailing slash
	{"top", "@/top/root/", "top/root"},  // absolute, trailing slash
	{"top", "root/sub", "top/root/sub"}, // nested
	{"top", "@/top/root/sub", "top/root/sub"},
	{"top", "root/sub/..", "top/root"}, // containing ".."
	{"top", "../top/root", "top/root"}, // leading ".."
	{"top", "@/top/rootX/../root", "top/root"},
	{"top", "./root", "top/root"},
	{"top", "root//sub/./", "top/root/sub"}, // repeated separators, "."
	{"top", "", "top"},                      // empty root = working directory
	{"top", "..", ""},                       // parent of the working directory
	{"top/root", "../rootX/../root", "top/root"},
	{"top/root/sub", "..", "top/root"},
	{"top", "@", ""},
	{"top", "r t", "top/r t"}, // odd names as roots
	{"top", "r.t", "top/r.t"},
	{"top", "..r", "top/..r"},
	{"top", " r", "top/ r"},
	{"top", "@/top/r t/", "top/r t"},
	{"top/r t", "../r t/.", "top/r t"},
	{"top", "/", "^/"}, // roots above the tree: every file of the tree is inside
	{"top", "@/..", "^1"},
	{"top", "../..", "^1"},
	{"top", "../../..", "^2"},
	{"top", "@/../..", "^2"},
	{"top", "missing", "top/missing"}, // roots that do not exist / are files / have odd bytes (the locator is lexical)
	{"top", "missing/deeper/", "top/missing/deeper"},
	{"top", "@/top/missing", "top/missing"},
	{"top", "root/nm", "top/root/nm"},
	{"top", "root/nm/below", "top/root/nm/below"},
	{"top", "r:t", "top/r:t"},
	{"top", "r\xc3\xa9\xff", "top/r\xc3\xa9\xff"},
	{"top/root", "../missing/../root", "top/root"},
	{"top", "r\x00t", "top/r\x00t"}, // a NUL byte in the root
}

var (
	c17Hook   bool // the tree under test has the c17.open instrumentation point
	c17EvMu   sync.Mutex
	c17Events []string
	c17Par1   string // parent of B
	c17Par2   string // grandparent of B
)

func c17TakeEvents() []string {
	c17EvMu.Lock()
	defer c17EvMu.Unlock()
	ev := c17Events
	c17Events = nil
	return ev
}

// c17Canon names an opened path independently of where the scratch directory lies: every occurrence of
// the path of B / parent of B / grandparent of B (without the leading slash) becomes @B / @1 / @2, a
// remaining name of B becomes @: (the model does the same with its own B = /^2/^1/^B).
func c17Canon(q string) string {
	q = strings.ReplaceAll(q, c17Base[1:], "@B")
	q = strings.ReplaceAll(q, c17Par1[1:], "@1")
	q = strings.ReplaceAll(q, c17Par2[1:], "@2")
	return strings.ReplaceAll(q, filepath.Base(c17Base), "@:")
}

// c17Obs renders the observation of one path: which strings reached the open, and what came back.
func c17Obs(withEvents bool, result string) string {
	return c17ObsEv(c17TakeEvents(), withEvents, result)
}

// c17Short: lines that carry many paths print a 24 bit FNV-1a digest of each opened string instead of the string
var c17Short bool

func c17ObsEv(ev []string, withEvents bool, result string) string {
	if !c17Hook || !withEvents {
		return "?=" + result
	}
	if len(ev) == 0 {
		return "-=" + result
	}
	for i := range ev {
		ev[i] = c17Canon(ev[i])
	}
	if c17Short {
		h := uint32(2166136261)
		for _, b := range []byte(strings.Join(ev, "|")) {
			h = (h ^ uint32(b)) * 16777619
		}
		return fmt.Sprintf("%06x=%s", h&0xffffff, result)
	}
	for i := range ev {
		ev[i] = hx(ev[i])
	}
	return strings.Join(ev, "|") + "=" + result
}

func c17Setup() {
	wd, err := os.Getwd()
	check(err)
	wd, err = filepath.EvalSymlinks(wd) // the kernel's name of the directory (compared with getcwd below)
	check(err)
	c17Base, err = os.MkdirTemp(wd, "c17-tree-")
	check(err)
	c17Par1 = filepath.Dir(c17Base)
	c17Par2 = filepath.Dir(c17Par1)
	if c17Par2 == "/" || c17Par1 == "/" {
		check(fmt.Errorf("the scratch directory %s is not deep enough", c17Base))
	}
	os.Unsetenv("u")
	os.Setenv("HOME", filepath.Join(c17Base, "abs"))
	for _, f := range c17Files {
		p := filepath.Join(c17Base, f)
		check(os.MkdirAll(filepath.Dir(p), 0755))
		check(os.WriteFile(p, []byte("p := \""+f+"\"\n"), 0644))
	}
	check(os.MkdirAll(filepath.Join(c17Base, "top/root/empty"), 0755))
	for _, m := range c17Modules {
		p := filepath.Join(c17Base, m[0])
		check(os.MkdirAll(filepath.Dir(p), 0755))
		check(os.WriteFile(p, []byte("import \""+m[1]+"\" as y\np := y.p\n"), 0644))
	}
	// symbolic links used only as configured roots of T cases (their names are in no path alphabet)
	check(os.Symlink("nowhere", filepath.Join(c17Base, "top/dlink")))
	check(os.Symlink("root/sub", filepath.Join(c17Base, "top/lnin")))
	check(os.Symlink("../abs", filepath.Join(c17Base, "top/lnout")))
	// is the instrumentation point there? (a tree without it is compared on content only)
	if verifhook.Enabled {
		verifhook.SetHandler(func(point string, args ...interface{}) {
			if point == "c17.open" && len(args) == 1 {
				c17EvMu.Lock()
				c17Events = append(c17Events, fmt.Sprint(args[0]))
				c17EvMu.Unlock()
			}
		})
		// present if the source of package util names the point (a tree that breaks the test must not look
		// hookless), or if it fires on a probe
		if ents, err := os.ReadDir(filepath.Join(repoDir(), "util")); err == nil {
			for _, e := range ents {
				if strings.HasSuffix(e.Name(), ".go") && !strings.HasSuffix(e.Name(), "_test.go") {
					if b, err := os.ReadFile(filepath.Join(repoDir(), "util", e.Name())); err == nil && strings.Contains(string(b), `"c17.open"`) {
						c17Hook = true
					}
				}
			}
		}
		for _, p := range []string{"nm", "../nm", "sub/nm"} {
			(&util.FileImportLocator{Root: filepath.Join(c17Base, "top/root")}).Resolve(p)
		}
		if len(c17TakeEvents()) > 0 {
			c17Hook = true
		}
	}
}

func c17Subst(s string) string {
	if strings.HasPrefix(s, "@:") { // the name of B itself
		return filepath.Base(c17Base) + s[2:]
	}
	if strings.HasPrefix(s, "@") {
		return c17Base + s[1:]
	}
	return s
}

// c17Classify maps a returned file content to I<n>/O<n>.
func c17Classify(content, rootpos string) string {
	for i, f := range c17Files {
		if content == "p := \""+f+"\"\n" || content == f {
			in := rootpos == "" || strings.HasPrefix(rootpos, "^") || f == rootpos || strings.HasPrefix(f, rootpos+"/")
			if in {
				CountRun("opened-inside")
				return "I" + strconv.Itoa(i)
			}
			CountRun("opened-OUTSIDE")
			return "O" + strconv.Itoa(i)
		}
	}
	return "UNKNOWN-CONTENT:" + hx(content)
}

// c17ClassifyQuiet is c17Classify without the run counters (used from several goroutines)
func c17ClassifyQuiet(content, rootpos string) string {
	for i, f := range c17Files {
		if content == "p := \""+f+"\"\n" {
			if rootpos == "" || strings.HasPrefix(rootpos, "^") || f == rootpos || strings.HasPrefix(f, rootpos+"/") {
				return "I" + strconv.Itoa(i)
			}
			return "O" + strconv.Itoa(i)
		}
	}
	return "UNKNOWN-CONTENT"
}

func c17Resolve(il *util.FileImportLocator, path, rootpos string) string {
	c17TakeEvents()
	res, err := il.Resolve(path)
	if err != nil {
		CountRun("error")
		ev := c17TakeEvents()
		if res != "" {
			return c17ObsEv(ev, true, "E+") // content handed back together with an error
		}
		if len(ev) == 0 && c17Hook {
			// no open and an error: the locator's own rejection or the error of filepath.Rel handed on - the
			// property does not tell them apart (and their texts are free to change), so neither does the tie
			return c17ObsEv(ev, true, "rej")
		}
		return c17ObsEv(ev, true, "E")
	}
	return c17Obs(true, c17Classify(res, rootpos))
}

func c17Import(root, path, rootpos string) string {
	return c17ImportNamed("t", &util.FileImportLocator{Root: root}, path, rootpos)
}

// c17ImportNamed evaluates the import statement in a program parsed under the source name srcname
// (il == nil: the provider's default locator).
func c17ImportNamed(srcname string, il *util.FileImportLocator, path, rootpos string) string {
	c17TakeEvents()
	return c17Obs(true, c17ImportResult(srcname, il, path, rootpos))
}

func c17ImportResult(srcname string, il *util.FileImportLocator, path, rootpos string) string {
	var erp *interpreter.ECALRuntimeProvider
	if il == nil {
		erp = interpreter.NewECALRuntimeProvider("t", nil, &memLog{})
	} else {
		erp = interpreter.NewECALRuntimeProvider("t", il, &memLog{})
	}
	src := "import \"" + path + "\" as x\n"
	vs := newGlobalScope()
	if !c17PlainLiteral(path) { // hand the bytes over as a value: the path expression is an interpolation
		src = "import \"{{c17p}}\" as x\n"
		vs.SetValue("c17p", path)
	}
	ast, err := parser.ParseWithRuntime(srcname, src, erp)
	if err != nil {
		return "PARSE-ERROR " + oneLine(err.Error())
	}
	if err = ast.Runtime.Validate(); err != nil {
		return "VALIDATE-ERROR " + oneLine(err.Error())
	}
	if _, err = ast.Runtime.Eval(vs, make(map[string]interface{}), erp.NewThreadID()); err != nil {
		CountRun("import-error")
		return "E"
	}
	x, ok, _ := vs.GetValue("x")
	if !ok {
		return "NO-X"
	}
	m, ok := x.(map[interface{}]interface{})
	if !ok {
		return fmt.Sprintf("X-NOT-MAP %T", x)
	}
	return c17Classify(fmt.Sprint(m["p"]), rootpos)
}

// c17Tool drives the real command line interpreter: the configured directory goes through
// CLIInterpreter.CreateRuntimeProvider, the import statement through an entry file and LoadInitialFile.
func c17Tool(tin *tool.CLIInterpreter, path, rootpos string, withEvents bool) string {
	c17TakeEvents()
	return c17Obs(withEvents, c17ToolResult(tin, path, rootpos))
}

func c17EntryFile(path string) string {
	entry := filepath.Join(c17Base, "t_entry.ecal")
	if !c17PlainLiteral(path) {
		path = "?" // T / U lines only carry plain paths
	}
	check(os.WriteFile(entry, []byte("import \""+path+"\" as x\n"), 0644))
	return entry
}

func c17ToolResult(tin *tool.CLIInterpreter, path, rootpos string) string {
	if tin.EntryFile == "" {
		tin.EntryFile = c17EntryFile(path)
	}
	err := tin.LoadInitialFile(tin.RuntimeProvider.NewThreadID())
	tin.EntryFile = ""
	tin.RuntimeProvider.Processor.Finish()
	if err != nil {
		CountRun("tool-import-error")
		return "E"
	}
	x, ok, _ := tin.GlobalVS.GetValue("x")
	if !ok {
		return "NO-X"
	}
	m, ok := x.(map[interface{}]interface{})
	if !ok {
		return fmt.Sprintf("X-NOT-MAP %T", x)
	}
	return c17Classify(fmt.Sprint(m["p"]), rootpos)
}

type c17Term struct{ out strings.Builder }

func (t *c17Term) WriteString(s string) { t.out.WriteString(s) }

// c17CLI runs the command line interpreter the way `ecal run` does: CLIInterpreter.Interpret(false), i.e.
// ParseArgs over `ecal run [-dir <dir>] -loglevel Error [<entry file>]`, LoadStdlibPlugins, CreateTerm,
// CreateRuntimeProvider, LoadInitialFile. With console = true no entry file is given and the import statement
// is typed at the console (HandleInput).
func c17CLI(dir string, hasDir bool, path string, console bool, rootpos string) string {
	args := []string{"ecal", "run"}
	if hasDir {
		args = append(args, "-dir", dir)
	}
	args = append(args, "-loglevel", "Error")
	if !console {
		args = append(args, c17EntryFile(path))
	}
	old := tool.VerifSetOsArgs(args)
	defer tool.VerifSetOsArgs(old)
	flag.CommandLine = flag.NewFlagSet("ecal", flag.ContinueOnError)
	flag.CommandLine.SetOutput(io.Discard)
	tin := tool.NewCLIInterpreter()
	tin.LogOut = io.Discard
	err := tin.Interpret(false)
	if tin.RuntimeProvider != nil {
		defer tin.RuntimeProvider.Processor.Finish()
	}
	if err != nil {
		CountRun("cli-error")
		return "E"
	}
	if console {
		if !c17PlainLiteral(path) {
			path = "?"
		}
		t := &c17Term{}
		tin.HandleInput(t, "import \""+path+"\" as x", tin.RuntimeProvider.NewThreadID())
	}
	x, ok, _ := tin.GlobalVS.GetValue("x")
	if !ok {
		CountRun("cli-error")
		return "E" // the console prints the error; nothing was imported
	}
	m, ok := x.(map[interface{}]interface{})
	if !ok {
		return fmt.Sprintf("X-NOT-MAP %T", x)
	}
	return c17Classify(fmt.Sprint(m["p"]), rootpos)
}

func c17NewTool(dir string) (*tool.CLIInterpreter, string) {
	tin := tool.NewCLIInterpreter()
	lf, ll := "", "Error"
	tin.Dir, tin.LogFile, tin.LogLevel = &dir, &lf, &ll
	if err := tin.CreateRuntimeProvider("c17"); err != nil {
		return nil, "CREATE-ERROR " + oneLine(err.Error())
	}
	return tin, ""
}

func c17PlainLiteral(path string) bool {
	for i := 0; i < len(path); i++ {
		c := path[i]
		if !(c >= 'a' && c <= 'z' || c >= 'A' && c <= 'Z' || c >= '0' && c <= '9' || strings.IndexByte(" ._/-@:", c) >= 0) {
			return false
		}
	}
	return true
}

func c17Ext(alpha []string, depth int) [][]string {
	res := [][]string{{}}
	for d := 0; d < depth; d++ {
		var next [][]string
		for _, e := range res {
			for _, a := range alpha {
				next = append(next, append(append([]string{}, e...), a))
			}
		}
		res = next
	}
	return res
}

func c17Run(payload string) string {
	c17Short = false
	f := strings.Split(payload, " ")
	f[0] = strings.ToUpper(f[0]) // a lower case kind: generated on a tree without the instrumentation point
	if f[0] == "P" && len(f) == 3 {
		a, b := unhx(f[1]), unhx(f[2])
		rel, err := filepath.Rel(a, b)
		r := "ERR"
		if err == nil {
			r = hx(rel)
		}
		return hx(filepath.Clean(a)) + " " + hx(filepath.Join(a, b)) + " " + r
	}
	if f[0] == "C" && len(f) == 8 {
		check(os.Chdir(filepath.Join(c17Base, unhx(f[1]))))
		rounds, _ := strconv.Atoi(f[7])
		il := &util.FileImportLocator{Root: c17Subst(unhx(f[3]))}
		paths := []string{c17Subst(unhx(f[6])), c17Subst(unhx(f[5]))} // outside first, inside second
		classes := make([]map[string]bool, 2)
		var wg sync.WaitGroup
		for gi := 0; gi < 2; gi++ {
			classes[gi] = map[string]bool{}
			wg.Add(1)
			go func(gi int) {
				defer wg.Done()
				for n := 0; n < rounds; n++ {
					res, err := il.Resolve(paths[gi])
					switch {
					case err != nil && res != "":
						classes[gi]["E+"] = true
					case err != nil:
						classes[gi]["E"] = true
					default:
						classes[gi][c17ClassifyQuiet(res, unhx(f[4]))] = true
					}
				}
			}(gi)
		}
		wg.Wait()
		c17TakeEvents()
		var out []string
		for gi := 0; gi < 2; gi++ {
			var cs []string
			for c := range classes[gi] {
				cs = append(cs, c)
			}
			sort.Strings(cs)
			out = append(out, "?="+strings.Join(cs, "+"))
		}
		return strings.Join(out, ",")
	}
	if f[0] == "J" && len(f) == 7 {
		check(os.Chdir(filepath.Join(c17Base, unhx(f[1]))))
		return c17ImportNamed(c17Subst(unhx(f[5])), &util.FileImportLocator{Root: c17Subst(unhx(f[3]))}, unhx(f[6]), unhx(f[4]))
	}
	var tin *tool.CLIInterpreter
	withEvents := true
	viaArgs, hasDir, dir := false, false, ""
	if (f[0] == "T" || f[0] == "U" || f[0] == "V") && len(f) == 9 {
		check(os.Chdir(filepath.Join(c17Base, unhx(f[1]))))
		withEvents = f[3] == f[4] || f[3] == "~" // a symlinked root is modelled as its target: the opened strings differ
		if f[0] == "U" || f[0] == "V" {
			viaArgs, hasDir = true, f[3] != "~"
			if hasDir {
				dir = c17Subst(unhx(f[3]))
			}
		} else {
			var msg string
			if tin, msg = c17NewTool(c17Subst(unhx(f[3]))); tin == nil {
				return msg
			}
		}
		f = append(append([]string{}, f[:3]...), f[4:]...) // drop <dir>: from here on the layout of R
	}
	if len(f) != 8 || !strings.Contains("R I T U V N", f[0]) {
		return "bad-payload"
	}
	cwd, root, rootpos := unhx(f[1]), c17Subst(unhx(f[3])), unhx(f[4])
	depth, _ := strconv.Atoi(f[6])
	var alpha []string
	if a := unhx(f[7]); a != "" {
		alpha = strings.Split(a, ",")
	}
	check(os.Chdir(filepath.Join(c17Base, cwd)))
	il := &util.FileImportLocator{Root: root} // one locator for all paths of the line
	c17Short = depth > 0
	var out []string
	for _, ext := range c17Ext(alpha, depth) {
		var path string
		if f[5] == "~" {
			path = strings.Join(ext, "/")
		} else {
			path = c17Subst(unhx(f[5]))
			for _, e := range ext {
				path += "/" + e
			}
		}
		switch f[0] {
		case "R":
			out = append(out, c17Resolve(il, path, rootpos))
		case "T":
			out = append(out, c17Tool(tin, path, rootpos, withEvents))
		case "U", "V":
			c17TakeEvents()
			out = append(out, c17Obs(withEvents, c17CLI(dir, hasDir, path, f[0] == "V", rootpos)))
		case "N":
			out = append(out, c17ImportNamed("t", nil, path, rootpos))
		default:
			out = append(out, c17Import(root, path, rootpos))
		}
	}
	_ = viaArgs
	return strings.Join(out, ",")
}

func init() {
	files := hx(strings.Join(c17Files, ","))
	alpha := hx(strings.Join(c17Alphabet, ","))
	alphaX := hx(strings.Join(append(append([]string{}, c17Alphabet...), c17Tricks...), ","))
	// kind letter: lower case when the tree under test has no c17.open point (the model then prints no opened paths)
	k := func(kind string) string {
		if !c17Hook {
			return strings.ToLower(kind)
		}
		return kind
	}
	rcaseA := func(kind string, r c17Root, pre string, hasPre bool, depth int, a string) string {
		p := "~"
		if hasPre {
			p = hx(pre)
		}
		if depth == 0 {
			a = "-"
		}
		return strings.Join([]string{k(kind), hx(r.cwd), files, hx(r.root), hx(r.pos), p, strconv.Itoa(depth), a}, " ")
	}
	rcase := func(kind string, r c17Root, pre string, hasPre bool, depth int) string {
		return rcaseA(kind, r, pre, hasPre, depth, alpha)
	}
	register("C17", &Prop{
		Timeout:          90 * time.Second, // generous: a batched line / 2x20000 concurrent rounds under a heavily loaded machine
		NoRestartOnPanic: true,
		Setup:            c17Setup,
		Gen: func(g *Gen) {
			maxLen, nRandom, pLen, impLen, nRoots, nConc := 5, 4000, 4, 3, 300, 20000
			if g.Thorough() {
				maxLen, nRandom, pLen, impLen, nRoots, nConc = 6, 100000, 4, 4, 3000, 200000
			}
			// directed cases first: the suite's own paths, classic escapes
			top := c17Roots[0]
			rel := c17Roots[1]
			for _, d := range []struct {
				r c17Root
				p string
			}{
				{rel, "../t"}, {rel, "../root/x"}, {rel, "../root/nm"}, {rel, "nm"}, {rel, "../rootX/nm"}, {rel, "../nm"},
				{top, "../rootX/nm"}, {top, "/../nm"}, {top, "sub/../../nm"}, {top, "@/abs/nm"}, {top, "@/top/root/nm"},
				{c17Root{"top", "", "top"}, "@/abs/nm"}, {c17Root{"top", "", "top"}, "/nm"}, {c17Root{"top", "", "top"}, "nm"},
				{c17Root{"top", "", "top"}, "../nm"}, {c17Root{"top", "", "top"}, ""},
				{rel, "a.b//nm/"}, {rel, "sub/./root/../nm"}, {rel, "..x"}, {rel, "...//nm"}, {rel, "nm\x00"}, {rel, "\xff\xfe/../nm"},
				{rel, strings.Repeat("../", 40) + "nm"}, {rel, strings.Repeat("sub/../", 40) + "nm"}, {rel, "root/../../root/nm"},
				{c17Roots[6], "../nm"}, {c17Roots[6], "root/nm"}, {c17Roots[14], "abs/nm"}, {c17Roots[14], "../nm"},
				// rewrites after the test would turn these into escapes (each has a sentinel where it would land)
				{rel, "$u../nm"}, {rel, "${u}../nm"}, {rel, "%2e%2e/nm"}, {rel, "..%2fnm"}, {rel, "%2e%2e%2fnm"}, {rel, "~/nm"}, {rel, "~"},
				{rel, "..\\nm"}, {rel, "..\\/nm"}, {rel, ".../nm"}, {rel, ".. /nm"}, {rel, " ../nm"}, {rel, "..\x00/nm"}, {rel, "../nm\x00"},
				{rel, "$HOME/nm"}, {rel, "${HOME}/nm"}, {rel, "sub/$u../$u../nm"}, {rel, "%2e%2e/rootX/nm"}, {rel, "\t../nm"}, {rel, "..\n/nm"},
				{top, "$u../nm"}, {top, "~/nm"}, {top, "%2e%2e/nm"}, {top, ".. /nm"}, {top, "..\\/nm"},
				{c17Root{"top", "/", "^/"}, "@/top/nm"}, {c17Root{"top", "/", "^/"}, "../@/top/nm"}, {c17Root{"top", "@/..", "^1"}, "@:/top/nm"},
				{c17Root{"top", "@/..", "^1"}, "../@:/top/nm"}, {c17Root{"top", "../../..", "^2"}, "../nm"},
			} {
				g.Count("directed")
				g.Emit(rcase("R", d.r, d.p, true, 0))
			}
			// every file addressed absolutely (and absolutely with a detour), for every listed root
			for _, r := range c17Roots {
				for _, f := range c17Files {
					for _, p := range []string{"@/" + f, "@/top/root/../../" + f, "@//" + f + "/."} {
						g.Count("directed absolute")
						g.Emit(rcase("R", r, p, true, 0))
					}
				}
			}
			// source facts not positively established (or refuted): amplify the T and J cases
			amplify := c17FactsNeedAmplification()
			if amplify {
				g.Count("amplified (locator root fact not established)")
			}
			// (d) the real cli/tool: configured directory -> CreateRuntimeProvider -> entry file -> import
			tcase := func(cwd, dir, modelroot, pos, pre string, hasPre bool, depth int) string {
				p := "~"
				if hasPre {
					p = hx(pre)
				}
				a := alpha
				if depth == 0 {
					a = "-"
				}
				return strings.Join([]string{k("T"), hx(cwd), files, hx(dir), hx(modelroot), hx(pos), p, strconv.Itoa(depth), a}, " ")
			}
			// the same through the command line: ParseArgs over `ecal run [-dir <dir>] -loglevel Error <entry>`
			ucase := func(cwd, dir string, hasDir bool, modelroot, pos, path string) string {
				d := "~"
				if hasDir {
					d = hx(dir)
				}
				return strings.Join([]string{k("U"), hx(cwd), files, d, hx(modelroot), hx(pos), hx(path), "0", "-"}, " ")
			}
			emitU := func(what, payload string) {
				g.Count("cli entry file, " + what)
				g.Emit(payload)
				g.Count("cli console input, " + what)
				g.Emit(k("V") + payload[1:])
			}
			type troot struct{ cwd, dir, model, pos, what string }
			troots := []troot{
				{"top", "root", "root", "top/root", "existing"},
				{"top", "@/top/root", "@/top/root", "top/root", "existing"},
				{"top", "root/sub/", "root/sub/", "top/root/sub", "existing"},
				{"top", "missing", "missing", "top/missing", "missing"},
				{"top", "@/top/missing", "@/top/missing", "top/missing", "missing"},
				{"top", "root/missing/deeper", "root/missing/deeper", "top/root/missing/deeper", "missing"},
				{"top/root", "../missing", "../missing", "top/missing", "missing"},
				{"top", "root/nm", "root/nm", "top/root/nm", "missing (a file, not a directory)"},
				{"top", "dlink", "dlink", "top/dlink", "dangling symlink"},
				{"top", "@/top/dlink", "@/top/dlink", "top/dlink", "dangling symlink"},
				{"top", "dlink/root", "dlink/root", "top/dlink/root", "dangling symlink"},
				{"top/root", "../dlink", "../dlink", "top/dlink", "dangling symlink"},
				{"top", "lnin", "root/sub", "top/root/sub", "symlink to a directory (inside)"},
				{"top", "lnout", "../abs", "abs", "symlink to a directory (outside)"},
				{"top", "", "", "top", "empty"},
				{"top", ".", ".", "top", "dot"},
				{"top/root", ".", ".", "top/root", "dot"},
			}
			upaths := []string{"nm", "../nm", "root/nm", "./nm", "@/top/nm", "../top/nm", "sub/nm", "private", "a.b/nm", "../rootX/nm", "/nm", "../../nm", "sub/../nm", "root/../../nm"}
			for _, p := range upaths {
				for _, cwd := range []string{"top", "top/root"} {
					emitU("no -dir (default: working directory)", ucase(cwd, "", false, "@/"+cwd, cwd, p))
				}
				for _, r := range [][3]string{{"root", "root", "top/root"}, {"@/top/root", "@/top/root", "top/root"}, {"missing", "missing", "top/missing"},
					{"dlink", "dlink", "top/dlink"}, {"", "", "top"}, {".", ".", "top"}, {"r t", "r t", "top/r t"}} {
					emitU("-dir", ucase("top", r[0], true, r[1], r[2], p))
				}
			}
			// the provider's default locator (no locator given): rooted at the directory of the executable
			if filepath.Dir(os.Args[0]) == c17Par1 {
				for _, p := range []string{"@:/top/nm", "../@:/top/nm", "nm", "@:/../@:/top/root/nm", "../nm"} {
					g.Count("import with the default locator")
					g.Emit(rcase("N", c17Root{"top", "@/..", "^1"}, p, true, 0))
				}
			} else {
				g.Count("default locator not run (executable not next to the tree)")
			}
			tpaths := []string{"nm", "./nm", "../nm", "root/nm", "../top/nm", "@/top/nm", "@/nm", "sub/nm", "../root/nm", "private", "a.b/nm", "/nm", "../../nm", "rootX/nm", "../rootX/nm"}
			for _, r := range troots {
				for _, p := range tpaths {
					g.Count("tool " + r.what)
					g.Emit(tcase(r.cwd, r.dir, r.model, r.pos, p, true, 0))
				}
				maxD := 1
				if g.Thorough() || amplify {
					maxD = 2
				}
				for d := 1; d <= maxD; d++ {
					g.Count("tool " + r.what)
					g.Emit(tcase(r.cwd, r.dir, r.model, r.pos, "", false, d))
				}
				if amplify {
					for _, a := range c17Alphabet {
						g.Count("tool " + r.what)
						g.Emit(tcase(r.cwd, r.dir, r.model, r.pos, a, true, 2))
					}
				}
			}
			// (e) import statements in programs parsed under many source names, nested imports
			srcnames := []string{"main.ecal", "sub/x.ecal", "../x.ecal", "a/../../x.ecal", "@/abs/x.ecal", "../nm", "../rootX/nm",
				"@/abs/nm", "../../x.ecal", "/x.ecal", "", "./x.ecal", "../root/x.ecal", "sub/../x.ecal", "../../abs/x.ecal", "rootX/x.ecal", "sub/sub/x.ecal"}
			ipaths := []string{"nm", "./nm", "./sub/nm", "sub/nm", "../nm", "./../nm", "./root/nm", "./rootX/nm", "./a.b/nm", "./config",
				"chain1", "./chain1", "sub/chain2", "./sub/chain2", "sub/chain3", "sub/chain4", "./sub/../chain1", "a.b/chain5", ".//nm",
				"./", ".", "./..x", "./a b", "chain6", "./chain6", "sub/chain7", "./sub/chain7", "chainout", "./chainout", "sub/sub/chain8",
				"./top/nm", "./abs/nm", "./x.ecal", "root/chain1", "./root/chain1"}
			if amplify || g.Thorough() {
				for _, a := range c17Alphabet {
					for _, b := range c17Alphabet {
						ipaths = append(ipaths, "./"+a+"/"+b)
					}
				}
			}
			filesM := hx(c17FilesWithModules())
			for _, r := range c17Roots {
				for _, sn := range srcnames {
					for _, ip := range ipaths {
						g.Count("import under a source name")
						g.Emit(strings.Join([]string{k("J"), hx(r.cwd), filesM, hx(r.root), hx(r.pos), hx(sn), hx(ip)}, " "))
					}
				}
			}
			// (a) path primitives: all pairs of strings of <= pLen elements over a small alphabet
			var strs, strsB []string // b ranges over the strings of <= 3 elements
			palpha := []string{"a", "b", ".", "..", ""}
			var rec func(cur []string)
			rec = func(cur []string) {
				strs = append(strs, strings.Join(cur, "/"))
				if len(cur) <= 3 {
					strsB = append(strsB, strings.Join(cur, "/"))
				}
				if len(cur) == pLen {
					return
				}
				for _, a := range palpha {
					rec(append(append([]string{}, cur...), a))
				}
			}
			rec(nil)
			for _, a := range strs {
				for _, b := range strsB {
					g.Count("primitives exhaustive")
					g.Emit("P " + hx(a) + " " + hx(b))
				}
			}
			bytesAlpha := []string{"/", "/", "/", ".", ".", "..", "a", "b", "a", " ", "\x00", "\xff", "\\", "é", "..x", "./", "/.", "//", "/../",
				"$u", "${u}", "%2e", "%2f", "~", "...", "\t"}
			rstr := func(n int) string {
				var sb strings.Builder
				for k := g.R.Intn(n + 1); k > 0; k-- {
					if g.R.Intn(12) == 0 {
						sb.WriteByte(byte(g.R.Intn(256)))
					} else {
						sb.WriteString(g.R.Pick(bytesAlpha))
					}
				}
				return sb.String()
			}
			for i := 0; i < nRandom; i++ {
				a := rstr(14)
				b := rstr(14)
				if g.R.Intn(3) == 0 { // related pair: b extends a
					b = a + "/" + rstr(8)
				}
				g.Count("primitives random")
				g.Emit("P " + hx(a) + " " + hx(b))
			}
			// (b) Resolve: every element sequence of length <= maxLen for every root spelling
			for ri, r := range c17Roots {
				ml := maxLen
				if ri >= 18 && ml > 5 { // odd-named and above-tree roots: length 5 in both tiers
					ml = 5
				}
				for L := 0; L <= ml && L <= 2; L++ {
					g.Count("resolve exhaustive lines")
					g.Emit(rcase("R", r, "", false, L))
				}
				var pre func(cur []string)
				pre = func(cur []string) {
					if len(cur) >= 1 {
						g.Count("resolve exhaustive lines")
						g.Emit(rcase("R", r, strings.Join(cur, "/"), true, 2))
					}
					if len(cur) == ml-2 {
						return
					}
					for _, a := range c17Alphabet {
						pre(append(append([]string{}, cur...), a))
					}
				}
				pre(nil)
			}
			// the extended alphabet (tricks that a rewrite after the test would turn into escapes): <= 3 elements, every root
			for _, r := range c17Roots {
				for L := 1; L <= 2; L++ {
					g.Count("resolve extended-alphabet lines")
					g.Emit(rcaseA("R", r, "", false, L, alphaX))
				}
				for _, a := range append(append([]string{}, c17Alphabet...), c17Tricks...) {
					g.Count("resolve extended-alphabet lines")
					g.Emit(rcaseA("R", r, a, true, 2, alphaX))
				}
			}
			// quick tier: length 6 for one root, rotated with the seed (the thorough tier has it for all)
			if !g.Thorough() {
				for j := 0; j < 1; j++ {
					r := c17Roots[int((g.Seed+uint64(j))%uint64(len(c17Roots)))]
					var pre6 func(cur []string)
					pre6 = func(cur []string) {
						if len(cur) == 4 {
							g.Count("resolve length-6 lines (seed-rotated roots)")
							g.Emit(rcase("R", r, strings.Join(cur, "/"), true, 2))
							return
						}
						for _, a := range c17Alphabet {
							pre6(append(append([]string{}, cur...), a))
						}
					}
					pre6(nil)
				}
			}
			// random root spellings, built from a directory of the tree (or a missing one) and the working directory:
			// the relative or absolute way there, with lexical detours (x/.., ./, doubled and trailing separators)
			dirs := []string{"", "top", "top/root", "top/root/sub", "top/root/a.b", "top/rootX", "abs", "top/r t", "top/..r", "top/root/sub/sub",
				"top/missing", "top/root/nm", "^1", "^2"}
			cwds := []string{"top", "top/root", "top/root/sub", ""}
			detourNames := []string{"x", "root", "sub", "..x", "a b", "missing", "nm"}
			splitPos := func(p string) []string {
				if p == "" {
					return nil
				}
				return strings.Split(p, "/")
			}
			for i := 0; i < nRoots; i++ {
				cwd := g.R.Pick(cwds)
				dir := g.R.Pick(dirs)
				var segs []string
				abs := g.R.Intn(3) == 0
				switch {
				case dir == "^1" || dir == "^2":
					n := len(splitPos(cwd)) + 1
					if dir == "^2" {
						n++
					}
					if abs {
						segs = []string{"@"}
						for k := 0; k < n-len(splitPos(cwd)); k++ {
							segs = append(segs, "..")
						}
					} else {
						for k := 0; k < n; k++ {
							segs = append(segs, "..")
						}
					}
				case abs:
					segs = append([]string{"@"}, splitPos(dir)...)
				default:
					c, d := splitPos(cwd), splitPos(dir)
					k := 0
					for k < len(c) && k < len(d) && c[k] == d[k] {
						k++
					}
					for j := k; j < len(c); j++ {
						segs = append(segs, "..")
					}
					segs = append(segs, d[k:]...)
					if len(segs) == 0 {
						segs = []string{"."}
					}
				}
				// detours (never in front of a leading ".." block of a relative spelling: x/.. needs something to cancel against)
				var out []string
				for j, sg := range segs {
					out = append(out, sg)
					if sg != ".." && sg != "@" || j == len(segs)-1 && sg != ".." {
						switch g.R.Intn(6) {
						case 0:
							out = append(out, g.R.Pick(detourNames), "..")
						case 1:
							out = append(out, ".")
						case 2:
							out = append(out, "")
						}
					}
				}
				root := strings.Join(out, "/")
				if g.R.Intn(5) == 0 {
					root += "/"
				}
				if abs && root == "@" {
					root = "@/"
				}
				r := c17Root{cwd, root, dir}
				g.Count("resolve random-root lines")
				for L := 0; L <= 2; L++ {
					g.Emit(rcase("R", r, "", false, L))
				}
				for _, a := range c17Alphabet {
					g.Emit(rcase("R", r, a, true, 2))
				}
			}
			// concurrent use of ONE locator: one goroutine resolves a path outside the root, another one a path inside
			for _, r := range []c17Root{c17Roots[0], c17Roots[1], c17Roots[6], c17Roots[13]} {
				for _, pp := range [][2]string{{"nm", "../nm"}, {"sub/nm", "../rootX/nm"}, {"a.b/nm", "../../nm"}, {"nm", "@/abs/nm"}} {
					g.Count("concurrent lines")
					g.Emit(strings.Join([]string{k("C"), hx(r.cwd), files, hx(r.root), hx(r.pos), hx(pp[0]), hx(pp[1]), strconv.Itoa(nConc)}, " "))
				}
			}
			// random longer paths (alphabet elements and arbitrary byte elements)
			for i := 0; i < nRandom; i++ {
				r := c17Roots[g.R.Intn(len(c17Roots))]
				n := maxLen + 1 + g.R.Intn(8)
				var segs []string
				for k := 0; k < n; k++ {
					switch g.R.Intn(8) {
					case 0:
						segs = append(segs, rstr(3))
					case 1:
						segs = append(segs, g.R.Pick(c17Tricks))
					default:
						segs = append(segs, g.R.Pick(c17Alphabet))
					}
				}
				g.Count("resolve random")
				g.Emit(rcase("R", r, strings.Join(segs, "/"), true, 0))
			}
			// (c) through the interpreter's import statement
			for _, ri := range []int{0, 1, 2, 6, 8, 13} {
				r := c17Roots[ri]
				var imp func(cur []string)
				imp = func(cur []string) {
					g.Count("import exhaustive")
					g.Emit(rcase("I", r, strings.Join(cur, "/"), true, 0))
					if len(cur) == impLen {
						return
					}
					for _, a := range c17Alphabet {
						imp(append(append([]string{}, cur...), a))
					}
				}
				imp(nil)
			}
			for i := 0; i < nRandom/4; i++ {
				r := c17Roots[g.R.Intn(len(c17Roots))]
				n := impLen + 1 + g.R.Intn(6)
				var segs []string
				for k := 0; k < n; k++ {
					if g.R.Intn(6) == 0 {
						segs = append(segs, g.R.Pick(c17Tricks)) // handed over as an interpolated value
					} else {
						segs = append(segs, g.R.Pick(c17Alphabet))
					}
				}
				g.Count("import random")
				g.Emit(rcase("I", r, strings.Join(segs, "/"), true, 0))
			}
			// import paths a plain literal does not carry: absolute ones, tricks, quotes, braces, escapes
			for _, r := range []c17Root{c17Roots[0], c17Roots[1], c17Roots[13]} {
				for _, p := range []string{"@/top/nm", "@/top/root/nm", "@/abs/nm", "$u../nm", "~/nm", "%2e%2e/nm", "..\\/nm", ".. /nm",
					"\"/../nm", "{{1}}/../nm", "\\n/../nm", "nm\x00", "a\"b", "'/nm"} {
					g.Count("import directed (non-literal)")
					g.Emit(rcase("I", r, p, true, 0))
				}
			}
		},
		Run:  c17Run,
		Tool: c17ToolMain,
	})
}
