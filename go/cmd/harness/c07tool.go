package main

// harness C07 -tool gen <out.lean>
//
// Regenerates lean/Ecal/Gen/C07.lean from the Go source of the tree under test (package parser):
//   * const.go    — the numbering of the token ids (iota order) and the node names;
//   * parser.go   — astNodeMap: (token id, node name, binding, null denotation, left denotation) and the
//                   entry used for a block-start brace (astNodeBlockBrace);
//   * the synchronisation skeleton of the token channel: how many `go` statements the package has and
//     where, whether close(l.tokens) is the last statement of (*lexer).run, whether ParseWithRuntime
//     defers p.tokens.drain() and whether (*LABuffer).drain ranges over the channel in the calling
//     goroutine (sync), hands it to a goroutine (async), or is not called at all (none).
// Anything not understood is reported as "unknown" / ok := false (theorems in Props/C07.lean demand the
// expected values, so a change of these facts breaks the build of the proof and is reported).

import (
	"fmt"
	"go/ast"
	"go/token"
	"os"
	"strconv"
	"strings"
)

// c07CallsOutsideGo: the expression contains a call of a method with this name which is not inside a go statement.
func c07CallsOutsideGo(e ast.Node, method string) bool {
	found := false
	var walk func(n ast.Node) bool
	walk = func(n ast.Node) bool {
		switch v := n.(type) {
		case *ast.GoStmt:
			return false
		case *ast.CallExpr:
			if se, ok := v.Fun.(*ast.SelectorExpr); ok && se.Sel.Name == method {
				found = true
			}
		}
		return true
	}
	ast.Inspect(e, walk)
	return found
}

func c07IsCloseTokens(c *ast.CallExpr) bool {
	if id, ok := c.Fun.(*ast.Ident); !ok || id.Name != "close" || len(c.Args) != 1 {
		return false
	}
	se, ok := c.Args[0].(*ast.SelectorExpr)
	return ok && se.Sel.Name == "tokens"
}

func c07GenTool(out string) int {
	files, err := c08ParsePackage()
	if err != nil {
		fmt.Println("cannot parse package parser:", err)
		return 1
	}
	ok := true
	var why []string
	fail := func(f string, a ...interface{}) { ok = false; why = append(why, fmt.Sprintf(f, a...)) }

	tokID := map[string]int{}
	nodeName := map[string]string{}
	type entry struct {
		id            int
		name          string
		binding       int
		nud, led, tok string
	}
	var entries []entry
	blockBrace := entry{id: -1}
	goStmts := 0
	goWhere := "-"
	closeLast := false
	deferDrain := false
	drainKind := "unknown"

	lit := func(e ast.Expr) (string, bool) {
		switch v := e.(type) {
		case *ast.BasicLit:
			if v.Kind == token.STRING {
				s, err := strconv.Unquote(v.Value)
				return s, err == nil
			}
		case *ast.Ident:
			if s, ok := nodeName[v.Name]; ok {
				return s, true
			}
		}
		return "", false
	}
	fn := func(e ast.Expr) string {
		if id, ok := e.(*ast.Ident); ok {
			return id.Name
		}
		return "?"
	}
	node := func(e ast.Expr) (entry, bool) {
		if u, ok := e.(*ast.UnaryExpr); ok {
			e = u.X
		}
		cl, ok := e.(*ast.CompositeLit)
		if !ok || len(cl.Elts) != 8 {
			return entry{}, false
		}
		nm, ok1 := lit(cl.Elts[0])
		bl, ok2 := cl.Elts[5].(*ast.BasicLit)
		if !ok1 || !ok2 {
			return entry{}, false
		}
		b, err := strconv.Atoi(bl.Value)
		if err != nil {
			return entry{}, false
		}
		return entry{name: nm, binding: b, nud: fn(cl.Elts[6]), led: fn(cl.Elts[7])}, true
	}

	// pass 1: constants
	for _, f := range files {
		for _, d := range f.Decls {
			gd, ok := d.(*ast.GenDecl)
			if !ok || gd.Tok != token.CONST {
				continue
			}
			iota := 0
			isTok := false
			for k, sp := range gd.Specs {
				vs := sp.(*ast.ValueSpec)
				if k == 0 {
					if id, ok := vs.Type.(*ast.Ident); ok && id.Name == "LexTokenID" {
						isTok = true
					}
				}
				for j, n := range vs.Names {
					if isTok {
						tokID[n.Name] = iota
					} else if j < len(vs.Values) {
						if bl, ok := vs.Values[j].(*ast.BasicLit); ok && bl.Kind == token.STRING {
							if s, err := strconv.Unquote(bl.Value); err == nil {
								nodeName[n.Name] = s
							}
						}
					}
				}
				iota++
			}
		}
	}
	if len(tokID) == 0 {
		fail("token id constants not found")
	}
	// pass 2: tables and the synchronisation skeleton
	for _, f := range files {
		for _, d := range f.Decls {
			fd, ok := d.(*ast.FuncDecl)
			if !ok || fd.Body == nil {
				continue
			}
			recv := ""
			if fd.Recv != nil && len(fd.Recv.List) == 1 {
				if st, ok := fd.Recv.List[0].Type.(*ast.StarExpr); ok {
					recv = fn(st.X)
				}
			}
			full := fd.Name.Name
			if recv != "" {
				full = "(*" + recv + ")." + full
			}
			ast.Inspect(fd.Body, func(n ast.Node) bool {
				switch v := n.(type) {
				case *ast.GoStmt:
					goStmts++
					goWhere = full
				case *ast.DeferStmt:
					// `defer x.drain()` or `defer func() { … x.drain() … }()` — the call runs in the deferring goroutine
					if full == "ParseWithRuntime" && c07CallsOutsideGo(v.Call, "drain") {
						deferDrain = true
					}
					// `defer close(l.tokens)` as a statement of run itself: executed after everything else on every exit
					if full == "(*lexer).run" && c07IsCloseTokens(v.Call) {
						for _, st := range fd.Body.List {
							if st == ast.Stmt(v) {
								closeLast = true
							}
						}
					}
				case *ast.AssignStmt:
					if len(v.Lhs) == 1 && len(v.Rhs) == 1 {
						switch fn(v.Lhs[0]) {
						case "astNodeMap":
							cl, ok := v.Rhs[0].(*ast.CompositeLit)
							if !ok {
								fail("astNodeMap is not assigned a composite literal")
								break
							}
							for _, el := range cl.Elts {
								kv, ok := el.(*ast.KeyValueExpr)
								if !ok {
									fail("astNodeMap element is not key: value")
									continue
								}
								e, ok := node(kv.Value)
								id, ok2 := tokID[fn(kv.Key)]
								if !ok || !ok2 {
									fail("astNodeMap entry %s not understood", fn(kv.Key))
									continue
								}
								e.id, e.tok = id, fn(kv.Key)
								entries = append(entries, e)
							}
						case "astNodeBlockBrace":
							if e, ok := node(v.Rhs[0]); ok {
								blockBrace = e
								blockBrace.id = tokID["TokenLBRACE"]
							} else {
								fail("astNodeBlockBrace not understood")
							}
						}
					}
				}
				return true
			})
			if full == "(*lexer).run" && len(fd.Body.List) > 0 {
				// `close(l.tokens)` as the last statement of a body without any return statement
				if es, ok := fd.Body.List[len(fd.Body.List)-1].(*ast.ExprStmt); ok {
					if c, ok := es.X.(*ast.CallExpr); ok && c07IsCloseTokens(c) {
						hasReturn := false
						ast.Inspect(fd.Body, func(n ast.Node) bool {
							if _, ok := n.(*ast.ReturnStmt); ok {
								hasReturn = true
							}
							return true
						})
						if !hasReturn {
							closeLast = true
						}
					}
				}
			}
			if full == "(*LABuffer).drain" {
				hasGo := false
				ast.Inspect(fd.Body, func(n ast.Node) bool {
					if _, ok := n.(*ast.GoStmt); ok {
						hasGo = true
					}
					return true
				})
				// a loop in the calling goroutine which receives from the token channel (`for range b.tokens`, or a
				// `for` statement containing `<-b.tokens`); that the loop only ends on the closed channel is NOT
				// established syntactically (the leak measurement is what checks it)
				loopRecv := false
				ast.Inspect(fd.Body, func(n ast.Node) bool {
					switch l := n.(type) {
					case *ast.RangeStmt:
						if se, ok := l.X.(*ast.SelectorExpr); ok && se.Sel.Name == "tokens" {
							loopRecv = true
						}
					case *ast.ForStmt:
						ast.Inspect(l, func(m ast.Node) bool {
							if u, ok := m.(*ast.UnaryExpr); ok && u.Op == token.ARROW {
								if se, ok := u.X.(*ast.SelectorExpr); ok && se.Sel.Name == "tokens" {
									loopRecv = true
								}
							}
							return true
						})
					}
					return true
				})
				switch {
				case hasGo:
					drainKind = "async"
				case loopRecv:
					drainKind = "sync"
				}
			}
		}
	}
	mode := drainKind
	if !deferDrain {
		mode = "none"
	}
	if len(entries) == 0 {
		fail("astNodeMap not found")
	}
	if blockBrace.id < 0 {
		fail("astNodeBlockBrace not found")
	}
	var sb strings.Builder
	sb.WriteString("/-! GENERATED by `harness C07 -tool gen` from parser/const.go, parser/parser.go, parser/lexer.go, parser/helper.go\n")
	sb.WriteString("of the tree under test — do not edit. -/\nnamespace Ecal.Gen.C07\n\n")
	sb.WriteString("/-- astNodeMap: (token id, node name, binding, nullDenotation, leftDenotation) -/\n")
	sb.WriteString("def astNodeMap : List (Nat × String × Nat × String × String) := [\n")
	for i, e := range entries {
		c := ","
		if i == len(entries)-1 {
			c = ""
		}
		fmt.Fprintf(&sb, "  (%d, %s, %d, %s, %s)%s   -- %s\n", e.id, strconv.Quote(e.name), e.binding, strconv.Quote(e.nud), strconv.Quote(e.led), c, e.tok)
	}
	sb.WriteString("]\n\n/-- astNodeBlockBrace: the entry used for `{` while a guard expression is parsed -/\n")
	fmt.Fprintf(&sb, "def blockBrace : Nat × String × Nat × String × String := (%d, %s, %d, %s, %s)\n\n", blockBrace.id,
		strconv.Quote(blockBrace.name), blockBrace.binding, strconv.Quote(blockBrace.nud), strconv.Quote(blockBrace.led))
	fmt.Fprintf(&sb, "/-- ids of the comment / error tokens -/\ndef tokenError : Nat := %d\ndef tokenPreComment : Nat := %d\ndef tokenPostComment : Nat := %d\n\n",
		tokID["TokenError"], tokID["TokenPRECOMMENT"], tokID["TokenPOSTCOMMENT"])
	fmt.Fprintf(&sb, "/-- number of `go` statements in package parser, and the function containing the last one -/\ndef goStatements : Nat := %d\ndef goWhere : String := %s\n\n", goStmts, strconv.Quote(goWhere))
	fmt.Fprintf(&sb, "/-- close(l.tokens) is the last statement of (*lexer).run -/\ndef closeLastInRun : Bool := %v\n\n", closeLast)
	fmt.Fprintf(&sb, "/-- ParseWithRuntime defers p.tokens.drain() -/\ndef deferDrain : Bool := %v\n\n", deferDrain)
	fmt.Fprintf(&sb, "/-- how the rest of the token channel is consumed when ParseWithRuntime returns:\n    \"sync\" (for range b.tokens {} in the calling goroutine), \"async\" (a goroutine is started), \"none\" (no deferred drain), \"unknown\" -/\ndef drainMode : String := %s\n\n", strconv.Quote(mode))
	fmt.Fprintf(&sb, "/-- everything above was understood -/\ndef ok : Bool := %v\n", ok)
	for _, w := range why {
		sb.WriteString("-- not understood: " + w + "\n")
	}
	sb.WriteString("\nend Ecal.Gen.C07\n")
	if err := os.WriteFile(out, []byte(sb.String()), 0644); err != nil {
		fmt.Println(err)
		return 1
	}
	return 0
}
