package main

// harness C07 -tool gen <out.lean>
//
// Regenerates lean/Ecal/Gen/C07.lean from the Go source of the tree under test (package parser, go/ast).
// Every fact is SEMANTIC (found by what the code does, following same-package calls, folding constants)
// and THREE-VALUED: "yes" (established), "no" (positively refuted: a refuting clause was found) or
// "unknown" (not established - never a violation by itself: evidence note + amplified search).
// Each fact has its own value; one fact that is not understood does not touch another.
//
//   table      astNodeMap entries (token id, node name, binding, null / left denotation): positional or
//              keyed literals, named constants folded; entries not understood are listed separately;
//   close      close(<token channel>) is the last action of the producer goroutine's body, in any
//              spelling (last statement, deferred, in the function the goroutine calls or in a wrapper
//              closure) - or there is no goroutine at all (lexing finished before parsing);
//   sync       the rest of the token channel is consumed IN THE CALLING GOROUTINE when ParseWithRuntime
//              returns: some function reachable from a defer of ParseWithRuntime has a loop receiving
//              from the token channel. Refuting clauses: a `go` statement on that path (asynchronous
//              drain), no drain although a producer goroutine exists, and every way of leaving the
//              loop other than "the channel is closed": select, timers, a loop condition, break /
//              return not guarded by the `more == false` of a receive;
//   pkgWrites  package-level variables of package parser written outside init() / var initialisers
//              (assignment, map / slice element assignment, ++/--, delete): state which outlives a
//              call and is shared by concurrent calls;
//   errors     refuting patterns of the error discipline which the model's short-circuit error monad
//              assumes: an error result of a same-package call that is discarded (expression
//              statement), and an assignment to `err` inside a loop which neither the loop condition
//              nor a following test looks at before the next iteration overwrites it. Absence of these
//              patterns does NOT establish the discipline: the value is then "unknown".

import (
	"fmt"
	"go/ast"
	"go/token"
	"os"
	"sort"
	"strconv"
	"strings"
)

type c07Src struct {
	files      []*ast.File
	funcs      map[string][]*ast.FuncDecl // by bare name (functions and methods)
	chanFields map[string]bool            // struct fields of channel type
	intConst   map[string]int
	strConst   map[string]string
	tokID      map[string]int
	pkgVars    map[string]bool
	errFuncs   map[string]bool // functions / methods whose last result is `error`
}

func c07Name(e ast.Expr) string {
	switch v := e.(type) {
	case *ast.Ident:
		return v.Name
	case *ast.SelectorExpr:
		return v.Sel.Name
	case *ast.StarExpr:
		return c07Name(v.X)
	case *ast.ParenExpr:
		return c07Name(v.X)
	}
	return "?"
}

func (x *c07Src) load() error {
	files, err := c08ParsePackage()
	if err != nil {
		return err
	}
	x.files = files
	x.funcs = map[string][]*ast.FuncDecl{}
	x.chanFields = map[string]bool{}
	x.intConst = map[string]int{}
	x.strConst = map[string]string{}
	x.tokID = map[string]int{}
	x.pkgVars = map[string]bool{}
	x.errFuncs = map[string]bool{}
	for _, f := range files {
		for _, d := range f.Decls {
			switch v := d.(type) {
			case *ast.FuncDecl:
				x.funcs[v.Name.Name] = append(x.funcs[v.Name.Name], v)
				if v.Type.Results != nil && len(v.Type.Results.List) > 0 {
					last := v.Type.Results.List[len(v.Type.Results.List)-1]
					if id, ok := last.Type.(*ast.Ident); ok && id.Name == "error" {
						recv := ""
						if v.Recv != nil && len(v.Recv.List) == 1 {
							recv = c07Name(v.Recv.List[0].Type)
						}
						x.errFuncs[recv+"."+v.Name.Name] = true
					}
				}
			case *ast.GenDecl:
				switch v.Tok {
				case token.TYPE:
					for _, sp := range v.Specs {
						if st, ok := sp.(*ast.TypeSpec).Type.(*ast.StructType); ok {
							for _, fl := range st.Fields.List {
								if _, ok := fl.Type.(*ast.ChanType); ok {
									for _, n := range fl.Names {
										x.chanFields[n.Name] = true
									}
								}
							}
						}
					}
				case token.VAR:
					for _, sp := range v.Specs {
						for _, n := range sp.(*ast.ValueSpec).Names {
							x.pkgVars[n.Name] = true
						}
					}
				case token.CONST:
					iota := 0
					isTok := false
					var lastExpr ast.Expr
					for k, sp := range v.Specs {
						vs := sp.(*ast.ValueSpec)
						if k == 0 {
							if id, ok := vs.Type.(*ast.Ident); ok && id.Name == "LexTokenID" {
								isTok = true
							}
						}
						for j, n := range vs.Names {
							if isTok {
								x.tokID[n.Name] = iota
								continue
							}
							var e ast.Expr
							if j < len(vs.Values) {
								e = vs.Values[j]
								lastExpr = e
							} else {
								e = lastExpr
							}
							if s, ok := x.foldStr(e); ok {
								x.strConst[n.Name] = s
							} else if i, ok := x.foldInt(e, iota); ok {
								x.intConst[n.Name] = i
							}
						}
						iota++
					}
				}
			}
		}
	}
	return nil
}

func (x *c07Src) foldStr(e ast.Expr) (string, bool) {
	switch v := e.(type) {
	case *ast.BasicLit:
		if v.Kind == token.STRING {
			s, err := strconv.Unquote(v.Value)
			return s, err == nil
		}
	case *ast.Ident:
		s, ok := x.strConst[v.Name]
		return s, ok
	case *ast.ParenExpr:
		return x.foldStr(v.X)
	case *ast.BinaryExpr:
		if v.Op == token.ADD {
			a, ok1 := x.foldStr(v.X)
			b, ok2 := x.foldStr(v.Y)
			return a + b, ok1 && ok2
		}
	}
	return "", false
}

func (x *c07Src) foldInt(e ast.Expr, iota int) (int, bool) {
	switch v := e.(type) {
	case nil:
		return 0, false
	case *ast.BasicLit:
		if v.Kind == token.INT {
			i, err := strconv.ParseInt(v.Value, 0, 64)
			return int(i), err == nil
		}
	case *ast.Ident:
		if v.Name == "iota" {
			return iota, true
		}
		i, ok := x.intConst[v.Name]
		return i, ok
	case *ast.ParenExpr:
		return x.foldInt(v.X, iota)
	case *ast.UnaryExpr:
		if i, ok := x.foldInt(v.X, iota); ok {
			switch v.Op {
			case token.SUB:
				return -i, true
			case token.ADD:
				return i, true
			}
		}
	case *ast.BinaryExpr:
		a, ok1 := x.foldInt(v.X, iota)
		b, ok2 := x.foldInt(v.Y, iota)
		if ok1 && ok2 {
			switch v.Op {
			case token.ADD:
				return a + b, true
			case token.SUB:
				return a - b, true
			case token.MUL:
				return a * b, true
			case token.QUO:
				if b != 0 {
					return a / b, true
				}
			case token.SHL:
				return a << uint(b), true
			}
		}
	case *ast.CallExpr: // int(x), LexTokenID(x)
		if len(v.Args) == 1 {
			return x.foldInt(v.Args[0], iota)
		}
	}
	return 0, false
}

// ---------------------------------------------------------------- table

type c07Entry struct {
	id            int
	name          string
	binding       int
	nud, led, tok string
}

func (x *c07Src) astNodeFields() []string {
	for _, f := range x.files {
		for _, d := range f.Decls {
			if gd, ok := d.(*ast.GenDecl); ok && gd.Tok == token.TYPE {
				for _, sp := range gd.Specs {
					ts := sp.(*ast.TypeSpec)
					if st, ok := ts.Type.(*ast.StructType); ok && ts.Name.Name == "ASTNode" {
						var names []string
						for _, fl := range st.Fields.List {
							for _, n := range fl.Names {
								names = append(names, n.Name)
							}
						}
						return names
					}
				}
			}
		}
	}
	return nil
}

// node reads one ASTNode literal (positional or keyed).
func (x *c07Src) node(e ast.Expr, fields []string) (c07Entry, bool) {
	if u, ok := e.(*ast.UnaryExpr); ok {
		e = u.X
	}
	cl, ok := e.(*ast.CompositeLit)
	if !ok {
		return c07Entry{}, false
	}
	vals := map[string]ast.Expr{}
	for i, el := range cl.Elts {
		if kv, ok := el.(*ast.KeyValueExpr); ok {
			vals[c07Name(kv.Key)] = kv.Value
		} else if i < len(fields) {
			vals[fields[i]] = el
		} else {
			return c07Entry{}, false
		}
	}
	ent := c07Entry{nud: "nil", led: "nil"}
	if v, ok := vals["Name"]; ok {
		s, ok := x.foldStr(v)
		if !ok {
			return ent, false
		}
		ent.name = s
	}
	if v, ok := vals["binding"]; ok {
		b, ok := x.foldInt(v, 0)
		if !ok {
			return ent, false
		}
		ent.binding = b
	}
	den := func(k string) (string, bool) {
		v, ok := vals[k]
		if !ok {
			return "nil", true
		}
		if id, ok := v.(*ast.Ident); ok {
			return id.Name, true
		}
		return "", false // a closure or something else: not understood
	}
	var ok1, ok2 bool
	ent.nud, ok1 = den("nullDenotation")
	ent.led, ok2 = den("leftDenotation")
	return ent, ok1 && ok2
}

// ---------------------------------------------------------------- channel skeleton

func (x *c07Src) localChans(body ast.Node) map[string]bool {
	res := map[string]bool{}
	ast.Inspect(body, func(n ast.Node) bool {
		if as, ok := n.(*ast.AssignStmt); ok {
			for i, r := range as.Rhs {
				isChan := false
				if c, ok := r.(*ast.CallExpr); ok {
					if id, ok := c.Fun.(*ast.Ident); ok && id.Name == "make" && len(c.Args) > 0 {
						_, isChan = c.Args[0].(*ast.ChanType)
					}
					if id, ok := c.Fun.(*ast.Ident); ok && id.Name == "Lex" {
						isChan = true
					}
				}
				if se, ok := r.(*ast.SelectorExpr); ok && x.chanFields[se.Sel.Name] {
					isChan = true
				}
				if isChan && i < len(as.Lhs) {
					if id, ok := as.Lhs[i].(*ast.Ident); ok {
						res[id.Name] = true
					}
				}
			}
		}
		return true
	})
	return res
}

func (x *c07Src) isChan(e ast.Expr, local map[string]bool) bool {
	switch v := e.(type) {
	case *ast.SelectorExpr:
		return x.chanFields[v.Sel.Name]
	case *ast.Ident:
		return local[v.Name]
	case *ast.ParenExpr:
		return x.isChan(v.X, local)
	case *ast.CallExpr:
		if id, ok := v.Fun.(*ast.Ident); ok && id.Name == "Lex" {
			return true
		}
	}
	return false
}

func (x *c07Src) isCloseChan(s ast.Stmt, local map[string]bool) bool {
	var c *ast.CallExpr
	switch v := s.(type) {
	case *ast.ExprStmt:
		c, _ = v.X.(*ast.CallExpr)
	case *ast.DeferStmt:
		c = v.Call
	}
	if c == nil {
		return false
	}
	if id, ok := c.Fun.(*ast.Ident); ok && id.Name == "close" && len(c.Args) == 1 {
		return x.isChan(c.Args[0], local)
	}
	return false
}

// closesLast: in this body, closing the token channel is the last action (three-valued).
func (x *c07Src) closesLast(body *ast.BlockStmt, depth int) string {
	if body == nil || depth > 4 {
		return "unknown"
	}
	local := x.localChans(body)
	// a deferred close at the top level of the body runs after everything else on every exit
	for _, s := range body.List {
		if d, ok := s.(*ast.DeferStmt); ok {
			if x.isCloseChan(d, local) {
				return "yes"
			}
			if fl, ok := d.Call.Fun.(*ast.FuncLit); ok {
				for _, t := range fl.Body.List {
					if x.isCloseChan(t, local) {
						return "yes"
					}
				}
			}
		}
	}
	if len(body.List) == 0 {
		return "unknown"
	}
	last := body.List[len(body.List)-1]
	hasReturn := false
	ast.Inspect(body, func(n ast.Node) bool {
		switch n.(type) {
		case *ast.FuncLit:
			return false
		case *ast.ReturnStmt:
			hasReturn = true
		}
		return true
	})
	if x.isCloseChan(last, local) {
		if !hasReturn {
			return "yes"
		}
		return "no" // an early return skips the close: the consumer's `for range` never ends
	}
	// the body ends by calling a same-package function which itself closes last
	if es, ok := last.(*ast.ExprStmt); ok {
		if c, ok := es.X.(*ast.CallExpr); ok && !hasReturn {
			for _, fd := range x.funcs[c07Name(c.Fun)] {
				if r := x.closesLast(fd.Body, depth+1); r == "yes" {
					return r
				}
			}
		}
	}
	return "unknown"
}

// reach collects the bodies reachable from a call expression through same-package calls and closures.
func (x *c07Src) reach(n ast.Node, depth int, seen map[*ast.BlockStmt]bool, out *[]*ast.BlockStmt) {
	if n == nil || depth > 5 {
		return
	}
	ast.Inspect(n, func(m ast.Node) bool {
		switch v := m.(type) {
		case *ast.FuncLit:
			if !seen[v.Body] {
				seen[v.Body] = true
				*out = append(*out, v.Body)
			}
		case *ast.CallExpr:
			name := c07Name(v.Fun)
			for _, fd := range x.funcs[name] {
				if fd.Body != nil && !seen[fd.Body] {
					seen[fd.Body] = true
					*out = append(*out, fd.Body)
					x.reach(fd.Body, depth+1, seen, out)
				}
			}
		}
		return true
	})
}

// loopVerdict: a loop receiving from the token channel; "yes" if the only way out is the closed channel.
func (x *c07Src) loopVerdict(loop ast.Stmt, local map[string]bool) (isRecvLoop bool, verdict string, why string) {
	switch l := loop.(type) {
	case *ast.RangeStmt:
		if !x.isChan(l.X, local) {
			return false, "", ""
		}
		bad := ""
		ast.Inspect(l.Body, func(n ast.Node) bool {
			switch v := n.(type) {
			case *ast.FuncLit:
				return false
			case *ast.BranchStmt:
				if v.Tok == token.BREAK || v.Tok == token.GOTO {
					bad = "break/goto inside the range loop"
				}
			case *ast.ReturnStmt:
				bad = "return inside the range loop"
			case *ast.SelectStmt:
				bad = "select inside the range loop"
			}
			return true
		})
		if bad != "" {
			return true, "no", bad
		}
		return true, "yes", ""
	case *ast.ForStmt:
		// does it receive from the channel at all?
		recv := false
		moreVars := map[string]bool{}
		ast.Inspect(l, func(n ast.Node) bool {
			switch v := n.(type) {
			case *ast.UnaryExpr:
				if v.Op == token.ARROW && x.isChan(v.X, local) {
					recv = true
				}
			case *ast.AssignStmt:
				if len(v.Rhs) == 1 && len(v.Lhs) == 2 {
					if u, ok := v.Rhs[0].(*ast.UnaryExpr); ok && u.Op == token.ARROW && x.isChan(u.X, local) {
						moreVars[c07Name(v.Lhs[1])] = true
					}
				}
			}
			return true
		})
		if !recv {
			return false, "", ""
		}
		if l.Cond != nil {
			return true, "no", "the receive loop has a condition of its own (bounded drain)"
		}
		bad := ""
		var walk func(n ast.Node, guarded bool)
		walk = func(n ast.Node, guarded bool) {
			ast.Inspect(n, func(m ast.Node) bool {
				if m == n {
					return true
				}
				switch v := m.(type) {
				case *ast.FuncLit:
					return false
				case *ast.SelectStmt:
					bad = "select in the receive loop (a second way out)"
				case *ast.CallExpr:
					nm := c07Name(v.Fun)
					if nm == "After" || nm == "NewTimer" || nm == "WithTimeout" || nm == "WithDeadline" || nm == "Tick" {
						bad = "timer in the receive loop"
					}
				case *ast.IfStmt:
					// `if !more { return }` / `if more == false` / `if _, more := <-ch; !more { … }`
					g := false
					switch c := v.Cond.(type) {
					case *ast.UnaryExpr:
						g = c.Op == token.NOT && moreVars[c07Name(c.X)]
					case *ast.BinaryExpr:
						g = c.Op == token.EQL && moreVars[c07Name(c.X)] && c07Name(c.Y) == "false"
					}
					if v.Init != nil {
						walk(v.Init, guarded)
					}
					walk(v.Body, guarded || g)
					if v.Else != nil {
						walk(v.Else, guarded)
					}
					return false
				case *ast.BranchStmt:
					if (v.Tok == token.BREAK || v.Tok == token.GOTO) && !guarded {
						bad = "break not guarded by the closed-channel test"
					}
				case *ast.ReturnStmt:
					if !guarded {
						bad = "return not guarded by the closed-channel test"
					}
				}
				return true
			})
		}
		walk(l.Body, false)
		if bad != "" {
			return true, "no", bad
		}
		return true, "yes", ""
	}
	return false, "", ""
}

// parsesFromClosedLocalChannel: the channel handed to NewLABuffer is a local one (made here, not the result of Lex)
// which this function closes itself before parsing starts - the lexer has finished by then.
func (x *c07Src) parsesFromClosedLocalChannel(pwr *ast.FuncDecl) bool {
	made := map[string]bool{}
	closed := map[string]bool{}
	arg := ""
	ast.Inspect(pwr.Body, func(n ast.Node) bool {
		switch v := n.(type) {
		case *ast.AssignStmt:
			for i, r := range v.Rhs {
				if c, ok := r.(*ast.CallExpr); ok && i < len(v.Lhs) {
					if id, ok := c.Fun.(*ast.Ident); ok && id.Name == "make" && len(c.Args) > 0 {
						if _, ok := c.Args[0].(*ast.ChanType); ok {
							made[c07Name(v.Lhs[i])] = true
						}
					}
				}
			}
		case *ast.CallExpr:
			switch c07Name(v.Fun) {
			case "close":
				if len(v.Args) == 1 {
					closed[c07Name(v.Args[0])] = true
				}
			case "NewLABuffer":
				if len(v.Args) > 0 {
					if id, ok := v.Args[0].(*ast.Ident); ok {
						arg = id.Name
					}
				}
			}
		}
		return true
	})
	return arg != "" && made[arg] && closed[arg]
}

// ---------------------------------------------------------------- main

func c07GenTool(out string) int {
	x := &c07Src{}
	if err := x.load(); err != nil {
		fmt.Println("cannot parse package parser:", err)
		return 1
	}
	var notes []string
	note := func(f string, a ...interface{}) { notes = append(notes, fmt.Sprintf(f, a...)) }

	// ---- table
	fields := x.astNodeFields()
	var entries []c07Entry
	var notUnderstood []string
	tableFound := false
	blockBrace := c07Entry{id: -1}
	blockBraceSeen := false
	for _, f := range x.files {
		ast.Inspect(f, func(n ast.Node) bool {
			handle := func(lhs string, rhs ast.Expr) {
				switch lhs {
				case "astNodeMap":
					cl, ok := rhs.(*ast.CompositeLit)
					if !ok {
						return
					}
					tableFound = true
					for _, el := range cl.Elts {
						kv, ok := el.(*ast.KeyValueExpr)
						if !ok {
							notUnderstood = append(notUnderstood, "?")
							continue
						}
						key := c07Name(kv.Key)
						id, ok2 := x.tokID[key]
						e, ok := x.node(kv.Value, fields)
						if !ok || !ok2 {
							notUnderstood = append(notUnderstood, key)
							continue
						}
						e.id, e.tok = id, key
						entries = append(entries, e)
					}
				case "astNodeBlockBrace":
					blockBraceSeen = true
					if e, ok := x.node(rhs, fields); ok {
						blockBrace = e
						blockBrace.id = x.tokID["TokenLBRACE"]
					}
				}
			}
			switch v := n.(type) {
			case *ast.AssignStmt:
				if len(v.Lhs) == 1 && len(v.Rhs) == 1 {
					handle(c07Name(v.Lhs[0]), v.Rhs[0])
				}
			case *ast.ValueSpec:
				if len(v.Names) == 1 && len(v.Values) == 1 {
					handle(v.Names[0].Name, v.Values[0])
				}
			}
			return true
		})
	}
	tableUnderstood := tableFound && len(notUnderstood) == 0 && len(entries) > 0 && len(x.tokID) > 0
	if !tableUnderstood {
		note("table: astNodeMap not completely understood (entries not understood: %v)", notUnderstood)
	}
	blockBraceKnown := blockBrace.id >= 0
	if !blockBraceKnown {
		note("table: the block-start brace entry was not understood (assignment seen: %v)", blockBraceSeen)
	}

	// ---- goroutines, close, drain
	type goSite struct {
		fn   string
		stmt *ast.GoStmt
		body *ast.BlockStmt
	}
	var gos []goSite
	var pwr *ast.FuncDecl
	anyClose := false
	for _, f := range x.files {
		for _, d := range f.Decls {
			fd, ok := d.(*ast.FuncDecl)
			if !ok || fd.Body == nil {
				continue
			}
			if fd.Name.Name == "ParseWithRuntime" {
				pwr = fd
			}
			local := x.localChans(fd.Body)
			ast.Inspect(fd.Body, func(n ast.Node) bool {
				switch v := n.(type) {
				case *ast.GoStmt:
					gos = append(gos, goSite{fd.Name.Name, v, fd.Body})
				case *ast.ExprStmt:
					if x.isCloseChan(v, local) {
						anyClose = true
					}
				case *ast.DeferStmt:
					if x.isCloseChan(v, local) {
						anyClose = true
					}
				}
				return true
			})
		}
	}
	closeFact, syncFact := "unknown", "unknown"
	closeWhy, syncWhy := "", ""
	// which go statements are on the drain path (reachable from a defer of ParseWithRuntime)?
	var drainBodies []*ast.BlockStmt
	nDefers := 0
	if pwr != nil {
		seen := map[*ast.BlockStmt]bool{}
		ast.Inspect(pwr.Body, func(n ast.Node) bool {
			if d, ok := n.(*ast.DeferStmt); ok {
				nDefers++
				x.reach(d.Call, 0, seen, &drainBodies)
			}
			return true
		})
	}
	inDrain := func(g *ast.GoStmt) bool {
		for _, b := range drainBodies {
			found := false
			ast.Inspect(b, func(n ast.Node) bool {
				if n == ast.Node(g) {
					found = true
				}
				return true
			})
			if found {
				return true
			}
		}
		return false
	}
	var producers []goSite
	asyncDrain := false
	for _, g := range gos {
		if inDrain(g.stmt) {
			asyncDrain = true
		} else {
			producers = append(producers, g)
		}
	}
	switch {
	case len(producers) == 0:
		closeFact, closeWhy = "yes", "no producer goroutine: nothing runs besides the caller"
	case len(producers) == 1:
		g := producers[0]
		var body *ast.BlockStmt
		if fl, ok := g.stmt.Call.Fun.(*ast.FuncLit); ok {
			body = fl.Body
		}
		if body != nil {
			closeFact = x.closesLast(body, 0)
		} else {
			// a method / function value: several declarations may share the name - any that closes last counts,
			// a refutation only if every candidate refutes
			verdicts := map[string]int{}
			for _, fd := range x.funcs[c07Name(g.stmt.Call.Fun)] {
				verdicts[x.closesLast(fd.Body, 0)]++
			}
			switch {
			case verdicts["yes"] > 0:
				closeFact = "yes"
			case verdicts["no"] > 0 && verdicts["unknown"] == 0:
				closeFact = "no"
			}
		}
		closeWhy = "producer goroutine started in " + g.fn
		if closeFact == "unknown" && !anyClose {
			closeFact, closeWhy = "no", "a producer goroutine exists but the token channel is never closed"
		}
	default:
		closeWhy = fmt.Sprintf("%d go statements besides the drain path", len(producers))
	}
	if closeFact == "unknown" {
		note("close: not established that closing the token channel is the producer's last action (%s)", closeWhy)
	}
	switch {
	case pwr == nil:
		syncWhy = "ParseWithRuntime not found"
	case asyncDrain:
		syncFact, syncWhy = "no", "a go statement on the path of ParseWithRuntime's deferred calls: the channel is drained asynchronously"
	case len(producers) == 0:
		syncFact, syncWhy = "yes", "no producer goroutine: nothing is left to drain"
	case x.parsesFromClosedLocalChannel(pwr):
		syncFact, syncWhy = "yes", "ParseWithRuntime parses from a local channel which it has filled and closed itself: no goroutine is alive while parsing"
	default:
		found, refuted := false, ""
		for _, b := range drainBodies {
			local := x.localChans(b)
			loopSeen := false
			ast.Inspect(b, func(n ast.Node) bool {
				if _, ok := n.(*ast.FuncLit); ok {
					return true
				}
				if st, ok := n.(ast.Stmt); ok {
					if is, v, why := x.loopVerdict(st, local); is {
						loopSeen = true
						if v == "yes" {
							found = true
						} else {
							refuted = why
						}
					}
				}
				return true
			})
			if loopSeen {
				// any return of the draining function in front of / outside its loop is a second way out
				for _, s := range b.List {
					if is, _, _ := x.loopVerdict(s, local); is {
						break
					}
					ast.Inspect(s, func(n ast.Node) bool {
						switch n.(type) {
						case *ast.FuncLit:
							return false
						case *ast.ReturnStmt:
							refuted = "the draining function can return before its receive loop"
						}
						return true
					})
				}
			}
		}
		switch {
		case refuted != "":
			syncFact, syncWhy = "no", refuted
		case found:
			syncFact, syncWhy = "yes", "a loop reachable from a defer of ParseWithRuntime receives until the channel is closed"
		case nDefers == 0:
			syncFact, syncWhy = "no", "a producer goroutine exists and ParseWithRuntime defers nothing: the rest of the channel is never consumed"
		default:
			syncWhy = "deferred calls exist but no receive loop on the token channel was found on their path"
		}
	}
	if syncFact == "unknown" {
		note("sync: %s", syncWhy)
	}

	// ---- package-level state written outside init
	type wr struct{ v, fn string }
	var writes []wr
	for _, f := range x.files {
		for _, d := range f.Decls {
			fd, ok := d.(*ast.FuncDecl)
			if !ok || fd.Body == nil || fd.Name.Name == "init" {
				continue
			}
			// names shadowed by parameters / locals are not package variables
			shadow := map[string]bool{}
			if fd.Recv != nil {
				for _, fl := range fd.Recv.List {
					for _, n := range fl.Names {
						shadow[n.Name] = true
					}
				}
			}
			for _, fl := range fd.Type.Params.List {
				for _, n := range fl.Names {
					shadow[n.Name] = true
				}
			}
			ast.Inspect(fd.Body, func(n ast.Node) bool {
				switch v := n.(type) {
				case *ast.AssignStmt:
					if v.Tok == token.DEFINE {
						for _, l := range v.Lhs {
							shadow[c07Name(l)] = true
						}
					}
				case *ast.ValueSpec:
					for _, nn := range v.Names {
						shadow[nn.Name] = true
					}
				}
				return true
			})
			root := func(e ast.Expr) string {
				for {
					switch v := e.(type) {
					case *ast.IndexExpr:
						e = v.X
					case *ast.SelectorExpr:
						e = v.X
					case *ast.StarExpr:
						e = v.X
					case *ast.ParenExpr:
						e = v.X
					case *ast.Ident:
						return v.Name
					default:
						return ""
					}
				}
			}
			add := func(e ast.Expr) {
				if r := root(e); r != "" && x.pkgVars[r] && !shadow[r] {
					writes = append(writes, wr{r, fd.Name.Name})
				}
			}
			ast.Inspect(fd.Body, func(n ast.Node) bool {
				switch v := n.(type) {
				case *ast.AssignStmt:
					if v.Tok != token.DEFINE {
						for _, l := range v.Lhs {
							add(l)
						}
					}
				case *ast.IncDecStmt:
					add(v.X)
				case *ast.CallExpr:
					if id, ok := v.Fun.(*ast.Ident); ok && id.Name == "delete" && len(v.Args) > 0 {
						add(v.Args[0])
					}
				}
				return true
			})
		}
	}
	sort.Slice(writes, func(i, j int) bool { return writes[i].v+writes[i].fn < writes[j].v+writes[j].fn })

	// ---- error discipline: refuting patterns
	var errSites []string
	for _, f := range x.files {
		for _, d := range f.Decls {
			fd, ok := d.(*ast.FuncDecl)
			if !ok || fd.Body == nil {
				continue
			}
			// types of the receiver and the parameters (to tell (*parser).next from (*lexer).next)
			env := map[string]string{}
			if fd.Recv != nil {
				for _, fl := range fd.Recv.List {
					for _, n := range fl.Names {
						env[n.Name] = c07Name(fl.Type)
					}
				}
			}
			for _, fl := range fd.Type.Params.List {
				for _, n := range fl.Names {
					env[n.Name] = c07Name(fl.Type)
				}
			}
			mentionsErr := func(n ast.Node) bool {
				r := false
				if n == nil {
					return false
				}
				ast.Inspect(n, func(m ast.Node) bool {
					if id, ok := m.(*ast.Ident); ok && id.Name == "err" {
						r = true
					}
					return true
				})
				return r
			}
			assignsErr := func(s ast.Stmt) bool {
				as, ok := s.(*ast.AssignStmt)
				if !ok {
					return false
				}
				for _, l := range as.Lhs {
					if c07Name(l) == "err" {
						return true
					}
				}
				return false
			}
			var walk func(list []ast.Stmt, loops []*ast.ForStmt)
			walk = func(list []ast.Stmt, loops []*ast.ForStmt) {
				for i, s := range list {
					// R1: discarded error result
					if es, ok := s.(*ast.ExprStmt); ok {
						if c, ok := es.X.(*ast.CallExpr); ok {
							key := "?"
							switch fv := c.Fun.(type) {
							case *ast.Ident:
								key = "." + fv.Name
							case *ast.SelectorExpr:
								if t, ok := env[c07Name(fv.X)]; ok {
									if _, isIdent := fv.X.(*ast.Ident); isIdent {
										key = t + "." + fv.Sel.Name
									}
								}
							}
							if x.errFuncs[key] {
								errSites = append(errSites, fmt.Sprintf("%s: the error result of %s(…) is discarded", fd.Name.Name, c07Name(c.Fun)))
							}
						}
					}
					// R2: err assigned inside a loop which nobody looks at before the next iteration
					if assignsErr(s) && len(loops) > 0 {
						loop := loops[len(loops)-1]
						looked := mentionsErr(loop.Cond)
						for _, t := range list[i+1:] {
							switch v := t.(type) {
							case *ast.IfStmt:
								if mentionsErr(v.Cond) {
									looked = true
								}
							case *ast.ReturnStmt:
								if mentionsErr(v) {
									looked = true
								}
							}
						}
						if !looked {
							errSites = append(errSites, fmt.Sprintf("%s: err is assigned in a loop whose condition and following statements do not test it", fd.Name.Name))
						}
					}
					switch v := s.(type) {
					case *ast.BlockStmt:
						walk(v.List, loops)
					case *ast.IfStmt:
						// `if …; err == nil {` tests the value assigned in its init
						walk(v.Body.List, loops)
						if e, ok := v.Else.(*ast.BlockStmt); ok {
							walk(e.List, loops)
						} else if e, ok := v.Else.(*ast.IfStmt); ok {
							walk([]ast.Stmt{e}, loops)
						}
					case *ast.ForStmt:
						walk(v.Body.List, append(loops, v))
					case *ast.RangeStmt:
						walk(v.Body.List, loops)
					case *ast.SwitchStmt:
						for _, c := range v.Body.List {
							walk(c.(*ast.CaseClause).Body, loops)
						}
					}
				}
			}
			walk(fd.Body.List, nil)
		}
	}
	errFact := "unknown"
	if len(errSites) > 0 {
		errFact = "no"
	} else {
		note("errors: no refuting pattern found (discarded error result / err overwritten in a loop untested); the full discipline " +
			"(every err value tested before reassignment, before p.node is dereferenced, before a node is appended) is NOT established by this extractor")
	}

	// ---- output
	var sb strings.Builder
	sb.WriteString("/-! GENERATED by `harness C07 -tool gen` from package parser of the tree under test — do not edit.\n")
	sb.WriteString("Facts are three-valued: \"yes\" established, \"no\" refuted, \"unknown\" not established (never an obligation). -/\nnamespace Ecal.Gen.C07\n\n")
	sb.WriteString("/-- astNodeMap, the entries that were understood: (token id, node name, binding, nullDenotation, leftDenotation) -/\n")
	sb.WriteString("def astNodeMap : List (Nat × String × Nat × String × String) := [\n")
	for i, e := range entries {
		c := ","
		if i == len(entries)-1 {
			c = ""
		}
		fmt.Fprintf(&sb, "  (%d, %s, %d, %s, %s)%s   -- %s\n", e.id, strconv.Quote(e.name), e.binding, strconv.Quote(e.nud), strconv.Quote(e.led), c, e.tok)
	}
	sb.WriteString("]\n\n/-- every entry of astNodeMap was understood (then the list above is the whole table) -/\n")
	fmt.Fprintf(&sb, "def tableUnderstood : Bool := %v\n\n", tableUnderstood)
	sb.WriteString("/-- astNodeBlockBrace: the entry used for `{` while a guard expression is parsed (none = not understood) -/\n")
	if blockBraceKnown {
		fmt.Fprintf(&sb, "def blockBrace : Option (Nat × String × Nat × String × String) := some (%d, %s, %d, %s, %s)\n\n", blockBrace.id,
			strconv.Quote(blockBrace.name), blockBrace.binding, strconv.Quote(blockBrace.nud), strconv.Quote(blockBrace.led))
	} else {
		sb.WriteString("def blockBrace : Option (Nat × String × Nat × String × String) := none\n\n")
	}
	fmt.Fprintf(&sb, "/-- ids of the error / comment tokens -/\ndef tokenError : Nat := %d\ndef tokenPreComment : Nat := %d\ndef tokenPostComment : Nat := %d\n\n",
		x.tokID["TokenError"], x.tokID["TokenPRECOMMENT"], x.tokID["TokenPOSTCOMMENT"])
	fmt.Fprintf(&sb, "/-- `go` statements of package parser outside the drain path (producer goroutines) -/\ndef producerGoroutines : Nat := %d\n\n", len(producers))
	fmt.Fprintf(&sb, "/-- closing the token channel is the last action of the producer goroutine (or there is none) -/\ndef closeFact : String := %s\ndef closeWhy : String := %s\n\n", strconv.Quote(closeFact), strconv.Quote(closeWhy))
	fmt.Fprintf(&sb, "/-- when ParseWithRuntime returns, the rest of the token channel has been consumed in the calling goroutine by a loop\n    whose only way out is the closed channel (or nothing is left running at all) -/\ndef syncFact : String := %s\ndef syncWhy : String := %s\n\n", strconv.Quote(syncFact), strconv.Quote(syncWhy))
	sb.WriteString("/-- package-level variables of package parser written outside init(): (variable, function) -/\ndef pkgWrites : List (String × String) := [")
	for i, w := range writes {
		if i > 0 {
			sb.WriteString(", ")
		}
		fmt.Fprintf(&sb, "(%s, %s)", strconv.Quote(w.v), strconv.Quote(w.fn))
	}
	sb.WriteString("]\n\n")
	fmt.Fprintf(&sb, "/-- error discipline assumed by the model's short-circuit error monad: \"no\" = a refuting pattern was found -/\ndef errFact : String := %s\ndef errSites : List String := [", strconv.Quote(errFact))
	for i, s := range errSites {
		if i > 0 {
			sb.WriteString(", ")
		}
		sb.WriteString(strconv.Quote(s))
	}
	sb.WriteString("]\n\n/-- what was not established in this run (evidence notes; not obligations) -/\ndef notes : List String := [")
	for i, s := range notes {
		if i > 0 {
			sb.WriteString(", ")
		}
		sb.WriteString(strconv.Quote(s))
	}
	sb.WriteString("]\n\nend Ecal.Gen.C07\n")
	if err := os.WriteFile(out, []byte(sb.String()), 0644); err != nil {
		fmt.Println(err)
		return 1
	}
	for _, n := range notes {
		fmt.Println("NOTE", n)
	}
	return 0
}
