package main

import (
	"encoding/hex"
)

// Rand is a splitmix64 generator: every random choice of a run derives from one state.
type Rand struct{ s uint64 }

// NewRand seeds a generator. The seed goes through the splitmix finaliser first: with a state that is linear in the
// seed, the stream of seed k+1 would be the stream of seed k shifted by one draw and most generated cases of two
// seeds would coincide (measured in notes/reviews/C14.md: 21285 of 21286 payloads shared by seeds 1 and 2).
func NewRand(seed uint64) *Rand {
	z := seed + 0x1234567
	z = (z ^ (z >> 30)) * 0xBF58476D1CE4E5B9
	z = (z ^ (z >> 27)) * 0x94D049BB133111EB
	return &Rand{z ^ (z >> 31)}
}

// U64 returns the next value.
func (r *Rand) U64() uint64 {
	r.s += 0x9E3779B97F4A7C15
	z := r.s
	z = (z ^ (z >> 30)) * 0xBF58476D1CE4E5B9
	z = (z ^ (z >> 27)) * 0x94D049BB133111EB
	return z ^ (z >> 31)
}

// Intn returns a value in [0,n).
func (r *Rand) Intn(n int) int {
	if n <= 0 {
		return 0
	}
	return int(r.U64() % uint64(n))
}

// Bool returns a fair coin.
func (r *Rand) Bool() bool { return r.U64()&1 == 1 }

// Pick returns a random element.
func (r *Rand) Pick(xs []string) string { return xs[r.Intn(len(xs))] }

// hx encodes a byte string as a protocol field ("-" for the empty string).
func hx(s string) string {
	if s == "" {
		return "-"
	}
	return hex.EncodeToString([]byte(s))
}

// unhx decodes a protocol field.
func unhx(s string) string {
	if s == "-" {
		return ""
	}
	b, err := hex.DecodeString(s)
	if err != nil {
		panic("bad hex field: " + s)
	}
	return string(b)
}
