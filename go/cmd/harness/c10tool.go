package main

// C10 fact extractor (`harness C10 -tool facts <out.lean>`): go/ast over engine/*.go of the tree
// under test. Every fact is three-valued: a definite "good" shape, a definite "bad" shape, and
// "unknown"/"other" when the code was restructured beyond what the extractor understands (the
// theorems over the facts only reject the definite bad shapes; the correspondence decides the rest).

import (
	"bytes"
	"fmt"
	"go/ast"
	"go/parser"
	"go/printer"
	"go/token"
	"os"
	"path/filepath"
	"sort"
	"strings"
)

type c10Func struct {
	name   string
	recv   string
	decl   *ast.FuncDecl
	params map[string]bool
}

func c10ParseEngine() (*token.FileSet, []c10Func, []*ast.File, error) {
	fset := token.NewFileSet()
	files, _ := filepath.Glob(filepath.Join(repoDir(), "engine", "*.go"))
	sort.Strings(files)
	var funcs []c10Func
	var parsed []*ast.File
	for _, fn := range files {
		if strings.HasSuffix(fn, "_test.go") {
			continue
		}
		f, err := parser.ParseFile(fset, fn, nil, 0)
		if err != nil {
			return nil, nil, nil, err
		}
		parsed = append(parsed, f)
		for _, d := range f.Decls {
			fd, ok := d.(*ast.FuncDecl)
			if !ok || fd.Body == nil {
				continue
			}
			cf := c10Func{name: fd.Name.Name, decl: fd, params: map[string]bool{}}
			if fd.Recv != nil && len(fd.Recv.List) > 0 {
				var b bytes.Buffer
				printer.Fprint(&b, fset, fd.Recv.List[0].Type)
				cf.recv = strings.TrimPrefix(b.String(), "*")
			}
			for _, p := range fd.Type.Params.List {
				for _, n := range p.Names {
					cf.params[n.Name] = true
				}
			}
			funcs = append(funcs, cf)
		}
	}
	return fset, funcs, parsed, nil
}

func c10Src(fset *token.FileSet, n ast.Node) string {
	var b bytes.Buffer
	printer.Fprint(&b, fset, n)
	return b.String()
}

func c10SelName(e ast.Expr) string {
	if s, ok := e.(*ast.SelectorExpr); ok {
		return s.Sel.Name
	}
	return ""
}

// c10MutexFields: names of the fields of struct RootMonitor whose type is a (pointer to a) sync
// mutex; "" stands for an embedded one (then `rm.Lock()` is the call).
func c10MutexFields(files []*ast.File) map[string]bool {
	res := map[string]bool{}
	for _, f := range files {
		ast.Inspect(f, func(n ast.Node) bool {
			ts, ok := n.(*ast.TypeSpec)
			if !ok || ts.Name.Name != "RootMonitor" {
				return true
			}
			st, ok := ts.Type.(*ast.StructType)
			if !ok {
				return true
			}
			for _, fl := range st.Fields.List {
				var b bytes.Buffer
				printer.Fprint(&b, token.NewFileSet(), fl.Type)
				t := strings.TrimPrefix(b.String(), "*")
				if t == "sync.Mutex" || t == "sync.RWMutex" {
					if len(fl.Names) == 0 {
						res[""] = true
					}
					for _, nm := range fl.Names {
						res[nm.Name] = true
					}
				}
			}
			return false
		})
	}
	return res
}

type c10LockEv struct {
	pos    token.Pos
	unlock bool
}

// c10LockEvents: Lock / non-deferred Unlock calls on a RootMonitor mutex in a function body, in source order.
func c10LockEvents(fd *ast.FuncDecl, mutex map[string]bool) []c10LockEv {
	deferred := map[*ast.CallExpr]bool{}
	ast.Inspect(fd.Body, func(n ast.Node) bool {
		if d, ok := n.(*ast.DeferStmt); ok {
			deferred[d.Call] = true
		}
		return true
	})
	var evs []c10LockEv
	ast.Inspect(fd.Body, func(n ast.Node) bool {
		c, ok := n.(*ast.CallExpr)
		if !ok || deferred[c] {
			return true
		}
		s, ok := c.Fun.(*ast.SelectorExpr)
		if !ok {
			return true
		}
		name := s.Sel.Name
		if name != "Lock" && name != "Unlock" && name != "RLock" && name != "RUnlock" {
			return true
		}
		isMutex := false
		if inner, ok := s.X.(*ast.SelectorExpr); ok && mutex[inner.Sel.Name] {
			isMutex = true // x.<mutexfield>.Lock()
		}
		if _, ok := s.X.(*ast.Ident); ok && mutex[""] {
			isMutex = true // embedded mutex: x.Lock()
		}
		if isMutex {
			evs = append(evs, c10LockEv{c.Pos(), strings.HasSuffix(name, "nlock")})
		}
		return true
	})
	sort.Slice(evs, func(a, b int) bool { return evs[a].pos < evs[b].pos })
	return evs
}

// c10GuardAt: is position pos inside a lock section of the function? "yes": the nearest mutex call
// before it is a Lock; "no": it is an Unlock (positive evidence); "none": no mutex call before it.
func c10GuardAt(evs []c10LockEv, pos token.Pos) string {
	res := "none"
	for _, e := range evs {
		if e.pos < pos {
			if e.unlock {
				res = "no"
			} else {
				res = "yes"
			}
		}
	}
	return res
}

// c10Reaches: does the source of node n contain one of the texts, directly or through calls of
// functions of the same package (depth-limited)? unknownCalls is set when a call cannot be followed.
func c10Reaches(fset *token.FileSet, byName map[string]c10Func, n ast.Node, texts []string, depth int, unknownCalls *bool) bool {
	src := c10Src(fset, n)
	for _, t := range texts {
		if strings.Contains(src, t) {
			return true
		}
	}
	found := false
	ast.Inspect(n, func(m ast.Node) bool {
		c, ok := m.(*ast.CallExpr)
		if !ok || found {
			return true
		}
		name := ""
		switch f := c.Fun.(type) {
		case *ast.Ident:
			name = f.Name
		case *ast.SelectorExpr:
			name = f.Sel.Name
		}
		switch name {
		case "delete", "len", "append", "At", "make", "new", "cap", "RemoveFirst", "Priority", "ID", "PostEvent", "Lock", "Unlock":
			return true
		}
		if g, ok := byName[name]; ok && depth < 3 {
			if c10Reaches(fset, byName, g.decl.Body, texts, depth+1, unknownCalls) {
				found = true
			}
		} else {
			*unknownCalls = true
		}
		return true
	})
	return found
}

func c10Facts(out string) int {
	fset, funcs, parsed, err := c10ParseEngine()
	mutex := c10MutexFields(parsed)
	if err != nil {
		fmt.Fprintln(os.Stderr, err)
		return 1
	}
	// 1. writers of failOnFirstError
	var writers []string
	addrTaken := false
	for _, f := range funcs {
		ast.Inspect(f.decl.Body, func(n ast.Node) bool {
			switch x := n.(type) {
			case *ast.AssignStmt:
				for i, l := range x.Lhs {
					if c10SelName(l) != "failOnFirstError" {
						continue
					}
					kind := "other"
					if i < len(x.Rhs) {
						if id, ok := x.Rhs[i].(*ast.Ident); ok {
							if id.Name == "true" || id.Name == "false" {
								kind = "const"
							} else if f.params[id.Name] {
								kind = "param"
							}
						}
					}
					writers = append(writers, fmt.Sprintf("(%q, %q)", f.name, kind))
				}
			case *ast.IncDecStmt:
				if c10SelName(x.X) == "failOnFirstError" {
					writers = append(writers, fmt.Sprintf("(%q, %q)", f.name, "other"))
				}
			case *ast.UnaryExpr:
				if x.Op == token.AND && c10SelName(x.X) == "failOnFirstError" {
					addrTaken = true
				}
			case *ast.KeyValueExpr:
				if id, ok := x.Key.(*ast.Ident); ok && id.Name == "failOnFirstError" {
					writers = append(writers, fmt.Sprintf("(%q, %q)", f.name, "init"))
				}
			}
			return true
		})
	}
	// 2. every use of RootMonitor.incomplete / .priorities: inside a lock section of a RootMonitor mutex?
	//    locked         every use follows a Lock with no Unlock in between
	//    callers-locked no mutex call before the uses, every call site in the package is inside a lock section
	//    unlocked       POSITIVE evidence: a use follows an Unlock, or a call site does
	//    unknown        anything else (closures, no call sites, no mutex field recognised, ...)
	uses := map[string][]token.Pos{}
	inClosure := map[string]bool{}
	for _, f := range funcs {
		var stack []ast.Node
		ast.Inspect(f.decl.Body, func(n ast.Node) bool {
			if n == nil {
				stack = stack[:len(stack)-1]
				return true
			}
			stack = append(stack, n)
			if s, ok := n.(*ast.SelectorExpr); ok && (s.Sel.Name == "incomplete" || s.Sel.Name == "priorities") {
				uses[f.name] = append(uses[f.name], s.Pos())
				for _, a := range stack {
					if _, ok := a.(*ast.FuncLit); ok {
						inClosure[f.name] = true
					}
				}
			}
			return true
		})
	}
	byName := map[string]c10Func{}
	for _, f := range funcs {
		byName[f.name] = f
	}
	var classify func(name string, depth int) string
	classify = func(name string, depth int) string {
		f := byName[name]
		if f.recv == "" {
			return "constructor"
		}
		if len(mutex) == 0 || inClosure[name] {
			return "unknown"
		}
		evs := c10LockEvents(f.decl, mutex)
		yes, no, none := 0, 0, 0
		for _, u := range uses[name] {
			switch c10GuardAt(evs, u) {
			case "yes":
				yes++
			case "no":
				no++
			default:
				none++
			}
		}
		if no > 0 {
			return "unlocked"
		}
		if none == 0 {
			return "locked"
		}
		if yes > 0 || depth > 3 {
			return "unknown"
		}
		// no mutex call before the uses: look at the call sites
		callers, bad, unk := 0, false, false
		for _, g := range funcs {
			gevs := c10LockEvents(g.decl, mutex)
			ast.Inspect(g.decl.Body, func(n ast.Node) bool {
				if c, ok := n.(*ast.CallExpr); ok && c10SelName(c.Fun) == name && g.name != name {
					callers++
					switch c10GuardAt(gevs, c.Pos()) {
					case "no":
						bad = true
					case "none":
						unk = true
					}
				}
				return true
			})
		}
		switch {
		case bad:
			return "unlocked"
		case callers > 0 && !unk:
			return "callers-locked"
		}
		return "unknown"
	}
	var names []string
	for n := range uses {
		names = append(names, n)
	}
	sort.Strings(names)
	var access []string
	for _, n := range names {
		access = append(access, fmt.Sprintf("(%q, %q)", n, classify(n, 0)))
	}
	// 3. heap order re-established after RemoveFirst:
	//    reestablished      a statement after the call reaches heap.Init / sort.* (also through same-package calls)
	//    not-reestablished  POSITIVE evidence: RemoveFirst is called in descendantFinished-like code, nothing after it
	//                       in that function reaches a re-heapify and every call after it could be followed
	//    unknown            otherwise
	// 4. guard of the decrement of incomplete[priority]:
	//    skipped-excluded   the (expanded) guard negates something whose name contains "skip"
	//    skipped-counted    POSITIVE evidence: the expanded guard mentions only the activated flag
	//    unknown            otherwise
	reheap, skipGuard := "unknown", "unknown"
	goodTexts := []string{"heap.Init(", "sort.Ints(", "sort.Sort(", "sort.Slice("}
	expand := func(cond string) string {
		// inline the bodies of same-package predicate methods called in the condition (one level)
		out := cond
		for name, g := range byName {
			if strings.Contains(cond, "."+name+"(") || strings.HasPrefix(cond, name+"(") {
				if name == "IsActivated" {
					continue
				}
				out += " {" + c10Src(fset, g.decl.Body) + "}"
			}
		}
		return out
	}
	for _, f := range funcs {
		var stack []ast.Node
		ast.Inspect(f.decl.Body, func(n ast.Node) bool {
			if n == nil {
				stack = stack[:len(stack)-1]
				return true
			}
			stack = append(stack, n)
			if c, ok := n.(*ast.CallExpr); ok && c10SelName(c.Fun) == "RemoveFirst" {
				found, unknownCalls := false, false
				// every statement after the call, in all enclosing blocks up to the function body
				for i := len(stack) - 1; i >= 0; i-- {
					if b, ok := stack[i].(*ast.BlockStmt); ok {
						for _, st := range b.List {
							if st.Pos() > c.End() && c10Reaches(fset, byName, st, goodTexts, 0, &unknownCalls) {
								found = true
							}
						}
					}
				}
				// a helper: its callers may re-establish the order after it returns
				helperCalled := false
				for _, g := range funcs {
					if g.name != f.name && strings.Contains(c10Src(fset, g.decl.Body), "."+f.name+"(") {
						helperCalled = true
						if c10Reaches(fset, byName, g.decl.Body, goodTexts, 0, &unknownCalls) {
							found = true
						}
					}
				}
				switch {
				case found:
					reheap = "reestablished"
				case !unknownCalls && reheap == "unknown" && (helperCalled || f.name == "descendantFinished"):
					reheap = "not-reestablished"
				}
			}
			dec := false
			switch x := n.(type) {
			case *ast.IncDecStmt:
				if ix, ok := x.X.(*ast.IndexExpr); ok && c10SelName(ix.X) == "incomplete" && x.Tok == token.DEC {
					dec = true
				}
			case *ast.AssignStmt:
				if len(x.Lhs) == 1 {
					if ix, ok := x.Lhs[0].(*ast.IndexExpr); ok && c10SelName(ix.X) == "incomplete" &&
						(x.Tok == token.SUB_ASSIGN || strings.Contains(c10Src(fset, x.Rhs[0]), "- 1")) {
						dec = true
					}
				}
			}
			if dec {
				conds := ""
				for _, a := range stack {
					if is, ok := a.(*ast.IfStmt); ok {
						conds += " " + expand(c10Src(fset, is.Cond))
					}
				}
				ast.Inspect(f.decl.Body, func(m ast.Node) bool {
					if is, ok := m.(*ast.IfStmt); ok && is.End() < n.Pos() {
						conds += " " + expand(c10Src(fset, is.Cond))
					}
					return true
				})
				// a helper holding the decrement: the guards around its call sites count as well
				for _, g := range funcs {
					if g.name == f.name {
						continue
					}
					var gs []ast.Node
					ast.Inspect(g.decl.Body, func(m ast.Node) bool {
						if m == nil {
							gs = gs[:len(gs)-1]
							return true
						}
						gs = append(gs, m)
						if c, ok := m.(*ast.CallExpr); ok && c10SelName(c.Fun) == f.name {
							for _, a := range gs {
								if is, ok := a.(*ast.IfStmt); ok {
									conds += " " + expand(c10Src(fset, is.Cond))
								}
							}
						}
						return true
					})
				}
				low := strings.ToLower(conds)
				onlyActivated := strings.Contains(low, "activated")
				for _, w := range strings.FieldsFunc(conds, func(r rune) bool {
					return !(r == '_' || r >= 'a' && r <= 'z' || r >= 'A' && r <= 'Z' || r >= '0' && r <= '9')
				}) {
					switch strings.ToLower(w) {
					case "m", "mb", "monitor", "activated", "isactivated", "true", "false", "rm", "unfinished", "finished", "0", "nil":
					default:
						onlyActivated = false
					}
				}
				switch {
				case strings.Contains(low, "!") && strings.Contains(low, "skip"):
					skipGuard = "skipped-excluded"
				case onlyActivated && skipGuard == "unknown":
					skipGuard = "skipped-counted"
				}
			}
			return true
		})
	}
	var b strings.Builder
	b.WriteString("/-! GENERATED by `harness C10 -tool facts` from engine/*.go of the tree under test — do not edit. -/\n")
	b.WriteString("namespace Ecal.Gen.C10\n\n")
	b.WriteString("/-- every write to `failOnFirstError` in package engine: (function, right-hand side: param | const | init | other) -/\n")
	fmt.Fprintf(&b, "def flagWriters : List (String × String) := [%s]\n\n", strings.Join(writers, ", "))
	fmt.Fprintf(&b, "/-- `&x.failOnFirstError` occurs somewhere -/\ndef flagAddressTaken : Bool := %v\n\n", addrTaken)
	b.WriteString("/-- every function of package engine that uses `incomplete` / `priorities`: (function, locked | callers-locked | constructor | unlocked | unknown) -/\n")
	fmt.Fprintf(&b, "def bookAccess : List (String × String) := [%s]\n\n", strings.Join(access, ", "))
	fmt.Fprintf(&b, "/-- after `RemoveFirst`: reestablished | not-reestablished | unknown (no `RemoveFirst` call found) -/\ndef reheap : String := %q\n\n", reheap)
	fmt.Fprintf(&b, "/-- guard of the decrement of `incomplete[priority]`: skipped-excluded | skipped-counted | unknown -/\ndef skipGuard : String := %q\n\n", skipGuard)
	b.WriteString("end Ecal.Gen.C10\n")
	if err := os.WriteFile(out, []byte(b.String()), 0644); err != nil {
		fmt.Fprintln(os.Stderr, err)
		return 1
	}
	return 0
}
