package main

// C10 fact extractor (`harness C10 -tool facts <out.lean>`): go/ast over engine/*.go of the tree
// under test. Every fact is three-valued: a definite "good" shape, a definite "bad" shape, and
// "unknown"/"other" when the code was restructured beyond what the extractor understands (the
// theorems over the facts only reject the definite bad shapes; the correspondence decides the rest).

import (
	"bytes"
	"fmt"
	"go/ast"
	"go/parser"
	"go/printer"
	"go/token"
	"os"
	"path/filepath"
	"sort"
	"strings"
)

type c10Func struct {
	name   string
	recv   string
	decl   *ast.FuncDecl
	params map[string]bool
}

func c10ParseEngine() (*token.FileSet, []c10Func, error) {
	fset := token.NewFileSet()
	files, _ := filepath.Glob(filepath.Join(repoDir(), "engine", "*.go"))
	sort.Strings(files)
	var funcs []c10Func
	for _, fn := range files {
		if strings.HasSuffix(fn, "_test.go") {
			continue
		}
		f, err := parser.ParseFile(fset, fn, nil, 0)
		if err != nil {
			return nil, nil, err
		}
		for _, d := range f.Decls {
			fd, ok := d.(*ast.FuncDecl)
			if !ok || fd.Body == nil {
				continue
			}
			cf := c10Func{name: fd.Name.Name, decl: fd, params: map[string]bool{}}
			if fd.Recv != nil && len(fd.Recv.List) > 0 {
				var b bytes.Buffer
				printer.Fprint(&b, fset, fd.Recv.List[0].Type)
				cf.recv = strings.TrimPrefix(b.String(), "*")
			}
			for _, p := range fd.Type.Params.List {
				for _, n := range p.Names {
					cf.params[n.Name] = true
				}
			}
			funcs = append(funcs, cf)
		}
	}
	return fset, funcs, nil
}

func c10Src(fset *token.FileSet, n ast.Node) string {
	var b bytes.Buffer
	printer.Fprint(&b, fset, n)
	return b.String()
}

func c10SelName(e ast.Expr) string {
	if s, ok := e.(*ast.SelectorExpr); ok {
		return s.Sel.Name
	}
	return ""
}

// c10LockedBefore: does a call `<x>.lock.Lock()` occur in the body before position pos?
func c10LockedBefore(fd *ast.FuncDecl, pos token.Pos) bool {
	locked := false
	ast.Inspect(fd.Body, func(n ast.Node) bool {
		if c, ok := n.(*ast.CallExpr); ok && c.Pos() < pos {
			if s, ok := c.Fun.(*ast.SelectorExpr); ok && s.Sel.Name == "Lock" && c10SelName(s.X) == "lock" {
				locked = true
			}
		}
		return true
	})
	return locked
}

func c10Facts(out string) int {
	fset, funcs, err := c10ParseEngine()
	if err != nil {
		fmt.Fprintln(os.Stderr, err)
		return 1
	}
	// 1. writers of failOnFirstError
	var writers []string
	addrTaken := false
	for _, f := range funcs {
		ast.Inspect(f.decl.Body, func(n ast.Node) bool {
			switch x := n.(type) {
			case *ast.AssignStmt:
				for i, l := range x.Lhs {
					if c10SelName(l) != "failOnFirstError" {
						continue
					}
					kind := "other"
					if i < len(x.Rhs) {
						if id, ok := x.Rhs[i].(*ast.Ident); ok {
							if id.Name == "true" || id.Name == "false" {
								kind = "const"
							} else if f.params[id.Name] {
								kind = "param"
							}
						}
					}
					writers = append(writers, fmt.Sprintf("(%q, %q)", f.name, kind))
				}
			case *ast.IncDecStmt:
				if c10SelName(x.X) == "failOnFirstError" {
					writers = append(writers, fmt.Sprintf("(%q, %q)", f.name, "other"))
				}
			case *ast.UnaryExpr:
				if x.Op == token.AND && c10SelName(x.X) == "failOnFirstError" {
					addrTaken = true
				}
			case *ast.KeyValueExpr:
				if id, ok := x.Key.(*ast.Ident); ok && id.Name == "failOnFirstError" {
					writers = append(writers, fmt.Sprintf("(%q, %q)", f.name, "init"))
				}
			}
			return true
		})
	}
	// 2. every use of RootMonitor.incomplete / .priorities: under rm.lock?
	uses := map[string]token.Pos{} // function -> first use
	for _, f := range funcs {
		ast.Inspect(f.decl.Body, func(n ast.Node) bool {
			if s, ok := n.(*ast.SelectorExpr); ok && (s.Sel.Name == "incomplete" || s.Sel.Name == "priorities") {
				if _, seen := uses[f.name]; !seen {
					uses[f.name] = s.Pos()
				}
			}
			return true
		})
	}
	byName := map[string]c10Func{}
	for _, f := range funcs {
		byName[f.name] = f
	}
	var classify func(name string, depth int) string
	classify = func(name string, depth int) string {
		f := byName[name]
		if f.recv == "" {
			return "constructor"
		}
		if c10LockedBefore(f.decl, uses[name]) {
			return "locked"
		}
		if depth > 3 {
			return "unknown"
		}
		// all call sites inside the package hold the lock before the call?
		callers, all := 0, true
		for _, g := range funcs {
			ast.Inspect(g.decl.Body, func(n ast.Node) bool {
				if c, ok := n.(*ast.CallExpr); ok && c10SelName(c.Fun) == name && g.name != name {
					callers++
					if !c10LockedBefore(g.decl, c.Pos()) {
						all = false
					}
				}
				return true
			})
		}
		if callers > 0 && all {
			return "callers-locked"
		}
		if callers == 0 {
			return "unknown"
		}
		return "unlocked"
	}
	var names []string
	for n := range uses {
		names = append(names, n)
	}
	sort.Strings(names)
	var access []string
	for _, n := range names {
		access = append(access, fmt.Sprintf("(%q, %q)", n, classify(n, 0)))
	}
	// 3. heap order re-established after RemoveFirst; 4. skipped monitors excluded from the decrement
	reheap, skipGuard := "unknown", "unknown"
	for _, f := range funcs {
		var stack []ast.Node
		ast.Inspect(f.decl.Body, func(n ast.Node) bool {
			if n == nil {
				stack = stack[:len(stack)-1]
				return true
			}
			stack = append(stack, n)
			if c, ok := n.(*ast.CallExpr); ok && c10SelName(c.Fun) == "RemoveFirst" {
				// the statement list this call is a statement of
				for i := len(stack) - 1; i >= 0; i-- {
					if b, ok := stack[i].(*ast.BlockStmt); ok {
						after, found := false, false
						for _, st := range b.List {
							if st.Pos() <= c.Pos() && c.End() <= st.End() {
								after = true
								continue
							}
							if after {
								src := c10Src(fset, st)
								if strings.Contains(src, "heap.Init(") || strings.Contains(src, "sort.Ints(") || strings.Contains(src, "sort.Sort(") {
									found = true
								}
							}
						}
						if found {
							reheap = "reestablished"
						} else if reheap == "unknown" {
							reheap = "not-reestablished"
						}
						break
					}
				}
			}
			dec := false
			switch x := n.(type) {
			case *ast.IncDecStmt:
				if ix, ok := x.X.(*ast.IndexExpr); ok && c10SelName(ix.X) == "incomplete" && x.Tok == token.DEC {
					dec = true
				}
			case *ast.AssignStmt:
				if len(x.Lhs) == 1 {
					if ix, ok := x.Lhs[0].(*ast.IndexExpr); ok && c10SelName(ix.X) == "incomplete" &&
						(x.Tok == token.SUB_ASSIGN || strings.Contains(c10Src(fset, x.Rhs[0]), "- 1")) {
						dec = true
					}
				}
			}
			if dec {
				conds := ""
				for _, a := range stack {
					if is, ok := a.(*ast.IfStmt); ok {
						conds += " " + c10Src(fset, is.Cond)
					}
				}
				// early returns / guards earlier in the function count as well
				ast.Inspect(f.decl.Body, func(m ast.Node) bool {
					if is, ok := m.(*ast.IfStmt); ok && is.End() < n.Pos() {
						conds += " " + c10Src(fset, is.Cond)
					}
					return true
				})
				switch {
				case strings.Contains(conds, "skipped"):
					skipGuard = "skipped-excluded"
				case strings.Contains(conds, "ctivated"):
					if skipGuard == "unknown" {
						skipGuard = "skipped-counted"
					}
				}
			}
			return true
		})
	}
	var b strings.Builder
	b.WriteString("/-! GENERATED by `harness C10 -tool facts` from engine/*.go of the tree under test — do not edit. -/\n")
	b.WriteString("namespace Ecal.Gen.C10\n\n")
	b.WriteString("/-- every write to `failOnFirstError` in package engine: (function, right-hand side: param | const | init | other) -/\n")
	fmt.Fprintf(&b, "def flagWriters : List (String × String) := [%s]\n\n", strings.Join(writers, ", "))
	fmt.Fprintf(&b, "/-- `&x.failOnFirstError` occurs somewhere -/\ndef flagAddressTaken : Bool := %v\n\n", addrTaken)
	b.WriteString("/-- every function of package engine that uses `incomplete` / `priorities`: (function, locked | callers-locked | constructor | unlocked | unknown) -/\n")
	fmt.Fprintf(&b, "def bookAccess : List (String × String) := [%s]\n\n", strings.Join(access, ", "))
	fmt.Fprintf(&b, "/-- after `RemoveFirst`: reestablished | not-reestablished | unknown (no `RemoveFirst` call found) -/\ndef reheap : String := %q\n\n", reheap)
	fmt.Fprintf(&b, "/-- guard of the decrement of `incomplete[priority]`: skipped-excluded | skipped-counted | unknown -/\ndef skipGuard : String := %q\n\n", skipGuard)
	b.WriteString("end Ecal.Gen.C10\n")
	if err := os.WriteFile(out, []byte(b.String()), 0644); err != nil {
		fmt.Fprintln(os.Stderr, err)
		return 1
	}
	return 0
}
