package main

// C07 — parsing is total: an error or a well-formed tree, and nothing left running.
//
// A case is a source text. The payload carries the source and the token list the
// REAL lexer (parser.LexToList) produces for it; the Lean model parser runs on
// exactly these tokens (the lexer is not part of this model).
//
//	payload: <src-hex> <tok>,<tok>,…     tok = id.pos.valhex.identifier.allowEscapes.prefixNewlines.line.col
//	result : OK <tree> wf=1 leak=<0|1>        tree = (name valhex e|r child…), no positions
//	         ERR <kind> <line> <col> leak=<0|1>   kind = which parser.Err* value, not its text
//	         BOTH … / NEITHER …                     tree and error both (non-)nil
//
// `wf` is a verdict of the model (WellFormed of the identical tree); the Go side prints the demanded value. `leak` is
// measured here: goroutine accounting around every call of parser.Parse.

import (
	"bytes"
	"fmt"
	"runtime"
	"runtime/pprof"
	"strings"
	"time"

	"github.com/krotik/ecal/parser"
)

func c07Tokens(src string) string {
	toks := parser.LexToList("t", src)
	if len(toks) == 0 {
		return "-"
	}
	var sb strings.Builder
	b := func(x bool) int {
		if x {
			return 1
		}
		return 0
	}
	for i, t := range toks {
		if i > 0 {
			sb.WriteByte(',')
		}
		fmt.Fprintf(&sb, "%d.%d.%s.%d.%d.%d.%d.%d", int(t.ID), t.Pos, hx(t.Val), b(t.Identifier),
			b(t.AllowEscapes), t.PrefixNewlines, t.Lline, t.Lpos)
	}
	return sb.String()
}

func c07Payload(src string) string { return hx(src) + " " + c07Tokens(src) }

func c07Tree(sb *strings.Builder, n *parser.ASTNode) {
	if n == nil {
		sb.WriteString("NIL")
		return
	}
	sb.WriteByte('(')
	if n.Name == "" {
		sb.WriteByte('~')
	} else {
		sb.WriteString(n.Name)
	}
	if n.Token == nil {
		sb.WriteString(" ~ ~")
	} else {
		sb.WriteByte(' ')
		sb.WriteString(hx(n.Token.Val))
		if n.Token.AllowEscapes {
			sb.WriteString(" e")
		} else {
			sb.WriteString(" r")
		}
	}
	for _, c := range n.Children {
		sb.WriteByte(' ')
		c07Tree(sb, c)
	}
	sb.WriteByte(')')
}

func c07Kind(err error) string {
	pe, ok := err.(*parser.Error)
	if !ok {
		return "NotAParserError 0 0"
	}
	k := "Other"
	switch pe.Type {
	case parser.ErrUnexpectedEnd:
		k = "UnexpectedEnd"
	case parser.ErrLexicalError:
		k = "LexicalError"
	case parser.ErrUnknownToken:
		k = "UnknownToken"
	case parser.ErrImpossibleNullDenotation:
		k = "ImpossibleNullDenotation"
	case parser.ErrImpossibleLeftDenotation:
		k = "ImpossibleLeftDenotation"
	case parser.ErrUnexpectedToken:
		k = "UnexpectedToken"
	}
	return fmt.Sprintf("%s %d %d", k, pe.Line, pe.Pos)
}

// goroutine accounting --------------------------------------------------------

var c07LexerGoroutines int // lexer goroutines known to be stuck in this process
var c07Profiles int

func c07CountLexers() int {
	var buf bytes.Buffer
	pprof.Lookup("goroutine").WriteTo(&buf, 2)
	n := 0
	for _, g := range strings.Split(buf.String(), "\n\n") {
		if strings.Contains(g, "parser.(*lexer).run") {
			n++
		}
	}
	return n
}

// c07Settled waits until the goroutine count is back at the level before the call.
func c07Settled(before int) bool {
	for i := 0; i < 200; i++ {
		if runtime.NumGoroutine() <= before {
			return true
		}
		runtime.Gosched()
	}
	limit := 2 * time.Second
	if c07LexerGoroutines > 3 {
		limit = 3 * time.Millisecond // the process is known to leak: do not wait long for every case
	}
	t0 := time.Now()
	for time.Since(t0) < limit {
		if runtime.NumGoroutine() <= before {
			return true
		}
		time.Sleep(50 * time.Microsecond)
	}
	return runtime.NumGoroutine() <= before
}

func c07Run(payload string) string {
	f := strings.Split(payload, " ")
	src := unhx(f[0])
	before := runtime.NumGoroutine()
	ast, err := parser.Parse("t", src)
	leak := 0
	if !c07Settled(before) {
		// something outlived the call; is it a lexer?
		if c07Profiles < 8 {
			c07Profiles++
			if n := c07CountLexers(); n > c07LexerGoroutines {
				c07LexerGoroutines = n
				leak = 1
			}
		} else {
			c07LexerGoroutines++
			leak = 1
		}
	}
	tail := fmt.Sprintf(" leak=%d", leak)
	if leak == 1 {
		CountRun("leaks")
	}
	var sb strings.Builder
	switch {
	case ast != nil && err != nil:
		CountRun("both")
		sb.WriteString("BOTH ")
		c07Tree(&sb, ast)
		sb.WriteString(" " + c07Kind(err))
	case ast == nil && err == nil:
		sb.WriteString("NEITHER")
	case err != nil:
		CountRun("errors")
		sb.WriteString("ERR " + c07Kind(err))
	default:
		CountRun("trees")
		sb.WriteString("OK ")
		c07Tree(&sb, ast)
		sb.WriteString(" wf=1")
	}
	return sb.String() + tail
}

// generators --------------------------------------------------------------------

var c07Corpus = []string{
	// inputs of the repaired defects
	"func f() { ) ; a }", "a ; \"", "a a", "a; )", "if a { ; \"", "{1:2} or a",
	"if a { b ; \" }", "for a { ) ; b }", "try { ) \n a } except { }", "a ; ) ; b", "a\n)\nb",
	"func f() { a ; ) ; b }", "sink s kindmatch [\"a\"] { ) \n b }", "mutex m { ; \" }",
	// block-start brace in null-denotation position inside a guard expression (nameless node)
	"if [ { { a } ] { }", "for [ { { a } ] { }", "if ({ { a }) { }", "if a + { { b } { }", "if f({ { a }) { }",
	"if ({1:2} == x) { }", "if [{1:2}] { }", "for x in [ { { a } ] { }", "if a { } elif ( { { b } ) { }",
	// errors inside otherwise / finally clauses
	"try { } finally\nb := 2", "try { a } finally { \"", "try { a } otherwise { ) }", "try { a } finally { ) }",
	"try { a } otherwise { b } finally { ; \" }", "try { a } finally", "try { a } otherwise", "try { a } finally { b",
	"try { a } otherwise { b ; ) ; c } finally { d }", "try { a } except { b } finally { c ) }",
	// odd corners read off the parser
	"", " ", "a[\"", "a[/*", "a[\"\n\"", "a[", "a[1", "a.\"", "a(\"", "if {a} {b}", "for {a} {b}", "if a {} elif {} {} else {}",
	"return\n1", "return 1", "a\n[1]", "a [1]", "{1}", "{1:2, 3}", "[1 2 3]", "f(1 2,)", "let a := 1",
	"try { } except \"a\", \"b\" as e { } except e { } except { } otherwise { } finally { }",
	"try { } finally { } otherwise { }", "try { } except as { }", "import \"a\" as b", "import a as b", "import \"a\" b",
	"sink a kindmatch [\"x\"], priority 1 { }", "sink a { }", "sink { }", "func (a, b=1) { }", "func f(1+2) { }",
	"func f { }", "mutex a { }", "mutex { }", "for a in b { }", "for (a in b) { }", "for [a,b] in c { break; continue }",
	"for a in b in c { }", "if a { b } else { c } else { d }", "a := 1 := 2", "- - a", "not not a", "a.b.c(1)[2].d",
	"a.(", "a.1", "a..b", "(a", "a)", "()", "[", "{", "}", "]", ";", ";;", "a;;b", "{ a ; b }", "if a { { } }",
	"/* c */ a # d\n b", "/* c", "# c", "a /* c */", "\"a\" \"b\"", "r\"a{{b}}\"", "a\n.b", "a\n(b)", "a\n+b", "a +\nb",
	"if a {\n b\n c }", "if a { b c }", "if a { b\n}", "if a {", "if a { b", "if a { b ;", "if a { b ; }", "if", "if a",
	"elif", "else", "except", "as", "in", "a in", "in a", "a notin [1]", "a like \"b\"", "1 hasprefix 2",
	"kindmatch", "kindmatch [1]", "priority priority 1", "return return", "break 1", "true false",
}

var c07Bytes = []string{"a", "1", " ", "\n", "\"", "{", "}", "(", ")", "[", "]", ";", ":", "=", ".", "#", "/", "*", "\xff", "\x01"}

var c07Toks = []string{"a", "1", "\"s\"", "(", ")", "[", "]", "{", "}", ",", ";", ":", ":=", "=", "+", "-", "*",
	"not", "and", "<", "in", ".", "if", "elif", "else", "for", "func", "return", "try", "except", "as",
	"otherwise", "finally", "mutex", "sink", "kindmatch", "import", "let", "\n", "\""}

var c07Extra = []string{"b", "2.5", "r'x'", "'y'", "/", "//", "%", "or", "==", "!=", ">=", "<=", ">", "like", "notin",
	"hasprefix", "hassuffix", "true", "false", "null", "break", "continue", "scopematch", "statematch", "priority",
	"suppresses", "/* c */", "# c\n", "/*", "~", "a.b", "f(1)", "x[1]", "{1:2}", "[1,2]", "1a", "é", "\t", "\r\n"}

var c07Programs = []string{
	"a := 1 ; b := a + 2 * 3",
	"if a < 1 { b := 1 } elif a == 2 { b := 2 } else { b := 3 }",
	"for a in range ( 1 , 3 ) { log ( a ) ; break }",
	"for a > 0 { a := a - 1 \n continue }",
	"for [ k , v ] in m { x := { k : v , 1 : [ 1 , 2 ] } }",
	"func f ( a , b = 1 ) { return a + b } \n f ( 1 , 2 )",
	"x := func ( ) { return } \n x ( )",
	"try { raise ( \"e\" ) } except \"e\" , \"f\" as e { a } except e { b } except { c } otherwise { d } finally { e }",
	"mutex m { a := 1 ; b := 2 }",
	"sink s kindmatch [ \"a.b\" ] , scopematch [ ] , statematch { \"a\" : 1 } , priority 1 , suppresses [ \"t\" ] { x := event . state ; return 1 }",
	"import \"lib.ecal\" as lib \n lib . f ( 1 ) . g [ 2 ] . h",
	"a . b ( 1 , 2 ) [ 3 ] . c := not ( x and y or z ) \n let q := - a + + b",
	"x := [ 1 , [ 2 , 3 ] , { \"a\" : 1 } ] ; y := x [ 1 ] [ 0 ] \n z := \"s{{x}}\" like r\"a.*\"",
	"if a in [ 1 ] { } \n if a notin b { c } \n if a hasprefix \"x\" and b hassuffix \"y\" { d }",
	"/* pre */ a := 1 # post \n b := ( a + 1 ) * 2 // 3 % 4 / 5",
	"if a { if b { c } else { for d { e ; f } } } else { try { g } finally { h } }",
	"func outer ( ) { func inner ( x ) { return x } \n return inner ( 1 ) }",
	"a := true ; b := false ; c := null ; d := a == b != c >= 1 <= 2 > 3",
}

func c07Emit(g *Gen, kind, src string) {
	g.Count(kind)
	g.Emit(c07Payload(src))
}

func c07Gen(g *Gen) {
	for _, s := range c07Corpus {
		c07Emit(g, "corpus", s)
	}
	// exhaustive byte strings of length <= 3 over 20 symbols
	var rec func(prefix string, n int)
	rec = func(prefix string, n int) {
		if n == 0 {
			c07Emit(g, "bytes", prefix)
			return
		}
		for _, b := range c07Bytes {
			rec(prefix+b, n-1)
		}
	}
	for n := 1; n <= 3; n++ {
		rec("", n)
	}
	// exhaustive token-text sequences
	maxTok := 3
	if g.Thorough() {
		maxTok = 4
	}
	var recT func(parts []string, n int)
	recT = func(parts []string, n int) {
		if n == 0 {
			c07Emit(g, fmt.Sprintf("tokens%d", len(parts)), strings.Join(parts, " "))
			return
		}
		for _, t := range c07Toks {
			recT(append(parts, t), n-1)
		}
	}
	for n := 1; n <= maxTok; n++ {
		recT(nil, n)
	}
	// mutations of valid programs
	nMut := 5000
	nJunk := 2000
	if g.Thorough() {
		nMut, nJunk = 100000, 20000
	}
	all := append(append([]string{}, c07Toks...), c07Extra...)
	stray := []string{";", "}", ")", "{", "(", "]", "[", "\"", ",", "\n"}
	for _, p := range c07Programs {
		c07Emit(g, "valid", p)
	}
	for i := 0; i < nMut; i++ {
		ts := strings.Split(c07Programs[g.R.Intn(len(c07Programs))], " ")
		for k := 1 + g.R.Intn(3); k > 0 && len(ts) > 0; k-- {
			j := g.R.Intn(len(ts))
			switch g.R.Intn(7) {
			case 0: // delete
				ts = append(ts[:j:j], ts[j+1:]...)
			case 1: // duplicate
				ts = append(ts[:j+1:j+1], ts[j:]...)
			case 2: // swap
				l := g.R.Intn(len(ts))
				ts[j], ts[l] = ts[l], ts[j]
			case 3: // unbalance: drop the next bracket at or after j
				for l := j; l < len(ts); l++ {
					if strings.Contains("(){}[]", ts[l]) && ts[l] != "" {
						ts = append(ts[:l:l], ts[l+1:]...)
						break
					}
				}
			case 4: // stray terminator / bracket
				ts = append(ts[:j:j], append([]string{g.R.Pick(stray)}, ts[j:]...)...)
			case 5: // replace
				ts[j] = g.R.Pick(all)
			case 6: // truncate
				ts = ts[:j]
			}
		}
		sep := " "
		if g.R.Intn(8) == 0 {
			sep = "\n"
		}
		c07Emit(g, "mutant", strings.Join(ts, sep))
	}
	// guards containing bracketed / parenthesised brace expressions
	open := []string{"(", "[", "f (", "a + (", "not (", "x [", "- ("}
	closeOf := map[string]string{"(": ")", "[": "]", "f (": ")", "a + (": ")", "not (": ")", "x [": "]", "- (": ")"}
	inner := []string{"{ a }", "{ { a }", "{ { a } }", "{ 1 : 2 }", "{ }", "{ { } }", "{ { a ; b }", "{", "{ {", "a , { { b }", "{ { a } , c"}
	heads := []string{"if", "for", "for x in", "if a { } elif"}
	tails := []string{"{ }", "{ b }", "{ b } else { c }", ""}
	for _, hd := range heads {
		for _, o := range open {
			for _, in := range inner {
				for _, tl := range tails {
					c07Emit(g, "guardbrace", hd+" "+o+" "+in+" "+closeOf[o]+" "+tl)
				}
			}
		}
		for _, in := range inner {
			c07Emit(g, "guardbrace", hd+" a + "+in+" { }")
			c07Emit(g, "guardbrace", hd+" "+in+" { }")
			c07Emit(g, "guardbrace", hd+" a == "+in+" and b { c }")
		}
	}
	// errors inside except / otherwise / finally clauses
	bodies := []string{"{ }", "{ b }", "{ \"", "{ ) }", "{ b ; ) }", "{ b ; \" }", "{ b ) c }", "{ b", "{", "", "\nb := 2", "{ b } }", "{ if }", "{ b \n ) \n c }", "( )"}
	clauses := []string{"finally", "otherwise", "except", "except \"e\" as x", "otherwise { o } finally", "except { e } otherwise", "except { e } finally"}
	trys := []string{"try { }", "try { a }", "try { a ; b }"}
	for _, t := range trys {
		for _, c := range clauses {
			for _, b := range bodies {
				c07Emit(g, "tryclause", t+" "+c+" "+b)
				c07Emit(g, "tryclause", t+" "+c+" "+b+" \n d := 1")
			}
		}
	}
	// invalid UTF-8, control characters, random token soup
	junk := []string{"\xff", "\xc0", "\x80", "\xe2\x82", "\xf0\x9f", "\x00", "\x01", "\x1b", "\x7f", " ", "\xef\xbb\xbf", "é", "\\", "'", "\"", "\r", "\t"}
	for i := 0; i < nJunk; i++ {
		var sb strings.Builder
		for k := g.R.Intn(9); k > 0; k-- {
			if g.R.Intn(3) == 0 {
				sb.WriteString(g.R.Pick(junk))
			} else {
				sb.WriteString(g.R.Pick(all))
			}
			if g.R.Bool() {
				sb.WriteString(" ")
			}
		}
		c07Emit(g, "junk", sb.String())
	}
}

// c07Tool: `harness C07 -tool <src-hex>…` prints the case line (idx 0) of a source text.
func c07Tool(args []string) int {
	for _, a := range args {
		fmt.Printf("0\t%s\n", c07Payload(unhx(a)))
	}
	return 0
}

func init() {
	register("C07", &Prop{Gen: c07Gen, Run: c07Run, Timeout: 60 * time.Second, Tool: c07Tool})
}
