package main

// C07 — parsing is total: an error or a well-formed tree, and nothing left running.
//
// A case is a source text. The payload carries the source and the token list the
// REAL lexer (parser.LexToList) produces for it; the Lean model parser runs on
// exactly these tokens (the lexer is not part of this model).
//
//	payload: <src-hex> <tok>,<tok>,…     tok = id.pos.valhex.identifier.allowEscapes.prefixNewlines.line.col
//	result : OK <tree> wf=1 leak=<0|1>        tree = (name valhex e|r child…), no positions
//	         ERR <kind> <line> <col> leak=<0|1>   kind = which parser.Err* value, not its text
//	         BOTH … / NEITHER …                     tree and error both (non-)nil
//
// `wf` is a verdict of the model (WellFormed of the identical tree); the Go side prints the demanded value. `leak` is
// measured here: goroutine accounting around every call of parser.Parse.

import (
	"bufio"
	"fmt"
	"os"
	"os/exec"
	"runtime"
	"strconv"
	"strings"
	"sync"
	"time"

	"github.com/krotik/ecal/interpreter"
	"github.com/krotik/ecal/parser"
)

func c07Tokens(src string) string {
	toks := parser.LexToList("t", src)
	if len(toks) == 0 {
		return "-"
	}
	var sb strings.Builder
	b := func(x bool) int {
		if x {
			return 1
		}
		return 0
	}
	for i, t := range toks {
		if i > 0 {
			sb.WriteByte(',')
		}
		fmt.Fprintf(&sb, "%d.%d.%s.%d.%d.%d.%d.%d", int(t.ID), t.Pos, hx(t.Val), b(t.Identifier),
			b(t.AllowEscapes), t.PrefixNewlines, t.Lline, t.Lpos)
	}
	return sb.String()
}

func c07Payload(src string) string { return hx(src) + " " + c07Tokens(src) }

func c07Tree(sb *strings.Builder, n *parser.ASTNode) {
	if n == nil {
		sb.WriteString("NIL")
		return
	}
	sb.WriteByte('(')
	if n.Name == "" {
		sb.WriteByte('~')
	} else {
		sb.WriteString(n.Name)
	}
	if n.Token == nil {
		sb.WriteString(" ~ ~")
	} else {
		sb.WriteByte(' ')
		sb.WriteString(hx(n.Token.Val))
		if n.Token.AllowEscapes {
			sb.WriteString(" e")
		} else {
			sb.WriteString(" r")
		}
	}
	for _, c := range n.Children {
		sb.WriteByte(' ')
		c07Tree(sb, c)
	}
	sb.WriteByte(')')
}

func c07Kind(err error) string {
	pe, ok := err.(*parser.Error)
	if !ok {
		return "NotAParserError 0 0"
	}
	k := "Other"
	switch pe.Type {
	case parser.ErrUnexpectedEnd:
		k = "UnexpectedEnd"
	case parser.ErrLexicalError:
		k = "LexicalError"
	case parser.ErrUnknownToken:
		k = "UnknownToken"
	case parser.ErrImpossibleNullDenotation:
		k = "ImpossibleNullDenotation"
	case parser.ErrImpossibleLeftDenotation:
		k = "ImpossibleLeftDenotation"
	case parser.ErrUnexpectedToken:
		k = "UnexpectedToken"
	}
	return fmt.Sprintf("%s %d %d", k, pe.Line, pe.Pos)
}

// goroutine accounting --------------------------------------------------------
//
// The property: nothing of the parser OUTLIVES THE CALL. So the observation is made at
// return time: directly after parser.Parse returns the goroutine dump is searched for
// goroutines with a frame of package parser. The only one tolerated is the lexer goroutine
// between its close(l.tokens) and its return (single parser frame (*lexer).run, nothing
// deeper) - it is given time to finish; every other one (a lexer still lexing or blocked in
// a send, a drain helper, ...) is a leak at once, reported with its frame names.
// (After run has returned only the wrapper of the go statement, parser.Lex.gowrap1, may still be visible.)

const c07Pkg = "github.com/krotik/ecal/parser."

var c07Known = map[string]bool{} // goroutines already reported as leaked in this process

type c07Gor struct {
	state  string // runnable, running, chan send, select, …
	id     string
	frames []string // functions of package parser on its stack, innermost first
}

func c07ParserGoroutines() []c07Gor {
	buf := make([]byte, 1<<20)
	for {
		n := runtime.Stack(buf, true)
		if n < len(buf) {
			buf = buf[:n]
			break
		}
		buf = make([]byte, 2*len(buf))
	}
	var res []c07Gor
	for _, blk := range strings.Split(string(buf), "\n\n") {
		lines := strings.Split(blk, "\n")
		if len(lines) == 0 || !strings.HasPrefix(lines[0], "goroutine ") {
			continue
		}
		hd := strings.SplitN(lines[0][len("goroutine "):], " ", 2)
		id := hd[0]
		state := ""
		if len(hd) > 1 {
			state = strings.Trim(strings.SplitN(hd[1], ",", 2)[0], "[]:")
		}
		if c07Known[id] {
			continue
		}
		var fr []string
		for _, l := range lines[1:] {
			if strings.HasPrefix(l, c07Pkg) {
				fn := l[len(c07Pkg):]
				if k := strings.LastIndex(fn, "("); k > 0 {
					fn = fn[:k]
				}
				fr = append(fr, "parser."+fn)
			}
		}
		if len(fr) > 0 {
			res = append(res, c07Gor{state, id, fr})
		}
	}
	return res
}

// c07LeakAtReturn is called directly after parser.Parse returned.
func c07LeakAtReturn(before int) (int, string) {
	// AT RETURN: the goroutine count is read, and if it is above the level before the call the goroutine dump is
	// taken, BEFORE this goroutine yields once. Only goroutines recognised in that dump as a lexer past its close()
	// (no frame below run / the go-statement wrapper) are then given time to end.
	if runtime.NumGoroutine() <= before {
		return 0, ""
	}
	if len(c07Known) > 40 {
		// this process leaks on every error: do not dump thousands of goroutines per case
		time.Sleep(2 * time.Millisecond)
		if runtime.NumGoroutine() > before {
			return 1, "goroutine-count"
		}
		return 0, ""
	}
	t0 := time.Now()
	for {
		gs := c07ParserGoroutines()
		var bad []string
		for _, g := range gs {
			// only (*lexer).run and/or the wrapper of its go statement, and not blocked: past close(), about to end
			ending := g.state == "runnable" || g.state == "running"
			for _, fr := range g.frames {
				if fr != "parser.(*lexer).run" && !strings.HasPrefix(fr, "parser.Lex.") { // Lex.gowrap1 / Lex.func1: wrapper of the go statement
					ending = false
				}
			}
			if !ending {
				bad = append(bad, strings.Join(g.frames, "<"))
			}
		}
		if len(gs) == 0 {
			return 0, ""
		}
		if len(bad) == 0 && time.Since(t0) > 60*time.Second { // (a runnable goroutine on a heavily loaded machine may wait long for a CPU)
			bad = append(bad, "parser.(*lexer).run-does-not-end")
		}
		if len(bad) > 0 {
			for _, g := range gs {
				c07Known[g.id] = true
			}
			return 1, strings.ReplaceAll(strings.Join(bad, "+"), " ", "")
		}
		runtime.Gosched()
		if time.Since(t0) > 20*time.Millisecond {
			time.Sleep(100 * time.Microsecond)
		}
	}
}

func c07Run(payload string) string {
	f := strings.Split(payload, " ")
	if f[0] == "CONC" {
		return c07Concurrent(f[1])
	}
	src := unhx(f[0])
	if len(f) > 1 && f[1] == "UNVERIFIED" {
		return "SKIPPED"
	}
	if len(f) > 1 && f[1] == "LEXCRASH" {
		// the real lexer died or hung on this source in the generator's child process: reproduce it here
		done := make(chan bool, 1)
		go func() { parser.Parse("t", src); done <- true }()
		select {
		case <-done:
			return "LEXER-OK-HERE-BUT-FAILED-IN-GENERATOR"
		case <-time.After(30 * time.Second):
			panic("HANG: parser.Parse does not return (lexer does not terminate) on this input")
		}
	}
	before := runtime.NumGoroutine()
	ast, err := parser.Parse("t", src)
	leak, frames := c07LeakAtReturn(before)
	// the production entry point, on EVERY case: ParseWithRuntime with the ECAL runtime provider must answer like
	// Parse (tree / error kind+position), never both / neither, and leave nothing running either
	erp := interpreter.NewECALRuntimeProvider("t", nil, &memLog{})
	before2 := runtime.NumGoroutine()
	ast2, err2 := parser.ParseWithRuntime("t", src, erp)
	if l2, f2 := c07LeakAtReturn(before2); l2 == 1 && leak == 0 {
		leak, frames = 1, "ParseWithRuntime:"+f2
	}
	rt := "same"
	switch {
	case (ast2 == nil) != (ast == nil) || (err2 == nil) != (err == nil):
		rt = fmt.Sprintf("DIFF:tree=%v,err=%v", ast2 != nil, err2 != nil)
	case err != nil && c07Kind(err) != c07Kind(err2):
		rt = "DIFF:" + strings.ReplaceAll(c07Kind(err2), " ", "_")
	case ast != nil:
		if ok, _ := ast.Equals(ast2, false); !ok {
			rt = "DIFF:tree"
		}
	}
	tail := fmt.Sprintf(" leak=%d rt=%s", leak, rt)
	if leak == 1 {
		CountRun("leaks")
		tail += " frames=" + frames
	}
	var sb strings.Builder
	switch {
	case ast != nil && err != nil:
		CountRun("both")
		sb.WriteString("BOTH ")
		c07Tree(&sb, ast)
		sb.WriteString(" " + c07Kind(err))
	case ast == nil && err == nil:
		sb.WriteString("NEITHER")
	case err != nil:
		CountRun("errors")
		sb.WriteString("ERR " + c07Kind(err) + " at=" + c07At(src, err))
	default:
		CountRun("trees")
		sb.WriteString("OK ")
		c07Tree(&sb, ast)
		sb.WriteString(" wf=1")
		tail += c07Consumers(ast, ast2)
	}
	return sb.String() + tail
}

// c07Concurrent: eight callers of parser.Parse at the same time, each on its own DISTINCT inputs (new identifiers,
// strings, numbers all the time); every answer must be the one a single caller gets, and nothing may be left
// running. State shared between calls (a package-level cache, a rewritten table) shows here as a wrong answer or
// as a fatal `concurrent map writes` (which kills the process: CRASH).
func c07Concurrent(seed string) string {
	n, _ := strconv.Atoi(seed)
	const callers, rounds = 8, 1500
	src := func(g, i int) string {
		switch i % 4 {
		case 0:
			return fmt.Sprintf("v%dx%dx%d := w%d + %d", n, g, i, i, i)
		case 1:
			return fmt.Sprintf("if c%dx%dx%d { f%d(\"s%d\") } else { ) }", n, g, i, i, i)
		case 2:
			return fmt.Sprintf("for x%dx%d in {\"k%dx%d\" : %d} { }", g, i, g, i, i)
		default:
			return fmt.Sprintf("func q%dx%dx%d(a%d) { return a%d } z%d", n, g, i, i, i, i)
		}
	}
	one := func(s string) string {
		a, e := parser.Parse("t", s)
		var sb strings.Builder
		if a != nil {
			c07Tree(&sb, a)
		}
		if e != nil {
			sb.WriteString(" " + c07Kind(e))
		}
		return sb.String()
	}
	before := runtime.NumGoroutine()
	bad := make(chan string, callers)
	var wg sync.WaitGroup
	for g := 0; g < callers; g++ {
		wg.Add(1)
		go func(g int) {
			defer wg.Done()
			for i := 0; i < rounds; i++ {
				s := src(g, i)
				if r := one(s); r != one(s) {
					select {
					case bad <- s:
					default:
					}
				}
			}
		}(g)
	}
	wg.Wait()
	// the answers are also the ones of a single caller afterwards
	for g := 0; g < callers; g++ {
		for i := 0; i < 8; i++ {
			s := src(g, i)
			if a, b := one(s), one(s); a != b {
				return "CONC-DIFF " + hx(s)
			}
		}
	}
	select {
	case s := <-bad:
		return "CONC-DIFF " + hx(s)
	default:
	}
	if l, fr := c07LeakAtReturn(before); l == 1 {
		return "CONC-LEAK " + fr
	}
	return "CONC-OK"
}

// c07At: where the error points: at a token of the input (tok), nowhere (unpos: line 0), or elsewhere (none).
func c07At(src string, err error) string {
	pe, ok := err.(*parser.Error)
	if !ok {
		return "none"
	}
	if pe.Line == 0 {
		return "unpos"
	}
	for _, t := range parser.LexToList("t", src) {
		if t.Lline == pe.Line && t.Lpos == pe.Pos {
			return "tok"
		}
	}
	return "none"
}

// consumers -----------------------------------------------------------------------
//
// "…so validation, evaluation and pretty printing can walk it": on every returned tree the real
// PrettyPrint runs, and the source is parsed again through the production entry point
// ParseWithRuntime with the ECAL runtime provider (instance() attaches a runtime component to
// every node) followed by Validate - all under recover. An error is fine; a panic is a violation.

func c07Try(what string, f func()) (res string) {
	defer func() {
		if e := recover(); e != nil {
			res = " walk=PANIC:" + what + ":" + strings.ReplaceAll(oneLine(fmt.Sprint(e)), " ", "_")
		}
	}()
	f()
	return ""
}

func c07Consumers(ast, ast2 *parser.ASTNode) string {
	if r := c07Try("PrettyPrint", func() { parser.PrettyPrint(ast) }); r != "" {
		return r
	}
	return c07Try("Validate", func() {
		if ast2 != nil && ast2.Runtime != nil {
			ast2.Runtime.Validate()
		}
	}) + c07Try("String/ToJSONObject/ASTFromJSONObject", func() {
		// the serialisations of a tree walk it as well (helper.go); the JSON form must be readable again
		_ = ast.String()
		obj := ast.ToJSONObject()
		if back, err := parser.ASTFromJSONObject(obj); err != nil || back == nil {
			panic(fmt.Sprint("ASTFromJSONObject cannot read what ToJSONObject wrote: ", err))
		} else if ok, msg := ast.Equals(back, true); !ok {
			panic("JSON round trip changes the tree: " + oneLine(msg))
		}
	})
}

// generators --------------------------------------------------------------------

var c07Corpus = []string{
	// inputs of the repaired defects
	"func f() { ) ; a }", "a ; \"", "a a", "a; )", "if a { ; \"", "{1:2} or a",
	"if a { b ; \" }", "for a { ) ; b }", "try { ) \n a } except { }", "a ; ) ; b", "a\n)\nb",
	"func f() { a ; ) ; b }", "sink s kindmatch [\"a\"] { ) \n b }", "mutex m { ; \" }",
	// block-start brace in null-denotation position inside a guard expression (nameless node)
	"if [ { { a } ] { }", "for [ { { a } ] { }", "if ({ { a }) { }", "if a + { { b } { }", "if f({ { a }) { }",
	"if ({1:2} == x) { }", "if [{1:2}] { }", "for x in [ { { a } ] { }", "if a { } elif ( { { b } ) { }",
	// errors inside otherwise / finally clauses
	"try { } finally\nb := 2", "try { a } finally { \"", "try { a } otherwise { ) }", "try { a } finally { ) }",
	"try { a } otherwise { b } finally { ; \" }", "try { a } finally", "try { a } otherwise", "try { a } finally { b",
	"try { a } otherwise { b ; ) ; c } finally { d }", "try { a } except { b } finally { c ) }",
	// odd corners read off the parser
	"", " ", "a[\"", "a[/*", "a[\"\n\"", "a[", "a[1", "a.\"", "a(\"", "if {a} {b}", "for {a} {b}", "if a {} elif {} {} else {}",
	"return\n1", "return 1", "a\n[1]", "a [1]", "{1}", "{1:2, 3}", "[1 2 3]", "f(1 2,)", "let a := 1",
	"try { } except \"a\", \"b\" as e { } except e { } except { } otherwise { } finally { }",
	"try { } finally { } otherwise { }", "try { } except as { }", "import \"a\" as b", "import a as b", "import \"a\" b",
	"sink a kindmatch [\"x\"], priority 1 { }", "sink a { }", "sink { }", "func (a, b=1) { }", "func f(1+2) { }",
	"func f { }", "mutex a { }", "mutex { }", "for a in b { }", "for (a in b) { }", "for [a,b] in c { break; continue }",
	"for a in b in c { }", "if a { b } else { c } else { d }", "a := 1 := 2", "- - a", "not not a", "a.b.c(1)[2].d",
	"a.(", "a.1", "a..b", "(a", "a)", "()", "[", "{", "}", "]", ";", ";;", "a;;b", "{ a ; b }", "if a { { } }",
	"/* c */ a # d\n b", "/* c", "# c", "a /* c */", "\"a\" \"b\"", "r\"a{{b}}\"", "a\n.b", "a\n(b)", "a\n+b", "a +\nb",
	"if a {\n b\n c }", "if a { b c }", "if a { b\n}", "if a {", "if a { b", "if a { b ;", "if a { b ; }", "if", "if a",
	"elif", "else", "except", "as", "in", "a in", "in a", "a notin [1]", "a like \"b\"", "1 hasprefix 2",
	"kindmatch", "kindmatch [1]", "priority priority 1", "return return", "break 1", "true false",
}

var c07Bytes = []string{"a", "1", " ", "\n", "\"", "{", "}", "(", ")", "[", "]", ";", ":", "=", ".", "#", "/", "*", "\xff", "\x01"}

// non-ASCII white space / control / digits and exponent forms: where rune-width bookkeeping can go wrong
var c07Uni = []string{"\u0085", "\u00a0", "\u2028", "\u2029", "\u3000", "\u00b2", "\u0663", "\u2167", "1e+5", "1e+", "1e-", "2.5e3", "1.", ".5", "0x1f",
	"\u00e9", "a\u00a0b", "1\u00b2", "\u0663\u0664", "\"\u2028\"", "#\u0085", "/*\u00a0*/", "\x80", "\xc2", "\xe2\x80"}

var c07Toks = []string{"a", "1", "\"s\"", "(", ")", "[", "]", "{", "}", ",", ";", ":", ":=", "=", "+", "-", "*",
	"not", "and", "<", "in", ".", "if", "elif", "else", "for", "func", "return", "try", "except", "as",
	"otherwise", "finally", "mutex", "sink", "kindmatch", "import", "let", "\n", "\""}

var c07Extra = []string{"b", "2.5", "r'x'", "'y'", "/", "//", "%", "or", "==", "!=", ">=", "<=", ">", "like", "notin",
	"hasprefix", "hassuffix", "true", "false", "null", "break", "continue", "scopematch", "statematch", "priority",
	"suppresses", "/* c */", "# c\n", "/*", "~", "a.b", "f(1)", "x[1]", "{1:2}", "[1,2]", "1a", "é", "\t", "\r\n"}

var c07Programs = []string{
	"a := 1 ; b := a + 2 * 3",
	"if a < 1 { b := 1 } elif a == 2 { b := 2 } else { b := 3 }",
	"for a in range ( 1 , 3 ) { log ( a ) ; break }",
	"for a > 0 { a := a - 1 \n continue }",
	"for [ k , v ] in m { x := { k : v , 1 : [ 1 , 2 ] } }",
	"func f ( a , b = 1 ) { return a + b } \n f ( 1 , 2 )",
	"x := func ( ) { return } \n x ( )",
	"try { raise ( \"e\" ) } except \"e\" , \"f\" as e { a } except e { b } except { c } otherwise { d } finally { e }",
	"mutex m { a := 1 ; b := 2 }",
	"sink s kindmatch [ \"a.b\" ] , scopematch [ ] , statematch { \"a\" : 1 } , priority 1 , suppresses [ \"t\" ] { x := event . state ; return 1 }",
	"import \"lib.ecal\" as lib \n lib . f ( 1 ) . g [ 2 ] . h",
	"a . b ( 1 , 2 ) [ 3 ] . c := not ( x and y or z ) \n let q := - a + + b",
	"x := [ 1 , [ 2 , 3 ] , { \"a\" : 1 } ] ; y := x [ 1 ] [ 0 ] \n z := \"s{{x}}\" like r\"a.*\"",
	"if a in [ 1 ] { } \n if a notin b { c } \n if a hasprefix \"x\" and b hassuffix \"y\" { d }",
	"/* pre */ a := 1 # post \n b := ( a + 1 ) * 2 // 3 % 4 / 5",
	"if a { if b { c } else { for d { e ; f } } } else { try { g } finally { h } }",
	"func outer ( ) { func inner ( x ) { return x } \n return inner ( 1 ) }",
	"a := true ; b := false ; c := null ; d := a == b != c >= 1 <= 2 > 3",
}

// Payload building runs the REAL lexer inside the generator. A broken lexer must not take the
// generator down (then there would be no concrete failing case): sources of the families with
// unusual bytes are lexed first in a child process (c07Prepass); a source on which the child
// dies or hangs gets the payload "<src> LEXCRASH" without being lexed here - its Run then
// reproduces the crash / hang INSIDE the case. The in-process call is guarded as well
// (recover + watchdog; a panic in the lexer's own goroutine cannot be recovered, hence the
// child). Payloads are only built for the cases this process executes.

var c07Idx, c07Si, c07Sn, c07Start = 0, 0, 1, 0
var c07List bool
var c07Bad = map[string]bool{}
var c07Unverified = map[string]bool{}
var c07Risky = map[string]bool{"corpus": true, "bytes": true, "junk": true}

func c07Flags() {
	c07Idx, c07Si, c07Sn, c07Start, c07List = 0, 0, 1, 0, false
	a := os.Args
	val := func(i int, name string) (string, bool) {
		if a[i] == name && i+1 < len(a) {
			return a[i+1], true
		}
		if strings.HasPrefix(a[i], name+"=") {
			return a[i][len(name)+1:], true
		}
		return "", false
	}
	for i := range a {
		for _, d := range []string{"-", "--"} {
			if v, ok := val(i, d+"shard"); ok {
				fmt.Sscanf(v, "%d/%d", &c07Si, &c07Sn)
			}
			if v, ok := val(i, d+"start"); ok {
				c07Start, _ = strconv.Atoi(v)
			}
			if a[i] == d+"list" || a[i] == d+"list=true" {
				c07List = true
			}
		}
	}
	if c07Sn <= 0 {
		c07Sn = 1
	}
}

func c07SafeTokens(src string) (string, bool) {
	ch := make(chan string, 1)
	go func() {
		defer func() {
			if recover() != nil {
				ch <- ""
			}
		}()
		ch <- c07Tokens(src)
	}()
	select {
	case t := <-ch:
		return t, t != ""
	case <-time.After(180 * time.Second): // generous: the longest generated inputs have 10^6 tokens, the machine may be loaded
		return "", false
	}
}

// c07Prepass lexes the given sources in child processes and returns those on which a child died or hung.
// After 5 such sources the lexer counts as broken: the remaining risky sources are not lexed at all
// (c07Unverified; their cases are skipped on both sides) - five concrete failing inputs are enough.
func c07Prepass(srcs []string) map[string]bool {
	bad := map[string]bool{}
	c07Unverified = map[string]bool{}
	exe, err := os.Executable()
	if err != nil {
		return bad
	}
	from := 0
	for from < len(srcs) {
		if len(bad) >= 5 {
			for _, u := range srcs[from:] {
				c07Unverified[u] = true
			}
			break
		}
		cmd := exec.Command(exe, "C07", "-tool", "lexprobe")
		in, _ := cmd.StdinPipe()
		out, _ := cmd.StdoutPipe()
		if cmd.Start() != nil {
			return bad
		}
		go func(part []string) {
			w := bufio.NewWriter(in)
			for _, s := range part {
				w.WriteString(hx(s) + "\n")
			}
			w.Flush()
			in.Close()
		}(srcs[from:])
		begun, done := -1, -1
		sc := bufio.NewScanner(out)
		for sc.Scan() {
			l := sc.Text()
			if len(l) > 2 {
				n, _ := strconv.Atoi(l[2:])
				if l[0] == 'B' {
					begun = n
				} else if l[0] == 'E' {
					done = n
				}
			}
		}
		cmd.Wait()
		if begun > done { // died or hung while lexing source number `begun` of this part
			// believed only if it fails again ALONE with a ten times longer limit (a loaded machine can stall a child)
			if c07ProbeAlone(exe, srcs[from+begun]) {
				bad[srcs[from+begun]] = true
			}
			from += begun + 1
		} else {
			break
		}
	}
	return bad
}

// c07EmitRaw emits a payload which is not a source text (keeps the case counter in step).
func c07EmitRaw(g *Gen, payload string) {
	c07Idx++
	g.Emit(payload)
}

// c07ProbeAlone: does lexing this one source fail (crash / not finish within 30 s) in a child of its own?
func c07ProbeAlone(exe, src string) bool {
	cmd := exec.Command(exe, "C07", "-tool", "lexprobe")
	cmd.Env = append(os.Environ(), "C07_PROBE_LIMIT=30")
	cmd.Stdin = strings.NewReader(hx(src) + "\n")
	out, err := cmd.Output()
	return err != nil || !strings.Contains(string(out), "E 0")
}

func c07Emit(g *Gen, kind, src string) {
	g.Count(kind)
	idx := c07Idx
	c07Idx++
	if !c07List && (idx%c07Sn != c07Si || idx < c07Start) {
		g.Emit("-") // not executed by this process: no need to lex
		return
	}
	if c07Unverified[src] && !c07Bad[src] {
		g.Emit(hx(src) + " UNVERIFIED")
		return
	}
	if !c07Bad[src] {
		if toks, ok := c07SafeTokens(src); ok {
			g.Emit(hx(src) + " " + toks)
			return
		}
	}
	g.Emit(hx(src) + " LEXCRASH")
}

func c07Gen(g *Gen) {
	c07Flags()
	// first pass: collect the sources of the risky families and try them in a child process
	var risky []string
	g.R = NewRand(g.Seed)
	c07Enum(g, func(kind, src string) {
		if c07Risky[kind] {
			risky = append(risky, src)
		}
	}, true)
	c07Bad = c07Prepass(risky)
	// second pass: emit
	g.R = NewRand(g.Seed)
	c07Enum(g, func(kind, src string) { c07Emit(g, kind, src) }, false)
}

func c07Enum(g *Gen, emit func(kind, src string), riskyOnly bool) {
	for _, s := range c07Corpus {
		emit("corpus", s)
	}
	// long tails after an early error: the synchronous drain has to lex the whole rest before
	// ParseWithRuntime returns; anything that lets the call return earlier is still busy at return time
	tailN := 100000
	if g.Thorough() {
		tailN = 300000
	}
	emit("longtail", ") "+strings.Repeat("a ", tailN))
	emit("longtail", "a b "+strings.Repeat("c ; ", tailN/2))
	emit("longtail", "if { "+strings.Repeat("x := [ 1 , 2 ] \n", tailN/8))
	c07LongTails(g, emit)
	nConc := 3
	if os.Getenv("C07_AMPLIFY") != "" {
		nConc = 8
	}
	for k := 0; k < nConc && !riskyOnly; k++ {
		g.Count("concurrent")
		c07EmitRaw(g, fmt.Sprintf("CONC %d", int(g.Seed%1000)*10+k))
	}
	// exhaustive byte strings of length <= 3 over 20 symbols
	var rec func(prefix string, n int)
	rec = func(prefix string, n int) {
		if n == 0 {
			emit("bytes", prefix)
			return
		}
		for _, b := range c07Bytes {
			rec(prefix+b, n-1)
		}
	}
	for n := 1; n <= 3; n++ {
		rec("", n)
	}
	// exhaustive token-text sequences
	maxTok := 3
	if g.Thorough() {
		maxTok = 4
	}
	var recT func(parts []string, n int)
	recT = func(parts []string, n int) {
		if n == 0 {
			emit(fmt.Sprintf("tokens%d", len(parts)), strings.Join(parts, " "))
			return
		}
		for _, t := range c07Toks {
			recT(append(parts, t), n-1)
		}
	}
	for n := 1; n <= maxTok && !riskyOnly; n++ {
		recT(nil, n)
	}
	if !riskyOnly {
		c07Inject(g, emit)
		c07Deep(g, emit)
	}
	// mutations of valid programs
	nMut := 5000
	nJunk := 2000
	if g.Thorough() {
		nMut, nJunk = 100000, 20000
	}
	all := append(append([]string{}, c07Toks...), c07Extra...)
	stray := []string{";", "}", ")", "{", "(", "]", "[", "\"", ",", "\n"}
	for _, p := range c07Programs {
		emit("valid", p)
	}
	for i := 0; i < nMut; i++ {
		ts := strings.Split(c07Programs[g.R.Intn(len(c07Programs))], " ")
		for k := 1 + g.R.Intn(3); k > 0 && len(ts) > 0; k-- {
			j := g.R.Intn(len(ts))
			switch g.R.Intn(7) {
			case 0: // delete
				ts = append(ts[:j:j], ts[j+1:]...)
			case 1: // duplicate
				ts = append(ts[:j+1:j+1], ts[j:]...)
			case 2: // swap
				l := g.R.Intn(len(ts))
				ts[j], ts[l] = ts[l], ts[j]
			case 3: // unbalance: drop the next bracket at or after j
				for l := j; l < len(ts); l++ {
					if strings.Contains("(){}[]", ts[l]) && ts[l] != "" {
						ts = append(ts[:l:l], ts[l+1:]...)
						break
					}
				}
			case 4: // stray terminator / bracket
				ts = append(ts[:j:j], append([]string{g.R.Pick(stray)}, ts[j:]...)...)
			case 5: // replace
				ts[j] = g.R.Pick(all)
			case 6: // truncate
				ts = ts[:j]
			}
		}
		sep := " "
		if g.R.Intn(8) == 0 {
			sep = "\n"
		}
		emit("mutant", strings.Join(ts, sep))
	}
	// guards containing bracketed / parenthesised brace expressions
	open := []string{"(", "[", "f (", "a + (", "not (", "x [", "- ("}
	closeOf := map[string]string{"(": ")", "[": "]", "f (": ")", "a + (": ")", "not (": ")", "x [": "]", "- (": ")"}
	inner := []string{"{ a }", "{ { a }", "{ { a } }", "{ 1 : 2 }", "{ }", "{ { } }", "{ { a ; b }", "{", "{ {", "a , { { b }", "{ { a } , c"}
	heads := []string{"if", "for", "for x in", "if a { } elif"}
	tails := []string{"{ }", "{ b }", "{ b } else { c }", ""}
	for _, hd := range heads {
		for _, o := range open {
			for _, in := range inner {
				for _, tl := range tails {
					emit("guardbrace", hd+" "+o+" "+in+" "+closeOf[o]+" "+tl)
				}
			}
		}
		for _, in := range inner {
			emit("guardbrace", hd+" a + "+in+" { }")
			emit("guardbrace", hd+" "+in+" { }")
			emit("guardbrace", hd+" a == "+in+" and b { c }")
		}
	}
	// errors inside except / otherwise / finally clauses
	bodies := []string{"{ }", "{ b }", "{ \"", "{ ) }", "{ b ; ) }", "{ b ; \" }", "{ b ) c }", "{ b", "{", "", "\nb := 2", "{ b } }", "{ if }", "{ b \n ) \n c }", "( )"}
	clauses := []string{"finally", "otherwise", "except", "except \"e\" as x", "otherwise { o } finally", "except { e } otherwise", "except { e } finally"}
	trys := []string{"try { }", "try { a }", "try { a ; b }"}
	for _, t := range trys {
		for _, c := range clauses {
			for _, b := range bodies {
				emit("tryclause", t+" "+c+" "+b)
				emit("tryclause", t+" "+c+" "+b+" \n d := 1")
			}
		}
	}
	// invalid UTF-8, control characters, random token soup
	junk := append([]string{}, c07Uni...)
	junk = append(junk, "\xff", "\xc0", "\x80", "\xe2\x82", "\xf0\x9f", "\x00", "\x01", "\x1b", "\x7f", " ", "\xef\xbb\xbf", "é", "\\", "'", "\"", "\r", "\t")
	for i := 0; i < nJunk; i++ {
		var sb strings.Builder
		for k := g.R.Intn(9); k > 0; k-- {
			if g.R.Intn(3) == 0 {
				sb.WriteString(g.R.Pick(junk))
			} else {
				sb.WriteString(g.R.Pick(all))
			}
			if g.R.Bool() {
				sb.WriteString(" ")
			}
		}
		emit("junk", sb.String())
	}
	if !riskyOnly {
		c07Valid(g, emit) // last: consumes randomness, and the first (risky-only) pass skips it
	}
}

// c07Tool: `harness C07 -tool <src-hex>…` prints the case line (idx 0) of a source text.
func c07Tool(args []string) int {
	if len(args) > 1 && args[0] == "gen" {
		return c07GenTool(args[1])
	}
	if len(args) > 0 && args[0] == "lexprobe" {
		// lex every hex source line of stdin; "B i" before, "E i" after (flushed): the parent learns on which one we died
		sc := bufio.NewScanner(os.Stdin)
		sc.Buffer(make([]byte, 1<<20), 1<<28)
		w := bufio.NewWriter(os.Stdout)
		limit := 3 * time.Second
		if v, err := strconv.Atoi(os.Getenv("C07_PROBE_LIMIT")); err == nil && v > 0 {
			limit = time.Duration(v) * time.Second
		}
		for i := 0; sc.Scan(); i++ {
			fmt.Fprintf(w, "B %d\n", i)
			w.Flush()
			src := unhx(sc.Text())
			done := make(chan bool, 1)
			go func() { parser.LexToList("t", src); done <- true }()
			select {
			case <-done:
			case <-time.After(limit):
				os.Exit(3)
			}
			fmt.Fprintf(w, "E %d\n", i)
			w.Flush()
		}
		return 0
	}
	if len(args) > 1 && args[0] == "casefile" {
		// print the case line of a source text read from a file
		b, err := os.ReadFile(args[1])
		check(err)
		fmt.Printf("0\t%s\n", c07Payload(string(b)))
		return 0
	}
	if len(args) > 1 && args[0] == "runfile" {
		// run one source text read from a file (payloads too long for a command line)
		b, err := os.ReadFile(args[1])
		check(err)
		t0 := time.Now()
		res := c07Run(hx(string(b)) + " -")
		if len(res) > 300 {
			res = res[:300] + "…"
		}
		fmt.Println(res, time.Since(t0))
		return 0
	}
	for _, a := range args {
		fmt.Printf("0\t%s\n", c07Payload(unhx(a)))
	}
	return 0
}

func init() {
	register("C07", &Prop{Gen: c07Gen, Run: c07Run, Timeout: 120 * time.Second, Tool: c07Tool})
}
