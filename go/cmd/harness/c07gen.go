package main

// Grammar-driven generator of VALID programs for C07 (all statement and expression kinds,
// nesting to a chosen depth, newline / ';' variation) and the deterministic injection sweep.

import (
	"fmt"
	"os"
	"strings"
)

type c07Gram struct {
	r     *Rand
	ident int
}

func (g *c07Gram) id() string {
	return []string{"a", "b", "c", "x", "y", "foo", "bar1", "i", "res", "data"}[g.r.Intn(10)]
}

func (g *c07Gram) str() string {
	return []string{`"s"`, `'t'`, `r"raw{{x}}"`, `"a{{b}}c"`, `""`, `"éé"`, `"x\ny"`, `r'q'`, `"a.b"`, `"1"`}[g.r.Intn(10)]
}

func (g *c07Gram) num() string {
	return []string{"0", "1", "42", "2.5", "1e3", "1e+5", "0.001", "123456789", "7", "10"}[g.r.Intn(10)]
}

// chain: identifier chains a.b(c)[1].d
func (g *c07Gram) chain(d int, noBrace bool) string {
	s := g.id()
	for k := g.r.Intn(4); k > 0; k-- {
		switch g.r.Intn(3) {
		case 0:
			s += "." + g.id()
		case 1:
			var args []string
			for j := g.r.Intn(3); j > 0 && d > 0; j-- {
				args = append(args, g.expr(d-1, noBrace))
			}
			s += "(" + strings.Join(args, ", ") + ")"
		case 2:
			if d > 0 {
				s += "[" + g.expr(d-1, noBrace) + "]"
			} else {
				s += "[0]"
			}
		}
	}
	return s
}

var c07BinOps = []string{"+", "-", "*", "/", "//", "%", "and", "or", "==", "!=", "<", ">", "<=", ">=", "in", "notin", "like", "hasprefix", "hassuffix"}

// expr: noBrace forbids map literals / function literals (inside guard expressions a brace starts the block)
func (g *c07Gram) expr(d int, noBrace bool) string {
	if d <= 0 {
		switch g.r.Intn(6) {
		case 0:
			return g.num()
		case 1:
			return g.str()
		case 2:
			return []string{"true", "false", "null"}[g.r.Intn(3)]
		default:
			return g.id()
		}
	}
	switch g.r.Intn(12) {
	case 0, 1:
		return g.chain(d, noBrace)
	case 2, 3, 4:
		return g.expr(d-1, noBrace) + " " + c07BinOps[g.r.Intn(len(c07BinOps))] + " " + g.expr(d-1, noBrace)
	case 5:
		return "(" + g.expr(d-1, noBrace) + ")"
	case 6:
		return []string{"not ", "-", "+"}[g.r.Intn(3)] + g.expr(d-1, noBrace)
	case 7:
		var el []string
		for k := g.r.Intn(4); k > 0; k-- {
			el = append(el, g.expr(d-1, noBrace))
		}
		sep := ", "
		if g.r.Intn(6) == 0 {
			sep = " " // commas are optional
		}
		return "[" + strings.Join(el, sep) + "]"
	case 8:
		if noBrace {
			return g.chain(d, noBrace)
		}
		var el []string
		for k := g.r.Intn(3); k > 0; k-- {
			el = append(el, g.str()+" : "+g.expr(d-1, false))
		}
		return "{" + strings.Join(el, ", ") + "}"
	case 9:
		if noBrace {
			return g.num()
		}
		return "func (" + g.params(d) + ") " + g.block(d-1, true)
	default:
		return g.expr(0, noBrace)
	}
}

func (g *c07Gram) params(d int) string {
	var ps []string
	for k := g.r.Intn(3); k > 0; k-- {
		if g.r.Intn(3) == 0 {
			ps = append(ps, g.id()+"="+g.expr(0, false))
		} else {
			ps = append(ps, g.id())
		}
	}
	return strings.Join(ps, ", ")
}

func (g *c07Gram) block(d int, inFunc bool) string {
	n := g.r.Intn(3)
	if d <= 0 && n > 1 {
		n = 1
	}
	var sb strings.Builder
	sb.WriteString("{")
	for i := 0; i < n; i++ {
		if i > 0 {
			sb.WriteString(g.sep())
		} else {
			sb.WriteString([]string{" ", "\n", "\n  "}[g.r.Intn(3)])
		}
		sb.WriteString(g.stmt(d, inFunc))
	}
	sb.WriteString([]string{" }", "\n}", "}"}[g.r.Intn(3)])
	return sb.String()
}

func (g *c07Gram) sep() string {
	return []string{"\n", "\n", " ; ", ";\n", "\n\n", " ;\n "}[g.r.Intn(6)]
}

func (g *c07Gram) stmt(d int, inFunc bool) string {
	if d <= 0 {
		switch g.r.Intn(5) {
		case 0:
			return g.id() + " := " + g.expr(0, false)
		case 1:
			return g.chain(0, false)
		case 2:
			if inFunc {
				return "return " + g.expr(0, false)
			}
			return "let " + g.id() + " := " + g.num()
		default:
			return g.id() + " := " + g.expr(1, false)
		}
	}
	switch g.r.Intn(16) {
	case 0, 1:
		return g.chain(d, false) + " := " + g.expr(d-1, false)
	case 2:
		return "let " + g.id() + " := " + g.expr(d-1, false)
	case 3, 4:
		s := "if " + g.expr(d-1, true) + " " + g.block(d-1, inFunc)
		for k := g.r.Intn(3); k > 0; k-- {
			s += " elif " + g.expr(d-1, true) + " " + g.block(d-1, inFunc)
		}
		if g.r.Bool() {
			s += " else " + g.block(d-1, inFunc)
		}
		return s
	case 5:
		body := g.block(d-1, inFunc)
		if g.r.Intn(3) == 0 {
			body = "{ break }"
		} else if g.r.Intn(3) == 0 {
			body = "{ continue ; " + g.stmt(0, inFunc) + " }"
		}
		switch g.r.Intn(3) {
		case 0:
			return "for " + g.id() + " in " + g.chain(d-1, true) + " " + body
		case 1:
			return "for [" + g.id() + ", " + g.id() + "] in " + g.id() + " " + body
		default:
			return "for " + g.expr(d-1, true) + " " + body
		}
	case 6, 7:
		s := "try " + g.block(d-1, inFunc)
		for k := g.r.Intn(3); k > 0; k-- {
			s += " except"
			for j := g.r.Intn(3); j > 0; j-- {
				s += " " + g.str()
				if j > 1 {
					s += ","
				}
			}
			switch g.r.Intn(3) {
			case 0:
				s += " as " + g.id()
			case 1:
				s += " " + g.id()
			}
			s += " " + g.block(d-1, inFunc)
		}
		if g.r.Intn(3) == 0 {
			s += " otherwise " + g.block(d-1, inFunc)
		}
		if g.r.Intn(2) == 0 || !strings.Contains(s, "except") {
			s += " finally " + g.block(d-1, inFunc)
		}
		return s
	case 8:
		return "mutex " + g.id() + " " + g.block(d-1, inFunc)
	case 9:
		s := "sink " + g.id()
		attrs := []string{"kindmatch [ \"a.b\", \"c.*\" ]", "scopematch [ ]", "statematch { \"k\" : 1 }", "priority " + g.num(), "suppresses [ \"s\" ]"}
		for _, a := range attrs {
			if g.r.Bool() {
				s += " " + a
				if g.r.Bool() {
					s += ","
				}
			}
		}
		return s + " " + g.block(d-1, true)
	case 10:
		return "import " + g.str() + " as " + g.id()
	case 11:
		name := ""
		if g.r.Intn(4) > 0 {
			name = g.id() + " "
		}
		return "func " + name + "(" + g.params(d) + ") " + g.block(d-1, true)
	case 12:
		if inFunc {
			if g.r.Bool() {
				return "return"
			}
			return "return " + g.expr(d-1, false)
		}
		return g.chain(d, false)
	case 13:
		return g.id() + " := " + g.expr(d, false)
	default:
		return g.chain(d, false)
	}
}

func (g *c07Gram) program(d, n int) string {
	var sb strings.Builder
	for i := 0; i < n; i++ {
		if i > 0 {
			sb.WriteString(g.sep())
		}
		if g.r.Intn(10) == 0 {
			sb.WriteString("/* c */ ")
		}
		sb.WriteString(g.stmt(d, false))
		if g.r.Intn(12) == 0 {
			sb.WriteString(" # post")
		}
	}
	return sb.String()
}

// c07Valid emits the grammar-driven programs.
func c07Valid(g *Gen, emit func(kind, src string)) {
	gr := &c07Gram{r: g.R}
	n := 26000
	if g.Thorough() {
		n = 120000
	}
	for i := 0; i < n; i++ {
		d := 1 + gr.r.Intn(4)
		st := 1 + gr.r.Intn(3)
		switch {
		case i%500 == 0:
			d, st = 3, 300+gr.r.Intn(300) // long programs (~10^4 tokens)
		case i%50 == 0:
			d = 6 + gr.r.Intn(4)
		}
		emit("grammar", gr.program(d, st))
	}
	// one LONG successful program (the model's `Node.add` is `children ++ [c]`: the driver is quadratic in the
	// number of children of one node; 2·10^4 statements take ~3 s, 10^5 would take minutes - declared limit)
	long := 20000
	if g.Thorough() {
		long = 40000
	}
	var lsb strings.Builder
	for i := 0; i < long; i++ {
		lsb.WriteString([]string{"a := 1\n", "f(x) ; ", "if a { b }\n", "x := [1, 2]\n"}[i%4])
	}
	emit("long", lsb.String())
	// nesting to depth ~50 of each nesting construct, around a small program
	for depth := 10; depth <= 50; depth += 10 {
		for _, w := range [][2]string{{"( ", " )"}, {"[ ", " ]"}, {"if a { ", " }"}, {"for x in y { ", " }"}, {"try { ", " } finally { }"},
			{"f( ", " )"}, {"a[ ", " ]"}, {"{ \"k\" : ", " }"}, {"func () { ", " }"}, {"mutex m { ", " }"}, {"not ", ""}, {"- ", ""}, {"x := ", ""}} {
			emit("nest", strings.Repeat(w[0], depth)+"b"+strings.Repeat(w[1], depth))
		}
		emit("nest", "a"+strings.Repeat(".b", depth)+strings.Repeat("(c)", depth))
		emit("nest", "a"+strings.Repeat(" + b * c", depth))
	}
}

// c07Deep: one very deep nesting (the parser recurses per level; Go grows its stack, see SPEC assumptions).
func c07Deep(g *Gen, emit func(kind, src string)) {
	n := 100000
	emit("deep", strings.Repeat("(", n)+"a"+strings.Repeat(")", n))
	emit("deep", strings.Repeat("[", n/10)+"a"+strings.Repeat("]", n/10))
	emit("deep", strings.Repeat("if a { ", n/400)+"b"+strings.Repeat(" }", n/400)) // (the pretty printer is cubic in this depth: 2500 levels take 2 minutes)
	emit("deep", strings.Repeat("(", n/10)+"a") // unbalanced: the error surfaces at the bottom
}

var c07Stray = []string{"\"", ")", "}", "]", ";", ",", "/*", "\n)", "{", "(", "[", "in", "as", ":=", ".", "else", "\n"}

// c07Inject: every stray text inserted at / replacing EVERY token position of the base programs, and every prefix.
func c07Inject(g *Gen, emit func(kind, src string)) {
	progs := append([]string{}, c07Programs...)
	progs = append(progs,
		"import \"a\" as b",
		"sink s kindmatch [ \"a\" ] { a := 1 }",
		"func f ( a , b = 1 ) { return a }",
		"try { a } except \"x\" as e { b } otherwise { c } finally { d }",
		"for [ k , v ] in m { break }",
		"if a { b } elif c { d } else { e }",
		"mutex m { a := 1 }",
		"x := { \"a\" : [ 1 , 2 ] , \"b\" : f ( 1 ) }",
		"a . b ( 1 ) [ 2 ] . c := - d",
		"let a := not b and c or d",
		"return 1")
	for _, p := range progs {
		ts := strings.Split(p, " ")
		for i := 0; i <= len(ts); i++ {
			emit("prefix", strings.Join(ts[:i], " "))
			for _, s := range c07Stray {
				ins := append(append(append([]string{}, ts[:i]...), s), ts[i:]...)
				emit("inject", strings.Join(ins, " "))
				if i < len(ts) {
					rep := append(append(append([]string{}, ts[:i]...), s), ts[i+1:]...)
					emit("inject", strings.Join(rep, " "))
				}
			}
		}
	}
}

// c07LongTails: an error LATE in the input, inside a nested block, and the "extra token" end, each followed by a long tail
func c07LongTails(g *Gen, emit func(kind, src string)) {
	tailN := 100000
	if g.Thorough() {
		tailN = 300000
	}
	head := strings.Repeat("a := 1\n", 2000)
	emit("longtail", head+") "+strings.Repeat("b ", tailN))
	emit("longtail", "func f() { if a { for x in y { try { ) } finally { } } } }\n"+strings.Repeat("c := 2 ; ", tailN/4))
	emit("longtail", "a := 1 b "+strings.Repeat("d ", tailN))
	emit("longtail", fmt.Sprintf("x := [ %s ] ]\n", strings.Repeat("1 , ", 1000))+strings.Repeat("e\n", tailN))
	if g.Thorough() {
		emit("longtail", ") "+strings.Repeat("a ", 1000000)) // 10^6 tokens after a first-token error
	}
	if os.Getenv("C07_AMPLIFY") != "" {
		// a source fact about the channel skeleton was not established in this run: more tails, at more distances
		for _, head := range []string{") ", "a ) ", "a b c ) ", "( a ", "[ 1 , ", "if a { ) ", "f ( ) ) ", "x := \" "} {
			for _, k := range []int{1, 2, 3, 4, 5, 7, 50, 20000} {
				emit("longtail", head+strings.Repeat("t ", k))
			}
		}
		emit("longtail", ") "+strings.Repeat("a ", 4*tailN))
	}
}
