package main

// Generator of C08: sources that the real parser accepts (others are counted and skipped).

import (
	"fmt"
	"os"
	"strings"

	"github.com/krotik/ecal/parser"
)

var c08Bin = []string{"+", "-", "*", "/", "//", "%", ">=", "<=", "!=", "==", ">", "<", "and", "or",
	"like", "in", "hasprefix", "hassuffix", "notin", ":", "=", ":="}
var c08Pre = []string{"-", "+", "not "}

// c08Corpus: the inputs of the repaired defects and of the known findings come first.
var c08Corpus = []string{
	"a - (b - c)", "a / (b * c)", "not (t and f)", "-(a + b)", "a == (b < c)", "(not t) == f", "a + (not t) == c",
	"a - (b + c)", "a % (b % c)", "a // (b / c)", "-(-a)", "not (not t)", "(a := b) := c", "a := (b := c)",
	"a * (b * c)", "a * (b / c)", "a * (b // c)", "(a * b) * c", "a * (b * c) * a",
	"/**/ a", "/**/ /**/ a", "if a {\n/**/\nb\n}",
	`"a\\"`, `"\\"`, `'a\\'`, `x := "a\\"; x`, "\"a\\u005c\"",
	`r"{{a}}"`, `r'x'`, `"{{a}}"`, `x := r"a\n"`,
	"/* a */ /* b */ x", "if a { /* c */ b }", "a # c", "a /* c */", "/* a\nb */ x", "x\n\n\ny",
	"7 * ((3 % 2) / 2)", "7 * ((3 // 2) * 2)", "7 * ((3 * 2) / 2)", "a * ((a % a) / a)", "+(not t * ((-1) / (not l)))",
	"x := [return\n]", "x := f(return\n)", "a[((return\n))]", "x := mutex m {\na\n}\nb", "p := \"C:\\\\temp\\\\new\"", "re := \"\\\\d+\\t\\\\w\"",
	"x := r'a\r\nb'\r\ny := 1\r\n", "7 * ((a + b) / c)", "-((a + b) * (c + d))", "[1,2,3,4,5,6,7,8,9,10,11,12]",
	"(return a) + b", "a + (return b) + c", "not (return b) and c", "func g() {\nx := (return 1) + 2\n}\ng()", "return a + b",
	"-suppresses a", "not priority 1", "a + kindmatch b", "x := \"\u0378\"", "\"\ufffe\"", "\"\U000e0001\"",
	"x := a([1,2,3,4,5])[0]", "x := (let a) + 1", "sink s kindmatch [\"a\"], priority (1 + 2) { a }", "try { a }\n\nexcept { b }",
	"mutex m { a }\nb", "(a == (not b)) == c", "(a - (not b)) - c", "(a == not b) in [true,false]", "\"100%\"", "\"\\xff\\xfe\"", "\"caf\\xe9\"",
	"\"\xff\"", "a; -a", "x; (a + b) * c", "x.y(1); (a or b) and c", "x := 1; (a + b) * c", "if true { a }", "if f { a } elif true { b }", "x.rec(1 # c\n)", "return /* c */ a", "mutex m {\na\n}\nb",
}

func c08Gen(g *Gen) {
	seen := map[string]bool{}
	nEmit := 0
	emit := func(kind string, src string, ev bool) {
		if seen[src] {
			g.Count("duplicate")
			return
		}
		seen[src] = true
		nEmit++
		ff := nEmit%8 == 0
		for _, k := range []string{"corpus", "string", "stmt.single", "container", "bytes", "runes", "control", "crlf", "wide", "return.closer"} {
			if strings.HasPrefix(kind, k) {
				ff = true
			}
		}
		p, ok := c08PayloadF(src, ev, ff)
		if !ok {
			g.Count("unparseable-skipped." + kind)
			return
		}
		g.Count(kind)
		g.Emit(p)
	}

	for _, s := range c08Corpus {
		emit("corpus", s, true)
	}
	g.Emit("TABLES") // not a case: the driver reports whether Parser.lean's table agrees with the regenerated one
	// the format tool on a directory tree: FormatFiles / Format, plain directory / symbolic link, other extension, -help
	for v := 0; v < 8; v++ {
		g.Count("format-tree")
		g.Emit(fmt.Sprintf("FMT %d", v))
	}

	// ---- exhaustive depth-2 operator nestings
	atomSets := [][3]string{{"a", "b", "c"}, {"t", "f", "t"}, {"s", "l", "1"}}
	for _, at := range atomSets {
		x, y, z := at[0], at[1], at[2]
		for _, o := range c08Bin {
			for _, i := range c08Bin {
				emit("nest2.bin-bin", fmt.Sprintf("(%s %s %s) %s %s", x, i, y, o, z), true)
				emit("nest2.bin-bin", fmt.Sprintf("%s %s %s %s %s", x, i, y, o, z), true)
				emit("nest2.bin-bin", fmt.Sprintf("%s %s (%s %s %s)", x, o, y, i, z), true)
			}
			for _, p := range c08Pre {
				emit("nest2.bin-pre", fmt.Sprintf("(%s%s) %s %s", p, x, o, y), true)
				emit("nest2.bin-pre", fmt.Sprintf("%s%s %s %s", p, x, o, y), true)
				emit("nest2.bin-pre", fmt.Sprintf("%s %s (%s%s)", x, o, p, y), true)
				emit("nest2.bin-pre", fmt.Sprintf("%s %s %s%s", x, o, p, y), true)
				emit("nest2.pre-bin", fmt.Sprintf("%s(%s %s %s)", p, x, o, y), true)
			}
		}
		for _, p := range c08Pre {
			for _, q := range c08Pre {
				emit("nest2.pre-pre", fmt.Sprintf("%s(%s%s)", p, q, x), true)
				emit("nest2.pre-pre", fmt.Sprintf("%s%s%s", p, q, x), true)
			}
		}
	}

	// ---- depth 3: a prefix operator as RIGHT operand of an inner operator, the expression continuing with
	// every outer operator (the prefix operand must not capture the continuation)
	for _, o1 := range c08Bin {
		for _, o2 := range c08Bin {
			for _, p := range c08Pre {
				emit("nest3.right-prefix", fmt.Sprintf("(t %s (%sf)) %s t", o1, p, o2), true)
				emit("nest3.right-prefix", fmt.Sprintf("(a %s %sb) %s c", o1, p, o2), true)
			}
		}
	}

	// ---- all operator trees with exactly 3 operators (20 infix, 3 prefix, let), fully parenthesised in the
	// source: thorough tier, and whenever the bracket rule could not be established from the source
	if g.Thorough() || os.Getenv("C08_AMPLIFY") != "" {
		var trees func(n int) []string
		memo := map[int][]string{}
		trees = func(n int) []string {
			if r, ok := memo[n]; ok {
				return r
			}
			var r []string
			if n == 0 {
				r = []string{"a"}
			} else {
				for _, sub := range trees(n - 1) {
					for _, p := range append(append([]string{}, c08Pre...), "let ") {
						r = append(r, "("+p+sub+")")
					}
				}
				for i := 0; i < n; i++ {
					for _, l := range trees(i) {
						for _, rr := range trees(n - 1 - i) {
							for _, o := range c08Bin {
								r = append(r, "("+l+" "+o+" "+rr+")")
							}
						}
					}
				}
			}
			memo[n] = r
			return r
		}
		for _, e := range trees(3) {
			emit("nest3.all", e, true)
		}
	}

	// ---- a product in front of a bracketed chain of multiplicative operators: every combination of * / // % at
	// every position of the left spine, with numbers whose values tell the associations apart
	mulOps := []string{"*", "/", "//", "%"}
	for _, o1 := range mulOps {
		for _, o2 := range mulOps {
			emit("mulchain", fmt.Sprintf("7 * (3 %s 2)", o1), true)
			emit("mulchain", fmt.Sprintf("7 * ((9 %s 5) %s 2)", o1, o2), true)
			emit("mulchain", fmt.Sprintf("7 * (9 %s (5 %s 2))", o1, o2), true)
			emit("mulchain", fmt.Sprintf("7 %s (9 %s 5)", o1, o2), true)
			for _, o3 := range mulOps {
				emit("mulchain", fmt.Sprintf("7 * (((11 %s 5) %s 3) %s 2)", o1, o2, o3), true)
				emit("mulchain", fmt.Sprintf("x := 7 * ((-11 %s (5 + 1)) %s 3) %s 2", o1, o2, o3), true)
				emit("mulchain", fmt.Sprintf("7 * ((a %s b) %s (c %s 5))", o1, o2, o3), true)
			}
		}
	}

	// ---- map literals inside (redundant) parentheses in the places where a brace starts a block: today the parser
	// rejects them (skipped as unparseable); if it ever accepts them the printer must keep the parentheses
	for _, m := range []string{"{\"a\" : 1}", "{}", "{\"a\" : 1, \"b\" : 2, \"c\" : 3}"} {
		for _, f := range []string{"if (a == %s) {\nb\n}", "if t and (s == %s) {\nb\n}", "if f {\na\n} elif (%s) {\nb\n}",
			"for [k, v] in (%s) {\nx.rec(k)\n}", "for (a in %s) {\nb\n}", "if x.rec((%s)) {\nb\n}", "for x.lim() and (%s == a) {\nb\n}",
			"if (%s) {\nb\n}", "if not (%s) {\nb\n}", "if x.rec(%s) {\nb\n}", "if [%s] {\nb\n}"} {
			emit("guard.map", fmt.Sprintf(f, m), true)
		}
	}

	// ---- postfixes after multi-line containers; keywords that parse like prefix operators
	for _, arg := range []string{"[1,2,3,4,5]", "[1,2,3,4]", "{\"a\":1,\"b\":2,\"c\":3}", "{\"a\":1}", "func () {\nreturn 1\n}", "1"} {
		for _, f := range []string{"x := a(%s)[0]", "a(%s).b", "a(%s)(1)", "a[%s][0]", "a.b(%s)[0].c", "a(%s).b[0]", "a(1)[%s]", "x.rec(a(%s)[0], 2)",
			"[a(%s)[0], 1]", "if t {\nx := l[%s]\n}", "a(%s)\n[0]"} {
			emit("postfix", fmt.Sprintf(f, arg), true)
		}
	}
	for _, e := range []string{"1 + 2", "(1 + 2)", "[\"a\"] + [\"b\"]", "([\"a\"] + [\"b\"])", "-1", "(-1)", "not t", "(1 == 2)", "{\"a\" : 1}", "x.y(1)", "((2))"} {
		for _, at := range []string{"kindmatch", "scopematch", "statematch", "priority", "suppresses"} {
			emit("keyword.sink", fmt.Sprintf("sink s kindmatch [\"a\"], %s %s { a }", at, e), true)
			emit("keyword.sink", fmt.Sprintf("sink s %s %s, priority 1 { a }", at, e), true)
		}
	}
	for _, kw := range []string{"return", "kindmatch", "scopematch", "statematch", "priority", "suppresses", "let", "not"} {
		for _, o := range c08Bin {
			emit("keyword.operand", fmt.Sprintf("(%s a) %s b", kw, o), true)
			emit("keyword.operand", fmt.Sprintf("a %s (%s b)", o, kw), true)
			emit("keyword.operand", fmt.Sprintf("a %s %s b", o, kw), true)
			emit("keyword.operand", fmt.Sprintf("a %s (%s b) %s c", o, kw, o), true)
			emit("keyword.operand", fmt.Sprintf("%s a %s b", kw, o), true)
			emit("keyword.operand", fmt.Sprintf("%s (a %s b)", kw, o), true)
			for _, p := range c08Pre {
				emit("keyword.operand", fmt.Sprintf("%s(%s a) %s b", p, kw, o), true)
			}
			emit("keyword.operand", fmt.Sprintf("func g() {\nx := (%s 1) %s 2\nx\n}\ng()", kw, o), true)
		}
		for _, p := range append(append([]string{}, c08Pre...), "let ", "return ", "priority ") {
			emit("keyword.operand", fmt.Sprintf("%s(%s a)", p, kw), true)
			emit("keyword.operand", fmt.Sprintf("%s%s a", p, kw), true)
			emit("keyword.operand", fmt.Sprintf("%s a; %s%s b", kw, p, kw), true)
		}
	}
	for _, o := range c08Bin {
		emit("keyword.let", fmt.Sprintf("x := (let a) %s 1", o), true)
		emit("keyword.let", fmt.Sprintf("x := 1 %s (let a)", o), true)
		emit("keyword.let", fmt.Sprintf("(1 %s (let a)) %s 2", o, o), true)
		emit("keyword.let", fmt.Sprintf("let a %s 1", o), true)
		emit("keyword.let", fmt.Sprintf("let (a %s 1)", o), true)
	}
	for _, p := range c08Pre {
		emit("keyword.let", fmt.Sprintf("%s(let a)", p), true)
		emit("keyword.let", fmt.Sprintf("let %sa", p), true)
	}
	for _, kw := range []string{"except", "otherwise", "finally", "elif t", "else"} {
		for _, nl := range []string{" ", "\n", "\n\n", "\n\n\n"} {
			if strings.HasPrefix(kw, "el") {
				emit("blank.clause", "if f {\na\n}"+nl+kw+" {\nb\n}", true)
			} else if kw == "otherwise" {
				emit("blank.clause", "try {\na\n} except {\nc\n}"+nl+kw+" {\nb\n}", true)
			} else {
				emit("blank.clause", "try {\na\n}"+nl+kw+" {\nb\n}", true)
			}
		}
	}
	for _, blk := range []string{"mutex m {\na\n}", "sink s kindmatch [\"a\"] {\na\n}"} {
		for _, nl := range []string{"\n", "\n\n", "\n\n\n", "; "} {
			emit("block.then", blk+nl+"b", true)
			emit("block.then", blk+nl+"b := 1"+nl+"c", true)
			emit("block.then", "if t {\n"+blk+nl+"b\n}", true)
			emit("block.then", blk+nl+blk+nl+"b", true)
		}
	}

	// ---- string values with bytes that are not valid UTF-8, and with %
	batoms := []string{"%", "%d", `\xff`, `\xfe`, `\xe9`, "\xff", "\xc3", "caf", `\\`, `\"`, "é", "{{a}}"}
	bmax := 2
	if g.Thorough() {
		bmax = 3
	}
	var brec func(prefix string, n int)
	brec = func(prefix string, n int) {
		for _, f := range [][2]string{{`"`, `"`}, {`'`, `'`}, {`r"`, `"`}} {
			emit("bytes", f[0]+prefix+f[1], true)
		}
		emit("bytes.context", "x := [1, 2, 3, 4, \""+prefix+"\"]\nx.rec(\""+prefix+"\")", true)
		if n == bmax {
			return
		}
		for _, a := range batoms {
			brec(prefix+a, n+1)
		}
	}
	brec("", 0)

	// ---- runes beyond Latin-1: printable and not, non-characters, unassigned, surrogates (rejected by the lexer),
	// written with escapes and as raw UTF-8
	ratoms := []string{`\u0378`, `\ufffe`, `\U000e0001`, `\u200b`, `\u4e2d`, `\U0001f600`, "中", "😀", "\u0378", "\ufffe",
		`\ud800`, `\u00ad`, "\u00ad", `\u2028`, "\u2028", `\ufeff`, `\U0010ffff`, "\U0010ffff", `\u0100`, "ā", `\uffff`, "\U000e0001", "a", `\\`}
	rmax := 2
	if g.Thorough() {
		rmax = 3
	}
	var rrec func(prefix string, n int)
	rrec = func(prefix string, n int) {
		for _, f := range [][2]string{{`"`, `"`}, {`'`, `'`}, {`r"`, `"`}} {
			emit("runes", f[0]+prefix+f[1], true)
		}
		if n == rmax {
			return
		}
		for _, a := range ratoms {
			rrec(prefix+a, n+1)
		}
	}
	rrec("", 0)

	// ---- control characters, tab, CR and backslash + letter in string values (escaped and raw), CRLF sources
	catoms := []string{"\t", `\t`, `\\t`, `\r`, "\r", `\a`, `\b`, `\f`, `\v`, `\x00`, `\x7f`, `\x1b`, "\x7f", "\x01", `\\d`, `\\w`, `\\n`, `\\temp`, "a", `\"`}
	cmax := 2
	if g.Thorough() {
		cmax = 3
	}
	var crec func(prefix string, n int)
	crec = func(prefix string, n int) {
		for _, f := range [][2]string{{`"`, `"`}, {`'`, `'`}, {`r"`, `"`}} {
			emit("control", f[0]+prefix+f[1], true)
		}
		emit("control.context", "x := [\""+prefix+"\", 1]\r\nx.rec(r'"+prefix+"')\r\n", true)
		if n == cmax {
			return
		}
		for _, a := range catoms {
			crec(prefix+a, n+1)
		}
	}
	crec("", 0)
	for _, src := range []string{"x := r'a\r\nb'\r\ny := 1\r\n", "if a {\r\n    b\r\n}\r\n", "x := r\"l1\r\nl2\r\n\"\r\n", "a # c\r\nb\r\n",
		"/* c\r\n d */\r\na\r\n", "x := [1,\r\n2]\r\n", "a\r\n\r\nb"} {
		emit("crlf", src, true)
	}

	// ---- nodes with 10 and more children: lists, maps, calls, parameters, sink attributes, blocks
	for _, n := range []int{10, 12, 23} {
		var nums, kvs, ps, stm, strs []string
		for i := 1; i <= n; i++ {
			nums = append(nums, fmt.Sprint(i))
			kvs = append(kvs, fmt.Sprintf("\"k%d\" : %d", i, i))
			ps = append(ps, fmt.Sprintf("p%d", i))
			stm = append(stm, fmt.Sprintf("x.rec(%d)", i))
			strs = append(strs, fmt.Sprintf("\"s%d\"", i))
		}
		emit("wide", "x := ["+strings.Join(nums, ", ")+"]\nx", true)
		emit("wide", "x := {"+strings.Join(kvs, ", ")+"}\nx", true)
		emit("wide", "x.rec("+strings.Join(nums, ", ")+")", true)
		emit("wide", "func g("+strings.Join(ps, ", ")+") {\nreturn p1 + p"+fmt.Sprint(n)+"\n}\ng("+strings.Join(nums, ", ")+")", true)
		emit("wide", strings.Join(stm, "\n"), true)
		emit("wide", "if t {\n"+strings.Join(stm, "\n")+"\n}", true)
		emit("wide", "sink s kindmatch ["+strings.Join(strs, ", ")+"], suppresses ["+strings.Join(strs, ", ")+"] {\n"+strings.Join(stm, "\n")+"\n}", true)
		emit("wide", "try {\na\n} except "+strings.Join(strs, ", ")+" as e {\nb\n}", true)
		emit("wide", "a."+strings.Join(ps, ".")+"("+strings.Join(nums, ", ")+")["+fmt.Sprint(n)+"]", true)
		emit("wide", "["+strings.Join(strs, ", ")+", ["+strings.Join(nums, ", ")+"], {"+strings.Join(kvs, ", ")+"}]", true)
	}

	// ---- a prefix operator / a further operator over a product of two bracketed operands (quick tier), and operators
	// that are not multiplicative on the spine of a product's right operand
	for _, o2 := range c08Bin {
		for _, p := range c08Pre {
			emit("nest3.paren-pair", fmt.Sprintf("%s((a + b) %s (c - a))", p, o2), true)
			emit("nest3.paren-pair", fmt.Sprintf("%s((t or f) %s (f and t))", p, o2), true)
		}
		emit("nest3.paren-pair", fmt.Sprintf("((a + b) %s (c - a)) * b", o2), true)
		emit("nest3.paren-pair", fmt.Sprintf("b - ((a * b) %s (c / a))", o2), true)
		for _, o3 := range []string{"*", "/"} {
			emit("mulchain.spine", fmt.Sprintf("7 * ((a %s b) %s c)", o2, o3), true)
			emit("mulchain.spine", fmt.Sprintf("7 * (((a %s b) %s c) %s 2)", o2, o3, o3), true)
			emit("mulchain.spine", fmt.Sprintf("7 * ((-a) %s (b %s c))", o3, o2), true)
		}
	}

	// ---- a bare return in front of a closing token; statements used as operands
	for _, f := range []string{"x := [return\n]", "x := [1, return\n]", "x := f(return\n)", "x := f(1, return\n)", "a[return\n]", "a[((return\n))]",
		"x := (return\n)", "x := {\"a\" : return\n}", "if t {\nx := [return\n]\n}", "x := [return\n, 1]", "x.rec([return\n])\nb"} {
		emit("return.closer", f, true)
	}
	blocks := []string{"mutex m {\na\n}", "sink s kindmatch [\"a\"] {\na\n}", "if t {\na\n}", "for q in [1] {\na\n}", "try {\na\n} finally {\nb\n}",
		"func () {\nreturn 1\n}", "import \"x\" as y", "func g() {\n}"}
	for _, b := range blocks {
		for _, f := range []string{"x := %s\nb", "x := %s", "return %s\nb", "x := 1 + %s\nb", "x := [%s]\nb", "x.rec(%s)\nb", "x := not %s\nb", "x := %s\n\nb"} {
			emit("stmt.operand", fmt.Sprintf(f, b), true)
		}
	}

	// ---- statement kinds nested pairwise
	outer := []string{
		"if a > 1 {\n%s\n}",
		"if f {\nb\n} elif t {\n%s\n}",
		"if f {\nb\n} elif f {\nc\n} else {\n%s\n}",
		"for q in range(1, 2) {\n%s\n}",
		"for [k, v] in {\"x\" : 1} {\n%s\n}",
		"for x.lim() {\n%s\n}",
		"func g(p, q=1) {\n%s\n}\ng(1)",
		"func g() {\n%s\n}",
		"h := func (p) {\n%s\n}\nh(2)",
		"try {\n%s\n} except \"e\" as e {\nb\n}",
		"try {\nraise(\"e\")\n} except {\n%s\n}",
		"try {\na\n} except \"x\", \"y\" as e {\nb\n} except e {\nc\n} otherwise {\n%s\n} finally {\nc\n}",
		"try {\na\n} finally {\n%s\n}",
		"mutex m {\n%s\n}",
		"sink s1 kindmatch [\"foo.*\"], scopematch [], statematch {\"a\" : 1}, priority 2, suppresses [\"s2\"] {\n%s\n}",
		"sink s2 kindmatch [\"a\", \"b\", \"c\", \"d\", \"e\"] {\n%s\n}",
		"%s\nb",
		"a; %s",
		"a\n\n%s\n\n\nb",
	}
	simple := []string{
		"a := 1", "let z := 2", "x.rec(a)", "a + b * c", "return a", "return", "break", "continue",
		"import \"foo/bar\" as foobar", "log(\"x\")", "a.b.c(1)[2].d", "l[0]", "l[1] := 5",
		"{\"a\" : 1, \"b\" : [1, 2, 3, 4, 5], \"c\" : 3}", "[1, 2, 3, 4, 5]", "\"str\"", "r\"raw\"", "null", "-a", "not t",
		"x.rec(1); x.rec(2)", "y := {\"a\" : 1}\ny.a", "true", "1.50",
	}
	var inner []string
	inner = append(inner, simple...)
	for _, o := range outer[:16] {
		inner = append(inner, fmt.Sprintf(o, "x.rec(a)"))
	}
	for _, s := range inner {
		emit("stmt.single", s, true)
	}
	for _, o := range outer {
		for _, i := range inner {
			emit("stmt.pair", fmt.Sprintf(o, i), true)
		}
	}
	// statements whose printed form starts with a sign or a parenthesis, after every kind of statement end
	prevs := []string{"x", "x.y", "x.y(1)", "x[0]", "x := y", "x := 1", "x := (y := z)", "-x", "not t", "return x", "return", "let z",
		"x := y + z", "x := (a + b) * c", "y := [x]", "x.rec(a)", "if t {\nx\n}", "\"s\"", "x := a.b(1)[2].c"}
	nexts := []string{"(a + b) * c", "(a or t) and f", "(a := b) := c", "-a", "+a * b", "-a + b", "((a))", "(a + b) * c + (a + b)",
		"not (t and f)", "[1, 2]", "(a - b) - c", "(-a) * b", "(a == b) == t"}
	for _, pv := range prevs {
		for _, nx := range nexts {
			emit("stmt.start", pv+"; "+nx, true)
			emit("stmt.start", "if t {\n"+pv+"; "+nx+"; x.rec(1)\n}", true)
		}
	}

	// triples, sampled
	nTriples := 300
	if g.Thorough() {
		nTriples = 6000
	}
	for k := 0; k < nTriples; k++ {
		s := fmt.Sprintf(g.R.Pick(outer), fmt.Sprintf(g.R.Pick(outer), g.R.Pick(inner)))
		emit("stmt.triple", s, true)
	}

	// ---- lists and maps around the multi-line thresholds (list: 4, map: 2)
	elems := func(n int, kv bool, el string) string {
		var parts []string
		for i := 0; i < n; i++ {
			if kv {
				parts = append(parts, fmt.Sprintf("\"k%d\" : %s", i, el))
			} else {
				parts = append(parts, el)
			}
		}
		return strings.Join(parts, ", ")
	}
	var conts []string
	for _, n := range []int{0, 1, 3, 4, 5, 6} {
		conts = append(conts, "["+elems(n, false, "1")+"]")
	}
	for _, n := range []int{0, 1, 2, 3, 4} {
		conts = append(conts, "{"+elems(n, true, "1")+"}")
	}
	ctxs := []string{"%s", "x := %s", "x.rec(%s)", "x.rec(%s, 1)", "if t {\nx := %s\n}", "[%s, 1]", "{\"k\" : %s}",
		"for q in %s {\nx.rec(q)\n}", "func g() {\nreturn %s\n}\ng()", "%s[0]", "l + %s", "if f {\n} else {\nfor q in [1] {\ny := %s\n}\n}"}
	for _, c := range conts {
		for _, cx := range ctxs {
			emit("container", fmt.Sprintf(cx, c), true)
		}
	}
	// containers as elements of containers at the thresholds
	for _, n := range []int{3, 4, 5} {
		for _, c := range conts {
			emit("container.nested", "["+elems(n, false, c)+"]", true)
		}
	}
	for _, n := range []int{1, 2, 3} {
		for _, c := range conts {
			emit("container.nested", "x := {"+elems(n, true, c)+"}", true)
		}
	}

	// ---- string literals: all sequences of source atoms up to maxLen in the four literal forms
	satoms := []string{`\"`, `"`, `'`, `\\`, `\n`, "\n", "{{", "}}", "é", "a", `\`, `\`}
	maxLen := 3
	if g.Thorough() {
		maxLen = 4
	}
	forms := [][2]string{{`"`, `"`}, {`'`, `'`}, {`r"`, `"`}, {`r'`, `'`}}
	var rec func(prefix string, n int)
	rec = func(prefix string, n int) {
		for _, f := range forms {
			emit("string", f[0]+prefix+f[1], true)
		}
		if n == maxLen {
			return
		}
		for _, a := range satoms {
			rec(prefix+a, n+1)
		}
	}
	rec("", 0)
	// strings in statement context (indentation is applied textually: multi-line values are at risk)
	for _, lit := range []string{"\"a\\nb\"", "\"a\nb\"", "r\"a\nb\"", "'a\n    b'", "\"{{a}}\\n{{b}}\"", "\"a \"", "\"a \n b\""} {
		for _, cx := range []string{"if t {\nx := %s\nx\n}", "x.rec(%s)", "[1, 2, 3, 4, %s]", "{\"a\" : 1, \"b\" : 2, \"c\" : %s}",
			"func g() {\nreturn %s\n}\ng()"} {
			emit("string.context", fmt.Sprintf(cx, lit), true)
		}
	}

	// ---- comments and blank lines before / after tokens
	bases := []string{
		"a + b * c",
		"x := [1, 2, 3, 4, 5]",
		"if a > 1 {\nx.rec(a)\n} elif t {\nb\n} else {\nc\n}",
		"for q in range(1, 2) {\nx.rec(q)\n}",
		"func g(p, q=1) {\nreturn p + q\n}\ng(1)",
		"try {\nraise(\"e\")\n} except \"e\" as e {\nx.rec(1)\n} finally {\nx.rec(2)\n}",
		"mutex m {\na := 1\n}",
		"sink s1 kindmatch [\"foo.*\"], priority 2 {\na\n}",
		"y := {\"a\" : 1, \"b\" : 2, \"c\" : 3}\ny.a",
		"a.b(1, 2)[3]",
		"a\nb\nc",
		"-a * (b + c)",
	}
	comments := []string{"/* c */ ", "/**/", "/* a\n b */\n", " # c\n", "/* x */ /* y */ ", "\n\n", "/* c */\n\n", "\n/* c */"}
	nMulti := 400
	if g.Thorough() {
		nMulti = 8000
	}
	for _, b := range bases {
		toks := parser.LexToList("t", b)
		var pts []int
		for _, t := range toks {
			pts = append(pts, t.Pos)
		}
		for _, p := range pts {
			for _, c := range comments {
				if p <= len(b) {
					emit("comment.single", b[:p]+c+b[p:], true)
				}
			}
		}
	}
	for k := 0; k < nMulti; k++ {
		b := g.R.Pick(bases)
		toks := parser.LexToList("t", b)
		n := 2 + g.R.Intn(3)
		ins := map[int]string{}
		for i := 0; i < n; i++ {
			ins[toks[g.R.Intn(len(toks))].Pos] = g.R.Pick(comments)
		}
		var sb strings.Builder
		for i := 0; i <= len(b); i++ {
			if c, ok := ins[i]; ok {
				sb.WriteString(c)
			}
			if i < len(b) {
				sb.WriteByte(b[i])
			}
		}
		emit("comment.multi", sb.String(), true)
	}

	// ---- random expressions (deeper nestings, random parentheses) and random programs
	nExpr, nProg := 2500, 2500
	if g.Thorough() {
		nExpr, nProg = 60000, 50000
	}
	for k := 0; k < nExpr; k++ {
		emit("random.expr", c08RandOpExpr(g.R, 2+g.R.Intn(3)), true)
	}
	for k := 0; k < nProg; k++ {
		emit("random.program", c08RandStmts(g.R, 3), true)
	}
}

func c08RandOpExpr(r *Rand, d int) string {
	if d <= 0 || r.Intn(10) < 2 {
		return r.Pick([]string{"a", "b", "c", "t", "f", "1", "2.5", "s", "l"})
	}
	var s string
	switch r.Intn(10) {
	case 0, 1:
		s = r.Pick(c08Pre) + c08RandOpExpr(r, d-1)
	default:
		s = c08RandOpExpr(r, d-1) + " " + r.Pick(c08Bin[:len(c08Bin)-1]) + " " + c08RandOpExpr(r, d-1)
	}
	if r.Intn(2) == 0 {
		s = "(" + s + ")"
	}
	return s
}

func c08RandExpr(r *Rand, d int) string {
	x := r.Intn(100)
	if d <= 0 || x < 30 {
		return r.Pick([]string{"a", "b", "1", "2.5", "\"s\"", "r\"x\"", "'q\"'", "true", "null", "a.b", "f(1)", "l[0]", "x.y(2).z",
			"[1,2]", "{1:2}", "{\"a\":[1]}", "x.rec(a)", "\"{{a}}\"", "[1,2,3,4,5]", "{\"a\":1,\"b\":2,\"c\":3}"})
	}
	switch {
	case x < 60:
		return c08RandExpr(r, d-1) + " " + r.Pick(c08Bin) + " " + c08RandExpr(r, d-1)
	case x < 70:
		return r.Pick(c08Pre) + c08RandExpr(r, d-1)
	case x < 80:
		return "(" + c08RandExpr(r, d-1) + ")"
	case x < 90:
		var a []string
		for i, n := 0, r.Intn(4); i < n; i++ {
			a = append(a, c08RandExpr(r, d-1))
		}
		return "x.rec(" + strings.Join(a, ", ") + ")"
	}
	var a []string
	for i, n := 0, r.Intn(7); i < n; i++ {
		a = append(a, c08RandExpr(r, d-1))
	}
	return "[" + strings.Join(a, ", ") + "]"
}

// c08RandGuard: an expression without `{` (inside a guard every left brace starts the block)
func c08RandGuard(r *Rand) string {
	for i := 0; i < 20; i++ {
		if e := c08RandExpr(r, 1); !strings.Contains(e, "{") {
			return e
		}
	}
	return "t"
}

func c08RandBlock(r *Rand, d int) string { return "{ " + c08RandStmts(r, d-1) + " }" }

func c08RandStmt(r *Rand, d int) string {
	x := r.Intn(100)
	if d <= 0 || x < 30 {
		switch r.Intn(7) {
		case 0:
			return "a := " + c08RandExpr(r, 2)
		case 1:
			return c08RandExpr(r, 2)
		case 2:
			return "let x := " + c08RandExpr(r, 1)
		case 3:
			return "return " + c08RandExpr(r, 1)
		case 4:
			return "return\n" // a bare return takes what follows on its line
		case 5:
			return "break"
		}
		return "continue"
	}
	switch {
	case x < 45:
		s := "if " + c08RandGuard(r) + " " + c08RandBlock(r, d)
		if r.Intn(10) < 4 {
			s += " elif " + c08RandGuard(r) + " " + c08RandBlock(r, d)
		}
		if r.Intn(2) == 0 {
			s += " else " + c08RandBlock(r, d)
		}
		return s
	case x < 55:
		// `q in a > b` would be read as the condition loop `(q in a) > b`: bracket the iterable; every
		// condition loop is bounded by x.lim()
		return "for " + r.Pick([]string{"q in (" + c08RandGuard(r) + ")", "[q,w] in (" + c08RandGuard(r) + ")", "x.lim()",
			"x.lim() and (" + c08RandGuard(r) + ")"}) + " " + c08RandBlock(r, d)
	case x < 65:
		return "func " + r.Pick([]string{"g", ""}) + "(" + r.Pick([]string{"", "p", "p, q=1", "p=1,q"}) + ") " + c08RandBlock(r, d)
	case x < 80:
		s := "try " + c08RandBlock(r, d)
		for i, n := 0, r.Intn(3); i < n; i++ {
			s += " except " + r.Pick([]string{"", "e ", "\"T\" ", "\"T\" as e ", "\"A\", \"B\" ", "\"A\", \"B\" as e ", "as e "}) + c08RandBlock(r, d)
		}
		if r.Intn(10) < 4 {
			s += " otherwise " + c08RandBlock(r, d)
		}
		if r.Intn(2) == 0 || !strings.Contains(s, "except") {
			s += " finally " + c08RandBlock(r, d)
		}
		return s
	case x < 87:
		return "mutex m " + c08RandBlock(r, d)
	case x < 93:
		return "sink s kindmatch [\"a\"], priority 1" + r.Pick([]string{" ", ", statematch {\"a\":1} ", ", suppresses [\"x\"] "}) + c08RandBlock(r, d)
	}
	return "import \"x\" as y"
}

func c08RandStmts(r *Rand, d int) string {
	sep := r.Pick([]string{"; ", "\n", "\n\n", " # c\n", " /* c */ \n", "\n/* c */ ", "\n\n\n"})
	var a []string
	for i, n := 0, 1+r.Intn(3); i < n; i++ {
		a = append(a, c08RandStmt(r, d))
	}
	return strings.Join(a, sep)
}
