package main

// C16 — lock discipline of the debugger, as a regenerated SEMANTIC fact.
//
// For every method of *ecalDebugger (interpreter/debug.go) all paths through the body are
// followed with the number of holds of the receiver's `lock` (Lock/RLock +1, Unlock/RUnlock -1,
// `defer …Unlock()` runs at every exit). A method is
//
//	refuted     if on some path it reaches, with the lock held, a wait point (waitForContinue /
//	            cond.Wait), an evaluation (a call of a method named Eval) or a call of a method of
//	            the same receiver that itself takes the lock, waits or evaluates (transitively);
//	            or if it leaves (return, end of body, runtime.Goexit, panic) with a hold that no
//	            deferred unlock releases; or if it unlocks a lock it does not hold;
//	unknown     if the body uses something the analysis does not follow (goto, labels,
//	            fallthrough, lock operations inside function literals, loops whose body changes
//	            the number of holds);
//	established otherwise.
//
// Only "refuted" breaks the Lean obligation `lock_discipline_not_refuted`; "unknown" is an
// evidence note and amplifies the search of the same run (FRAMEWORK: facts policy).

import (
	"fmt"
	"go/ast"
	goparser "go/parser"
	"go/printer"
	"go/token"
	"path/filepath"
	"sort"
	"strconv"
	"strings"
)

// holds of ONE lock: write / read holds and the deferred unlocks of the current function
type lkState struct{ w, r, dw, dr int }

func (s lkState) held() int { return s.w + s.r }

type lkSummary struct {
	blocks  bool            // waits or evaluates (transitively)
	touches map[string]bool // lock keys it operates on (transitively)
	callees []string
}

type lkAnalysis struct {
	fset    *token.FileSet
	methods map[string]*ast.FuncDecl // every function / method of the file by name (unique names only)
	sum     map[string]*lkSummary
	key     string // the lock followed in this pass: source text of the expression before .Lock(), e.g. "ed.lock"
	// per method under analysis
	recv    string
	refuted []string
	unknown []string
	stack   []string // inlined callees (recursion guard)
	rets    []lkSet  // return states of the callee being inlined
}

func (a *lkAnalysis) line(p token.Pos) int { return a.fset.Position(p).Line }

// lockExprText: for a call X.Lock() / RLock / Unlock / RUnlock without arguments the source text of X
func lockExprText(call *ast.CallExpr) (string, string) {
	sel, ok := call.Fun.(*ast.SelectorExpr)
	if !ok || len(call.Args) != 0 {
		return "", ""
	}
	switch sel.Sel.Name {
	case "Lock", "RLock", "Unlock", "RUnlock":
		var sb strings.Builder
		printer.Fprint(&sb, token.NewFileSet(), sel.X)
		return sb.String(), sel.Sel.Name
	}
	return "", ""
}

// lockOp: "W+" "R+" "W-" "R-" for an operation on the lock followed in this pass, "" otherwise
func (a *lkAnalysis) lockOp(call *ast.CallExpr) string {
	x, op := lockExprText(call)
	if x != a.key {
		return ""
	}
	return map[string]string{"Lock": "W+", "RLock": "R+", "Unlock": "W-", "RUnlock": "R-"}[op]
}

func isBlocking(call *ast.CallExpr) string {
	if sel, ok := call.Fun.(*ast.SelectorExpr); ok {
		switch sel.Sel.Name {
		case "waitForContinue", "Wait":
			return "waits (" + sel.Sel.Name + ")"
		case "Eval":
			return "evaluates (Eval)"
		}
	}
	return ""
}

// ownMethod: the called function if it is declared in the analysed file (methods by name)
func (a *lkAnalysis) ownMethod(call *ast.CallExpr, recv string) string {
	name := ""
	switch f := call.Fun.(type) {
	case *ast.SelectorExpr:
		name = f.Sel.Name
	case *ast.Ident:
		name = f.Name
	}
	if fd, ok := a.methods[name]; ok && fd != nil {
		return name
	}
	return ""
}

func isExitCall(call *ast.CallExpr) bool {
	if id, ok := call.Fun.(*ast.Ident); ok && id.Name == "panic" {
		return true
	}
	if sel, ok := call.Fun.(*ast.SelectorExpr); ok && sel.Sel.Name == "Goexit" {
		return true
	}
	return false
}

// calls of a node in source order; function literals are not entered (lock operations or wait
// points inside them make the method "unknown")
func (a *lkAnalysis) calls(n ast.Node) []*ast.CallExpr {
	var out []*ast.CallExpr
	if n == nil {
		return out
	}
	ast.Inspect(n, func(x ast.Node) bool {
		switch x := x.(type) {
		case *ast.FuncLit:
			ast.Inspect(x.Body, func(y ast.Node) bool {
				if c, ok := y.(*ast.CallExpr); ok && (a.lockOp(c) != "" || isBlocking(c) != "") {
					a.unknown = append(a.unknown, fmt.Sprintf("lock operation or wait point inside a function literal (line %d)", a.line(c.Pos())))
				}
				return true
			})
			return false
		case *ast.CallExpr:
			out = append(out, x)
		}
		return true
	})
	return out
}

type lkSet map[lkState]bool

func union(a, b lkSet) lkSet {
	r := lkSet{}
	for s := range a {
		r[s] = true
	}
	for s := range b {
		r[s] = true
	}
	return r
}

func (a *lkAnalysis) exit(in lkSet, pos token.Pos, how string) {
	if len(a.rets) > 0 { // inside an inlined callee: hand the states back to the caller
		out := a.rets[len(a.rets)-1]
		for s := range in {
			n := lkState{s.w - s.dw, s.r - s.dr, 0, 0}
			if n.w < 0 || n.r < 0 {
				a.refuted = append(a.refuted, fmt.Sprintf("%s: a deferred unlock of %s releases a lock that is not held (line %d)", how, a.key, a.line(pos)))
				continue
			}
			out[n] = true
		}
		return
	}
	for s := range in {
		if s.w-s.dw > 0 || s.r-s.dr > 0 {
			a.refuted = append(a.refuted, fmt.Sprintf("%s with %s held (line %d)", how, a.key, a.line(pos)))
		} else if s.w-s.dw < 0 || s.r-s.dr < 0 {
			a.refuted = append(a.refuted, fmt.Sprintf("%s: a deferred unlock of %s releases a lock that is not held (line %d)", how, a.key, a.line(pos)))
		}
	}
}

// apply the calls of one node to every state
func (a *lkAnalysis) apply(in lkSet, n ast.Node) lkSet {
	cur := in
	for _, c := range a.calls(n) {
		op := a.lockOp(c)
		blocking := isBlocking(c)
		callee := a.ownMethod(c, a.recv)
		if isExitCall(c) {
			saved := a.rets
			a.rets = nil // Goexit / panic leave the goroutine: every frame's deferred calls run; judged for this frame
			a.exit(cur, c.Pos(), "leaves")
			a.rets = saved
			return lkSet{}
		}
		if op == "" && callee != "" && a.sum[callee].touches[a.key] {
			// a function of this file that operates on the lock: followed with the caller's holds
			cur = a.inline(callee, cur, c.Pos())
			continue
		}
		next := lkSet{}
		for s := range cur {
			switch op {
			case "W+", "R+":
				if s.held() > 0 {
					a.refuted = append(a.refuted, fmt.Sprintf("takes %s while holding it (line %d)", a.key, a.line(c.Pos())))
				}
				if op == "W+" {
					next[lkState{s.w + 1, s.r, s.dw, s.dr}] = true
				} else {
					next[lkState{s.w, s.r + 1, s.dw, s.dr}] = true
				}
			case "W-":
				if s.w == 0 {
					what := "unlocks " + a.key + " which it does not hold"
					if s.r > 0 {
						what = "Unlock of " + a.key + " while it is read-locked (RLock needs RUnlock)"
					}
					a.refuted = append(a.refuted, fmt.Sprintf("%s (line %d)", what, a.line(c.Pos())))
					next[s] = true
				} else {
					next[lkState{s.w - 1, s.r, s.dw, s.dr}] = true
				}
			case "R-":
				if s.r == 0 {
					what := "read-unlocks " + a.key + " which it does not hold"
					if s.w > 0 {
						what = "RUnlock of " + a.key + " while it is write-locked (Lock needs Unlock)"
					}
					a.refuted = append(a.refuted, fmt.Sprintf("%s (line %d)", what, a.line(c.Pos())))
					next[s] = true
				} else {
					next[lkState{s.w, s.r - 1, s.dw, s.dr}] = true
				}
			default:
				if s.held() > 0 {
					if blocking != "" && !a.condWaitOnKey(c) {
						a.refuted = append(a.refuted, fmt.Sprintf("%s with %s held (line %d)", blocking, a.key, a.line(c.Pos())))
					}
					if callee != "" && a.sum[callee].blocks {
						a.refuted = append(a.refuted, fmt.Sprintf("calls %s, which waits or evaluates, with %s held (line %d)", callee, a.key, a.line(c.Pos())))
					}
				}
				next[s] = true
			}
		}
		cur = next
	}
	return cur
}

// condWaitOnKey: X.Wait() where the followed lock is X.L — sync.Cond.Wait must be called with L held and releases it
func (a *lkAnalysis) condWaitOnKey(c *ast.CallExpr) bool {
	if sel, ok := c.Fun.(*ast.SelectorExpr); ok && sel.Sel.Name == "Wait" {
		var sb strings.Builder
		printer.Fprint(&sb, token.NewFileSet(), sel.X)
		return sb.String()+".L" == a.key
	}
	return false
}

// inline follows a function of the file from the caller's states (its own deferred unlocks run at its exits)
func (a *lkAnalysis) inline(callee string, in lkSet, pos token.Pos) lkSet {
	for _, f := range a.stack {
		if f == callee {
			// a recursive call from zero holds repeats what is being established from zero holds
			for st := range in {
				if st.held() > 0 {
					a.unknown = append(a.unknown, fmt.Sprintf("recursive call of %s with %s held (line %d)", callee, a.key, a.line(pos)))
					break
				}
			}
			return in
		}
	}
	if len(a.stack) > 6 {
		a.unknown = append(a.unknown, fmt.Sprintf("call depth (line %d)", a.line(pos)))
		return in
	}
	entry := lkSet{}
	frames := map[lkState]lkState{} // callee state -> the caller's deferred counts are restored afterwards
	for s := range in {
		e := lkState{s.w, s.r, 0, 0}
		entry[e] = true
		frames[e] = s
	}
	a.stack = append(a.stack, callee)
	a.rets = append(a.rets, lkSet{})
	savedRecv := a.recv
	fd := a.methods[callee]
	if fd.Recv != nil && len(fd.Recv.List) == 1 && len(fd.Recv.List[0].Names) == 1 {
		a.recv = fd.Recv.List[0].Names[0].Name
	}
	out, _ := a.block(fd.Body.List, entry)
	a.exit(out, fd.Body.Rbrace, "ends")
	rets := a.rets[len(a.rets)-1]
	a.rets = a.rets[:len(a.rets)-1]
	a.stack = a.stack[:len(a.stack)-1]
	a.recv = savedRecv
	// the caller's deferred counts: the same for all its states in practice; take them from any
	var dw, dr int
	for _, s := range frames {
		dw, dr = s.dw, s.dr
	}
	res := lkSet{}
	for s := range rets {
		res[lkState{s.w, s.r, dw, dr}] = true
	}
	return res
}

// block: states after the block; esc: states that left it by break / continue
func (a *lkAnalysis) block(stmts []ast.Stmt, in lkSet) (out, esc lkSet) {
	cur, esc := in, lkSet{}
	for _, st := range stmts {
		if len(cur) == 0 {
			break
		}
		var e lkSet
		cur, e = a.stmt(st, cur)
		esc = union(esc, e)
	}
	return cur, esc
}

func (a *lkAnalysis) stmt(st ast.Stmt, in lkSet) (out, esc lkSet) {
	esc = lkSet{}
	switch st := st.(type) {
	case nil:
		return in, esc
	case *ast.DeferStmt:
		if op := a.lockOp(st.Call); op == "W-" || op == "R-" {
			out = lkSet{}
			for s := range in {
				if op == "W-" {
					out[lkState{s.w, s.r, s.dw + 1, s.dr}] = true
				} else {
					out[lkState{s.w, s.r, s.dw, s.dr + 1}] = true
				}
			}
			return out, esc
		} else if op != "" {
			a.unknown = append(a.unknown, fmt.Sprintf("deferred Lock (line %d)", a.line(st.Pos())))
		}
		a.calls(st.Call) // function literals are inspected for lock operations
		return in, esc
	case *ast.ReturnStmt:
		cur := in
		for _, r := range st.Results {
			cur = a.apply(cur, r)
		}
		a.exit(cur, st.Pos(), "returns")
		return lkSet{}, esc
	case *ast.BlockStmt:
		return a.block(st.List, in)
	case *ast.IfStmt:
		cur, _ := a.stmt(st.Init, in)
		cur = a.apply(cur, st.Cond)
		thenOut, e1 := a.block(st.Body.List, cur)
		elseOut, e2 := cur, lkSet{}
		if st.Else != nil {
			elseOut, e2 = a.stmt(st.Else, cur)
		}
		return union(thenOut, elseOut), union(e1, e2)
	case *ast.SwitchStmt, *ast.TypeSwitchStmt, *ast.SelectStmt:
		var body *ast.BlockStmt
		cur := in
		switch s := st.(type) {
		case *ast.SwitchStmt:
			cur, _ = a.stmt(s.Init, cur)
			cur = a.apply(cur, s.Tag)
			body = s.Body
		case *ast.TypeSwitchStmt:
			cur, _ = a.stmt(s.Init, cur)
			cur, _ = a.stmt(s.Assign, cur)
			body = s.Body
		case *ast.SelectStmt:
			body = s.Body
		}
		out = lkSet{}
		hasDefault := false
		for _, cl := range body.List {
			c0 := cur
			var list []ast.Stmt
			switch cl := cl.(type) {
			case *ast.CaseClause:
				if cl.List == nil {
					hasDefault = true
				}
				for _, e := range cl.List {
					c0 = a.apply(c0, e)
				}
				list = cl.Body
			case *ast.CommClause:
				if cl.Comm == nil {
					hasDefault = true
				}
				c0, _ = a.stmt(cl.Comm, c0)
				list = cl.Body
			}
			o, e := a.block(list, c0)
			out = union(out, union(o, e)) // break leaves the switch
		}
		if !hasDefault {
			out = union(out, cur)
		}
		return out, esc
	case *ast.ForStmt, *ast.RangeStmt:
		cur := in
		var body *ast.BlockStmt
		var cond ast.Expr
		var post ast.Stmt
		switch s := st.(type) {
		case *ast.ForStmt:
			cur, _ = a.stmt(s.Init, cur)
			cond, post, body = s.Cond, s.Post, s.Body
		case *ast.RangeStmt:
			cur = a.apply(cur, s.X)
			body = s.Body
		}
		for i := 0; i < 4; i++ {
			c1 := a.apply(cur, cond)
			o, e := a.block(body.List, c1)
			o = union(o, e)
			o, _ = a.stmt(post, o)
			n := union(cur, o)
			if len(n) == len(cur) {
				return union(cur, c1), esc
			}
			cur = n
		}
		a.unknown = append(a.unknown, fmt.Sprintf("a loop body changes the number of holds (line %d)", a.line(st.Pos())))
		return cur, esc
	case *ast.BranchStmt:
		if st.Label != nil || st.Tok == token.GOTO || st.Tok == token.FALLTHROUGH {
			a.unknown = append(a.unknown, fmt.Sprintf("%s (line %d)", st.Tok, a.line(st.Pos())))
			return in, esc
		}
		return lkSet{}, in
	case *ast.LabeledStmt:
		a.unknown = append(a.unknown, fmt.Sprintf("label (line %d)", a.line(st.Pos())))
		return a.stmt(st.Stmt, in)
	case *ast.GoStmt:
		a.calls(st.Call)
		return in, esc
	default:
		// expression, assignment, declaration, inc/dec, send, empty: the calls they contain
		return a.apply(in, st), esc
	}
}

// c16LockFacts writes the lock discipline facts (Lean definitions) for interpreter/debug.go.
func c16LockFacts() (string, error) {
	fset := token.NewFileSet()
	file, err := goparser.ParseFile(fset, filepath.Join(repoDir(), "interpreter", "debug.go"), nil, 0)
	if err != nil {
		return "", err
	}
	methods := map[string]*ast.FuncDecl{}
	dup := map[string]bool{}
	for _, d := range file.Decls {
		if fd, ok := d.(*ast.FuncDecl); ok && fd.Body != nil {
			if _, seen := methods[fd.Name.Name]; seen {
				dup[fd.Name.Name] = true
			}
			methods[fd.Name.Name] = fd
		}
	}
	for n := range dup {
		delete(methods, n) // two functions of one name: calls are not followed
	}
	if len(methods) == 0 {
		return "", fmt.Errorf("no functions found in interpreter/debug.go")
	}
	names := make([]string, 0, len(methods))
	for n := range methods {
		names = append(names, n)
	}
	sort.Strings(names)
	// the locks of the file: every expression X with a call X.Lock()/RLock()/Unlock()/RUnlock()
	keys := map[string]bool{}
	sum := map[string]*lkSummary{}
	base := &lkAnalysis{fset: fset, methods: methods, sum: sum}
	for _, n := range names {
		sm := &lkSummary{touches: map[string]bool{}}
		sum[n] = sm
		ast.Inspect(methods[n].Body, func(x ast.Node) bool {
			if c, ok := x.(*ast.CallExpr); ok {
				if k, _ := lockExprText(c); k != "" {
					keys[k] = true
					sm.touches[k] = true
				}
				if isBlocking(c) != "" {
					sm.blocks = true
				}
				if m := base.ownMethod(c, ""); m != "" {
					sm.callees = append(sm.callees, m)
				}
			}
			return true
		})
	}
	for changed := true; changed; {
		changed = false
		for _, n := range names {
			for _, c := range sum[n].callees {
				if sum[c].blocks && !sum[n].blocks {
					sum[n].blocks, changed = true, true
				}
				for k := range sum[c].touches {
					if !sum[n].touches[k] {
						sum[n].touches[k], changed = true, true
					}
				}
			}
		}
	}
	called := map[string]bool{}
	for _, n := range names {
		for _, c := range sum[n].callees {
			if c != n {
				called[c] = true
			}
		}
	}
	keyList := make([]string, 0, len(keys))
	for k := range keys {
		keyList = append(keyList, k)
	}
	sort.Strings(keyList)
	var verdicts, refuted, unknown []string
	// struct fields of a lock type without any lock operation in the file: nothing was followed
	for _, d := range file.Decls {
		gd, ok := d.(*ast.GenDecl)
		if !ok {
			continue
		}
		for _, sp := range gd.Specs {
			ts, ok := sp.(*ast.TypeSpec)
			if !ok {
				continue
			}
			st, ok := ts.Type.(*ast.StructType)
			if !ok {
				continue
			}
			for _, f := range st.Fields.List {
				var tb strings.Builder
				printer.Fprint(&tb, fset, f.Type)
				if !strings.Contains(tb.String(), "sync.") {
					continue
				}
				for _, nm := range f.Names {
					found := false
					for k := range keys {
						if strings.HasSuffix(k, "."+nm.Name) || strings.Contains(k, "."+nm.Name+".") {
							found = true
						}
					}
					if !found {
						unknown = append(unknown, fmt.Sprintf("(%s, %s)", strconv.Quote(ts.Name.Name+"."+nm.Name),
							strconv.Quote("field of type "+tb.String()+" but no Lock/Unlock on it was found in the file (renamed? aliased?)")))
					}
				}
			}
		}
	}
	for _, n := range names {
		// judged from zero holds: exported functions and functions nobody in the file calls;
		// the others are followed from their call sites with the caller's holds
		root := ast.IsExported(n) || !called[n]
		v := "established"
		var why, unk []string
		if root {
			for _, k := range keyList {
				if !sum[n].touches[k] {
					continue
				}
				a := &lkAnalysis{fset: fset, methods: methods, sum: sum, key: k}
				if fd := methods[n]; fd.Recv != nil && len(fd.Recv.List) == 1 && len(fd.Recv.List[0].Names) == 1 {
					a.recv = fd.Recv.List[0].Names[0].Name
				}
				a.stack = []string{n}
				out, _ := a.block(methods[n].Body.List, lkSet{lkState{}: true})
				a.exit(out, methods[n].Body.Rbrace, "ends")
				why = append(why, a.refuted...)
				unk = append(unk, a.unknown...)
			}
		} else {
			v = "followed-from-callers"
		}
		if len(why) > 0 {
			v = "refuted"
		} else if len(unk) > 0 {
			v = "unknown"
		}
		verdicts = append(verdicts, fmt.Sprintf("(%s, %s)", strconv.Quote(n), strconv.Quote(v)))
		seen := map[string]bool{}
		for _, r := range why {
			if !seen[r] {
				seen[r] = true
				refuted = append(refuted, fmt.Sprintf("(%s, %s)", strconv.Quote(n), strconv.Quote(r)))
			}
		}
		for _, r := range unk {
			if !seen[r] {
				seen[r] = true
				unknown = append(unknown, fmt.Sprintf("(%s, %s)", strconv.Quote(n), strconv.Quote(r)))
			}
		}
	}
	var sb strings.Builder
	list := func(name, doc string, xs []string) {
		fmt.Fprintf(&sb, "/-- %s -/\ndef %s : List (String × String) := [", doc, name)
		for i, x := range xs {
			if i > 0 {
				sb.WriteString(",")
			}
			sb.WriteString("\n  " + x)
		}
		sb.WriteString("]\n")
	}
	fmt.Fprintf(&sb, "/-- the locks followed in interpreter/debug.go -/\ndef lockKeys : List String := [")
	for i, k := range keyList {
		if i > 0 {
			sb.WriteString(", ")
		}
		sb.WriteString(strconv.Quote(k))
	}
	sb.WriteString("]\n")
	list("lockDiscipline", "every function of interpreter/debug.go, for every lock it operates on (Lock pairs with Unlock, RLock with RUnlock): on all paths what it takes is released, nothing is held at a wait point, an evaluation or a second acquisition; calls into functions of the file are followed with the caller's holds (established / refuted / unknown / followed-from-callers)", verdicts)
	list("lockRefuted", "(function, why) for every refuted function", refuted)
	list("lockUnknown", "(function or field, what the analysis does not follow) — not an obligation: amplifies the search", unknown)
	// words HandleInput compares the first word of the line with
	lits, err := c16DispatchLiterals()
	if err != nil {
		return "", err
	}
	fmt.Fprintf(&sb, "/-- string literals ecalDebugger.HandleInput compares (==, switch) with: command words it dispatches on besides the keys of DebugCommandsMap -/\ndef dispatchLiterals : List String := [")
	for i, l := range lits {
		if i > 0 {
			sb.WriteString(", ")
		}
		sb.WriteString(strconv.Quote(l))
	}
	sb.WriteString("]\n")
	return sb.String(), nil
}

// c16DispatchLiterals: string literals compared with == / != or used as switch cases inside
// ecalDebugger.HandleInput (interpreter/debug.go)
func c16DispatchLiterals() ([]string, error) {
	fset := token.NewFileSet()
	file, err := goparser.ParseFile(fset, filepath.Join(repoDir(), "interpreter", "debug.go"), nil, 0)
	if err != nil {
		return nil, err
	}
	set := map[string]bool{}
	lit := func(e ast.Expr) {
		if b, ok := e.(*ast.BasicLit); ok && b.Kind == token.STRING {
			if v, err := strconv.Unquote(b.Value); err == nil {
				set[v] = true
			}
		}
	}
	for _, d := range file.Decls {
		fd, ok := d.(*ast.FuncDecl)
		if !ok || fd.Name.Name != "HandleInput" || fd.Body == nil {
			continue
		}
		ast.Inspect(fd.Body, func(n ast.Node) bool {
			switch x := n.(type) {
			case *ast.BinaryExpr:
				if x.Op == token.EQL || x.Op == token.NEQ {
					lit(x.X)
					lit(x.Y)
				}
			case *ast.CaseClause:
				for _, e := range x.List {
					lit(e)
				}
			case *ast.CallExpr:
				if sel, ok := x.Fun.(*ast.SelectorExpr); ok && (sel.Sel.Name == "HasPrefix" || sel.Sel.Name == "EqualFold") && len(x.Args) == 2 {
					lit(x.Args[1])
				}
			}
			return true
		})
	}
	out := make([]string, 0, len(set))
	for l := range set {
		out = append(out, l)
	}
	sort.Strings(out)
	return out, nil
}
