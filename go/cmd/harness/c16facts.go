package main

// C16 — lock discipline of the debugger, as a regenerated SEMANTIC fact.
//
// For every method of *ecalDebugger (interpreter/debug.go) all paths through the body are
// followed with the number of holds of the receiver's `lock` (Lock/RLock +1, Unlock/RUnlock -1,
// `defer …Unlock()` runs at every exit). A method is
//
//	refuted     if on some path it reaches, with the lock held, a wait point (waitForContinue /
//	            cond.Wait), an evaluation (a call of a method named Eval) or a call of a method of
//	            the same receiver that itself takes the lock, waits or evaluates (transitively);
//	            or if it leaves (return, end of body, runtime.Goexit, panic) with a hold that no
//	            deferred unlock releases; or if it unlocks a lock it does not hold;
//	unknown     if the body uses something the analysis does not follow (goto, labels,
//	            fallthrough, lock operations inside function literals, loops whose body changes
//	            the number of holds);
//	established otherwise.
//
// Only "refuted" breaks the Lean obligation `lock_discipline_not_refuted`; "unknown" is an
// evidence note and amplifies the search of the same run (FRAMEWORK: facts policy).

import (
	"fmt"
	"go/ast"
	goparser "go/parser"
	"go/token"
	"path/filepath"
	"sort"
	"strconv"
	"strings"
)

type lkState struct{ held, deferred int }

type lkSummary struct {
	acquires, blocks bool
	callees          []string
}

type lkAnalysis struct {
	fset    *token.FileSet
	methods map[string]*ast.FuncDecl
	sum     map[string]*lkSummary
	// per method under analysis
	recv    string
	refuted []string
	unknown []string
}

func (a *lkAnalysis) line(p token.Pos) int { return a.fset.Position(p).Line }

// lockOp: "+" for recv.lock.Lock/RLock, "-" for Unlock/RUnlock, "" otherwise
func lockOp(call *ast.CallExpr, recv string) string {
	sel, ok := call.Fun.(*ast.SelectorExpr)
	if !ok {
		return ""
	}
	inner, ok := sel.X.(*ast.SelectorExpr)
	if !ok || inner.Sel.Name != "lock" {
		return ""
	}
	if id, ok := inner.X.(*ast.Ident); !ok || id.Name != recv {
		return ""
	}
	switch sel.Sel.Name {
	case "Lock", "RLock":
		return "+"
	case "Unlock", "RUnlock":
		return "-"
	}
	return ""
}

func isBlocking(call *ast.CallExpr) string {
	if sel, ok := call.Fun.(*ast.SelectorExpr); ok {
		switch sel.Sel.Name {
		case "waitForContinue", "Wait":
			return "waits (" + sel.Sel.Name + ")"
		case "Eval":
			return "evaluates (Eval)"
		}
	}
	return ""
}

func (a *lkAnalysis) ownMethod(call *ast.CallExpr, recv string) string {
	if sel, ok := call.Fun.(*ast.SelectorExpr); ok {
		if id, ok := sel.X.(*ast.Ident); ok && id.Name == recv {
			if _, ok := a.methods[sel.Sel.Name]; ok {
				return sel.Sel.Name
			}
		}
	}
	return ""
}

func isExitCall(call *ast.CallExpr) bool {
	if id, ok := call.Fun.(*ast.Ident); ok && id.Name == "panic" {
		return true
	}
	if sel, ok := call.Fun.(*ast.SelectorExpr); ok && sel.Sel.Name == "Goexit" {
		return true
	}
	return false
}

// calls of a node in source order; function literals are not entered (lock operations or wait
// points inside them make the method "unknown")
func (a *lkAnalysis) calls(n ast.Node) []*ast.CallExpr {
	var out []*ast.CallExpr
	if n == nil {
		return out
	}
	ast.Inspect(n, func(x ast.Node) bool {
		switch x := x.(type) {
		case *ast.FuncLit:
			ast.Inspect(x.Body, func(y ast.Node) bool {
				if c, ok := y.(*ast.CallExpr); ok && (lockOp(c, a.recv) != "" || isBlocking(c) != "") {
					a.unknown = append(a.unknown, fmt.Sprintf("lock operation or wait point inside a function literal (line %d)", a.line(c.Pos())))
				}
				return true
			})
			return false
		case *ast.CallExpr:
			out = append(out, x)
		}
		return true
	})
	return out
}

type lkSet map[lkState]bool

func union(a, b lkSet) lkSet {
	r := lkSet{}
	for s := range a {
		r[s] = true
	}
	for s := range b {
		r[s] = true
	}
	return r
}

func (a *lkAnalysis) exit(in lkSet, pos token.Pos, how string) {
	for s := range in {
		if s.held-s.deferred > 0 {
			a.refuted = append(a.refuted, fmt.Sprintf("%s with the lock held (line %d)", how, a.line(pos)))
		} else if s.held-s.deferred < 0 {
			a.refuted = append(a.refuted, fmt.Sprintf("%s: a deferred unlock releases a lock that is not held (line %d)", how, a.line(pos)))
		}
	}
}

// apply the calls of one node to every state
func (a *lkAnalysis) apply(in lkSet, n ast.Node) lkSet {
	cur := in
	for _, c := range a.calls(n) {
		next := lkSet{}
		op := lockOp(c, a.recv)
		blocking := isBlocking(c)
		callee := a.ownMethod(c, a.recv)
		if isExitCall(c) {
			a.exit(cur, c.Pos(), "leaves")
			return lkSet{}
		}
		for s := range cur {
			switch {
			case op == "+":
				if s.held > 0 {
					a.refuted = append(a.refuted, fmt.Sprintf("takes the lock while holding it (line %d)", a.line(c.Pos())))
				}
				next[lkState{s.held + 1, s.deferred}] = true
			case op == "-":
				if s.held == 0 {
					a.refuted = append(a.refuted, fmt.Sprintf("unlocks a lock it does not hold (line %d)", a.line(c.Pos())))
					next[s] = true
				} else {
					next[lkState{s.held - 1, s.deferred}] = true
				}
			default:
				if s.held > 0 {
					if blocking != "" {
						a.refuted = append(a.refuted, fmt.Sprintf("%s with the lock held (line %d)", blocking, a.line(c.Pos())))
					}
					if callee != "" {
						if a.sum[callee].acquires {
							a.refuted = append(a.refuted, fmt.Sprintf("calls %s, which takes the lock, while holding it (line %d)", callee, a.line(c.Pos())))
						} else if a.sum[callee].blocks {
							a.refuted = append(a.refuted, fmt.Sprintf("calls %s, which waits or evaluates, with the lock held (line %d)", callee, a.line(c.Pos())))
						}
					}
				}
				next[s] = true
			}
		}
		cur = next
	}
	return cur
}

// block: states after the block; esc: states that left it by break / continue
func (a *lkAnalysis) block(stmts []ast.Stmt, in lkSet) (out, esc lkSet) {
	cur, esc := in, lkSet{}
	for _, st := range stmts {
		if len(cur) == 0 {
			break
		}
		var e lkSet
		cur, e = a.stmt(st, cur)
		esc = union(esc, e)
	}
	return cur, esc
}

func (a *lkAnalysis) stmt(st ast.Stmt, in lkSet) (out, esc lkSet) {
	esc = lkSet{}
	switch st := st.(type) {
	case nil:
		return in, esc
	case *ast.DeferStmt:
		if op := lockOp(st.Call, a.recv); op == "-" {
			out = lkSet{}
			for s := range in {
				out[lkState{s.held, s.deferred + 1}] = true
			}
			return out, esc
		} else if op == "+" {
			a.unknown = append(a.unknown, fmt.Sprintf("deferred Lock (line %d)", a.line(st.Pos())))
		}
		a.calls(st.Call) // function literals are inspected for lock operations
		return in, esc
	case *ast.ReturnStmt:
		cur := in
		for _, r := range st.Results {
			cur = a.apply(cur, r)
		}
		a.exit(cur, st.Pos(), "returns")
		return lkSet{}, esc
	case *ast.BlockStmt:
		return a.block(st.List, in)
	case *ast.IfStmt:
		cur, _ := a.stmt(st.Init, in)
		cur = a.apply(cur, st.Cond)
		thenOut, e1 := a.block(st.Body.List, cur)
		elseOut, e2 := cur, lkSet{}
		if st.Else != nil {
			elseOut, e2 = a.stmt(st.Else, cur)
		}
		return union(thenOut, elseOut), union(e1, e2)
	case *ast.SwitchStmt, *ast.TypeSwitchStmt, *ast.SelectStmt:
		var body *ast.BlockStmt
		cur := in
		switch s := st.(type) {
		case *ast.SwitchStmt:
			cur, _ = a.stmt(s.Init, cur)
			cur = a.apply(cur, s.Tag)
			body = s.Body
		case *ast.TypeSwitchStmt:
			cur, _ = a.stmt(s.Init, cur)
			cur, _ = a.stmt(s.Assign, cur)
			body = s.Body
		case *ast.SelectStmt:
			body = s.Body
		}
		out = lkSet{}
		hasDefault := false
		for _, cl := range body.List {
			c0 := cur
			var list []ast.Stmt
			switch cl := cl.(type) {
			case *ast.CaseClause:
				if cl.List == nil {
					hasDefault = true
				}
				for _, e := range cl.List {
					c0 = a.apply(c0, e)
				}
				list = cl.Body
			case *ast.CommClause:
				if cl.Comm == nil {
					hasDefault = true
				}
				c0, _ = a.stmt(cl.Comm, c0)
				list = cl.Body
			}
			o, e := a.block(list, c0)
			out = union(out, union(o, e)) // break leaves the switch
		}
		if !hasDefault {
			out = union(out, cur)
		}
		return out, esc
	case *ast.ForStmt, *ast.RangeStmt:
		cur := in
		var body *ast.BlockStmt
		var cond ast.Expr
		var post ast.Stmt
		switch s := st.(type) {
		case *ast.ForStmt:
			cur, _ = a.stmt(s.Init, cur)
			cond, post, body = s.Cond, s.Post, s.Body
		case *ast.RangeStmt:
			cur = a.apply(cur, s.X)
			body = s.Body
		}
		for i := 0; i < 4; i++ {
			c1 := a.apply(cur, cond)
			o, e := a.block(body.List, c1)
			o = union(o, e)
			o, _ = a.stmt(post, o)
			n := union(cur, o)
			if len(n) == len(cur) {
				return union(cur, c1), esc
			}
			cur = n
		}
		a.unknown = append(a.unknown, fmt.Sprintf("a loop body changes the number of holds (line %d)", a.line(st.Pos())))
		return cur, esc
	case *ast.BranchStmt:
		if st.Label != nil || st.Tok == token.GOTO || st.Tok == token.FALLTHROUGH {
			a.unknown = append(a.unknown, fmt.Sprintf("%s (line %d)", st.Tok, a.line(st.Pos())))
			return in, esc
		}
		return lkSet{}, in
	case *ast.LabeledStmt:
		a.unknown = append(a.unknown, fmt.Sprintf("label (line %d)", a.line(st.Pos())))
		return a.stmt(st.Stmt, in)
	case *ast.GoStmt:
		a.calls(st.Call)
		return in, esc
	default:
		// expression, assignment, declaration, inc/dec, send, empty: the calls they contain
		return a.apply(in, st), esc
	}
}

// c16LockFacts writes the lock discipline facts (Lean definitions) for interpreter/debug.go.
func c16LockFacts() (string, error) {
	a := &lkAnalysis{fset: token.NewFileSet(), methods: map[string]*ast.FuncDecl{}, sum: map[string]*lkSummary{}}
	file, err := goparser.ParseFile(a.fset, filepath.Join(repoDir(), "interpreter", "debug.go"), nil, 0)
	if err != nil {
		return "", err
	}
	recvName := map[string]string{}
	for _, d := range file.Decls {
		fd, ok := d.(*ast.FuncDecl)
		if !ok || fd.Recv == nil || len(fd.Recv.List) != 1 || fd.Body == nil {
			continue
		}
		if st, ok := fd.Recv.List[0].Type.(*ast.StarExpr); ok {
			if id, ok := st.X.(*ast.Ident); ok && id.Name == "ecalDebugger" && len(fd.Recv.List[0].Names) == 1 {
				a.methods[fd.Name.Name] = fd
				recvName[fd.Name.Name] = fd.Recv.List[0].Names[0].Name
			}
		}
	}
	if len(a.methods) == 0 {
		return "", fmt.Errorf("no methods of *ecalDebugger found in interpreter/debug.go")
	}
	names := make([]string, 0, len(a.methods))
	for n := range a.methods {
		names = append(names, n)
	}
	sort.Strings(names)
	// summaries: direct, then transitive over calls of methods of the same receiver
	for _, n := range names {
		s := &lkSummary{}
		a.sum[n] = s
		ast.Inspect(a.methods[n].Body, func(x ast.Node) bool {
			if c, ok := x.(*ast.CallExpr); ok {
				if lockOp(c, recvName[n]) == "+" {
					s.acquires = true
				}
				if isBlocking(c) != "" {
					s.blocks = true
				}
				if m := a.ownMethod(c, recvName[n]); m != "" {
					s.callees = append(s.callees, m)
				}
			}
			return true
		})
	}
	for changed := true; changed; {
		changed = false
		for _, n := range names {
			for _, c := range a.sum[n].callees {
				if a.sum[c].acquires && !a.sum[n].acquires {
					a.sum[n].acquires, changed = true, true
				}
				if a.sum[c].blocks && !a.sum[n].blocks {
					a.sum[n].blocks, changed = true, true
				}
			}
		}
	}
	var sb strings.Builder
	var verdicts, refuted, unknown []string
	for _, n := range names {
		a.recv, a.refuted, a.unknown = recvName[n], nil, nil
		out, _ := a.block(a.methods[n].Body.List, lkSet{lkState{}: true})
		a.exit(out, a.methods[n].Body.Rbrace, "ends")
		v := "established"
		if len(a.refuted) > 0 {
			v = "refuted"
		} else if len(a.unknown) > 0 {
			v = "unknown"
		}
		verdicts = append(verdicts, fmt.Sprintf("(%s, %s)", strconv.Quote(n), strconv.Quote(v)))
		seen := map[string]bool{}
		for _, r := range a.refuted {
			if !seen[r] {
				seen[r] = true
				refuted = append(refuted, fmt.Sprintf("(%s, %s)", strconv.Quote(n), strconv.Quote(r)))
			}
		}
		for _, r := range a.unknown {
			if !seen[r] {
				seen[r] = true
				unknown = append(unknown, fmt.Sprintf("(%s, %s)", strconv.Quote(n), strconv.Quote(r)))
			}
		}
	}
	list := func(name, doc string, xs []string) {
		fmt.Fprintf(&sb, "/-- %s -/\ndef %s : List (String × String) := [", doc, name)
		for i, x := range xs {
			if i > 0 {
				sb.WriteString(",")
			}
			sb.WriteString("\n  " + x)
		}
		sb.WriteString("]\n")
	}
	list("lockDiscipline", "every method of *ecalDebugger: on all paths the lock it takes is released, and it is not held at a wait point, an evaluation or a call that takes the lock again (established / refuted / unknown)", verdicts)
	list("lockRefuted", "(method, why) for every refuted method", refuted)
	list("lockUnknown", "(method, what the analysis does not follow) — not an obligation: amplifies the search", unknown)
	return sb.String(), nil
}
