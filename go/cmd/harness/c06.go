package main

// C06 — no ECAL program, sink attribute or event can crash the host process.
//
// Every case is executed by the REAL parser / interpreter / engine (sinks and events by a
// real worker of the processor of the runtime provider). A panic of the calling goroutine is
// reported as PANIC by the harness main loop, a dead process (a panic in a worker goroutine)
// as CRASH by the parent, a time-out as HANG; none of them is ever predicted by the model
// (except on the known finding: a cyclic container that gets stringified).
//
// Payloads (space separated, first field = kind):
//
//	X <mode> <label> <meta> <evPayload(plain source)>
//	    mode p: the program as it is           result  <class> LOG <log>
//	    mode t: try {\n prog \n} except {\n x.mark(1)\n}      the same; a caught error shows as the marker
//	    mode s: the program is the body of a sink that is triggered by a real event, a second
//	            event for a second sink follows  result  SINK <#errors of event 1> <#errors of event 2> LOG <log>
//	    meta  : `<builtin>:<i,j,…>` (universe indices) for builtin vector cases, else `-`
//	A <attr> <i>      sink declaration with attribute attr := universe value i, then an event   result <class>
//	E <i> <j>         sink with statematch {"a": U_i}, event with state {"a": U_j}               result <class> LOG <log>
//
//	class = OK | ERR <type-hex> | ERRPLAIN | NOPARSE | V ERR <type-hex>     (never values, texts, positions)

import (
	"context"
	"fmt"
	"os"
	"os/exec"
	"path/filepath"
	"sort"
	"strings"
	"time"

	"github.com/krotik/ecal/config"
	"github.com/krotik/ecal/interpreter"
	"github.com/krotik/ecal/parser"
	"github.com/krotik/ecal/scope"
	"github.com/krotik/ecal/util"
)

// the value universe of the property (index = position); `fn` is declared by the prelude
var c06Universe = []string{"null", "true", "0", "-1", "1.5", "1e+300", `""`, `"a"`, `"1"`, "[]", "[1]", "{}", `{"a":1}`, "fn",
	"-0.5", "-1e+300", "(0/0)", "(1/0)"}

// c06PlatformDuration: universe values whose conversion to a time.Duration is platform dependent (huge, NaN, Inf)
var c06PlatformDuration = map[int]bool{5: true, 15: true, 16: true, 17: true}

const c06Prelude = "func fn() {\n}\n"

var c06BinOps = []string{"+", "-", "*", "/", "//", "%", "==", "!=", "<", "<=", ">", ">=", "and", "or", "in", "notin", "hasprefix", "hassuffix", "like"}
var c06PreOps = []string{"-", "+", "not "}
var c06Attrs = []string{"kindmatch", "scopematch", "statematch", "priority", "suppresses"}

func c06Builtins() []string {
	var names []string
	for k := range interpreter.InbuildFuncMap {
		names = append(names, k)
	}
	sort.Strings(names)
	return names
}

// c06Class reduces a canonical outcome of evalcommon to its class.
// c06Class: the outcome is already a class (kept for the call sites).
func c06Class(out string) string { return out }

// c06ErrWord: what C06 compares of an error — that it IS an error value (ERR), or one of the three control
// signals break / continue / return (CTL: they pass through try). Never the error type, message, position or the
// concrete Go type (those belong to C03/C04); the signal is recognised by the constant texts of package util in
// Error(), not by reflection on private fields.
func c06ErrWord(err error) string {
	msg := err.Error()
	for _, t := range []error{util.ErrReturn, util.ErrEndOfIteration, util.ErrContinueIteration} {
		if strings.Contains(msg, t.Error()) {
			return "CTL"
		}
	}
	return "ERR"
}

// c06Marks keeps the x.mark entries of the log (logger output is not an observable of C06).
func c06Marks() string {
	var m []string
	for _, e := range strings.Split(evLog.String(), "|") {
		if strings.HasPrefix(e, "m") {
			m = append(m, e)
		}
	}
	return strings.Join(m, "|")
}

// units a program can import (MemoryImportLocator): fine, parse error, validation error, runtime error, a unit
// whose function fails later, a unit that imports a missing unit
var c06ImportUnits = map[string]string{
	"ok":     "a := 1\nfunc f() {\nreturn 2\n}",
	"perr":   "a := := (",
	"verr":   "for [a, 1] in [[1, 2]] {\n}",
	"rerr":   "a := 1 % 0",
	"late":   "func f() {\nreturn [1][5]\n}",
	"nested": "import \"missing\" as q",
}

// c06Eval runs src with a fresh provider; the processor (workers) and the cron thread of the
// provider are shut down afterwards. Result: OK | ERR | CTL (+ " LOG <marks>"), V, NOPARSE.
func c06Eval(src string) (interface{}, string) {
	return c06EvalWait(src, 0)
}

func c06EvalWait(src string, afterFinish time.Duration) (interface{}, string) {
	evLog.reset()
	erp := interpreter.NewECALRuntimeProvider("t", &util.MemoryImportLocator{Files: c06ImportUnits}, evLog)
	defer erp.Cron.Stop()
	ast, err := parser.ParseWithRuntime("t", src, erp)
	if err != nil {
		return nil, "NOPARSE"
	}
	if err = ast.Runtime.Validate(); err != nil {
		return nil, "V"
	}
	vs := scope.NewScope(scope.GlobalScope)
	res, err := ast.Runtime.Eval(vs, make(map[string]interface{}), erp.NewThreadID())
	erp.Processor.Finish()
	if afterFinish > 0 {
		time.Sleep(afterFinish) // triggers registered by the program fire after the processor has finished
	}
	if err != nil {
		return nil, c06ErrWord(err) + " LOG " + c06Marks()
	}
	return res, "OK LOG " + c06Marks()
}

func c06Indent(src string) string { return src }

func c06Run(payload string) string {
	f := strings.SplitN(payload, " ", 5)
	switch f[0] {
	case "D", "T":
		if os.Getenv("C06_CHILD") == "" {
			return c06InChild(payload, false)
		}
		if f[0] == "T" {
			return c06RunTrigger()
		}
		return c06RunDepth(f)
	case "K":
		if os.Getenv("C06_CHILD") == "" {
			return c06InChild(payload, false)
		}
		return c06RunConc(f)
	case "X":
		src := unhx(strings.SplitN(f[4], " ", 2)[0])
		if (f[2] == "cyclic" || f[2] == "random") && os.Getenv("C06_CHILD") == "" {
			// known finding (fatal stack overflow, cannot be recovered): observed in a child process.
			// Random programs can build a container that contains itself through aliases.
			return c06InChild(payload, f[2] == "cyclic")
		}
		got := c06RunMode(f[1], src)
		if f[1] == "p" {
			return got
		}
		// model-free metamorphic check: what the wrapped program must show follows from what the REAL code
		// does with the plain program (same rule as the model driver's `modeResult`); it also covers the cases
		// the model does not (UNSUP), where the correspondence itself only looks for crashes
		if exp := c06Derive(f[1], c06RunMode("p", src)); exp != "" && exp != got {
			return "PANIC-META mode=" + f[1] + " expected=[" + exp + "] got=[" + got + "]"
		}
		return got
	case "A":
		var vi int
		fmt.Sscanf(f[2], "%d", &vi)
		v := c06Universe[vi]
		decl := "sink s\n  kindmatch [\"k\"],\n  " + f[1] + " " + v + "\n"
		if f[1] == "kindmatch" {
			decl = "sink s\n  kindmatch " + v + "\n"
		}
		_, out := c06Eval(c06Prelude + decl + "{\nx.mark(1)\n}\naddEventAndWait(\"e\", \"k\", {})\naddEventAndWait(\"e\", \"1\", {\"a\":[1]})")
		cl := c06Class(out)
		if i := strings.Index(cl, " LOG "); i >= 0 {
			cl = cl[:i]
		}
		return cl
	case "E":
		var vi, wi int
		fmt.Sscanf(f[1], "%d", &vi)
		fmt.Sscanf(f[2], "%d", &wi)
		_, out := c06Eval(c06Prelude + "sink s\n  kindmatch [\"k\"],\n  statematch {\"a\": " + c06Universe[vi] + "}\n{\nx.mark(1)\n}\n" +
			"addEventAndWait(\"e\", \"k\", {\"a\": " + c06Universe[wi] + ", \"b\": " + c06Universe[vi] + "})")
		return c06Class(out)
	}
	return "bad-payload"
}

func c06SplitClass(cl string) (head, log string) {
	if i := strings.Index(cl, " LOG "); i >= 0 {
		return cl[:i], cl[i+5:]
	}
	return strings.TrimSuffix(cl, " LOG"), ""
}

func c06JoinLog(parts ...string) string {
	var p []string
	for _, x := range parts {
		if x != "" {
			p = append(p, x)
		}
	}
	return strings.Join(p, "|")
}

// c06Derive: the result of the wrapped modes from the class of the plain program ("" = no expectation).
// Reading of "inside a sink it fails only that sink invocation" (C10's text makes fail-on-first-error the default):
// the error is reported for that sink, it does not leave the trigger sequence of ITS event (no later event, no
// worker, no host is affected) — but the sinks of the SAME event that come after the failing one do not run.
func c06Derive(mode, plain string) string {
	head, log := c06SplitClass(plain)
	m1, m2, m3, m4 := "m"+evCanon(1.0), "m"+evCanon(2.0), "m"+evCanon(3.0), "m"+evCanon(4.0)
	isErr := head == "ERR" || head == "CTL"
	switch {
	case head == "NOPARSE" || head == "V":
		if mode == "t" {
			return head
		}
		return "SINKFAIL " + head
	case head != "OK" && !isErr:
		return "" // HANG, PANIC …: reported anyway
	}
	e := 0
	if isErr {
		e = 1
	}
	after := func(x string) string { // a later sink of the same event runs only if this one did not fail
		if isErr {
			return ""
		}
		return x
	}
	switch mode {
	case "t":
		if head == "CTL" {
			return "CTL LOG " + log // break / continue / return pass through try
		}
		if isErr {
			return "OK LOG " + c06JoinLog(log, m1)
		}
		return "OK LOG " + log
	case "s":
		return fmt.Sprintf("SINK %d 0 LOG %s", e, c06JoinLog(log, m2))
	case "d": // failing sink LAST
		return fmt.Sprintf("SINKD %d LOG %s", e, c06JoinLog(m3, log))
	case "f": // failing sink FIRST, a second event afterwards
		return fmt.Sprintf("SINKF %d 0 LOG %s", e, c06JoinLog(log, after(m3), m2))
	case "m": // failing sink in the MIDDLE of three, a second event afterwards
		return fmt.Sprintf("SINKM %d 0 LOG %s", e, c06JoinLog(m4, log, after(m3), m2))
	case "w":
		return fmt.Sprintf("SINKW %d %d LOG %s", e, e, c06JoinLog(log, log))
	}
	return ""
}

func c06CountErrs(res interface{}, k int) []int {
	n := make([]int, k)
	for i := range n {
		n[i] = -1
	}
	if l, ok := res.([]interface{}); ok && len(l) == k {
		for i := range n {
			if x, ok := l[i].([]interface{}); ok {
				n[i] = len(x)
			}
		}
	}
	return n
}

// c06RunMode runs the program plainly (p), inside try (t), as the body of a sink with a second sink on another
// event (s), as one of TWO sinks on the same event (d: the other sink has the higher priority and marks 3), or as
// a sink that is triggered twice (w).
func c06RunMode(mode, src string) string {
	sinkLog := func(out string) string { _, l := c06SplitClass(out); return l }
	switch mode {
	case "p":
		_, out := c06Eval(src)
		return c06Class(out)
	case "t":
		_, out := c06Eval("try {\n" + src + "\n} except {\nx.mark(1)\n}")
		return c06Class(out)
	case "s":
		prog := "sink s1\n  kindmatch [\"k\"]\n{\n" + src + "\n}\nsink s2\n  kindmatch [\"k2\"]\n{\nx.mark(2)\n}\n" +
			"r1 := addEventAndWait(\"e\", \"k\", {})\nr2 := addEventAndWait(\"e\", \"k2\", {})\n[r1, r2]"
		res, out := c06Eval(prog)
		if !strings.HasPrefix(out, "OK") {
			return "SINKFAIL " + c06Class(out)
		}
		n := c06CountErrs(res, 2)
		return fmt.Sprintf("SINK %d %d LOG %s", n[0], n[1], sinkLog(out))
	case "d":
		prog := "sink s3\n  kindmatch [\"k\"],\n  priority 1\n{\nx.mark(3)\n}\nsink s1\n  kindmatch [\"k\"],\n  priority 2\n{\n" + src + "\n}\n" +
			"r1 := addEventAndWait(\"e\", \"k\", {})\n[r1]"
		res, out := c06Eval(prog)
		if !strings.HasPrefix(out, "OK") {
			return "SINKFAIL " + c06Class(out)
		}
		n := c06CountErrs(res, 1)
		return fmt.Sprintf("SINKD %d LOG %s", n[0], sinkLog(out))
	case "f", "m":
		prog := ""
		if mode == "m" {
			prog = "sink s0\n  kindmatch [\"k\"],\n  priority 1\n{\nx.mark(4)\n}\n"
		}
		prog += "sink s1\n  kindmatch [\"k\"],\n  priority 2\n{\n" + src + "\n}\nsink s3\n  kindmatch [\"k\"],\n  priority 3\n{\nx.mark(3)\n}\n" +
			"sink s2\n  kindmatch [\"k2\"]\n{\nx.mark(2)\n}\nr1 := addEventAndWait(\"e\", \"k\", {})\nr2 := addEventAndWait(\"e\", \"k2\", {})\n[r1, r2]"
		res, out := c06Eval(prog)
		if !strings.HasPrefix(out, "OK") {
			return "SINKFAIL " + c06Class(out)
		}
		n := c06CountErrs(res, 2)
		return fmt.Sprintf("SINK%s %d %d LOG %s", strings.ToUpper(mode), n[0], n[1], sinkLog(out))
	case "w":
		prog := "sink s1\n  kindmatch [\"k\"]\n{\n" + src + "\n}\n" +
			"r1 := addEventAndWait(\"e\", \"k\", {})\nr2 := addEventAndWait(\"e\", \"k\", {})\n[r1, r2]"
		res, out := c06Eval(prog)
		if !strings.HasPrefix(out, "OK") {
			return "SINKFAIL " + c06Class(out)
		}
		n := c06CountErrs(res, 2)
		return fmt.Sprintf("SINKW %d %d LOG %s", n[0], n[1], sinkLog(out))
	}
	return "bad-mode"
}

// c06InChild runs one case in a child process. A dead child is classified by what the Go runtime wrote to
// stderr, so that a different crash cannot hide in a known class:
//
//	CRASH so-stringify    stack overflow inside a printer: fmt, stringutil's conversions, encoding/json (log / error / debug) (known finding cyclic-container-stringify)
//	CRASH so-deepequal    stack overflow inside reflect.DeepEqual (same known finding: ==, in, statematch on such a value)
//	CRASH concurrent-map  "fatal error: concurrent map …" (known finding unsynchronised-shared-container)
//	CRASH other <text>    anything else (never predicted by the model: always a violation)
func c06InChild(payload string, firstWord bool) string {
	exe, err := os.Executable()
	if err != nil {
		return "NOCHILD"
	}
	ctx, cancel := context.WithTimeout(context.Background(), 50*time.Second)
	defer cancel()
	cmd := exec.CommandContext(ctx, exe, "C06", "-one", payload)
	cmd.Env = append(os.Environ(), "C06_CHILD=1")
	var stderr strings.Builder
	cmd.Stderr = &stderr
	out, err := cmd.Output()
	if ctx.Err() != nil {
		return "HANG"
	}
	line := strings.SplitN(strings.TrimLeft(string(out), "\n"), "\n", 2)[0]
	if err != nil {
		if ee, ok := err.(*exec.ExitError); ok && (ee.ExitCode() == 3 || ee.ExitCode() == 4) && line != "" {
			return line // HANG / PANIC reported by the child
		}
		return c06CrashClass(stderr.String())
	}
	if firstWord {
		return strings.SplitN(line, " ", 2)[0]
	}
	return line
}

func c06CrashClass(stderr string) string {
	switch {
	case strings.Contains(stderr, "stack overflow") &&
		(strings.Contains(stderr, "fmt.(*pp)") || strings.Contains(stderr, "stringutil.Convert") || strings.Contains(stderr, "encoding/json.")):
		return "CRASH so-stringify"
	case strings.Contains(stderr, "stack overflow") && strings.Contains(stderr, "reflect.deepValueEqual"):
		return "CRASH so-deepequal"
	case strings.Contains(stderr, "fatal error: concurrent map"):
		return "CRASH concurrent-map"
	}
	first := ""
	for _, l := range strings.Split(stderr, "\n") {
		if strings.HasPrefix(l, "fatal error") || strings.HasPrefix(l, "panic") {
			first = l
			break
		}
	}
	return "CRASH other " + oneLine(first)
}

// ---- depth family: an ACYCLIC container nested `depth` deep (built by a loop), then one operation that recurses
// over it in Go (reflect.DeepEqual / fmt / stringutil). Shallow nesting must work; very deep nesting overflows the
// Go stack (known finding, same id as the cyclic one).
var c06DepthNames = []string{"eq", "in", "interp", "errdetail", "log", "ret", "statematch"}

func c06DepthProgram(variant string, depth int) string {
	build := fmt.Sprintf("a := []\nb := []\nfor i in range(1, %d) {\na := [a]\nb := [b]\n}\n", depth)
	switch variant {
	case "eq":
		return build + "x := a == b"
	case "in":
		return build + "x := a in [b]"
	case "interp":
		return build + "x := \"{{a}}\"\nlen([x])"
	case "errdetail":
		return build + "try {\n1 % a\n} except {\n}"
	case "log":
		return build + "log(a)"
	case "ret":
		return build + "func f() {\nreturn a\n}\nx := f()\nlen(x)"
	case "statematch":
		return build + "sink s\n  kindmatch [\"k\"],\n  statematch {\"x\": a}\n{\nx.mark(1)\n}\naddEventAndWait(\"e\", \"k\", {\"x\": b})\nlen(a)"
	}
	return "1"
}

func c06RunDepth(f []string) string {
	var depth int
	fmt.Sscanf(f[2], "%d", &depth)
	_, out := c06Eval(c06DepthProgram(f[1], depth))
	head, _ := c06SplitClass(out)
	return head
}

// c06RunTrigger: a cron trigger (every second) and a pulse trigger are registered, the processor is finished, and
// the triggers fire afterwards: the callbacks must notice the stopped processor instead of asserting.
func c06RunTrigger() string {
	_, out := c06EvalWait("sink s\n  kindmatch [\"k\"]\n{\nx.mark(1)\n}\nsetCronTrigger(\"* * * * * *\", \"c\", \"k\")\nsetPulseTrigger(200000, \"p\", \"k\")\n1", 2300*time.Millisecond)
	head, _ := c06SplitClass(out)
	return head
}

// ---- concurrency family: one container shared by the main thread and a sink that was triggered WITHOUT waiting

// variant -> (set-up, body of the sink loop, body of the main loop)
var c06ConcVariants = map[string][3]string{
	"forin-map":  {"m := {\"a\":1,\"b\":2}", "for [k,v] in m {\n}", "m[j % 50] := j"},
	"del-map":    {"m := {\"a\":1,\"b\":2}", "del(m, \"a\")", "m.b := j"},
	"len-map":    {"m := {\"a\":1,\"b\":2}", "len(m)", "m[j % 50] := j"},
	"forin-list": {"m := [1,2,3]", "for x in m {\n}", "m[j % 3] := j"},
	"add-list":   {"m := [1,2,3]", "add(m, 1)", "m[j % 3] := j"},
	"del-list":   {"m := [1,2,3,4]", "len(del(m, 0))", "m := add(m, j)"},
}
var c06ConcNames = []string{"forin-map", "del-map", "len-map", "forin-list", "add-list", "del-list"}

func c06ConcProgram(variant string, prot bool, n int) string {
	v := c06ConcVariants[variant]
	sinkBody, mainBody := v[1], v[2]
	if prot {
		sinkBody = "mutex shared {\n" + sinkBody + "\n}"
		mainBody = "mutex shared {\n" + mainBody + "\n}"
	}
	return fmt.Sprintf("%s\nsink s\n  kindmatch [\"k\"]\n{\nfor i in range(1, %d) {\n%s\n}\nx.mark(1)\n}\naddEvent(\"e\", \"k\", {})\nfor j in range(1, %d) {\n%s\n}\nx.mark(2)",
		v[0], n, sinkBody, n, mainBody)
}

func c06RunConc(f []string) string {
	var workers, prot, n int
	fmt.Sscanf(f[2], "%d", &workers)
	fmt.Sscanf(f[3], "%d", &prot)
	fmt.Sscanf(f[4], "%d", &n)
	config.Config[config.WorkerCount] = workers
	_, out := c06Eval(c06ConcProgram(f[1], prot == 1, n))
	cl := c06Class(out)
	// both markers must have been reached (order is free): compare as a set
	if i := strings.Index(cl, " LOG "); i >= 0 {
		marks := strings.Split(cl[i+5:], "|")
		sort.Strings(marks)
		cl = cl[:i+5] + strings.Join(marks, "|")
	}
	return cl
}

// ---------------------------------------------------------------- generator

type c06Gen struct {
	g     *Gen
	lazy  *EvLazy
	focus map[string]bool // nil: everything
}

// c06Focus reads C06_FOCUS: a comma separated list of case families (labels: directed, binop, prefix, read,
// write, read2, write2, write3, dot, dotw, builtin, builtin:<name>, sinkattr, event, random, corpus).
// When it is set only these families are generated (the check uses it, together with the thorough tier,
// to look harder at the code whose panic-site census changed).
func c06Focus() map[string]bool {
	v := os.Getenv("C06_FOCUS")
	if v == "" {
		return nil
	}
	m := map[string]bool{}
	for _, f := range strings.Split(v, ",") {
		if f = strings.TrimSpace(f); f != "" {
			m[f] = true
		}
	}
	return m
}

func (c *c06Gen) want(label, meta string) bool {
	if c.focus == nil || label == "cyclic" {
		return true
	}
	if c.focus[label] {
		return true
	}
	if label == "builtin" {
		return c.focus["builtin:"+strings.SplitN(meta, ":", 2)[0]]
	}
	return false
}

// emit one program in the three modes
func (c *c06Gen) prog(label, meta, src string, modes string) {
	if !c.want(label, meta) {
		return
	}
	for _, m := range modes {
		m := string(m)
		c.g.Count(label + "." + m)
		c.lazy.Emit(func() string { return "X " + m + " " + label + " " + meta + " " + evPayload(src) })
	}
}

func c06Corpus() []string {
	var out []string
	files, _ := filepath.Glob(filepath.Join(corpusDir(), "C06", "*.ecal"))
	sort.Strings(files)
	for _, fn := range files {
		b, err := os.ReadFile(fn)
		if err == nil {
			out = append(out, strings.TrimRight(string(b), "\n"))
		}
	}
	return out
}

// corpusDir finds go/corpus next to the sources (the harness runs with cwd = a work directory).
func corpusDir() string {
	if d := os.Getenv("VERIF_CORPUS"); d != "" {
		return d
	}
	exe, _ := os.Executable()
	// <verif>/.work/<run>/harness  →  <verif>/go/corpus
	d := filepath.Join(filepath.Dir(filepath.Dir(filepath.Dir(exe))), "go", "corpus")
	if st, err := os.Stat(d); err == nil && st.IsDir() {
		return d
	}
	return filepath.Join("go", "corpus")
}

// directed programs: the inputs of the repaired defects and odd literal shapes
var c06Directed = []string{
	"a := [1]\na[0] := a\na == a", "5 % 0", "5 % 0.5", "0 % 0", "-1 % 1e+300", "1e+300 % 3", "[1] == [1]", "[1] != [2]", "{1:2} == {1:2}", "[1] in [[1]]", "{} notin [{}]",
	"a := [1]\na[-5]", "a := [1]\na[-5] := 2", "a := [[1]]\na[-5][0] := 2", "a := [[1]]\na[0][-7] := 2", "x := {1}", "x := {1, 2}", "{[1]:2}", "{{}:2}",
	"{null:1}", "{fn:1}", "{1:2, 1:3}", "{true:1, 1.5:2}", "del([1], 5)", "del([1], -1)", "add([1], 2, 7)", "add([1], 2, -1)", "add([1], 2, 1.5)", "add([1], 2, -0.5)",
	"try {\nraise()\n} except as e {\ne\n}", "raise()", "raise(null)", "raise([1], {}, fn)", "\"}} {{\"", "\"{{\"", "\"{{1+}}\"", "\"{{[1][5]}}\"",
	"[[], [[]], {}]", "[null, [null]]", "{\"a\": {\"b\": {}}}", "a := {}\na.b.c := 1", "a := null\na[0]", "a := null\na[0] := 1", "a := \"abc\"\na[0]", "a := \"abc\"\na[0] := 1",
	"a := 1\na.b", "a := fn\na.b", "fn.x := 1", "fn(1, 2, 3)", "fn()()", "a := [fn]\na[0]()", "null()", "1()", "\"a\"()", "x.y.z()", "len.a", "len := 1\nlen([1])",
	"for q in ([1,2] > [3]) {\ncontinue\n}", "for q in 1 {\nbreak\n}", "for [a, b] in [1] {\n}", "for [a, b] in [[1]] {\n}", "for [a, b] in {1:2} {\n}", "for a in fn {\n}",
	"for a in range(0) {\n}", "for a in range(1, 0, -1) {\n}", "for a in range(0, 1, 0.5) {\n}", "if null {\n}", "if [1] {\n} elif {} {\n}",
	"func f(a, b=1) {\nreturn a + b\n}\nf()", "func f(a) {\nreturn a\n}\nf(1, 2, 3)", "return 1", "break", "continue", "let a := a", "[a, b] := [1]", "[a, b] := 1", "[a, b] := null",
	"a := {\"k\": 1}\na.super := [a]\no := new(a)", "a := {\"init\": fn}\nb := {\"super\": [a]}\na.super := [b]\nnew(b, 1)",
	"new()", "new(1)", "new({})", "new({\"super\": 1})", "new({\"super\": [1, null, {}]})", "new({\"init\": 1})", "new({\"init\": fn}, 1, 2)",
	"o := new({\"init\": fn, \"super\": [{\"init\": fn}]})\no.init()", "doc(null)", "doc(1)", "doc(fn)", "doc(len)", "doc(x.mark)", "doc([1][0])",
	"type(fn)", "type(len)", "-fn", "not fn", "fn + fn", "fn == fn", "fn in [fn]", "fn like fn", "1 like \"(\"", "\"a\" like \"a\"", "1e+300 * 1e+300 // 0", "(0/0) % 1", "(1/0) % 1", "1 % (0/0)",
	"a := [1,2,3]\na[0/0]", "a := [1,2,3]\na[1/0]", "a := [1,2,3]\nadd(a, 1, 0/0)", "a := [1,2,3]\ndel(a, 0/0)", "del([1], 1/0)", "add([1], 1, 1/0)",
	"timestamp(1e+300)", "timestamp(0/0)", "timestamp(1, \"nowhere\")", "timestamp(1, null)", "sleep(-1)", "sleep(0/0)", "sleep(1e+300)", "rand(1)", "now(1)", "dumpenv(1)",
	"addEvent(1, 2, {})", "addEvent(null, null, {null:null})", "addEventAndWait(\"e\", \"z\", {}, {\"\": 1})", "addEventAndWait(\"e\", \"z\", {}, {fn: fn})", "addEventAndWait([1], {}, {[1]:1})",
	"setCronTrigger(1, 2, 3)", "setCronTrigger(\"* * * * * *\", [1], {})", "setPulseTrigger(\"a\", 2, 3)", "mutex a {\n1 % 0\n}", "mutex 1 {\n}", "import \"nowhere\" as n",
}

// element-level sink attributes, duplicate attributes / names, scope argument (engine semantics are not in the
// model: these run for crashes and for the metamorphic try rule only)
var c06SinkAttr2 = []string{
	"sink s\n kindmatch [null, [1], fn, \"\", \"a..b\", \"*\", 1.5, {}]\n{\nx.mark(1)\n}\naddEventAndWait(\"e\", \"a..b\", {})\naddEventAndWait(\"e\", \"\", {})\naddEventAndWait(\"e\", \"x\", {})",
	"sink s\n kindmatch [\"k\"],\n scopematch [null, [1], fn, \"\", \"a.b\", 1.5]\n{\nx.mark(1)\n}\naddEventAndWait(\"e\", \"k\", {}, {\"a.b\": true, \"\": 1, null: null})",
	"sink s\n kindmatch [\"k\"],\n suppresses [null, [1], fn, \"s\", 1.5]\n{\nx.mark(1)\n}\naddEventAndWait(\"e\", \"k\", {})",
	"sink s\n kindmatch [\"k\"],\n statematch {1: 2, null: 1, true: [1], 1.5: {}, fn: fn}\n{\nx.mark(1)\n}\naddEventAndWait(\"e\", \"k\", {1: 2, null: 1, true: [1], 1.5: {}, fn: fn})",
	"sink s\n kindmatch [\"k\"],\n statematch {\"a\": [[1], {\"b\": [fn]}]}\n{\nx.mark(1)\n}\naddEventAndWait(\"e\", \"k\", {\"a\": [[1], {\"b\": [fn]}]})",
	"sink s\n kindmatch [\"k\"],\n kindmatch [\"j\"],\n priority 1,\n priority \"x\"\n{\nx.mark(1)\n}\naddEventAndWait(\"e\", \"k\", {})",
	"sink s\n kindmatch [\"k\"]\n{\nx.mark(1)\n}\nsink s\n kindmatch [\"k\"]\n{\nx.mark(2)\n}\naddEventAndWait(\"e\", \"k\", {})",
	"sink s\n kindmatch [\"k\"],\n priority -1e+300\n{\nx.mark(1)\n}\nsink t\n kindmatch [\"k\"],\n priority (0/0)\n{\nx.mark(2)\n}\naddEventAndWait(\"e\", \"k\", {})",
	"sink s\n kindmatch [\"k\"]\n{\naddEvent(\"e2\", \"j\", {\"a\": [1]})\n1 % 0\n}\nsink t\n kindmatch [\"j\"],\n statematch {\"a\": [1]}\n{\nx.mark(2)\n[1][5]\n}\naddEventAndWait(\"e\", \"k\", {})",
	"addEventAndWait(\"e\", \"k\", {}, {null: null, 1: \"true\", \"x\": [1], fn: fn})",
	"addEventAndWait(\"e\", \"k\", {}, 1)",
}

// the known finding: a container that contains itself is stringified
var c06Cyclic = []string{
	"a := [1]\na[0] := a\n\"{{a}}\"", "a := [1]\na[0] := a\nlog(a)", "a := [1]\na[0] := a\na >= \"s\"", "a := [1]\na[0] := a\n1 % a",
	"a := {\"k\":1}\na.k := a\n\"{{a}}\"", "a := [1]\na[0] := a\ntype(a)",
	"o := new({\"m\": func () {\nreturn this\n}})\no.self := o\no.m()", "a := [1]\na[0] := a\nfunc f() {\nreturn a\n}\nf()",

}

func c06GenCases(g *Gen) {
	evSetup()
	c := &c06Gen{g, NewEvLazy(g), c06Focus()}
	U := c06Universe
	modes := "pts"

	// 1. corpus + directed programs (inputs of the repaired defects first)
	for _, src := range c06Corpus() {
		c.prog("corpus", "-", src, modes)
	}
	for _, src := range c06Directed {
		c.prog("directed", "-", c06Prelude+src, modes+"dfmw")
	}
	// imported units (MemoryImportLocator): everything after Resolve runs — parse, Validate, Eval of the unit, ToObject
	for _, im := range [][2]string{{"ok", "import \"ok\" as m\nm.a + m.f()"}, {"perr", "import \"perr\" as m\nm"},
		{"verr", "import \"verr\" as m\nm"}, {"rerr", "import \"rerr\" as m\nm"}, {"late", "import \"late\" as m\nm.f()"},
		{"nested", "import \"nested\" as m\nm"}, {"missing", "import \"missing\" as m\nm"}, {"okunused", "import \"ok\" as m\n1"}} {
		c.prog("import", "imp:"+im[0], im[1], modes+"dfmw")
	}
	if c.want("depth", "-") {
		depths := []int{1000, 10000}
		if g.Thorough() {
			depths = []int{1000, 10000, 100000, 1000000}
		}
		for _, v := range c06DepthNames {
			for _, d := range depths {
				v, d := v, d
				g.Count("depth")
				c.lazy.Emit(func() string { return fmt.Sprintf("D %s %d", v, d) })
			}
		}
		// one very deep case in every run (the known finding must stay observable)
		g.Count("depth")
		c.lazy.Emit(func() string { return "D eq 1000000" })
	}
	if c.want("trigger", "-") {
		g.Count("trigger")
		c.lazy.Emit(func() string { return "T cron" })
	}
	for _, src := range c06SinkAttr2 {
		c.prog("sinkattr2", "-", c06Prelude+src, "pt")
	}
	// concurrency: a container shared by the main thread and a sink triggered without waiting
	if c.want("conc", "-") {
		n := 5000
		if g.Thorough() {
			n = 20000
		}
		for _, v := range c06ConcNames {
			for _, w := range []int{1, 2, 4} {
				for prot := 0; prot <= 1; prot++ {
					v, w, prot := v, w, prot
					g.Count("conc")
					c.lazy.Emit(func() string { return fmt.Sprintf("K %s %d %d %d", v, w, prot, n) })
				}
			}
		}
	}
	for _, src := range c06Cyclic {
		c.prog("cyclic", "-", src, "p")
	}

	// 2. sink attributes of every kind, events against statematch of every kind (real worker)
	for _, a := range c06Attrs {
		for i := range U {
			if !c.want("sinkattr", "-") {
				continue
			}
			a, i := a, i
			g.Count("sinkattr")
			c.lazy.Emit(func() string { return fmt.Sprintf("A %s %d", a, i) })
		}
	}
	for i := range U {
		for j := range U {
			if !c.want("event", "-") {
				continue
			}
			i, j := i, j
			g.Count("event")
			c.lazy.Emit(func() string { return fmt.Sprintf("E %d %d", i, j) })
		}
	}

	// 3. operators × universe
	opModes := "p"
	if g.Thorough() {
		opModes = modes
	}
	for _, op := range c06PreOps {
		for _, v := range U {
			c.prog("prefix", "-", c06Prelude+op+"("+v+")", modes+"dfmw")
		}
	}
	for _, op := range c06BinOps {
		for i, v := range U {
			for j, w := range U {
				m := opModes
				if !g.Thorough() && (i+2*j)%7 == int(g.Seed%7) {
					m = modes // a seed-dependent seventh of the matrix also inside try and inside a sink
				}
				c.prog("binop", fmt.Sprintf("op:%s:%d,%d", strings.TrimSpace(op), i, j), c06Prelude+"("+v+") "+op+" ("+w+")", m)
			}
		}
	}

	// 4. container reads / writes
	conts := []string{"[1, 2, 3]", `{"a":1, 1:2, "1.5":3}`, `"abc"`, "null", "[[1, 2], {\"a\":[1]}]", "fn", "1"}
	idx := []string{"0", "2", "3", "-1", "-3", "-4", "-5", "1.5", "-0.5", "1e+300", "-1e+300", `"a"`, `"1"`, `"-1"`, `""`, `"1.5"`, "null", "true", "[1]", "{}", "fn", "0/0"}
	for _, ct := range conts {
		for _, ix := range idx {
			pre := c06Prelude + "a := " + ct + "\n"
			c.prog("read", "-", pre+"a["+ix+"]", modes)
			c.prog("write", "-", pre+"a["+ix+"] := 9\na", modes)
			c.prog("read2", "-", pre+"a[0]["+ix+"]", "p")
			c.prog("write2", "-", pre+"a[0]["+ix+"] := 9\na", "pt")
			c.prog("write3", "-", pre+"a["+ix+"][0] := 9\na", "p")
		}
	}
	for _, ix := range []string{"a", "1", "-1", "-5", "a.b", "x.y.z"} {
		for _, ct := range conts {
			c.prog("dot", "-", c06Prelude+"a := "+ct+"\na."+ix, "p")
			c.prog("dotw", "-", c06Prelude+"a := "+ct+"\na."+ix+" := 1\na", "p")
		}
	}

	// 5. builtins × argument vectors
	maxLen := 2
	if g.Thorough() {
		maxLen = 3
	}
	names := append(c06Builtins(), "log", "error", "debug") // the three logging builtins are not in InbuildFuncMap
	var vec func(n int, cur []int, f func([]int))
	vec = func(n int, cur []int, f func([]int)) {
		if n == 0 {
			f(cur)
			return
		}
		for i := range U {
			vec(n-1, append(cur, i), f)
		}
	}
	emitCall := func(name string, ix []int, m string) {
		args := make([]string, len(ix))
		is := make([]string, len(ix))
		for k, i := range ix {
			args[k] = U[i]
			is[k] = fmt.Sprint(i)
		}
		meta := name + ":" + strings.Join(is, ",")
		if len(ix) == 0 {
			meta = name + ":-"
		}
		c.prog("builtin", meta, c06Prelude+name+"("+strings.Join(args, ", ")+")", m)
	}
	for _, name := range names {
		for n := 0; n <= maxLen; n++ {
			vec(n, nil, func(ix []int) {
				m := "p"
				if n < 2 || g.Thorough() && n < 3 {
					m = modes
				} else if !g.Thorough() && (ix[0]+3*ix[1])%5 == int(g.Seed%5) {
					m = "pt"
				}
				if name == "sleep" && len(ix) > 0 && c06PlatformDuration[ix[0]] {
					return // sleep(1e+300 / NaN / Inf): the conversion to a duration is platform dependent
				}
				emitCall(name, append([]int(nil), ix...), m)
			})
		}
	}
	// length 4 (and 3 in the quick tier) sampled
	samples := 300
	if g.Thorough() {
		samples = 6000
	}
	for k := 0; k < samples; k++ {
		name := names[g.R.Intn(len(names))]
		n := 4
		if !g.Thorough() && k%2 == 0 {
			n = 3
		}
		ix := make([]int, n)
		for i := range ix {
			ix[i] = g.R.Intn(len(U))
		}
		if name == "sleep" && c06PlatformDuration[ix[0]] {
			continue
		}
		emitCall(name, ix, "p")
	}

	// 6. random programs of the shared generator (ill-typed operands all over)
	n := 300
	if g.Thorough() {
		n = 6000
	}
	eg := NewEvGen(g.R, EvGenConfig{Depth: 3, Builtins: true, Interp: true, Funcs: true, Loops: true, Try: true, Malformed: 100})
	for k := 0; k < n; k++ {
		src := eg.Program()
		c.prog("random", "-", src, "p")
	}
}

func init() {
	register("C06", &Prop{Gen: c06GenCases, Run: c06Run, Setup: evSetup, Timeout: 60 * time.Second, Tool: c06Tool})
}
