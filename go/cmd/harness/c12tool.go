package main

// C12 fact extractor: the synchronisation skeleton of mutexRuntime.Eval.
//
//	harness C12 -tool skeleton <out.lean>
//
// Walks the body of (*mutexRuntime).Eval in interpreter/rt_statements.go in source order and
// emits, with identifiers normalised by ROLE (so renaming locals changes nothing):
//
//	T[…]          a section between MutexesMutex.Lock() and MutexesMutex.Unlock(); its accesses to
//	              the two tables are listed sorted (the section is atomic, their order is immaterial)
//	M.Lock / M.Unlock   operations on the named mutex (the value looked up in erp.Mutexes)
//	if C / else if C / end   branches whose condition mentions the owner value or a lookup flag
//	defer / end   the deferred function literal
//	body          the evaluation of the block's statements (Children[1].Runtime.Eval)
//
// roles: M = value read from erp.Mutexes, O = value read from erp.MutexeOwners, foundM/foundO =
// second result of those lookups, N = the key, tid = third parameter of Eval.

import (
	"fmt"
	"go/ast"
	"go/parser"
	"go/token"
	"os"
	"path/filepath"
	"regexp"
	"sort"
	"strings"
)

type c12Sk struct {
	roles   map[string]string // identifier -> role
	out     []string
	section *[]string // open table section
}

func c12SelTail(e ast.Expr) string {
	if s, ok := e.(*ast.SelectorExpr); ok {
		return s.Sel.Name
	}
	return ""
}

func (k *c12Sk) table(e ast.Expr) string {
	switch c12SelTail(e) {
	case "Mutexes":
		return "M"
	case "MutexeOwners":
		return "O"
	}
	return ""
}

func (k *c12Sk) expr(e ast.Expr) string {
	switch x := e.(type) {
	case *ast.Ident:
		if r, ok := k.roles[x.Name]; ok {
			return r
		}
		return "?" + x.Name
	case *ast.BasicLit:
		return x.Value
	case *ast.ParenExpr:
		return "(" + k.expr(x.X) + ")"
	case *ast.UnaryExpr:
		if x.Op == token.AND {
			if _, ok := x.X.(*ast.CompositeLit); ok {
				return "new"
			}
		}
		return x.Op.String() + k.expr(x.X)
	case *ast.BinaryExpr:
		return k.expr(x.X) + " " + x.Op.String() + " " + k.expr(x.Y)
	}
	return "?"
}

func (k *c12Sk) emit(s string) {
	if k.section != nil {
		*k.section = append(*k.section, s)
	} else {
		k.out = append(k.out, s)
	}
}

func (k *c12Sk) relevant(e ast.Expr) bool {
	rel := false
	ast.Inspect(e, func(n ast.Node) bool {
		if id, ok := n.(*ast.Ident); ok {
			if r := k.roles[id.Name]; r == "O" || r == "foundM" || r == "foundO" {
				rel = true
			}
		}
		return true
	})
	return rel
}

func (k *c12Sk) stmts(list []ast.Stmt) {
	for _, s := range list {
		k.stmt(s)
	}
}

func (k *c12Sk) call(c *ast.CallExpr) {
	sel, ok := c.Fun.(*ast.SelectorExpr)
	if !ok {
		if fl, ok := c.Fun.(*ast.FuncLit); ok {
			k.stmts(fl.Body.List)
		}
		return
	}
	switch sel.Sel.Name {
	case "TryLock":
		k.emit("TryLock")
	case "Lock", "Unlock":
		if c12SelTail(sel.X) == "MutexesMutex" {
			if sel.Sel.Name == "Lock" {
				k.section = &[]string{}
			} else if k.section != nil {
				items := *k.section
				k.section = nil
				sort.Strings(items)
				k.emit("T[" + strings.Join(items, ",") + "]")
			} else {
				k.emit("T.Unlock-without-Lock")
			}
			return
		}
		if id, ok := sel.X.(*ast.Ident); ok && k.roles[id.Name] == "M" {
			k.emit("M." + sel.Sel.Name)
			return
		}
		if id, ok := sel.X.(*ast.Ident); ok {
			// a local value that is locked: the named mutex, however it was obtained
			_ = id
			k.emit("M?." + sel.Sel.Name)
			return
		}
		k.emit("?." + sel.Sel.Name)
	case "Eval":
		// the body: …Children[1].Runtime.Eval(…)
		if c12SelTail(sel.X) == "Runtime" {
			if ix, ok := sel.X.(*ast.SelectorExpr).X.(*ast.IndexExpr); ok {
				if lit, ok := ix.Index.(*ast.BasicLit); ok && lit.Value == "1" {
					k.emit("body")
				}
			}
		}
	}
}

func (k *c12Sk) stmt(s ast.Stmt) {
	switch x := s.(type) {
	case *ast.BlockStmt:
		k.stmts(x.List)
	case *ast.ExprStmt:
		if c, ok := x.X.(*ast.CallExpr); ok {
			k.call(c)
		}
	case *ast.AssignStmt:
		// name := …Children[0].Token.Val
		if len(x.Lhs) == 1 && len(x.Rhs) == 1 {
			if id, ok := x.Lhs[0].(*ast.Ident); ok && c12IsNameToken(x.Rhs[0]) {
				k.roles[id.Name] = "N"
				return
			}
			// a plain copy keeps the role: key := name
			if id, ok := x.Lhs[0].(*ast.Ident); ok {
				if src, ok := x.Rhs[0].(*ast.Ident); ok && k.roles[src.Name] != "" && x.Tok == token.DEFINE {
					k.roles[id.Name] = k.roles[src.Name]
					return
				}
			}
		}
		// v, ok := table[key]
		if len(x.Rhs) == 1 {
			if ix, ok := x.Rhs[0].(*ast.IndexExpr); ok && k.table(ix.X) != "" {
				t := k.table(ix.X)
				if id, ok := x.Lhs[0].(*ast.Ident); ok {
					k.roles[id.Name] = t
				}
				if len(x.Lhs) > 1 {
					if id, ok := x.Lhs[1].(*ast.Ident); ok && id.Name != "_" {
						k.roles[id.Name] = "found" + t
					}
				}
				k.emit("get " + t + "[" + k.expr(ix.Index) + "]")
				return
			}
		}
		// table[key] = v
		if len(x.Lhs) == 1 && len(x.Rhs) == 1 {
			if ix, ok := x.Lhs[0].(*ast.IndexExpr); ok && k.table(ix.X) != "" {
				k.emit("set " + k.table(ix.X) + "[" + k.expr(ix.Index) + "]=" + k.expr(x.Rhs[0]))
				return
			}
			// mutex = &sync.Mutex{}
			if id, ok := x.Lhs[0].(*ast.Ident); ok && k.roles[id.Name] == "M" {
				k.emit("M=" + k.expr(x.Rhs[0]))
				return
			}
		}
		for _, r := range x.Rhs {
			if c, ok := r.(*ast.CallExpr); ok {
				k.call(c)
			}
		}
	case *ast.IfStmt:
		k.ifStmt(x, "if ")
	case *ast.DeferStmt:
		if c12IsHook(x.Call) {
			return // an instrumentation point is not part of the protocol
		}
		k.emit("defer")
		k.call(x.Call)
		k.emit("end")
	case *ast.ReturnStmt:
		for _, r := range x.Results {
			if c, ok := r.(*ast.CallExpr); ok {
				k.call(c)
			}
		}
	}
}

func (k *c12Sk) ifStmt(x *ast.IfStmt, kw string) {
	if !k.relevant(x.Cond) {
		// a guard that does not look at the mutex state (err == nil): transparent
		k.stmts(x.Body.List)
		if x.Else != nil {
			k.stmt(x.Else)
		}
		return
	}
	if k.section != nil {
		// inside a table section: one item
		outer := k.section
		inner := []string{}
		k.section = &inner
		k.stmts(x.Body.List)
		k.section = outer
		k.emit(kw + k.expr(x.Cond) + "{" + strings.Join(inner, ";") + "}")
		return
	}
	k.emit(kw + k.expr(x.Cond))
	k.stmts(x.Body.List)
	switch e := x.Else.(type) {
	case *ast.IfStmt:
		k.ifStmt(e, "else if ")
		return
	case *ast.BlockStmt:
		k.emit("else")
		k.stmts(e.List)
	}
	k.emit("end")
}

func c12Skeleton() ([]string, error) {
	fset := token.NewFileSet()
	path := filepath.Join(repoDir(), "interpreter", "rt_statements.go")
	f, err := parser.ParseFile(fset, path, nil, 0)
	if err != nil {
		return nil, err
	}
	for _, d := range f.Decls {
		fd, ok := d.(*ast.FuncDecl)
		if !ok || fd.Name.Name != "Eval" || fd.Recv == nil || len(fd.Recv.List) != 1 {
			continue
		}
		st, ok := fd.Recv.List[0].Type.(*ast.StarExpr)
		if !ok {
			continue
		}
		if id, ok := st.X.(*ast.Ident); !ok || id.Name != "mutexRuntime" {
			continue
		}
		k := &c12Sk{roles: map[string]string{}}
		// third parameter = thread id
		var params []string
		for _, p := range fd.Type.Params.List {
			for _, n := range p.Names {
				params = append(params, n.Name)
			}
		}
		if len(params) == 3 {
			k.roles[params[2]] = "tid"
		}
		k.stmts(fd.Body.List)
		if k.section != nil {
			k.out = append(k.out, "T.Lock-without-Unlock")
		}
		return k.out, nil
	}
	return nil, fmt.Errorf("(*mutexRuntime).Eval not found in %s", path)
}

// c12IdSkeleton lists, in source order, the lock operations and the accesses to the counter
// field in (*ThreadPool).NewThreadID (engine/pool/threadpool.go). The counter is the receiver
// field that is incremented (x++, x += 1, x = x + 1, atomic.AddUint64(&x, …)).
//
//	lock / unlock (first lock used; lock2 / unlock2 any other), read, inc, write (plain),
//	aload, aadd-used, aadd-unused, aother (sync/atomic)
func c12IdSkeleton() ([]string, error) {
	fset := token.NewFileSet()
	path := filepath.Join(repoDir(), "engine", "pool", "threadpool.go")
	f, err := parser.ParseFile(fset, path, nil, 0)
	if err != nil {
		return nil, err
	}
	var fd *ast.FuncDecl
	for _, d := range f.Decls {
		if x, ok := d.(*ast.FuncDecl); ok && x.Name.Name == "NewThreadID" && x.Recv != nil {
			fd = x
		}
	}
	if fd == nil || len(fd.Recv.List) != 1 || len(fd.Recv.List[0].Names) != 1 {
		return nil, fmt.Errorf("(*ThreadPool).NewThreadID not found in %s", path)
	}
	recv := fd.Recv.List[0].Names[0].Name
	field := func(e ast.Expr) string { // recv.<field> -> field
		if u, ok := e.(*ast.UnaryExpr); ok && u.Op == token.AND {
			e = u.X
		}
		if s, ok := e.(*ast.SelectorExpr); ok {
			if id, ok := s.X.(*ast.Ident); ok && id.Name == recv {
				return s.Sel.Name
			}
		}
		return ""
	}
	isAtomic := func(c *ast.CallExpr) string {
		if s, ok := c.Fun.(*ast.SelectorExpr); ok {
			if id, ok := s.X.(*ast.Ident); ok && id.Name == "atomic" {
				return s.Sel.Name
			}
		}
		return ""
	}
	// pass 1: the counter field
	counter := ""
	ast.Inspect(fd.Body, func(n ast.Node) bool {
		switch x := n.(type) {
		case *ast.IncDecStmt:
			if fl := field(x.X); fl != "" && counter == "" {
				counter = fl
			}
		case *ast.AssignStmt:
			if len(x.Lhs) == 1 && counter == "" {
				if fl := field(x.Lhs[0]); fl != "" {
					counter = fl
				}
			}
		case *ast.CallExpr:
			if strings.HasPrefix(isAtomic(x), "Add") && len(x.Args) > 0 && counter == "" {
				counter = field(x.Args[0])
			}
		}
		return true
	})
	if counter == "" {
		return []string{"no-counter-found"}, nil
	}
	// pass 2: ordered events
	var out []string
	lock1 := ""
	var expr func(e ast.Expr, used bool)
	lockTok := func(op, fl string) string {
		if lock1 == "" {
			lock1 = fl
		}
		if fl == lock1 {
			return op
		}
		return op + "2"
	}
	expr = func(e ast.Expr, used bool) {
		switch x := e.(type) {
		case nil:
		case *ast.CallExpr:
			if a := isAtomic(x); a != "" && len(x.Args) > 0 && field(x.Args[0]) == counter {
				for _, arg := range x.Args[1:] {
					expr(arg, true)
				}
				switch {
				case strings.HasPrefix(a, "Load"):
					out = append(out, "aload")
				case strings.HasPrefix(a, "Add") && used:
					out = append(out, "aadd-used")
				case strings.HasPrefix(a, "Add"):
					out = append(out, "aadd-unused")
				default:
					out = append(out, "aother")
				}
				return
			}
			if s, ok := x.Fun.(*ast.SelectorExpr); ok && (s.Sel.Name == "Lock" || s.Sel.Name == "Unlock") {
				if fl := field(s.X); fl != "" {
					out = append(out, lockTok(strings.ToLower(s.Sel.Name), fl))
					return
				}
			}
			expr(x.Fun, true)
			for _, arg := range x.Args {
				expr(arg, true)
			}
		case *ast.SelectorExpr:
			if field(x) == counter {
				out = append(out, "read")
				return
			}
			expr(x.X, true)
		case *ast.UnaryExpr:
			if x.Op == token.AND && field(x.X) == counter {
				out = append(out, "write") // address taken outside sync/atomic
				return
			}
			expr(x.X, true)
		case *ast.BinaryExpr:
			expr(x.X, true)
			expr(x.Y, true)
		case *ast.ParenExpr:
			expr(x.X, true)
		case *ast.FuncLit:
			out = append(out, "closure")
		}
	}
	var stmt func(s ast.Stmt)
	stmt = func(s ast.Stmt) {
		switch x := s.(type) {
		case *ast.BlockStmt:
			for _, y := range x.List {
				stmt(y)
			}
		case *ast.ExprStmt:
			expr(x.X, false)
		case *ast.IncDecStmt:
			if field(x.X) == counter {
				out = append(out, "inc")
			} else {
				expr(x.X, true)
			}
		case *ast.AssignStmt:
			for _, r := range x.Rhs {
				expr(r, true)
			}
			for i, l := range x.Lhs {
				if field(l) == counter {
					// x += 1 / x = x + 1 (the read was emitted with the right-hand side)
					if x.Tok == token.ADD_ASSIGN {
						out = append(out, "inc")
					} else if n := len(out); n > 0 && out[n-1] == "read" && i == 0 {
						out[n-1] = "inc"
					} else {
						out = append(out, "write")
					}
				}
			}
		case *ast.ReturnStmt:
			for _, r := range x.Results {
				expr(r, true)
			}
		case *ast.DeferStmt:
			before := len(out)
			expr(x.Call, false)
			for i := before; i < len(out); i++ {
				out[i] = "defer-" + out[i]
			}
		case *ast.IfStmt:
			out = append(out, "branch")
			stmt(x.Body)
			if x.Else != nil {
				stmt(x.Else)
			}
		case *ast.ForStmt:
			out = append(out, "loop")
			stmt(x.Body)
		case *ast.GoStmt:
			out = append(out, "go")
		case *ast.DeclStmt:
			if gd, ok := x.Decl.(*ast.GenDecl); ok {
				for _, sp := range gd.Specs {
					if vs, ok := sp.(*ast.ValueSpec); ok {
						for _, v := range vs.Values {
							expr(v, true)
						}
					}
				}
			}
		}
	}
	stmt(fd.Body)
	// a deferred unlock of the first lock runs after everything else: move it to the end
	var res, deferred []string
	for _, t := range out {
		if strings.HasPrefix(t, "defer-") {
			deferred = append([]string{strings.TrimPrefix(t, "defer-")}, deferred...)
		} else {
			res = append(res, t)
		}
	}
	return append(res, deferred...), nil
}

// ---------------------------------------------------------------- semantic facts
//
// Facts that survive behaviour-preserving restructuring (helpers, early returns, switch instead
// of if, stacked defers, renamed locals):
//
//  1. every access to the tables erp.Mutexes / erp.MutexeOwners anywhere in package interpreter
//     happens while MutexesMutex is held in the same function: after a MutexesMutex.Lock() and
//     before the matching MutexesMutex.Unlock() (source order), or anywhere after the Lock when
//     the Unlock is deferred. A function literal is a function of its own.
//  2. in (*mutexRuntime).Eval every `m.Lock()` on a local mutex value is followed, in the same
//     statement list, by a deferred `m.Unlock()` — directly (`defer m.Unlock()`) or as an
//     unconditional statement of a deferred function literal — and Eval contains no `m.Unlock()`
//     that is not deferred.

type c12Fact struct{ what, kind string }

// c12Between classifies the statements between m.Lock() and the defer that releases m:
// logging to MutexLog, operations on the table lock, writes of a table entry and other defers
// cannot leave the function ("ok"); a return / branch / loop / goto can ("bad"); any other call
// might panic or is not understood ("unknown").
func c12Between(list []ast.Stmt) string {
	res := "ok"
	for _, s := range list {
		switch x := s.(type) {
		case *ast.DeferStmt, *ast.EmptyStmt:
		case *ast.ExprStmt:
			c, ok := x.X.(*ast.CallExpr)
			if !ok {
				res = "unknown"
				continue
			}
			sel, ok := c.Fun.(*ast.SelectorExpr)
			if ok && c12SelTail(sel.X) == "MutexLog" && sel.Sel.Name == "Add" {
				continue
			}
			if c12IsHook(c) {
				continue
			}
			if ok && c12SelTail(sel.X) == "MutexesMutex" && (sel.Sel.Name == "Lock" || sel.Sel.Name == "Unlock") {
				continue
			}
			res = "unknown"
		case *ast.AssignStmt:
			okAssign := len(x.Lhs) == 1
			if okAssign {
				ix, isIx := x.Lhs[0].(*ast.IndexExpr)
				okAssign = isIx && (c12SelTail(ix.X) == "Mutexes" || c12SelTail(ix.X) == "MutexeOwners")
			}
			if !okAssign {
				res = "unknown"
			}
		case *ast.ReturnStmt, *ast.BranchStmt, *ast.IfStmt, *ast.ForStmt, *ast.RangeStmt, *ast.SwitchStmt, *ast.GoStmt:
			return "bad"
		default:
			res = "unknown"
		}
	}
	return res
}

// c12OrderFacts derives, from the skeleton, the orders the model's events rely on (three-valued).
func c12OrderFacts(sk []string) []c12Fact {
	tv := func(known, v bool) string {
		if !known {
			return "unknown"
		}
		if v {
			return "true"
		}
		return "false"
	}
	idx := func(seq []string, pred func(string) bool) int {
		for i, t := range seq {
			if pred(t) {
				return i
			}
		}
		return -1
	}
	isSec := func(t string) bool { return strings.HasPrefix(t, "T[") }
	secWith := func(sub string) func(string) bool {
		return func(t string) bool { return isSec(t) && strings.Contains(t, sub) }
	}
	is := func(x string) func(string) bool { return func(t string) bool { return t == x } }
	var out []c12Fact
	// 1. the named mutex is locked before the thread registers itself as the owner
	l, so := idx(sk, is("M.Lock")), idx(sk, secWith("set O[N]=tid"))
	out = append(out, c12Fact{"M.Lock before O[N]=tid", tv(l >= 0 && so >= 0, l < so)})
	// 2. the owner is reset before the named mutex is unlocked — in EXECUTION order of the
	// deferred calls (stacked defers run last-in-first-out)
	var groups [][]string
	for i := 0; i < len(sk); i++ {
		if sk[i] == "defer" {
			var g []string
			for i++; i < len(sk) && sk[i] != "end"; i++ {
				g = append(g, sk[i])
			}
			groups = append(groups, g)
		}
	}
	var runtimeSeq []string
	for i := len(groups) - 1; i >= 0; i-- {
		runtimeSeq = append(runtimeSeq, groups[i]...)
	}
	r0, ul := idx(runtimeSeq, secWith("set O[N]=0")), idx(runtimeSeq, is("M.Unlock"))
	out = append(out, c12Fact{"O[N]=0 before M.Unlock in the deferred release", tv(r0 >= 0 && ul >= 0, r0 < ul)})
	// 3. an entry of the mutex table is written only when the name has none yet
	known, okc := false, true
	for _, t := range sk {
		if !isSec(t) {
			if strings.Contains(t, "set M[") {
				known, okc = true, false // written outside a table section
			}
			continue
		}
		for _, item := range strings.Split(strings.TrimSuffix(strings.TrimPrefix(t, "T["), "]"), ",") {
			if strings.Contains(item, "set M[") {
				known = true
				if !strings.HasPrefix(item, "if !foundM{") {
					okc = false
				}
			}
		}
	}
	out = append(out, c12Fact{"M[N] written only when absent", tv(known, okc)})
	// 4. blocking operations are outside the table sections
	bl, bd := idx(sk, is("M.Lock")), idx(sk, is("body"))
	inside := idx(sk, func(t string) bool {
		return isSec(t) && (strings.Contains(t, "M.Lock") || strings.Contains(t, "body") || strings.Contains(t, "M.Unlock"))
	})
	// 5. the key of every table access is the block's name token itself (N): two blocks exclude each
	// other exactly when they carry the same name
	keyRe := regexp.MustCompile(`(?:get|set) [MO]\[([^\]]*)\]`)
	keysSeen, keysOK := false, true
	for _, t := range sk {
		for _, m := range keyRe.FindAllStringSubmatch(t, -1) {
			keysSeen = true
			if m[1] != "N" {
				keysOK = false
			}
		}
	}
	out = append(out, c12Fact{"the key of every table access is the name token", tv(keysSeen, keysOK)})
	malformed := idx(sk, func(t string) bool { return t == "T.Lock-without-Unlock" || t == "T.Unlock-without-Lock" })
	switch {
	case malformed >= 0:
		// the sections are not straight-line code (each branch with its own Unlock …): this
		// source-order reading of the skeleton cannot tell
		for i := range out[:3] {
			out[i].kind = "unknown"
		}
		out = append(out, c12Fact{"M.Lock, M.Unlock and the body outside MutexesMutex sections", "unknown"})
	case inside >= 0:
		out = append(out, c12Fact{"M.Lock, M.Unlock and the body outside MutexesMutex sections", "false"})
	default:
		out = append(out, c12Fact{"M.Lock, M.Unlock and the body outside MutexesMutex sections", tv(bl >= 0 && bd >= 0, true)})
	}
	return out
}

// c12ReleaseDeferred evaluates fact 2; the strings describe each m.Lock() found.
func c12ReleaseDeferred() ([]c12Fact, error) {
	fset := token.NewFileSet()
	path := filepath.Join(repoDir(), "interpreter", "rt_statements.go")
	f, err := parser.ParseFile(fset, path, nil, 0)
	if err != nil {
		return nil, err
	}
	var eval *ast.FuncDecl
	for _, d := range f.Decls {
		if fd, ok := d.(*ast.FuncDecl); ok && fd.Name.Name == "Eval" && fd.Recv != nil && len(fd.Recv.List) == 1 {
			if st, ok := fd.Recv.List[0].Type.(*ast.StarExpr); ok {
				if id, ok := st.X.(*ast.Ident); ok && id.Name == "mutexRuntime" {
					eval = fd
				}
			}
		}
	}
	if eval == nil {
		return nil, fmt.Errorf("(*mutexRuntime).Eval not found")
	}
	localCall := func(s ast.Stmt, method string) string { // `x.method()` on a plain identifier
		es, ok := s.(*ast.ExprStmt)
		if !ok {
			return ""
		}
		c, ok := es.X.(*ast.CallExpr)
		if !ok {
			return ""
		}
		return c12LocalCall(c, method)
	}
	var out []c12Fact
	var lists func(list []ast.Stmt)
	var nested func(s ast.Stmt)
	lists = func(list []ast.Stmt) {
		for i, s := range list {
			if m := localCall(s, "Lock"); m != "" {
				kind := "bad"
				for j, later := range list[i+1:] {
					ds, isDefer := later.(*ast.DeferStmt)
					if !isDefer {
						continue
					}
					found := c12LocalCall(ds.Call, "Unlock") == m
					if fl, isLit := ds.Call.Fun.(*ast.FuncLit); isLit {
						for _, inner := range fl.Body.List {
							if localCall(inner, "Unlock") == m {
								found = true
							}
						}
					}
					if found {
						// nothing that can leave the function may lie between the Lock and this defer
						kind = c12Between(list[i+1 : i+1+j])
						break
					}
				}
				out = append(out, c12Fact{"Lock of local mutex: deferred unconditional Unlock follows, nothing can fail in between", kind})
			}
			if m := localCall(s, "Unlock"); m != "" {
				out = append(out, c12Fact{"Unlock of local mutex outside a defer", "bad"})
			}
			nested(s)
		}
	}
	nested = func(s ast.Stmt) {
		switch x := s.(type) {
		case *ast.BlockStmt:
			lists(x.List)
		case *ast.IfStmt:
			lists(x.Body.List)
			if x.Else != nil {
				nested(x.Else)
			}
		case *ast.SwitchStmt:
			for _, c := range x.Body.List {
				lists(c.(*ast.CaseClause).Body)
			}
		case *ast.ForStmt:
			lists(x.Body.List)
		case *ast.ExprStmt:
			// an immediately invoked function literal: its statements run right here
			if c, ok := x.X.(*ast.CallExpr); ok {
				if fl, ok := c.Fun.(*ast.FuncLit); ok {
					lists(fl.Body.List)
				}
			}
		}
	}
	lists(eval.Body.List)
	if len(out) == 0 {
		out = append(out, c12Fact{"no Lock of a local mutex found in Eval", "unknown"})
	}
	return out, nil
}

// c12IsNameToken recognises <…>.Children[0].Token.Val — the name written after `mutex`.
func c12IsNameToken(e ast.Expr) bool {
	v, ok := e.(*ast.SelectorExpr)
	if !ok || v.Sel.Name != "Val" {
		return false
	}
	t, ok := v.X.(*ast.SelectorExpr)
	if !ok || t.Sel.Name != "Token" {
		return false
	}
	ix, ok := t.X.(*ast.IndexExpr)
	if !ok || c12SelTail(ix.X) != "Children" {
		return false
	}
	lit, ok := ix.Index.(*ast.BasicLit)
	return ok && lit.Value == "0"
}

// c12IsHook recognises verifhook.At(…) (an empty function unless built with the tag verif).
func c12IsHook(c *ast.CallExpr) bool {
	sel, ok := c.Fun.(*ast.SelectorExpr)
	if !ok || sel.Sel.Name != "At" {
		return false
	}
	id, ok := sel.X.(*ast.Ident)
	return ok && id.Name == "verifhook"
}

// c12Acquisition: how mutexRuntime.Eval acquires the named mutex — independent of the shape of the
// function: every call `x.Lock()` / `x.TryLock()` on a plain local identifier anywhere in Eval
// (any statement kind, function literals included) is counted. One Lock and no TryLock = true;
// any TryLock = refuted (polling / a bounded wait is not mutual exclusion and does not queue
// later entrants); no Lock at all (moved into a helper) = unknown.
func c12Acquisition() c12Fact {
	what := "the named mutex is acquired by one blocking Lock()"
	fset := token.NewFileSet()
	f, err := parser.ParseFile(fset, filepath.Join(repoDir(), "interpreter", "rt_statements.go"), nil, 0)
	if err != nil {
		return c12Fact{what, "unknown"}
	}
	for _, d := range f.Decls {
		fd, ok := d.(*ast.FuncDecl)
		if !ok || fd.Name.Name != "Eval" || fd.Recv == nil || len(fd.Recv.List) != 1 || fd.Body == nil {
			continue
		}
		st, ok := fd.Recv.List[0].Type.(*ast.StarExpr)
		if !ok {
			continue
		}
		if id, ok := st.X.(*ast.Ident); !ok || id.Name != "mutexRuntime" {
			continue
		}
		locks, tries := 0, 0
		ast.Inspect(fd.Body, func(n ast.Node) bool {
			if c, ok := n.(*ast.CallExpr); ok {
				if c12LocalCall(c, "Lock") != "" {
					locks++
				}
				if sel, ok := c.Fun.(*ast.SelectorExpr); ok && sel.Sel.Name == "TryLock" {
					tries++
				}
			}
			return true
		})
		switch {
		case tries > 0:
			return c12Fact{what, "false"}
		case locks == 1:
			return c12Fact{what, "true"}
		}
		return c12Fact{what, "unknown"}
	}
	return c12Fact{what, "unknown"}
}

func c12LocalCall(c *ast.CallExpr, method string) string {
	sel, ok := c.Fun.(*ast.SelectorExpr)
	if !ok || sel.Sel.Name != method || len(c.Args) != 0 {
		return ""
	}
	if id, ok := sel.X.(*ast.Ident); ok {
		return id.Name
	}
	return ""
}

// c12CounterWrites lists every write to the id counter field in package engine/pool
// (all non-test files): (function, kind) with kind inc | init | assign | dec | unknown.
// The counter field is the one NewThreadID increments.
func c12CounterWrites() ([][2]string, error) {
	dir := filepath.Join(repoDir(), "engine", "pool")
	files, err := filepath.Glob(filepath.Join(dir, "*.go"))
	if err != nil {
		return nil, err
	}
	sort.Strings(files)
	fset := token.NewFileSet()
	var parsed []*ast.File
	for _, fn := range files {
		if strings.HasSuffix(fn, "_test.go") {
			continue
		}
		f, err := parser.ParseFile(fset, fn, nil, 0)
		if err != nil {
			return nil, err
		}
		parsed = append(parsed, f)
	}
	selName := func(e ast.Expr) string {
		if s, ok := e.(*ast.SelectorExpr); ok {
			return s.Sel.Name
		}
		return ""
	}
	positive := func(e ast.Expr) bool {
		l, ok := e.(*ast.BasicLit)
		return ok && l.Kind == token.INT && strings.Trim(l.Value, "0") != "" && !strings.HasPrefix(l.Value, "-")
	}
	// the counter field and the pool type
	counter, poolType := "", ""
	for _, f := range parsed {
		for _, d := range f.Decls {
			fd, ok := d.(*ast.FuncDecl)
			if !ok || fd.Name.Name != "NewThreadID" || fd.Recv == nil || fd.Body == nil {
				continue
			}
			if st, ok := fd.Recv.List[0].Type.(*ast.StarExpr); ok {
				if id, ok := st.X.(*ast.Ident); ok {
					poolType = id.Name
				}
			}
			ast.Inspect(fd.Body, func(n ast.Node) bool {
				switch x := n.(type) {
				case *ast.IncDecStmt:
					if counter == "" {
						counter = selName(x.X)
					}
				case *ast.AssignStmt:
					if counter == "" && len(x.Lhs) == 1 {
						counter = selName(x.Lhs[0])
					}
				case *ast.CallExpr:
					if s, ok := x.Fun.(*ast.SelectorExpr); ok && strings.HasPrefix(s.Sel.Name, "Add") && len(x.Args) > 0 && counter == "" {
						if u, ok := x.Args[0].(*ast.UnaryExpr); ok {
							counter = selName(u.X)
						}
					}
				}
				return true
			})
		}
	}
	if counter == "" || poolType == "" {
		return [][2]string{{"NewThreadID", "unknown"}}, nil
	}
	var out [][2]string
	for _, f := range parsed {
		for _, d := range f.Decls {
			fd, ok := d.(*ast.FuncDecl)
			if !ok || fd.Body == nil {
				continue
			}
			name := fd.Name.Name
			handled := map[ast.Node]bool{}
			ast.Inspect(fd.Body, func(n ast.Node) bool {
				switch x := n.(type) {
				case *ast.IncDecStmt:
					if selName(x.X) == counter {
						handled[x.X] = true
						if x.Tok == token.INC {
							out = append(out, [2]string{name, "inc"})
						} else {
							out = append(out, [2]string{name, "dec"})
						}
					}
				case *ast.AssignStmt:
					for _, l := range x.Lhs {
						if selName(l) != counter {
							continue
						}
						handled[l] = true
						switch {
						case x.Tok == token.ADD_ASSIGN && len(x.Rhs) == 1 && positive(x.Rhs[0]):
							out = append(out, [2]string{name, "inc"})
						case x.Tok == token.SUB_ASSIGN:
							out = append(out, [2]string{name, "dec"})
						default:
							out = append(out, [2]string{name, "assign"})
						}
					}
				case *ast.CallExpr:
					// atomic.AddUintNN(&x.counter, k) / atomic.Store…/Swap…/CompareAndSwap…
					if s, ok := x.Fun.(*ast.SelectorExpr); ok && len(x.Args) > 0 {
						if u, ok := x.Args[0].(*ast.UnaryExpr); ok && u.Op == token.AND && selName(u.X) == counter {
							handled[u] = true
							switch {
							case strings.HasPrefix(s.Sel.Name, "Add") && len(x.Args) == 2 && positive(x.Args[1]):
								out = append(out, [2]string{name, "inc"})
							case strings.HasPrefix(s.Sel.Name, "Load"):
							case strings.HasPrefix(s.Sel.Name, "Store") || strings.HasPrefix(s.Sel.Name, "Swap") || strings.HasPrefix(s.Sel.Name, "CompareAndSwap"):
								out = append(out, [2]string{name, "assign"})
							default:
								out = append(out, [2]string{name, "unknown"})
							}
						}
					}
				case *ast.UnaryExpr:
					if x.Op == token.AND && selName(x.X) == counter && !handled[x] {
						out = append(out, [2]string{name, "unknown"}) // address escapes
					}
				case *ast.CompositeLit:
					if id, ok := x.Type.(*ast.Ident); ok && id.Name == poolType {
						out = append(out, [2]string{name, "init"})
					}
				}
				return true
			})
		}
	}
	return out, nil
}

func c12WriteFacts(sb *strings.Builder, name, doc string, xs []c12Fact, err error) {
	if err != nil {
		fmt.Fprintln(os.Stderr, err)
		xs = []c12Fact{{"extraction failed", "unknown"}}
	}
	sb.WriteString("/-- " + doc + " -/\n")
	sb.WriteString("def " + name + " : List (String × String) := [\n")
	for i, a := range xs {
		sep := ","
		if i == len(xs)-1 {
			sep = ""
		}
		sb.WriteString(fmt.Sprintf("  (%q, %q)%s\n", a.what, a.kind, sep))
	}
	sb.WriteString("]\n\n")
}

func c12Tool(args []string) int {
	if len(args) < 1 || args[0] != "skeleton" {
		fmt.Fprintln(os.Stderr, "usage: harness C12 -tool skeleton [out.lean]")
		return 2
	}
	sk, err := c12Skeleton()
	if err != nil {
		fmt.Fprintln(os.Stderr, err)
		sk = []string{"extraction failed"}
	}
	var sb strings.Builder
	sb.WriteString("/-! GENERATED by `harness C12 -tool skeleton` from interpreter/rt_statements.go — do not edit.\n")
	sb.WriteString("Synchronisation skeleton of `(*mutexRuntime).Eval` (identifiers normalised by role). -/\n")
	sb.WriteString("namespace Ecal.Gen.C12\n\ndef skeleton : List String := [\n")
	for i, s := range sk {
		sep := ","
		if i == len(sk)-1 {
			sep = ""
		}
		sb.WriteString(fmt.Sprintf("  %q%s\n", s, sep))
	}
	sb.WriteString("]\n\n")
	ids, err := c12IdSkeleton()
	if err != nil {
		fmt.Fprintln(os.Stderr, err)
		ids = []string{"extraction failed"}
	}
	sb.WriteString("/-- lock operations and counter accesses of `(*ThreadPool).NewThreadID`, in source order -/\n")
	sb.WriteString("def idSkeleton : List String := [")
	for i, s := range ids {
		if i > 0 {
			sb.WriteString(", ")
		}
		sb.WriteString(fmt.Sprintf("%q", s))
	}
	sb.WriteString("]\n\n")
	tu, err := c12TableUses()
	var tuf []c12Fact
	for _, u := range tu {
		tuf = append(tuf, c12Fact{u.where, u.kind})
	}
	c12WriteFacts(&sb, "tableUses", "every use of the selectors Mutexes / MutexeOwners (and of their aliases) in the whole tree: (where, guarded|unguarded|unknown)", tuf, err)
	c12WriteFacts(&sb, "orderFacts", "orders and section boundaries read off the skeleton of mutexRuntime.Eval: (what, true|false|unknown)", append(c12OrderFacts(sk), c12Acquisition()), nil)
	rel, err := c12ReleaseDeferred()
	c12WriteFacts(&sb, "releases", "every Lock / non-deferred Unlock of a local mutex value in mutexRuntime.Eval: (what, ok|bad|unknown)", rel, err)
	cw, err := c12CounterWrites()
	if err != nil {
		fmt.Fprintln(os.Stderr, err)
		cw = [][2]string{{"extraction failed", "unknown"}}
	}
	sb.WriteString("/-- every write to the id counter field in package engine/pool: (function, inc|init|assign|dec|unknown) -/\n")
	sb.WriteString("def idCounterWrites : List (String × String) := [")
	for i, w := range cw {
		if i > 0 {
			sb.WriteString(", ")
		}
		sb.WriteString(fmt.Sprintf("(%q, %q)", w[0], w[1]))
	}
	sb.WriteString("]\n\n")
	sb.WriteString("/-- the value the pool's constructor gives the id counter (none = cannot tell) -/\n")
	initV := c12CounterInit()
	if initV >= 0 {
		sb.WriteString(fmt.Sprintf("def idCounterInit : Option Nat := some %d\n\n", initV))
	} else {
		sb.WriteString("def idCounterInit : Option Nat := none\n\n")
	}
	// the first id HANDED OUT: the initial value if NewThreadID reads before it increments, one
	// more if it increments first (whether the counter holds the next or the last id is a
	// matter of representation)
	first := -1
	ri, ii := -1, -1
	for i, t := range ids {
		if t == "read" && ri < 0 {
			ri = i
		}
		if t == "inc" && ii < 0 {
			ii = i
		}
	}
	if initV >= 0 && ri >= 0 && ii >= 0 {
		first = initV
		if ii < ri {
			first = initV + 1
		}
	}
	sb.WriteString("/-- the first thread id NewThreadID hands out (none = cannot tell) -/\n")
	if first >= 0 {
		sb.WriteString(fmt.Sprintf("def idFirst : Option Nat := some %d\n\n", first))
	} else {
		sb.WriteString("def idFirst : Option Nat := none\n\n")
	}
	lt, err := c12LiteralTids()
	if err != nil {
		lt = []string{"extraction failed"}
	}
	sb.WriteString("/-- calls that evaluate ECAL code with an integer literal as thread id (function:literal) -/\n")
	sb.WriteString("def literalTids : List String := [")
	for i, x := range lt {
		if i > 0 {
			sb.WriteString(", ")
		}
		sb.WriteString(fmt.Sprintf("%q", x))
	}
	sb.WriteString("]\n\n")
	sb.WriteString("end Ecal.Gen.C12\n")
	if len(args) > 1 {
		if err := os.WriteFile(args[1], []byte(sb.String()), 0644); err != nil {
			fmt.Fprintln(os.Stderr, err)
			return 2
		}
	} else {
		fmt.Print(sb.String())
	}
	return 0
}
