package main

// C03 — expressions evaluate per the documented operator semantics and precedence.
//
// A case is a one-expression program (optionally `r := <expr>`). The payload carries
// the source, the token list of the REAL lexer (so the model needs no lexer), the
// float64 bits of every number token (text -> float is trusted to strconv.ParseFloat),
// and three oracle tables whose content does not depend on the interpreter:
//
//	conv   : int64(NaN), int64(+huge), int64(-huge) of this platform (implementation defined in Go)
//	ftext  : fmt.Sprint text of floats (bits -> text), for every float occurring as (part of) the
//	         value of a sub-expression of the parsed tree or in the environment
//	regex  : for every `like` node the pair (text of subject, text of pattern) -> T|F|X (X = does not compile)
//
//	payload: <src-hex> <conv> <tok;tok;…> <ftext|-> <regex|->
//	  tok   = <NAME>:<val-hex>:<line>[:<bits-hex>]
//	  ftext = <bits-hex>:<text-hex>,…        regex = <subj-hex>:<pat-hex>:<T|F|X>,…
//	result : <tree> <outcome>
//	  tree    = S-expression of node names of the real AST (no positions) | PARSEERR
//	  outcome = V <value> | E <kind> <operand-name-hex> <node: 0|1|self> | A <var-hex> <value> (root is an assignment)
//	  value   = n | t | f | N<bits-hex> | S<hex> | L(<value>,…)

import (
	"crypto/sha1"
	"encoding/hex"
	"fmt"
	"go/ast"
	goparser "go/parser"
	"go/token"
	"math"
	"os"
	"path/filepath"
	"regexp"
	"sort"
	"strconv"
	"strings"
	"time"

	"github.com/krotik/ecal/interpreter"
	"github.com/krotik/ecal/parser"
	"github.com/krotik/ecal/util"
)

// ---------------------------------------------------------------- environment

var c03NaN = math.NaN()
var c03Huge = 1e300

func c03Scope() parser.Scope {
	vs := newGlobalScope()
	vs.SetValue("a", 1.0)
	vs.SetValue("b", "x")
	vs.SetValue("c", true)
	vs.SetValue("d", nil)
	vs.SetValue("l", []interface{}{1.0, "x"})
	vs.SetValue("n", -2.5)
	vs.SetValue("s", "10")
	vs.SetValue("f", false)
	vs.SetValue("m", []interface{}{[]interface{}{1.0}, nil, true})
	return vs
}

// c03EnvFloats are the floats occurring in the environment (their texts are always shipped).
var c03EnvFloats = []float64{1.0, -2.5}

// ---------------------------------------------------------------- canonical forms

var c03TokNames = map[parser.LexTokenID]string{
	parser.TokenEOF: "EOF", parser.TokenSTRING: "STRING", parser.TokenNUMBER: "NUMBER", parser.TokenIDENTIFIER: "IDENTIFIER",
	parser.TokenGEQ: "GEQ", parser.TokenLEQ: "LEQ", parser.TokenNEQ: "NEQ", parser.TokenEQ: "EQ", parser.TokenGT: "GT", parser.TokenLT: "LT",
	parser.TokenLPAREN: "LPAREN", parser.TokenRPAREN: "RPAREN", parser.TokenLBRACK: "LBRACK", parser.TokenRBRACK: "RBRACK",
	parser.TokenCOMMA: "COMMA",
	parser.TokenPLUS:  "PLUS", parser.TokenMINUS: "MINUS", parser.TokenTIMES: "TIMES", parser.TokenDIV: "DIV",
	parser.TokenDIVINT: "DIVINT", parser.TokenMODINT: "MODINT", parser.TokenASSIGN: "ASSIGN",
	parser.TokenAND: "AND", parser.TokenOR: "OR", parser.TokenNOT: "NOT",
	parser.TokenLIKE: "LIKE", parser.TokenIN: "IN", parser.TokenHASPREFIX: "HASPREFIX", parser.TokenHASSUFFIX: "HASSUFFIX", parser.TokenNOTIN: "NOTIN",
	parser.TokenFALSE: "FALSE", parser.TokenTRUE: "TRUE", parser.TokenNULL: "NULL",
}

func c03Value(v interface{}, depth int) string {
	if depth > 20 {
		return "DEEP"
	}
	switch x := v.(type) {
	case nil:
		return "n"
	case bool:
		if x {
			return "t"
		}
		return "f"
	case float64:
		if math.IsNaN(x) {
			return "Nnan"
		}
		return fmt.Sprintf("N%016x", math.Float64bits(x))
	case string:
		return "S" + hx(x)
	case []interface{}:
		parts := make([]string, len(x))
		for i, e := range x {
			parts[i] = c03Value(e, depth+1)
		}
		return "L(" + strings.Join(parts, ",") + ")"
	}
	return fmt.Sprintf("OTHER:%T", v)
}

func c03ErrKind(e error) (string, bool) {
	switch e {
	case util.ErrNotANumber:
		return "NotANumber", true
	case util.ErrNotABoolean:
		return "NotABoolean", true
	case util.ErrNotAList:
		return "NotAList", true
	case util.ErrRuntimeError:
		return "RuntimeError", false
	}
	return "Other", false
}

// c03FindParent returns the node of the tree that has n among its children, and the index.
func c03FindParent(tree, n *parser.ASTNode) (*parser.ASTNode, int) {
	if tree == nil {
		return nil, -1
	}
	for i, c := range tree.Children {
		if c == n {
			return tree, i
		}
		if p, k := c03FindParent(c, n); p != nil {
			return p, k
		}
	}
	return nil, -1
}

// c03Outcome: V <value> | E <kind> <named operand, hex> <node>
//
//	named operand: the text of the token of the operand the Detail was built from (for an
//	identifier the Detail is name=value: the value part is message text and is cut off — decided
//	by the Identifier flag of the operands' tokens, not by the look of the text)
//	node: which operand the error is ATTACHED to (RuntimeError.Node): its index among the children
//	of the operator that raised the error, or "self" for the operator itself
func c03Outcome(tree *parser.ASTNode, v interface{}, err error) string {
	if err != nil {
		if re, ok := err.(*util.RuntimeError); ok {
			k, names := c03ErrKind(re.Type)
			parent, idx := c03FindParent(tree, re.Node)
			node := "self"
			if parent != nil && !(k == "RuntimeError" && re.Node != nil && re.Node.Name == parser.NodeMODINT) {
				node = strconv.Itoa(idx)
			}
			if !names {
				return "E " + k + " - " + node
			}
			name := re.Detail
			if parent != nil {
				found := false
				for _, c := range parent.Children {
					if c.Token != nil && !c.Token.Identifier && re.Detail == c.Token.Val {
						found = true
					}
				}
				if !found {
					for _, c := range parent.Children {
						if c.Token != nil && c.Token.Identifier && strings.HasPrefix(re.Detail, c.Token.Val+"=") {
							name = c.Token.Val
						}
					}
				}
			}
			return "E " + k + " " + hx(name) + " " + node
		}
		return "E Other - self"
	}
	return "V " + c03Value(v, 0)
}

// c03NodeNames: node kind (by constant, not by its text) -> canonical name
var c03NodeNames = map[string]string{
	parser.NodeSTRING: "str", parser.NodeNUMBER: "num", parser.NodeIDENTIFIER: "ident", parser.NodeLIST: "list", parser.NodeSTATEMENTS: "statements",
	parser.NodeGEQ: "geq", parser.NodeLEQ: "leq", parser.NodeNEQ: "neq", parser.NodeEQ: "eq", parser.NodeGT: "gt", parser.NodeLT: "lt",
	parser.NodePLUS: "plus", parser.NodeMINUS: "minus", parser.NodeTIMES: "times", parser.NodeDIV: "div",
	parser.NodeDIVINT: "divint", parser.NodeMODINT: "modint", parser.NodeASSIGN: "assign",
	parser.NodeAND: "and", parser.NodeOR: "or", parser.NodeNOT: "not",
	parser.NodeLIKE: "like", parser.NodeIN: "in", parser.NodeHASPREFIX: "hasprefix", parser.NodeHASSUFFIX: "hassuffix", parser.NodeNOTIN: "notin",
	parser.NodeTRUE: "true", parser.NodeFALSE: "false", parser.NodeNULL: "null",
}

func c03Tree(n *parser.ASTNode) string {
	if n == nil {
		return "NIL"
	}
	name, ok := c03NodeNames[n.Name]
	if !ok {
		name = "other:" + hx(n.Name)
	}
	if len(n.Children) == 0 {
		return name
	}
	parts := make([]string, len(n.Children))
	for i, c := range n.Children {
		parts[i] = c03Tree(c)
	}
	return "(" + name + "," + strings.Join(parts, ",") + ")"
}

// ---------------------------------------------------------------- running the real code

var c03Erp *interpreter.ECALRuntimeProvider

type c03Run struct {
	tree    string
	outcome string
	floats  map[uint64]bool
	regex   map[[2]string]bool
}

func c03CollectFloats(v interface{}, into map[uint64]bool, depth int) {
	if depth > 20 {
		return
	}
	switch x := v.(type) {
	case float64:
		into[math.Float64bits(x)] = true
	case []interface{}:
		for _, e := range x {
			c03CollectFloats(e, into, depth+1)
		}
	}
}

// c03Exec parses, validates and evaluates src; with tables=true it also evaluates every
// sub-expression of the real tree alone to collect the floats and regex pairs the model may need.
func c03Exec(src string, tables bool) (r c03Run) {
	rs := c03ExecEnvs(src, tables, []parser.Scope{c03Scope()})
	return rs
}

// c03ExecEnvs parses and validates src ONCE and evaluates the same AST once per scope, in order;
// the outcomes are joined by "|". (tables: only with a single scope.)
func c03ExecEnvs(src string, tables bool, scopes []parser.Scope) (r c03Run) {
	r.floats = map[uint64]bool{}
	r.regex = map[[2]string]bool{}
	// one provider per process: every provider starts a cron goroutine
	if c03Erp == nil {
		c03Erp = interpreter.NewECALRuntimeProvider("t", nil, &memLog{})
	}
	erp := c03Erp
	tree, err := parser.ParseWithRuntime("t", src, erp)
	if err != nil {
		r.tree, r.outcome = "PARSEERR", "-"
		return
	}
	r.tree = c03Tree(tree)
	if c03NestedAssign(tree) {
		// an assignment anywhere but `name := <expression without assignment>` as the whole
		// program: outside the fragment (effects); only the tree is compared
		r.outcome = "NESTED-ASSIGN"
		return
	}
	if err = tree.Runtime.Validate(); err != nil {
		r.outcome = "INVALID"
		return
	}
	vs := scopes[0]
	if tables {
		var walk func(n *parser.ASTNode)
		walk = func(n *parser.ASTNode) {
			if n.Name == parser.NodeASSIGN {
				walk(n.Children[1])
				return
			}
			for _, c := range n.Children {
				walk(c)
			}
			func() {
				defer func() { recover() }()
				if v, e := n.Runtime.Eval(vs, make(map[string]interface{}), erp.NewThreadID()); e == nil {
					c03CollectFloats(v, r.floats, 0)
				}
				if n.Name == parser.NodeLIKE && len(n.Children) == 2 {
					s, e1 := n.Children[0].Runtime.Eval(vs, make(map[string]interface{}), erp.NewThreadID())
					p, e2 := n.Children[1].Runtime.Eval(vs, make(map[string]interface{}), erp.NewThreadID())
					if e1 == nil && e2 == nil {
						r.regex[[2]string{fmt.Sprint(s), fmt.Sprint(p)}] = true
					}
				}
			}()
		}
		walk(tree)
	}
	var outs []string
	for _, vs := range scopes {
		v, err := tree.Runtime.Eval(vs, make(map[string]interface{}), erp.NewThreadID())
		if err == nil && tree.Name == parser.NodeASSIGN && len(tree.Children) == 2 && tree.Children[0].Name == parser.NodeIDENTIFIER {
			name := tree.Children[0].Token.Val
			val, _, _ := vs.GetValue(name)
			outs = append(outs, "A "+hx(name)+" "+c03Value(val, 0))
			continue
		}
		outs = append(outs, c03Outcome(tree, v, err))
	}
	r.outcome = strings.Join(outs, "|")
	return
}

func c03HasAssign(n *parser.ASTNode) bool {
	if n.Name == parser.NodeASSIGN {
		return true
	}
	for _, c := range n.Children {
		if c03HasAssign(c) {
			return true
		}
	}
	return false
}

func c03NestedAssign(tree *parser.ASTNode) bool {
	if tree.Name == parser.NodeASSIGN && len(tree.Children) == 2 && tree.Children[0].Name == parser.NodeIDENTIFIER &&
		len(tree.Children[0].Children) == 0 {
		return c03HasAssign(tree.Children[1])
	}
	return c03HasAssign(tree)
}

// ---- environments of the multi-evaluation cases: <name>=<value>;… with canonical values

// c03ParseValue decodes a canonical value (n t f N<bits> Nnan S<hex> L(v,…)); returns the rest.
func c03ParseValue(s string) (interface{}, string) {
	switch {
	case strings.HasPrefix(s, "Nnan"):
		return math.NaN(), s[4:]
	case strings.HasPrefix(s, "N"):
		b, err := strconv.ParseUint(s[1:17], 16, 64)
		if err != nil {
			panic("bad value " + s)
		}
		return math.Float64frombits(b), s[17:]
	case strings.HasPrefix(s, "S"):
		i := 1
		for i < len(s) && s[i] != ',' && s[i] != ')' && s[i] != ';' {
			i++
		}
		return unhx(s[1:i]), s[i:]
	case strings.HasPrefix(s, "E()"):
		return []interface{}{}, s[3:] // empty but NOT nil (a list handed in by the host)
	case strings.HasPrefix(s, "L("):
		rest := s[2:]
		var l []interface{} // an empty list is a nil slice, as the value of the literal [] is
		for !strings.HasPrefix(rest, ")") {
			var v interface{}
			v, rest = c03ParseValue(rest)
			l = append(l, v)
			rest = strings.TrimPrefix(rest, ",")
		}
		return l, rest[1:]
	case strings.HasPrefix(s, "n"):
		return nil, s[1:]
	case strings.HasPrefix(s, "t"):
		return true, s[1:]
	case strings.HasPrefix(s, "f"):
		return false, s[1:]
	}
	panic("bad value " + s)
}

func c03EnvScope(env string) parser.Scope {
	vs := newGlobalScope()
	if env == "-" {
		return vs
	}
	for _, b := range strings.Split(env, ";") {
		i := strings.Index(b, "=")
		v, _ := c03ParseValue(b[i+1:])
		vs.SetValue(b[:i], v)
	}
	return vs
}

var c03ExpLiteral = regexp.MustCompile(`[0-9][0-9.]*[eE][+-]?[0-9]+`)

// c03Case describes one case for the payload builder.
type c03Case struct {
	src      string
	envs     []string // multi-evaluation: the environments (nil: the fixed environment, one evaluation)
	intended []string // the token texts the generator wrote (nil: not known)
	group    string   // cases of one group must give the same tree and outcome (layout / spelling variants)
}

func c03Payload(src string) string { return c03PayloadOf(c03Case{src: src}) }

func c03PayloadEnvs(src string, envs []string) string {
	return c03PayloadOf(c03Case{src: src, envs: envs})
}

// c03PayloadOf: space separated key=value fields
//
//	src=<hex> conv=<i,i,i> num=<text-hex:bits,…|-> ft=<bits:text-hex,…|-> re=<subj:pat:T|F|X,…|->
//	[env=<env>|<env>…] [int=<hex,hex,…>] [grp=<id>]
//
// The model lexes src itself (Lean lexer model); the real lexer is used here only to find the
// number texts whose float64 bits (strconv.ParseFloat) are shipped.
func c03PayloadOf(c c03Case) string {
	src := c.src
	nums := map[string]uint64{}
	addNum := func(t string) {
		if f, err := strconv.ParseFloat(t, 64); err == nil {
			nums[t] = math.Float64bits(f)
		}
	}
	for _, t := range parser.LexToList("t", src) {
		if t.ID == parser.TokenNUMBER {
			addNum(t.Val)
		}
	}
	// number literals with an exponent the lexer splits (known finding number-exponent-split): the
	// documented reading needs the value of the whole literal
	for _, t := range c03ExpLiteral.FindAllString(src, -1) {
		addNum(strings.ToLower(t))
	}
	for _, t := range c.intended {
		if len(t) > 0 && t[0] >= '0' && t[0] <= '9' {
			addNum(strings.ToLower(t))
		}
	}
	scopes := func() []parser.Scope {
		if c.envs == nil {
			return []parser.Scope{c03Scope()}
		}
		var l []parser.Scope
		for _, e := range c.envs {
			l = append(l, c03EnvScope(e))
		}
		return l
	}
	run := c03Run{floats: map[uint64]bool{}, regex: map[[2]string]bool{}}
	func() {
		// a panic of the real code while the tables are collected is not the generator's business:
		// the case is executed again (in Run) where it is reported as PANIC
		defer func() { recover() }()
		for _, vs := range scopes() {
			one := c03ExecEnvs(src, true, []parser.Scope{vs}) // fresh parse per environment
			for k := range one.floats {
				run.floats[k] = true
			}
			for k := range one.regex {
				run.regex[k] = true
			}
		}
	}()
	for _, f := range c03EnvFloats {
		run.floats[math.Float64bits(f)] = true
	}
	for _, e := range c.envs {
		if e == "-" {
			continue
		}
		for _, b := range strings.Split(e, ";") {
			v, _ := c03ParseValue(b[strings.Index(b, "=")+1:])
			c03CollectFloats(v, run.floats, 0)
		}
	}
	var nl []string
	for t, b := range nums {
		nl = append(nl, fmt.Sprintf("%s:%016x", hx(t), b))
	}
	sort.Strings(nl)
	var fl []string
	for b := range run.floats {
		fl = append(fl, fmt.Sprintf("%016x:%s", b, hx(fmt.Sprint(math.Float64frombits(b)))))
	}
	sort.Strings(fl)
	var rl []string
	for k := range run.regex {
		res := "X"
		if re, err := regexp.Compile(k[1]); err == nil {
			res = "F"
			if re.MatchString(k[0]) {
				res = "T"
			}
		}
		rl = append(rl, hx(k[0])+":"+hx(k[1])+":"+res)
	}
	sort.Strings(rl)
	conv := fmt.Sprintf("%d,%d,%d", int64(c03NaN), int64(c03Huge), int64(-c03Huge))
	join := func(xs []string) string {
		if len(xs) == 0 {
			return "-"
		}
		return strings.Join(xs, ",")
	}
	p := "src=" + hx(src) + " conv=" + conv + " num=" + join(nl) + " ft=" + join(fl) + " re=" + join(rl)
	if c.envs != nil {
		p += " env=" + strings.Join(c.envs, "|")
	}
	if c.intended != nil {
		var it []string
		for _, t := range c.intended {
			it = append(it, hx(t))
		}
		p += " int=" + join(it)
	}
	if c.group != "" {
		p += " grp=" + c.group
	}
	return p
}

// c03Field returns the value of key in a payload
func c03Field(payload, key string) (string, bool) {
	for _, f := range strings.Fields(payload) {
		if strings.HasPrefix(f, key+"=") {
			return f[len(key)+1:], true
		}
	}
	return "", false
}

// ---------------------------------------------------------------- registration

func init() {
	register("C03", &Prop{
		Timeout: 30 * time.Second,
		Gen:     c03Gen,
		Run: func(payload string) string {
			var r c03Run
			srcHex, _ := c03Field(payload, "src")
			if envs, ok := c03Field(payload, "env"); ok {
				var scopes []parser.Scope
				for _, e := range strings.Split(envs, "|") {
					scopes = append(scopes, c03EnvScope(e))
				}
				r = c03ExecEnvs(unhx(srcHex), false, scopes)
				CountRun("multi-evaluation of one AST")
			} else {
				r = c03Exec(unhx(srcHex), false)
			}
			switch {
			case r.tree == "PARSEERR":
				CountRun("parse error")
			case strings.HasPrefix(r.outcome, "E "):
				CountRun("runtime error " + strings.Fields(r.outcome)[1])
			default:
				CountRun("value")
			}
			return r.tree + " " + r.outcome
		},
		Tool: c03Tool,
	})
}

func c03Tool(args []string) int {
	if len(args) >= 1 && args[0] == "extract" {
		return c03Extract(args[1:])
	}
	if len(args) >= 2 && args[0] == "eval" {
		for _, src := range args[1:] {
			r := c03Exec(src, false)
			fmt.Printf("%-40q %s %s\n", src, r.tree, r.outcome)
		}
		return 0
	}
	if len(args) == 2 && args[0] == "parsecheck" {
		// lines "<src-hex> <tree>": parse src with the real parser, report the first tree that differs
		data, err := os.ReadFile(args[1])
		if err != nil {
			fmt.Fprintln(os.Stderr, err)
			return 2
		}
		n := 0
		for _, line := range strings.Split(string(data), "\n") {
			f := strings.Fields(line)
			if len(f) != 2 {
				continue
			}
			n++
			src := unhx(f[0])
			got := "PARSEERR"
			if tree, err := parser.Parse("t", src); err == nil {
				got = c03Tree(tree)
			}
			if got != f[1] {
				fmt.Printf("FOUND\t%s\t%s\t%s\n", src, f[1], got)
				return 0
			}
		}
		fmt.Println("checked", n)
		return 0
	}
	if len(args) >= 2 && args[0] == "payload" {
		fmt.Println(c03Payload(args[1]))
		return 0
	}
	fmt.Fprintln(os.Stderr, "usage: harness C03 -tool extract <out.lean> | eval <src>… | payload <src>")
	return 2
}

// ---------------------------------------------------------------- generator

var c03BinOps = []string{">=", "<=", "!=", "==", ">", "<", "+", "-", "*", "/", "//", "%", "and", "or",
	"like", "in", "hasprefix", "hassuffix", "notin"}
var c03PreOps = []string{"-", "+", "not"}

// operand universe by kind
var c03Nums = []string{"0", "1", "2", "3", "7", "0.5", "2.5", "1.50", "10", "100", "0.1", "0.3", "1e+308",
	"123456789012345678901234567890", "9007199254740993", "a", "n", "5.", "1e+2", "007", "010", "0123", "08", "0.10", "017", "0010.50",
	"9223372036854775807", "9223372036854775808", "9223372036854774784", "4611686018427387904"}
var c03Strs = []string{`""`, `"a"`, `"x"`, `"abc"`, `"10"`, `"9"`, `"1"`, `"true"`, `"A"`, `" "`, `"a.c"`, `"("`,
	`"^a"`, `"[1 x]"`, `'x'`, `r"x"`, `"<nil>"`, `"-2.5"`, "b", "s",
	`"a=b"`, `"x=1"`, `"a=b=c"`, `"a\nc"`, `"x\ny"`, `"a\r\nb"`, `"\a\b\f\v"`, `"^x.y$"`, `"(?i)A"`, `"(?s)a.c"`, `"a.c"`, "r\"a\nc\"", `"B"`, `"aB"`, `"a\"b"`, `"a\\b"`, `"tab\there"`, `"é"`, `"日本"`, `'it"s'`, `"\u00e9"`, `r"a\b"`, `"=="`}
var c03Bools = []string{"true", "false", "TRUE", "c", "f"}
var c03Nulls = []string{"null", "NULL", "d", "u"}
var c03Lists = []string{c03LongList(12), c03LongList(40), "[]", "[1]", `[1, "x"]`, "[[1]]", "[1, 2, 3]", "[null]", "[a, b]", "[true, false]", `["10", 10]`, "l", "m"}
var c03Kinds = [][]string{c03Nums, c03Strs, c03Bools, c03Nulls, c03Lists}

// one representative per literal kind {num, str, bool, null, var, list}
var c03Reps = []string{"2", `"x"`, "true", "null", "a", `[1, "x"]`}

func c03IsWordTok(t string) bool {
	c := t[len(t)-1]
	d := t[0]
	isw := func(c byte) bool {
		return c >= 'a' && c <= 'z' || c >= 'A' && c <= 'Z' || c >= '0' && c <= '9' || c == '"' || c == '\'' || c == '.'
	}
	return isw(c) || isw(d)
}

// c03Join writes the token texts with a layout: single blanks (layout=false) or random
// blanks / tabs / newlines / nothing between tokens (never gluing two word tokens or two
// symbol tokens together).
func c03Join(r *Rand, toks []string, layout bool) string {
	src, _ := c03JoinW(r, toks, layout)
	return src
}

// c03GlueMerges says whether writing a directly before b would form another token (a two
// character symbol, a comment opener, a number continuing with a dot)
func c03GlueMerges(a, b string) bool {
	x, y := a[len(a)-1], b[0]
	pair := string(x) + string(y)
	switch pair {
	case ">=", "<=", "!=", "==", "//", ":=", "/*":
		return true
	}
	return x == '.' || y == '.' || x == 'r' && (y == '"' || y == '\'')
}

// c03JoinW is c03Join that also returns the token texts as written (keyword spelling varied)
func c03JoinW(r *Rand, toks []string, layout bool) (string, []string) {
	var sb strings.Builder
	written := make([]string, 0, len(toks))
	for i, t := range toks {
		if i > 0 {
			sep := " "
			if layout {
				switch r.Intn(12) {
				case 0:
					sep = "\n"
				case 1:
					sep = "  "
				case 2:
					sep = "\t"
				case 3:
					sep = " \n  "
				case 4, 5, 6, 7:
					// nothing between the tokens wherever that cannot merge two words: symbol|symbol
					// and operand|symbol are glued (`1+2`, `a<-1`, `1>=-2`, `2*-3`, `1--1`)
					if !(c03IsWordTok(toks[i-1]) && c03IsWordTok(t)) && !c03GlueMerges(toks[i-1], t) {
						sep = ""
					}
				case 8:
					// everything skipWhiteSpace skips: unicode.IsSpace or IsControl
					sep = []string{"\r\n", "\f", "\u00a0", "\u2028", "\v", "\r", "\u0085", "\x01"}[r.Intn(8)]
				case 9:
					// a comment between the tokens (the parser skips comment tokens)
					sep = []string{" /* c */ ", "/**/", " # c\n", "/* 1 + \n 2 */", " #\n "}[r.Intn(5)]
					if strings.HasSuffix(toks[i-1], "/") {
						sep = " " + sep // `/` and `/*` would read `//` `*`
					}
				}
			}
			sb.WriteString(sep)
		}
		if layout && c03Keywords[t] && r.Intn(6) == 0 {
			// keywords are matched case-insensitively; the token keeps its spelling
			switch r.Intn(3) {
			case 0:
				t = strings.ToUpper(t)
			case 1:
				t = strings.ToUpper(t[:1]) + t[1:]
			default:
				t = t[:len(t)-1] + strings.ToUpper(t[len(t)-1:])
			}
		}
		written = append(written, t)
		sb.WriteString(t)
	}
	return sb.String(), written
}

// c03SplitToks splits a source text written by this generator into its token texts: string
// literals (with their quotes / r prefix) are one token, brackets and commas are tokens,
// everything else is separated by blanks.
func c03SplitToks(src string) []string {
	var out []string
	cur := ""
	flush := func() {
		if cur != "" {
			out = append(out, cur)
			cur = ""
		}
	}
	for i := 0; i < len(src); i++ {
		c := src[i]
		switch {
		case c == '"' || c == '\'':
			if cur != "r" {
				flush()
			}
			j := i + 1
			for j < len(src) && src[j] != c {
				if src[j] == '\\' && cur != "r" {
					j++
				}
				j++
			}
			cur += src[i:min(j+1, len(src))]
			flush()
			i = j
		case c == '[' || c == ']' || c == ',' || c == '(' || c == ')':
			flush()
			out = append(out, string(c))
		case c == ' ' || c == '\n' || c == '\t':
			flush()
		default:
			cur += string(c)
		}
	}
	flush()
	return out
}

var c03Keywords = map[string]bool{"and": true, "or": true, "not": true, "like": true, "in": true, "hasprefix": true,
	"hassuffix": true, "notin": true, "true": true, "false": true, "null": true}

// c03LongList writes a list literal of n elements (numbers, strings, a nested list)
func c03LongList(n int) string {
	var parts []string
	for i := 0; i < n; i++ {
		switch i % 5 {
		case 3:
			parts = append(parts, fmt.Sprintf(`"s%d"`, i))
		case 4:
			parts = append(parts, fmt.Sprintf("[%d, %d]", i, i+1))
		default:
			parts = append(parts, strconv.Itoa(i))
		}
	}
	return "[" + strings.Join(parts, ", ") + "]"
}

type c03G struct {
	g      *Gen
	r      *Rand
	layout bool
	vars   [5][]string // multi-evaluation cases: variables by intended kind
}

func (x *c03G) pick(xs []string) string { return xs[x.r.Intn(len(xs))] }

// atom returns the tokens of an operand of the wanted kind (0 num, 1 str, 2 bool, 3 null, 4 list, 5 any)
func (x *c03G) atom(kind int) []string {
	if kind >= 5 {
		kind = x.r.Intn(5)
	}
	if len(x.vars[kind]) > 0 && x.r.Intn(10) < 7 {
		return []string{x.pick(x.vars[kind])}
	}
	a := x.pick(c03Kinds[kind])
	if kind == 4 && a[0] == '[' {
		return c03Toks(a)
	}
	return []string{a}
}

// c03Toks splits a list literal text of the universe into tokens (for layout)
func c03Toks(s string) []string {
	var out []string
	cur := ""
	flush := func() {
		if cur != "" {
			out = append(out, cur)
			cur = ""
		}
	}
	inq := false
	for i := 0; i < len(s); i++ {
		c := s[i]
		switch {
		case c == '"':
			cur += string(c)
			inq = !inq
		case inq:
			cur += string(c)
		case c == '[' || c == ']' || c == ',':
			flush()
			out = append(out, string(c))
		case c == ' ':
			flush()
		default:
			cur += string(c)
		}
	}
	flush()
	return out
}

// expr generates a random expression of the wanted kind as a flat token list. Parentheses
// are put at random, NOT where a grammar would need them: the parser decides the tree.
func (x *c03G) expr(kind, depth int) []string {
	r := x.r
	if r.Intn(7) == 0 {
		kind = r.Intn(6) // operand of a deliberately wrong kind
	}
	if depth <= 0 || r.Intn(5) == 0 {
		return x.atom(kind)
	}
	wrap := func(t []string) []string {
		if r.Intn(3) == 0 {
			t = append(append([]string{"("}, t...), ")")
			if r.Intn(4) == 0 {
				t = append(append([]string{"("}, t...), ")")
			}
		}
		return t
	}
	bin := func(ops []string, lk, rk int) []string {
		l := wrap(x.expr(lk, depth-1))
		rr := wrap(x.expr(rk, depth-1))
		return append(append(l, x.pick(ops)), rr...)
	}
	var t []string
	switch kind {
	case 0:
		switch r.Intn(6) {
		case 0:
			t = append([]string{x.pick([]string{"-", "+"})}, wrap(x.expr(0, depth-1))...)
		default:
			t = bin([]string{"+", "-", "*", "/", "//", "%"}, 0, 0)
		}
	case 2:
		switch r.Intn(9) {
		case 0, 1:
			t = bin([]string{">=", "<=", ">", "<"}, 0, 0)
		case 2:
			t = bin([]string{">=", "<=", ">", "<", "==", "!="}, 5, 5)
		case 3, 4:
			t = bin([]string{"and", "or"}, 2, 2)
		case 5:
			t = append([]string{"not"}, wrap(x.expr(2, depth-1))...)
		case 6:
			t = bin([]string{"in", "notin"}, 5, 4)
		case 7:
			t = bin([]string{"like", "hasprefix", "hassuffix"}, 1, 1)
		default:
			t = bin([]string{"==", "!="}, 5, 5)
		}
	case 4:
		n := r.Intn(4)
		t = []string{"["}
		for i := 0; i < n; i++ {
			if i > 0 {
				t = append(t, ",")
			}
			t = append(t, x.expr(5, depth-1)...)
		}
		if n > 0 && r.Intn(6) == 0 {
			t = append(t, ",") // trailing comma
		}
		t = append(t, "]")
	default:
		if r.Intn(3) == 0 {
			return x.atom(kind)
		}
		t = bin(c03BinOps, 5, 5)
	}
	return wrap(t)
}

func c03Gen(g *Gen) {
	r := g.R
	seen := map[string]bool{}
	// the payload (lexing, evaluating the sub-expressions) is only computed for the cases this
	// process executes; the others are skipped by the framework before it looks at the payload
	si, sn, start := 0, 1, 0
	for i, a := range os.Args {
		if a == "-shard" && i+1 < len(os.Args) {
			fmt.Sscanf(os.Args[i+1], "%d/%d", &si, &sn)
		}
		if a == "-start" && i+1 < len(os.Args) {
			start, _ = strconv.Atoi(os.Args[i+1])
		}
	}
	if sn <= 0 {
		sn = 1
	}
	idx := -1
	emitCase := func(class string, c c03Case) {
		key := c.src
		if c.envs != nil {
			key = "M " + c.src + " " + strings.Join(c.envs, "|")
		}
		if seen[key] {
			return
		}
		seen[key] = true
		g.Count(class)
		idx++
		if idx%sn != si || idx < start {
			g.Emit("-")
			return
		}
		g.Emit(c03PayloadOf(c))
	}
	// directed / malformed text: no intended tokens
	emit := func(class string, src string) { emitCase(class, c03Case{src: src}) }
	groupOf := func(src string) string {
		h := sha1.Sum([]byte(src))
		return hex.EncodeToString(h[:6])
	}
	// a well-formed expression written by the generator with single blanks: its intended tokens are
	// shipped (the model's lexer must find exactly them); nvar layout / keyword-spelling variants of
	// it join its group (same tree and outcome required, checked on the Go results alone)
	emitI := func(class string, src string, nvar int) {
		toks := c03SplitToks(src)
		grp := ""
		if nvar > 0 {
			grp = groupOf(src)
		}
		emitCase(class, c03Case{src: src, intended: toks, group: grp})
		for k := 0; k < nvar; k++ {
			v, written := c03JoinW(r, toks, true)
			if v != src {
				emitCase(class+"-layout", c03Case{src: v, intended: written, group: grp})
			}
		}
	}
	oneIn := func(n int) int {
		if r.Intn(n) == 0 {
			return 1
		}
		return 0
	}
	// corpus: inputs of the repaired defects and directed cases
	for _, s := range []string{`5 % 0`, `5 % 0.5`, `[1] == [1]`, `[1] in [[1]]`, `[1] != [2]`, `(1 + "a") like "x"`, `1 like "("`,
		`1 + 2 * 3`, `1 - 2 - 3`, `2 * 3 + 4`, `1 < 2 == true`, `not 1 == 2`, `not true and false`, `- 2 * 3`, `-2 + 3`,
		`1 < "a"`, `"10" < 9`, `10 < 9`, `TRUE AND 5`, `false and 5`, `true or 5`, `(true and false) + 1`, `a + b`,
		`r := 1 or 2`, `r := a + 1`, `r := not c`, `1e+308 % 3`, `-7 // 2`, `7 // -2`, `-7 % 2`, `7 % -2`, `0/0`, `1/0`, `-1/0`, `0/0 == 0/0`,
		`[0/0] == [0/0]`, `1 in 5`, `1 in l`, `"x" notin l`, `true or (1 + "a")`, `1.50 and true`, `1 hasprefix 1`, `[1, "x"] hasprefix "[1"`,
		`null == d`, `u == null`, `1 == 1.0`, `"1" == 1`, "1 +\n2", "1\n+ 2", "(\n1\n)", `-(-(1))`, `- - 1`, `not not true`, `+ "a"`, `- null`, `not 1`,
		`1 in [1 2]`, `[1,] == [1]`, `1 <= 2 <= 3`, `1 + 2 > 2 and 3 * 1 == 3 or false`, `9007199254740993 % 9007199254740992`,
		`123456789012345678901234567890 // 1`, `1 - -1`, `1 notin [] and not false`, `a a`, `1 +`, `(1`, `1 )`, `[1`, `* 2`,
		`[1e5]`, `1 in [1e5]`, `[1E+5]`, `[2e-1, 3]`, `[1e5, 2]`, `[1.5e-3]`, `[1e-5] == [1]`, `[a -b]`, `[1 -2]`, `[1 - 2]`, `[a - b]`,
		`0.1 + 0.2 == 0.3`, `0.0000000001 == 0`, `0.0000000001 in [0]`, `0.1 + 0.2 != 0.3`, `0.3 in [0.1 + 0.2]`, `1 == 1.0000000001`,
		`010 + 1`, `017 * 2`, `[010] == [10]`, `08 + 1`, `0123`, `0.10 == 0.1`, `"a\nc" like "a.c"`, `"x\ny" like "^x.y$"`, `"a\nc" like "(?s)a.c"`,
		`"A" like "(?i)a"`, `"a\nc" hasprefix "a\n"`, `a<-1`, `a <-1`, `1 <-2`, `n<-2 and true`, `1>=-2`, `2*-3`, `1--1`, `1+2`, `1+-+-1`, `(1)+(2)`, `[1]==[1]`,
		`1 + /* c */ 2`, "1 + # c\n 2", `/* a */ 1 /* b */ + /* c */ 2 /* d */`, "1 +\r\n2", "1\f+\u00a02", "1\u2028+ 2",
		`"a=b" + 1`, `1 + "a=b"`, `"x=1" and true`, `1 in "a=b"`, `"a=b" < 1`, `"é" + 1`, `"a\"b" * 2`, `- "tab\there"`,
		`true and     5`, `1 in    5`, `true or (2)`, `c and "x"`, `1 notin "l"`, `(1 < 2) and (1 + 1)`,
		`9223372036854775807 % 10`, `9223372036854775808 % 10`, `9223372036854774784 % 10`, `- 9223372036854775808 % 10`,
		`(1/0) % 2`, `2 % (1/0)`, `(0/0) % 2`, `(-1/0) % 2`, `7 % 9223372036854775808`, `0 * -1`, `0 * -1 == 0`, `1 / (0 * -1)`,
		`[0 * -1] == [0]`, `(0/0) == (0/0)`, `(0/0) != (0/0)`, `(0/0) < 1`, `(0/0) >= 1`, `1/0 > 1e+308`, `"" + (1/0)`, `(1/0) hasprefix "+"`,
		"1\n(2)", "1\n[2]", "1\nnot true", "a\n[1]", "1\n-2", "1\n2", "1 2", "1 (2)", "a\n(1)", "(1\n2)", "[1\n2]", "[1\n-2]", "1 +\n2\n3 *\n4", "true\n1 +", "1 +\n\n\n2"} {
		emit("corpus", s)
	}
	// number literal forms (accepted and rejected ones), alone and inside an expression
	for _, n := range []string{"1e5", "1e+5", "1E+5", "1e+05", "1.2.3", "5.", ".5", "1e+999", "1e+308", "1e+309", "0x10", "1_000", "007", "1-2", "1 -2",
		"1 - 2", "2e+", "1e+5e+5", "1..2", "1.e+5", "12a", "1e", "1e+", "\u0661\u0662", "1\u0662", "1.5.", "1e-5", "1e+-5", "0.0000001", "1.0e+2", "1e+5.5", "4e+2e",
		"100000000000000000000000", "1.7976931348623157e+308", "1.7976931348623159e+308", "0e+0", "00", "0.", "1.e", "3e+1x"} {
		emit("number-form", n)
		emit("number-form", n+" + 1")
		emit("number-form", "2 * "+n)
		emit("number-form", "[ "+n+" ]")
		emit("number-form", "- "+n)
	}
	// every binary operator on every pair of literal kinds, several values
	for _, op := range c03BinOps {
		for ka, A := range c03Kinds {
			for kb, B := range c03Kinds {
				n := 3
				if ka == kb {
					n = 8
				}
				for k := 0; k < n; k++ {
					emitI("single-op", A[r.Intn(len(A))]+" "+op+" "+B[r.Intn(len(B))], oneIn(4))
				}
			}
		}
	}
	for _, p := range c03PreOps {
		for _, A := range c03Kinds {
			for _, a := range A {
				emitI("single-prefix", p+" "+a, oneIn(4))
			}
		}
	}
	// operand triples for the pair enumeration: typed ones and rotating kinds
	triples := [][3]string{{"1", "2", "3"}, {"7", "2", "0.5"}, {"true", "false", "true"}, {`"a"`, `"abc"`, `"x"`},
		{"2", `"x"`, "true"}, {"null", "2", `[1, "x"]`}, {"a", "b", "c"}, {"l", "1", "l"}, {"true", "2", "2"}, {"3", "3", "false"}}
	nrot := 2
	if g.Thorough() {
		nrot = 8
	}
	rot := 0
	forms := []string{"A o B p C", "( A o B ) p C", "A o ( B p C )"}
	// typed operands: per operator the kinds of its operands and of its result (0 num 1 str 2 bool 4 list 5 any)
	opKinds := func(o string) (int, int, int) {
		switch o {
		case "+", "-", "*", "/", "//", "%":
			return 0, 0, 0
		case ">=", "<=", ">", "<":
			return 0, 0, 2
		case "==", "!=":
			return 5, 5, 2
		case "and", "or":
			return 2, 2, 2
		case "like", "hasprefix", "hassuffix":
			return 1, 1, 2
		}
		return 5, 4, 2 // in, notin
	}
	typedVals := [6][]string{{"1", "2", "3", "7", "0.5", "10", "2.5", "100"}, {`"a"`, `"abc"`, `"x"`, `"ab"`, `"10"`, `"^a"`, `"b"`},
		{"true", "false"}, {"null"}, {`[1, "x"]`, "[1, 2, 3]", `["a", true]`, "[]", "[2, [1]]"}, {"1", `"a"`, "true", "2", `"x"`}}
	tv := func(k int) string { return typedVals[k][r.Intn(len(typedVals[k]))] }
	fit := func(want, have int) int { // the kind to generate where an operand of kind want is needed
		if want == 5 {
			return have
		}
		return want
	}
	nTyped := 2
	if g.Thorough() {
		nTyped = 6
	}
	for _, o1 := range c03BinOps {
		for _, o2 := range c03BinOps {
			l1, r1, _ := opKinds(o1)
			l2, r2, _ := opKinds(o2)
			for fi, form := range forms {
				ts := triples
				for k := 0; k < nrot; k++ {
					ts = append(ts, [3]string{c03Reps[rot%6], c03Reps[(rot/6)%6], c03Reps[(rot/36)%6]})
					rot += 7
				}
				// value-producing operands for both possible shapes: (A o1 B) o2 C and A o1 (B o2 C)
				for k := 0; k < nTyped; k++ {
					if fi != 2 {
						ts = append(ts, [3]string{tv(fit(l1, 0)), tv(fit(r1, 0)), tv(fit(r2, 0))})
					}
					if fi != 1 {
						ts = append(ts, [3]string{tv(fit(l1, 0)), tv(fit(l2, 0)), tv(fit(r2, 0))})
					}
				}
				for ti, t := range ts {
					src := strings.NewReplacer("A", t[0], "B", t[1], "C", t[2], "o", o1, "p", o2).Replace(form)
					nv := 0
					if ti == 0 || ti == len(ts)-1 || g.Thorough() {
						nv = 1 // layout on the exhaustive pair set
					}
					emitI("pair", src, nv)
				}
			}
		}
	}
	// the assignment as one of the operators of a pair (the tree is compared; evaluation only for `r := …` alone)
	for _, o := range c03BinOps {
		for _, t := range [][3]string{{"1", "2", "3"}, {"true", "false", "true"}, {"a", "b", "c"}} {
			emitI("assign-pair", "r := "+t[1]+" "+o+" "+t[2], 1)
			emitI("assign-pair", "r "+o+" "+t[1]+" := "+t[2], 0)
			emitI("assign-pair", "r := ( "+t[1]+" "+o+" "+t[2]+" )", 0)
			emitI("assign-pair", "( r := "+t[1]+" ) "+o+" "+t[2], 0)
			emitI("assign-pair", "r := s := "+t[2], 0)
		}
	}
	for _, q := range c03PreOps {
		emitI("assign-pair", q+" r := 1", 0)
		emitI("assign-pair", "r := "+q+" 1", 0)
	}
	// prefix operator with a binary operator
	pforms := []string{"q A o B", "q ( A o B )", "( q A ) o B", "A o q B", "A o ( q B )", "q q A o B"}
	for _, q := range c03PreOps {
		for _, o := range c03BinOps {
			for _, form := range pforms {
				for _, t := range triples {
					src := strings.NewReplacer("A", t[0], "B", t[1], "o", o, "q", q).Replace(form)
					emitI("prefix-pair", src, oneIn(6))
				}
			}
		}
	}
	// prefix operator inside an operator pair
	tforms := []string{"q A o B p C", "A o q B p C", "A o B p q C"}
	ttr := [][3]string{{"1", "2", "3"}, {"true", "false", "true"}, {"2", `"x"`, "true"}, {"a", "l", "c"}}
	for _, q := range c03PreOps {
		for _, o1 := range c03BinOps {
			for _, o2 := range c03BinOps {
				for _, form := range tforms {
					for _, t := range ttr {
						src := strings.NewReplacer("A", t[0], "B", t[1], "C", t[2], "o", o1, "p", o2, "q", q).Replace(form)
						emitI("prefix-triple", src, oneIn(12))
					}
				}
			}
		}
	}
	// all operator triples without brackets (quick: one operand quadruple each, thorough: four)
	nQuad := 1
	if g.Thorough() {
		nQuad = 4
	}
	for _, o1 := range c03BinOps {
		for _, o2 := range c03BinOps {
			for _, o3 := range c03BinOps {
				for k := 0; k < nQuad; k++ {
					t := triples[r.Intn(len(triples))]
					d := c03Reps[r.Intn(6)]
					emitI("triple", t[0]+" "+o1+" "+t[1]+" "+o2+" "+t[2]+" "+o3+" "+d, oneIn(8))
				}
			}
		}
	}
	// malformed stream: random token sequences on one line (no identifiers: calls and accesses are
	// outside the fragment); mostly parse errors, exercising the loop's failure paths
	soup := []string{"1", "2", `"a"`, "true", "null", "(", ")", "[", "]", ",", "+", "-", "*", "<", "==", "and", "or", "not", "in", "%", "like"}
	nSoup := 2500
	if g.Thorough() {
		nSoup = 60000
	}
	for i := 0; i < nSoup; i++ {
		n := 1 + r.Intn(6)
		var ts []string
		for k := 0; k < n; k++ {
			ts = append(ts, soup[r.Intn(len(soup))])
		}
		emit("token-soup", strings.Join(ts, " "))
	}
	// assignment is loosest
	for _, o := range c03BinOps {
		for _, t := range triples {
			emitI("assign", "r := "+t[0]+" "+o+" "+t[1], 0)
		}
	}
	for _, q := range c03PreOps {
		emit("assign", "r := "+q+" 1 + 2")
		emit("assign", "r := "+q+" true and false")
	}
	// multi-evaluation: ONE parsed AST evaluated under several environments in a row (every
	// variable rebound in between) — the value may depend on the current environment only,
	// never on an earlier evaluation of the same node (no per-node caching)
	emitM := func(class, src string, envs []string) {
		emitCase(class, c03Case{src: src, envs: envs})
	}
	S := func(v string) string { return "S" + hx(v) }
	emitM("multi-corpus", "s like p", []string{"s=" + S("banana") + ";p=" + S("^a"), "s=" + S("banana") + ";p=" + S("^b"),
		"s=" + S("apple") + ";p=" + S("^b"), "s=" + S("apple") + ";p=" + S("p{3}"), "s=" + S("apple") + ";p=" + S("(")})
	emitM("multi-corpus", `"banana" like p`, []string{"p=" + S("^a"), "p=" + S("^b"), "p=" + S("an"), "p=n"})
	emitM("multi-corpus", "not ( s like p ) or s like q", []string{"s=" + S("a") + ";p=" + S("a") + ";q=" + S("b"),
		"s=" + S("b") + ";p=" + S("a") + ";q=" + S("b"), "s=" + S("c") + ";p=" + S("c") + ";q=" + S("c")})
	// lists as Go sees them: identical backing arrays are equal whatever they hold (NaN), a nil and an
	// empty non-nil slice are not equal
	listVals := []string{"L(Nnan)", "E()", "L()", "L(N3ff0000000000000,Nnan)", "L(L(Nnan))", "L(E())", "L(L())", "L(N3ff0000000000000)", "L(N8000000000000000)", "L(N0000000000000000)"}
	for _, src := range []string{"v == v", "v != v", "v == w", "v in [ v ]", "v in [ w ]", "v notin [ w , v ]", "[ v ] == [ v ]", "[ v ] == [ w ]",
		"v == [ ]", "[ ] == v", "v == [ [ ] ]", "v in v", "[ v , v ] == [ v , w ]", "v == [ 0 / 0 ]", "v >= w", "v hasprefix w", "v == [ 0 ]"} {
		for i := 0; i < len(listVals); i++ {
			var envs []string
			for k := 0; k < 3; k++ {
				a := listVals[(i+k)%len(listVals)]
				b := listVals[(i+2*k)%len(listVals)]
				envs = append(envs, "v="+a+";w="+b)
			}
			emitM("multi-list-identity", src, envs)
		}
	}
	// metamorphic numeric neighbours: x against x +- 1 ulp, x +- 1e-12, x*(1 +- 2^-52), and quotients just
	// below / above an integer; `%` on fractional and negative operands
	N := func(f float64) string {
		if math.IsNaN(f) {
			return "Nnan"
		}
		return fmt.Sprintf("N%016x", math.Float64bits(f))
	}
	bases := []float64{0.1, 0.2, 0.3, 1, 2.5, 1e-10, 1e10, -7.25, 1.0 / 3, 100, 0, 1e-300, 123456.789, -1, 0.7, 4503599627370497, 1e15}
	nNear := 400
	if g.Thorough() {
		nNear = 8000
	}
	for i := 0; i < nNear; i++ {
		x := bases[r.Intn(len(bases))]
		if r.Intn(3) == 0 {
			x = (float64(r.Intn(2000000)) - 1000000) / float64(1+r.Intn(1000))
		}
		near := func() float64 {
			switch r.Intn(7) {
			case 0:
				return math.Nextafter(x, math.Inf(1))
			case 1:
				return math.Nextafter(x, math.Inf(-1))
			case 2:
				return x + 1e-12
			case 3:
				return x - 1e-12
			case 4:
				return x * (1 + 1.0/(1<<52))
			case 5:
				return x + 1e-10
			}
			return x
		}
		var envs []string
		for k := 0; k < 4; k++ {
			envs = append(envs, "v="+N(x)+";w="+N(near()))
		}
		src := []string{"v == w", "v != w", "v < w", "v <= w", "v >= w", "v in [ w ]", "v notin [ 0 , w ]", "[ v ] == [ w ]", "v - w == 0", "v + 0.1 == w + 0.1"}[r.Intn(10)]
		emitM("multi-numeric-neighbours", src, envs)
		// quotients: v = k*w exactly, one ulp below, one ulp above
		w := []float64{1, 2, 3, 0.1, 0.5, 7, -2, 1e-3, 10}[r.Intn(9)]
		k := float64(r.Intn(200) - 100)
		q := k * w
		emitM("multi-numeric-neighbours", "v // w", []string{"v=" + N(q) + ";w=" + N(w), "v=" + N(math.Nextafter(q, math.Inf(1))) + ";w=" + N(w),
			"v=" + N(math.Nextafter(q, math.Inf(-1))) + ";w=" + N(w), "v=" + N(q+1e-12) + ";w=" + N(w), "v=" + N(q-1e-10) + ";w=" + N(w)})
		// % : fractional and negative operands
		fr := func() float64 {
			return []float64{7.5, -7.5, 0.5, -0.5, 2.5, -2.5, 7, -7, 1e15 + 0.5, 3.999999999999999, -3.999999999999999, 10.25, 0.999, 1.5, -1.5, 100.75}[r.Intn(16)]
		}
		emitM("multi-numeric-neighbours", "v % w", []string{"v=" + N(fr()) + ";w=" + N(fr()), "v=" + N(fr()) + ";w=" + N(fr()), "v=" + N(fr()) + ";w=" + N(fr()), "v=" + N(x) + ";w=" + N(fr())})
	}
	mvals := [5][]string{
		{"N0000000000000000", "N3ff0000000000000", "N4000000000000000", "Nc004000000000000", "N3fe0000000000000", "N4024000000000000",
			"N4059000000000000", "N7fe1ccf385ebc8a0", "Nbff0000000000000", "N401c000000000000", "N4008000000000000",
			"Nnan", "N7ff0000000000000", "Nfff0000000000000", "N8000000000000000", "N43e0000000000000", "Nc3e0000000000000",
			"N43dfffffffffffff", "Nc3e0000000000001", "N43d0000000000000"},
		{S(""), S("a"), S("x"), S("abc"), S("banana"), S("apple"), S("10"), S("9"), S("^a"), S("^b"), S("p{3}"), S("("), S("a.c"), S("true"), S("[1 x]"), S("an"),
			S("a\nc"), S("x\ny"), S("a.c"), S("^x.y$"), S("(?i)A"), S("A"), S("a\r\nb"), S("line1\nline2")},
		{"t", "f"},
		{"n"},
		{"L()", "L(N3ff0000000000000," + S("x") + ")", "L(L(N3ff0000000000000))", "L(N3ff0000000000000,N4000000000000000,N4008000000000000)",
			"L(n)", "L(" + S("10") + ",N4024000000000000)", "L(t,f)", "L(" + S("banana") + "," + S("a") + ")",
			"E()", "L(Nnan)", "L(N3ff0000000000000,Nnan)", "L(L(Nnan))", "L(E())", "L(L())", "L(N8000000000000000)"},
	}
	anyVal := func() string { k := r.Intn(5); return mvals[k][r.Intn(len(mvals[k]))] }
	// every operator on two variables, environments over the whole universe
	nPer := 12
	if g.Thorough() {
		nPer = 60
	}
	for _, o := range c03BinOps {
		for i := 0; i < nPer; i++ {
			var envs []string
			ka, kb := r.Intn(5), r.Intn(5)
			for k := 0; k < 4; k++ {
				a, b := mvals[ka][r.Intn(len(mvals[ka]))], mvals[kb][r.Intn(len(mvals[kb]))]
				if r.Intn(4) == 0 {
					a = anyVal()
				}
				if r.Intn(4) == 0 {
					b = anyVal()
				}
				envs = append(envs, "v="+a+";w="+b)
			}
			emitM("multi-single-op", "v "+o+" w", envs)
		}
	}
	for _, q := range c03PreOps {
		for i := 0; i < nPer; i++ {
			emitM("multi-single-op", q+" v", []string{"v=" + anyVal(), "v=" + anyVal(), "v=" + anyVal(), "v=" + anyVal()})
		}
	}
	// random typed trees over variables of a fixed intended kind; each environment gives every
	// variable a value of its kind (mostly) or of any kind
	nMulti := 1500
	if g.Thorough() {
		nMulti = 40000
	}
	pool := []string{"a", "b", "c", "d", "l", "n", "s", "f", "m", "p", "q", "v", "w"}
	for i := 0; i < nMulti; i++ {
		xm := &c03G{g: g, r: r}
		kindOf := map[string]int{}
		for _, v := range pool {
			k := []int{0, 0, 1, 1, 1, 2, 2, 3, 4, 4}[r.Intn(10)]
			kindOf[v] = k
			xm.vars[k] = append(xm.vars[k], v)
		}
		toks := xm.expr([]int{0, 2, 2, 2, 5}[r.Intn(5)], 1+r.Intn(4))
		var envs []string
		for k := 0; k < 2+r.Intn(3); k++ {
			var bs []string
			for _, v := range pool {
				val := mvals[kindOf[v]][r.Intn(len(mvals[kindOf[v]]))]
				if r.Intn(8) == 0 {
					val = anyVal()
				}
				bs = append(bs, v+"="+val)
			}
			envs = append(envs, strings.Join(bs, ";"))
		}
		emitM("multi-random", strings.Join(toks, " "), envs)
	}
	// random trees to depth 6, random parentheses, random layout
	nRandom := 9000
	if g.Thorough() {
		nRandom = 500000
	}
	x := &c03G{g: g, r: r}
	for i := 0; i < nRandom; i++ {
		depth := 1 + r.Intn(6)
		toks := x.expr([]int{0, 2, 2, 5, 4}[r.Intn(5)], depth)
		if r.Intn(12) == 0 {
			toks = append([]string{"r", ":="}, toks...)
		}
		src := strings.Join(toks, " ")
		if r.Intn(2) == 0 {
			emitCase("random", c03Case{src: src, intended: toks})
			continue
		}
		grp := groupOf(src)
		emitCase("random", c03Case{src: src, intended: toks, group: grp})
		v, written := c03JoinW(r, toks, true)
		if v != src {
			emitCase("random-layout", c03Case{src: v, intended: written, group: grp})
		}
	}
	// several expression statements: a line end before a token that cannot continue the expression
	// ends the statement (the `left.Token.Lline < n.Token.Lline` branch of the loop); before an
	// operator it does not
	nStmts := 1500
	if g.Thorough() {
		nStmts = 30000
	}
	for i := 0; i < nStmts; i++ {
		n := 2 + r.Intn(2)
		var sb strings.Builder
		for k := 0; k < n; k++ {
			toks := x.expr([]int{0, 2, 5, 4}[r.Intn(4)], r.Intn(3))
			if k > 0 {
				sb.WriteString([]string{"\n", "\n", " \n ", "\n\n", " "}[r.Intn(5)])
			}
			sb.WriteString(c03Join(r, toks, r.Intn(3) == 0))
		}
		emit("statements", sb.String())
	}
}

// ---------------------------------------------------------------- extractor (go/ast over parser.go)

// c03Kinds: Lean constructor of Ecal.Expr.Kind -> token constant
var c03TableKinds = [][2]string{
	{".num", "TokenNUMBER"}, {".str", "TokenSTRING"}, {".ident", "TokenIDENTIFIER"},
	{".tru", "TokenTRUE"}, {".fls", "TokenFALSE"}, {".null", "TokenNULL"},
	{".lp", "TokenLPAREN"}, {".rp", "TokenRPAREN"}, {".lb", "TokenLBRACK"}, {".rb", "TokenRBRACK"},
	{".comma", "TokenCOMMA"}, {".eof", "TokenEOF"}, {".not", "TokenNOT"},
	{".op .geq", "TokenGEQ"}, {".op .leq", "TokenLEQ"}, {".op .neq", "TokenNEQ"}, {".op .eq", "TokenEQ"},
	{".op .gt", "TokenGT"}, {".op .lt", "TokenLT"},
	{".op .plus", "TokenPLUS"}, {".op .minus", "TokenMINUS"}, {".op .times", "TokenTIMES"}, {".op .div", "TokenDIV"},
	{".op .divint", "TokenDIVINT"}, {".op .modint", "TokenMODINT"},
	{".op .and", "TokenAND"}, {".op .or", "TokenOR"},
	{".op .like", "TokenLIKE"}, {".op .isin", "TokenIN"}, {".op .hasprefix", "TokenHASPREFIX"},
	{".op .hassuffix", "TokenHASSUFFIX"}, {".op .notin", "TokenNOTIN"}, {".op .assign", "TokenASSIGN"},
}

type c03Entry struct {
	node, nud, led string
	binding        int
	found          bool
}

func c03ExprName(e ast.Expr) string {
	switch x := e.(type) {
	case *ast.Ident:
		return x.Name
	case *ast.BasicLit:
		return x.Value
	}
	return "?"
}

// c03Consts evaluates integer constant expressions of package parser: literals, package-level
// constants (resolved recursively), + - * / %, unary -/+, parentheses, conversions int(x).
type c03Consts struct {
	decl map[string]ast.Expr
}

func c03LoadConsts(files []*ast.File) *c03Consts {
	c := &c03Consts{decl: map[string]ast.Expr{}}
	for _, f := range files {
		for _, d := range f.Decls {
			gd, ok := d.(*ast.GenDecl)
			if !ok || gd.Tok != token.CONST {
				continue
			}
			for _, sp := range gd.Specs {
				vs, ok := sp.(*ast.ValueSpec)
				if !ok {
					continue
				}
				for i, n := range vs.Names {
					if i < len(vs.Values) {
						c.decl[n.Name] = vs.Values[i]
					}
				}
			}
		}
	}
	return c
}

// linear evaluates e to coef*self.binding + k (coef 0 for a plain constant)
func (c *c03Consts) linear(e ast.Expr, depth int) (coef, k int, ok bool) {
	if depth > 50 {
		return 0, 0, false
	}
	switch x := e.(type) {
	case *ast.BasicLit:
		if x.Kind != token.INT {
			return 0, 0, false
		}
		n, err := strconv.ParseInt(x.Value, 0, 64)
		return 0, int(n), err == nil
	case *ast.Ident:
		if d, found := c.decl[x.Name]; found {
			return c.linear(d, depth+1)
		}
		return 0, 0, false
	case *ast.ParenExpr:
		return c.linear(x.X, depth+1)
	case *ast.SelectorExpr:
		if id, isID := x.X.(*ast.Ident); isID && id.Name == "self" && x.Sel.Name == "binding" {
			return 1, 0, true
		}
		return 0, 0, false
	case *ast.CallExpr:
		if id, isID := x.Fun.(*ast.Ident); isID && len(x.Args) == 1 && (id.Name == "int" || id.Name == "int64" || id.Name == "int32") {
			return c.linear(x.Args[0], depth+1)
		}
		return 0, 0, false
	case *ast.UnaryExpr:
		a, b, ok := c.linear(x.X, depth+1)
		if !ok {
			return 0, 0, false
		}
		switch x.Op {
		case token.SUB:
			return -a, -b, true
		case token.ADD:
			return a, b, true
		}
		return 0, 0, false
	case *ast.BinaryExpr:
		a1, b1, ok1 := c.linear(x.X, depth+1)
		a2, b2, ok2 := c.linear(x.Y, depth+1)
		if !ok1 || !ok2 {
			return 0, 0, false
		}
		switch x.Op {
		case token.ADD:
			return a1 + a2, b1 + b2, true
		case token.SUB:
			return a1 - a2, b1 - b2, true
		case token.MUL:
			if a1 == 0 {
				return b1 * a2, b1 * b2, true
			}
			if a2 == 0 {
				return a1 * b2, b1 * b2, true
			}
		case token.QUO:
			if a1 == 0 && a2 == 0 && b2 != 0 {
				return 0, b1 / b2, true
			}
		case token.REM:
			if a1 == 0 && a2 == 0 && b2 != 0 {
				return 0, b1 % b2, true
			}
		}
	}
	return 0, 0, false
}

// c03RunArg finds the first call p.run(arg) in the body of function name (any file of the
// package) and returns (usesSelfBinding, constant): arg evaluates to N or to self.binding + N.
func c03RunArg(files []*ast.File, consts *c03Consts, name string) (bool, int, error) {
	for _, file := range files {
		for _, d := range file.Decls {
			fd, ok := d.(*ast.FuncDecl)
			if !ok || fd.Name.Name != name || fd.Recv != nil || fd.Body == nil {
				continue
			}
			var arg ast.Expr
			ast.Inspect(fd.Body, func(n ast.Node) bool {
				if c, ok := n.(*ast.CallExpr); ok && arg == nil {
					if se, ok := c.Fun.(*ast.SelectorExpr); ok && se.Sel.Name == "run" && len(c.Args) == 1 {
						arg = c.Args[0]
					}
				}
				return true
			})
			if arg == nil {
				return false, 0, fmt.Errorf("%s: no call of p.run", name)
			}
			coef, k, ok := consts.linear(arg, 0)
			if !ok || (coef != 0 && coef != 1) {
				return false, 0, fmt.Errorf("%s: argument of p.run cannot be evaluated", name)
			}
			return coef == 1, k, nil
		}
	}
	return false, 0, fmt.Errorf("function %s not found", name)
}

func c03Extract(args []string) int {
	if len(args) != 1 {
		fmt.Fprintln(os.Stderr, "usage: harness C03 -tool extract <out.lean>")
		return 2
	}
	fset := token.NewFileSet()
	names, _ := filepath.Glob(filepath.Join(repoDir(), "parser", "*.go"))
	sort.Strings(names)
	var files []*ast.File
	for _, n := range names {
		if strings.HasSuffix(n, "_test.go") {
			continue
		}
		f, err := goparser.ParseFile(fset, n, nil, 0)
		if err != nil {
			fmt.Fprintln(os.Stderr, err)
			return 1
		}
		files = append(files, f)
	}
	consts := c03LoadConsts(files)
	fields := []string{"Name", "Token", "Meta", "Children", "Runtime", "binding", "nullDenotation", "leftDenotation"}
	entries := map[string]c03Entry{}
	giveUp := "" // a reason why the table cannot be read with certainty (then: exit 1, nothing written)
	// package-level functions (for entries built by a helper)
	funcs := map[string]*ast.FuncDecl{}
	for _, f := range files {
		for _, d := range f.Decls {
			if fd, ok := d.(*ast.FuncDecl); ok && fd.Recv == nil {
				funcs[fd.Name.Name] = fd
			}
		}
	}
	// subst replaces identifiers that are parameters of a helper by the arguments of the call
	var subst func(e ast.Expr, env map[string]ast.Expr) ast.Expr
	subst = func(e ast.Expr, env map[string]ast.Expr) ast.Expr {
		switch x := e.(type) {
		case *ast.Ident:
			if v, ok := env[x.Name]; ok {
				return v
			}
		case *ast.ParenExpr:
			return &ast.ParenExpr{X: subst(x.X, env)}
		case *ast.BinaryExpr:
			return &ast.BinaryExpr{X: subst(x.X, env), Op: x.Op, Y: subst(x.Y, env)}
		case *ast.UnaryExpr:
			return &ast.UnaryExpr{Op: x.Op, X: subst(x.X, env)}
		case *ast.CallExpr:
			args := make([]ast.Expr, len(x.Args))
			for i, a := range x.Args {
				args[i] = subst(a, env)
			}
			return &ast.CallExpr{Fun: x.Fun, Args: args}
		}
		return e
	}
	// entryOf understands: ASTNode{…}, &ASTNode{…}, {…} (elided type), and a call of a helper
	// whose body is a single `return <one of these>` (parameters substituted)
	var entryOf func(v ast.Expr, env map[string]ast.Expr, depth int) (c03Entry, bool)
	entryOf = func(v ast.Expr, env map[string]ast.Expr, depth int) (c03Entry, bool) {
		if depth > 5 {
			return c03Entry{}, false
		}
		switch x := v.(type) {
		case *ast.ParenExpr:
			return entryOf(x.X, env, depth+1)
		case *ast.UnaryExpr:
			if x.Op == token.AND {
				return entryOf(x.X, env, depth+1)
			}
			return c03Entry{}, false
		case *ast.CallExpr:
			id, ok := x.Fun.(*ast.Ident)
			if !ok {
				return c03Entry{}, false
			}
			fd, ok := funcs[id.Name]
			if !ok || fd.Body == nil || len(fd.Body.List) != 1 {
				return c03Entry{}, false
			}
			ret, ok := fd.Body.List[0].(*ast.ReturnStmt)
			if !ok || len(ret.Results) != 1 {
				return c03Entry{}, false
			}
			var params []string
			for _, fl := range fd.Type.Params.List {
				for _, n := range fl.Names {
					params = append(params, n.Name)
				}
			}
			if len(params) != len(x.Args) {
				return c03Entry{}, false
			}
			inner := map[string]ast.Expr{}
			for i, pn := range params {
				inner[pn] = subst(x.Args[i], env)
			}
			return entryOf(ret.Results[0], inner, depth+1)
		case *ast.CompositeLit:
			vals := map[string]ast.Expr{}
			for i, f := range x.Elts {
				if fkv, ok := f.(*ast.KeyValueExpr); ok {
					vals[c03ExprName(fkv.Key)] = subst(fkv.Value, env)
				} else if i < len(fields) {
					vals[fields[i]] = subst(f, env)
				}
			}
			e := c03Entry{node: "\"\"", nud: "nil", led: "nil", found: true}
			name := func(v ast.Expr) (string, bool) {
				switch y := v.(type) {
				case *ast.Ident:
					return y.Name, true
				case *ast.BasicLit:
					return y.Value, true
				}
				return "", false
			}
			ok := true
			if v, has := vals["Name"]; has {
				e.node, ok = name(v)
			}
			if v, has := vals["binding"]; has && ok {
				coef, b, good := consts.linear(v, 0)
				if !good || coef != 0 || b < 0 {
					return c03Entry{}, false
				}
				e.binding = b
			}
			if v, has := vals["nullDenotation"]; has && ok {
				e.nud, ok = name(v)
			}
			if v, has := vals["leftDenotation"]; has && ok {
				e.led, ok = name(v)
			}
			return e, ok
		}
		return c03Entry{}, false
	}
	nmaps := 0
	isMapIndex := func(e ast.Expr) (ast.Expr, bool) {
		ix, ok := e.(*ast.IndexExpr)
		if !ok {
			return nil, false
		}
		id, ok := ix.X.(*ast.Ident)
		return ix.Index, ok && id.Name == "astNodeMap"
	}
	visit := func(n ast.Node) bool {
		var rhs ast.Expr
		switch x := n.(type) {
		case *ast.AssignStmt:
			if len(x.Lhs) != 1 || len(x.Rhs) != 1 {
				for _, l := range x.Lhs {
					if _, ok := isMapIndex(l); ok {
						giveUp = "astNodeMap[…] assigned in a multi-assignment"
					}
				}
				return true
			}
			if key, ok := isMapIndex(x.Lhs[0]); ok {
				// a later astNodeMap[TokenX] = … replaces the entry (statements are visited in source order)
				k, isID := key.(*ast.Ident)
				e, good := entryOf(x.Rhs[0], nil, 0)
				if !isID || !good {
					giveUp = "an assignment astNodeMap[…] = … is not understood"
				} else {
					entries[k.Name] = e
				}
				return true
			}
			if id, ok := x.Lhs[0].(*ast.Ident); !ok || id.Name != "astNodeMap" {
				return true
			}
			rhs = x.Rhs[0]
		case *ast.ValueSpec:
			if len(x.Names) != 1 || x.Names[0].Name != "astNodeMap" || len(x.Values) != 1 {
				return true
			}
			rhs = x.Values[0]
		case *ast.CallExpr:
			if id, ok := x.Fun.(*ast.Ident); ok && id.Name == "delete" && len(x.Args) == 2 {
				if a, ok := x.Args[0].(*ast.Ident); ok && a.Name == "astNodeMap" {
					giveUp = "delete(astNodeMap, …)"
				}
			}
			return true
		default:
			return true
		}
		cl, ok := rhs.(*ast.CompositeLit)
		if !ok {
			giveUp = "astNodeMap is not initialised by a map literal"
			return true
		}
		nmaps++
		for _, el := range cl.Elts {
			kv, ok := el.(*ast.KeyValueExpr)
			if !ok {
				giveUp = "astNodeMap literal has an element without a key"
				continue
			}
			k, isID := kv.Key.(*ast.Ident)
			if !isID {
				giveUp = "astNodeMap literal has a key that is not a token constant"
				continue
			}
			e, good := entryOf(kv.Value, nil, 0)
			if !good {
				// an entry that cannot be read: its values are NOT made up
				entries[k.Name] = c03Entry{binding: -1, found: true}
				continue
			}
			entries[k.Name] = e
		}
		return true
	}
	for _, f := range files {
		ast.Inspect(f, visit)
	}
	if nmaps != 1 {
		fmt.Fprintln(os.Stderr, "expected exactly one initialisation of astNodeMap, found", nmaps)
		return 1
	}
	if giveUp != "" {
		fmt.Fprintln(os.Stderr, "astNodeMap not evaluable:", giveUp)
		return 1
	}
	for _, k := range c03TableKinds {
		// every token kind of the fragment must have been found as an evaluable entry (a kind that is
		// really absent from a completely understood map is a fact: unknown token)
		if e, ok := entries[k[1]]; ok && e.binding < 0 {
			fmt.Fprintln(os.Stderr, "entry of", k[1], "cannot be evaluated (not a literal / helper call with constant fields)")
			return 1
		}
	}
	preSelf, preN, err1 := c03RunArg(files, consts, "ndPrefix")
	inSelf, inN, err2 := c03RunArg(files, consts, "ldInfix")
	innerSelf, innerN, err3 := c03RunArg(files, consts, "ndInner")
	listSelf, listN, err4 := c03RunArg(files, consts, "ndList")
	for _, e := range []error{err1, err2, err3, err4} {
		if e != nil {
			fmt.Fprintln(os.Stderr, e)
			return 1
		}
	}
	if !preSelf || !inSelf || innerSelf || listSelf {
		fmt.Fprintln(os.Stderr, "ndPrefix/ldInfix must parse their operand at self.binding (+N), ndInner/ndList at a constant")
		return 1
	}
	nudName := map[string]string{"nil": ".none", "ndTerm": ".term", "ndIdentifier": ".ident", "ndInner": ".inner", "ndList": ".list", "ndPrefix": ".pre"}
	ledName := map[string]string{"nil": ".none", "ldInfix": ".infix"}
	var sb strings.Builder
	sb.WriteString("import Ecal.Model.Expr\n/-! GENERATED by `harness C03 -tool extract` from parser/parser.go (astNodeMap, ndPrefix, ldInfix,\nndInner, ndList) on every run of the check — do not edit. -/\nnamespace Ecal.Gen.C03\nopen Ecal.Expr\n\n")
	col := func(title, typ string, f func(e c03Entry) string, dflt string) {
		sb.WriteString("def " + title + " : Kind → " + typ + "\n")
		for _, k := range c03TableKinds {
			e, ok := entries[k[1]]
			v := dflt
			if ok {
				v = f(e)
			}
			sb.WriteString(fmt.Sprintf("  | %s => %s\n", k[0], v))
		}
		sb.WriteString("  | .other => " + dflt + "   -- not extracted: the driver refuses every other token\n\n")
	}
	col("binding", "Nat", func(e c03Entry) string { return strconv.Itoa(e.binding) }, "0")
	col("nud", "Nud", func(e c03Entry) string {
		if v, ok := nudName[e.nud]; ok {
			return v
		}
		return ".other"
	}, ".other")
	col("led", "Led", func(e c03Entry) string {
		if v, ok := ledName[e.led]; ok {
			return v
		}
		return ".other"
	}, ".other")
	col("node", "String", func(e c03Entry) string { return strconv.Quote(strings.Trim(e.node, "\"")) }, "\"?\"")
	plus := func(n int) int {
		if n > 0 {
			return n
		}
		return 0
	}
	sb.WriteString(fmt.Sprintf("def table : Table :=\n  { binding := binding, nud := nud, led := led, node := node,\n    prefixExtra := %d, prefixSub := %d, infixExtra := %d, infixSub := %d, innerBinding := %d, listBinding := %d }\n\nend Ecal.Gen.C03\n",
		plus(preN), plus(-preN), plus(inN), plus(-inN), innerN, listN))
	os.MkdirAll(filepath.Dir(args[0]), 0755)
	os.Remove(args[0])
	if err := os.WriteFile(args[0], []byte(sb.String()), 0644); err != nil {
		fmt.Fprintln(os.Stderr, err)
		return 1
	}
	return 0
}
