package main

// C11 — concurrent sink invocations are isolated; failures go to their own event.
//
// (1) `harness C11 -tool extract <out.lean>` regenerates lean/Ecal/Gen/C11.lean: for the
//     function literal assigned to rule.Action in interpreter/rt_sink.go and for
//     function.Run in interpreter/rt_func.go the variables assigned inside but
//     declared outside (captured writes), and the captured variables the enclosing
//     function re-assigns after creating the closure / loop variables around it.
// (2) stress: one case = one configuration + seed. A processor with w workers, 1..3
//     sinks, ev events submitted by h goroutines with AddEventAndWait. Every event
//     carries an id and per sink the instruction "fail with type T_<sink>_<id>" or
//     "succeed". Every invocation echoes its id through `event`, through a local,
//     through a shared global function (and counts itself in a mutex-protected
//     global). The expected report is computed per event.
//
//	payload: w=<workers> h=<submitters> ev=<events> sinks=<1..3> ff=<0|1> body=<light|heavy> glob=<0|1> burst=<batch size, 1 = AddEventAndWait>
//	         shadow=<0|1: the declaring scope defines `event` and `v`> nap=<0|1: read-pause-read of event> seed=<n>
//	result : <lost> <duplicated> <mis-attributed> <wrong echoes>      (the model says 0 0 0 0)

import (
	"fmt"
	"os"
	"runtime"
	"strconv"
	"strings"
	"sync"
	"sync/atomic"
	"time"

	"github.com/krotik/ecal/engine"
	"github.com/krotik/ecal/interpreter"
	ecalparser "github.com/krotik/ecal/parser"
	"github.com/krotik/ecal/scope"
	"github.com/krotik/ecal/util"
)

// ---------------------------------------------------------------- stress

type c11Record struct {
	sink          string
	viaEvent      float64
	viaLocal      float64
	viaSharedFunc float64
	firstRead     float64 // event.state.id read at the start of the invocation (before the pause)
}

var c11Mu sync.Mutex
var c11Records []c11Record

func c11Num(v interface{}) float64 {
	if f, ok := v.(float64); ok {
		return f
	}
	return -1
}

func c11Program(sinks int, body string, glob bool, shadow bool, nap bool) string {
	var sb strings.Builder
	if shadow {
		// the DECLARING scope holds variables with the names an invocation scope / a call frame
		// sets itself before it is linked to its parent: they must stay what they are
		sb.WriteString("event := {\"name\" : \"global\", \"kind\" : \"global\", \"state\" : {\"id\" : -7, \"f1\" : 0, \"f2\" : 0, \"f3\" : 0}}\nv := -7\n")
	}
	sb.WriteString("total := 0\nfunc shared(v) {\n    w := v\n    return w\n}\n")
	kinds := []string{`"t.a"`, `"t.*"`, `"t.b"`}
	for s := 1; s <= sinks; s++ {
		fmt.Fprintf(&sb, "sink s%d\n    kindmatch [ %s ],\n    priority %d,\n{\n", s, kinds[s-1], s)
		sb.WriteString("    id := event.state.id\n    loc := id\n")
		if body == "heavy" {
			sb.WriteString("    acc := 0\n    for i in range(1, 6) {\n        acc := acc + i + loc\n    }\n")
		}
		sb.WriteString("    viaf := shared(id)\n")
		if glob {
			sb.WriteString("    mutex cm {\n        total := total + 1\n    }\n")
		}
		if nap {
			// read - pause - read: an overlapping invocation must not change what `event` is here
			sb.WriteString("    x.nap()\n")
		}
		fmt.Fprintf(&sb, "    x.rec(\"s%d\", event.state.id, loc, viaf, id)\n", s)
		fmt.Fprintf(&sb, "    if event.state.f%d == 1 {\n        raise(\"T_s%d_{{id}}\", \"d{{loc}}\", viaf)\n    }\n", s, s)
		fmt.Fprintf(&sb, "    if event.state.f%d == 2 {\n        return loc\n    }\n", s)
		fmt.Fprintf(&sb, "    if event.state.f%d == 3 {\n        x.fail(\"s%d\", viaf)\n    }\n", s, s)
		if body == "heavy" {
			sb.WriteString("    m := {\"k\" : loc}\n    loc := m.k + 0\n")
		}
		sb.WriteString("}\n")
	}
	return sb.String()
}

type c11Event struct {
	id   int
	kind string // "a" | "b"
	fail [4]int // per sink: 0 succeed, 1 raise(T_<sink>_<id>), 2 return <id>, 3 a Go function returning error E_<sink>_<id>
}

// c11Expected: which sinks run for the event and which of them fail.
func c11Expected(e c11Event, sinks int, ff bool) (runs []string, fails []string) {
	for s := 1; s <= sinks; s++ {
		trig := (s == 1 && e.kind == "a") || s == 2 || (s == 3 && e.kind == "b")
		if !trig {
			continue
		}
		runs = append(runs, fmt.Sprintf("s%d", s))
		if e.fail[s] != 0 {
			fails = append(fails, fmt.Sprintf("s%d", s))
			if ff {
				break
			}
		}
	}
	return
}

func c11Run(payload string) string {
	f := map[string]string{}
	for _, kv := range strings.Fields(payload) {
		if i := strings.IndexByte(kv, '='); i > 0 {
			f[kv[:i]] = kv[i+1:]
		}
	}
	w, h, ev, sinks := c13Field(f, "w", 4), c13Field(f, "h", 8), c13Field(f, "ev", 500), c13Field(f, "sinks", 1)
	ff, glob := f["ff"] == "1", f["glob"] == "1"
	shadow, nap := f["shadow"] == "1", f["nap"] == "1"
	burst := c13Field(f, "burst", 1)
	seed, _ := strconv.ParseUint(f["seed"], 10, 64)
	r := NewRand(seed)

	c11Mu.Lock()
	c11Records = nil
	c11Mu.Unlock()

	erp := interpreter.NewECALRuntimeProvider("t", nil, &memLog{})
	defer erp.Cron.Stop()
	proc := engine.NewProcessor(w)
	proc.ThreadPool().TooManyCallback = func() {} // the default prints a warning to stderr
	proc.SetFailOnFirstErrorInTriggerSequence(ff)
	erp.Processor = proc
	vs := scope.NewScope(scope.GlobalScope)
	ast, err := ecalparser.ParseWithRuntime("t", c11Program(sinks, f["body"], glob, shadow, nap), erp)
	if err != nil {
		return "setup-parse-error " + hx(err.Error())
	}
	if err = ast.Runtime.Validate(); err != nil {
		return "setup-validate-error " + hx(err.Error())
	}
	if _, err = ast.Runtime.Eval(vs, make(map[string]interface{}), erp.NewThreadID()); err != nil {
		return "setup-eval-error " + hx(err.Error())
	}
	proc.Start()
	defer proc.Finish()

	events := make([]c11Event, ev)
	for i := range events {
		e := c11Event{id: i, kind: "a"}
		if sinks >= 2 && r.Bool() {
			e.kind = "b"
		}
		for s := 1; s <= 3; s++ {
			if r.Intn(2) == 0 {
				e.fail[s] = 1 + r.Intn(3)
			}
		}
		events[i] = e
	}

	var lost, dup, misattr, echo int
	var progress int64
	var cmu sync.Mutex
	var wg sync.WaitGroup
	start := make(chan struct{})
	for t := 0; t < h; t++ {
		wg.Add(1)
		go func(t int) {
			defer wg.Done()
			<-start
			mkEvent := func(e c11Event) *engine.Event {
				state := map[interface{}]interface{}{"id": float64(e.id), "f1": float64(e.fail[1]), "f2": float64(e.fail[2]), "f3": float64(e.fail[3])}
				return engine.NewEvent(fmt.Sprintf("e%d", e.id), []string{"t", e.kind}, state)
			}
			// judge compares the report of one event with what its payload dictates
			judge := func(e c11Event, rm *engine.RootMonitor, processed bool) {
				l, d, ma := 0, 0, 0
				_, fails := c11Expected(e, sinks, ff)
				seen := map[string]int{}
				if !processed {
					l += len(fails) // the event was not processed at all
				} else {
					for _, te := range rm.AllErrors() {
						if te.Event == nil || c11Num(te.Event.State()["id"]) != float64(e.id) {
							ma++
							continue
						}
						for rule, rerr := range te.ErrorMap {
							ok := false
							if d, isD := rerr.(*util.RuntimeErrorWithDetail); isD && d != nil && d.RuntimeError != nil && d.Type != nil && len(rule) == 2 {
								switch e.fail[int(rule[1]-'0')] {
								case 1:
									ok = d.Type.Error() == fmt.Sprintf("T_%s_%d", rule, e.id) && d.Detail == fmt.Sprintf("d%d", e.id) && c11Num(d.Data) == float64(e.id)
								case 2:
									ok = d.Type == util.ErrReturn && c11Num(d.Data) == float64(e.id)
								case 3:
									ok = strings.Contains(d.Detail, fmt.Sprintf("E_%s_%d;", rule, e.id)) && d.Data == nil
								}
								if env, isScope := d.Environment.(ecalparser.Scope); ok && isScope && env != nil {
									// the environment attached to the error is the invocation's own scope
									if ev, _, _ := env.GetValue("event"); ev != nil {
										if em, isMap := ev.(map[interface{}]interface{}); isMap {
											if st, isMap := em["state"].(map[interface{}]interface{}); isMap && c11Num(st["id"]) != float64(e.id) {
												ok = false
											}
										}
									}
								}
							}
							if !ok {
								ma++ // an error which this invocation's code did not produce for this event
								continue
							}
							seen[rule]++
						}
					}
				}
				for _, s := range fails {
					if seen[s] == 0 {
						l++
					} else if seen[s] > 1 {
						d += seen[s] - 1
					}
					delete(seen, s)
				}
				for range seen {
					ma++ // a correct-looking error for a sink that must not have failed / run
				}
				cmu.Lock()
				lost, dup, misattr = lost+l, dup+d, misattr+ma
				cmu.Unlock()
				atomic.AddInt64(&progress, 1)
			}
			var mine []c11Event
			for i := t; i < len(events); i += h {
				mine = append(mine, events[i])
			}
			if burst <= 1 {
				for _, e := range mine {
					m, err := proc.AddEventAndWait(mkEvent(e), nil)
					if err != nil || m == nil {
						judge(e, nil, false)
					} else {
						judge(e, m.RootMonitor(), true)
					}
				}
				return
			}
			// burst submission: a batch of events is queued without waiting, so the workers
			// run invocations back to back
			for len(mine) > 0 {
				n := burst
				if n > len(mine) {
					n = len(mine)
				}
				batch := mine[:n]
				mine = mine[n:]
				rms := make([]*engine.RootMonitor, n)
				okv := make([]bool, n)
				var bw sync.WaitGroup
				for i, e := range batch {
					rm := proc.NewRootMonitor(nil, nil)
					rm.SetFinishHandler(func(engine.Processor) { bw.Done() })
					bw.Add(1)
					m, err := proc.AddEvent(mkEvent(e), rm)
					if err != nil || m == nil {
						bw.Done()
						continue
					}
					rms[i], okv[i] = rm, true
				}
				bw.Wait()
				for i, e := range batch {
					judge(e, rms[i], okv[i])
				}
			}
		}(t)
	}
	close(start)
	// watchdog: a slow machine is not a hang — only 30 s without a single finished event is
	done := make(chan struct{})
	go func() { wg.Wait(); close(done) }()
	last, lastAt := int64(-1), time.Now()
	for waiting := true; waiting; {
		select {
		case <-done:
			waiting = false
			continue
		case <-time.After(2 * time.Second):
		}
		if p := atomic.LoadInt64(&progress); p != last {
			last, lastAt = p, time.Now()
		} else if time.Since(lastAt) > 30*time.Second {
			return "HANG " + c13StuckFrames()
		}
	}

	// echoes: every expected (sink, id) exactly once, all three routes agree
	want := map[string]int{}
	nInv := 0
	for _, e := range events {
		runs, _ := c11Expected(e, sinks, ff)
		for _, s := range runs {
			want[fmt.Sprintf("%s/%d", s, e.id)]++
			nInv++
		}
	}
	c11Mu.Lock()
	recs := c11Records
	c11Records = nil
	c11Mu.Unlock()
	for _, rc := range recs {
		if rc.viaEvent != rc.viaLocal || rc.viaEvent != rc.viaSharedFunc || rc.viaEvent != rc.firstRead {
			echo++
			continue
		}
		k := fmt.Sprintf("%s/%d", rc.sink, int(rc.viaEvent))
		if want[k] <= 0 {
			echo++ // an invocation nobody asked for, or a second one
			continue
		}
		want[k]--
	}
	for _, n := range want {
		echo += n // invocations that never reported
	}
	if shadow {
		// the variables of the declaring scope are untouched
		gev, _, _ := vs.GetValue("event")
		gid := float64(0)
		if em, ok := gev.(map[interface{}]interface{}); ok {
			if st, ok := em["state"].(map[interface{}]interface{}); ok {
				gid = c11Num(st["id"])
			}
		}
		if gid != -7 {
			echo++ // an invocation stored its `event` in the declaring scope
		}
		if gv, _, _ := vs.GetValue("v"); c11Num(gv) != -7 {
			echo++ // a call frame stored its parameter in the declaring scope
		}
	}
	if glob {
		if tot, _, _ := vs.GetValue("total"); c11Num(tot) != float64(nInv) {
			echo++ // the lock-protected global counter lost an update
		}
	}
	CountRun("run.invocations")
	runStats["run.invocations"] += nInv - 1
	return fmt.Sprintf("%d %d %d %d", lost, dup, misattr, echo)
}

func init() {
	register("C11", &Prop{
		Timeout: 300 * time.Second,
		Setup: func() {
			registerX("nap", func(args []interface{}) (interface{}, error) {
				runtime.Gosched()
				time.Sleep(20 * time.Microsecond)
				return nil, nil
			})
			registerX("fail", func(args []interface{}) (interface{}, error) {
				return nil, fmt.Errorf("E_%v_%v;", args[0], args[1])
			})
			registerX("rec", func(args []interface{}) (interface{}, error) {
				if len(args) != 5 {
					return nil, fmt.Errorf("rec: 5 arguments")
				}
				rc := c11Record{fmt.Sprint(args[0]), c11Num(args[1]), c11Num(args[2]), c11Num(args[3]), c11Num(args[4])}
				c11Mu.Lock()
				c11Records = append(c11Records, rc)
				c11Mu.Unlock()
				return nil, nil
			})
		},
		Tool: func(args []string) int {
			if len(args) >= 1 && args[0] == "extract" {
				return c11Extract(args[1:])
			}
			if len(args) >= 1 && args[0] == "program" {
				fmt.Print(c11Program(3, "heavy", true, true, true))
				return 0
			}
			fmt.Fprintln(os.Stderr, "usage: harness C11 -tool extract <out.lean>")
			return 2
		},
		Gen: func(g *Gen) {
			cases, ev := 48, 3000
			if g.Thorough() {
				cases, ev = 240, 5000
			}
			if v := os.Getenv("VERIF_C11_CASES"); v != "" {
				cases, _ = strconv.Atoi(v)
			}
			for c := 0; c < cases; c++ {
				w := []int{2, 3, 4, 8, 16, 6, 12, 16}[g.R.Intn(8)]
				h := []int{2, 4, 8, 16, 32}[g.R.Intn(5)]
				sinks := 1 + g.R.Intn(3)
				ff := g.R.Intn(2)
				body := []string{"light", "light", "heavy"}[g.R.Intn(3)]
				glob := 0
				if g.R.Intn(3) == 0 {
					glob = 1
				}
				g.Count(fmt.Sprintf("workers %02d", w))
				g.Count(fmt.Sprintf("sinks %d", sinks))
				burst := []int{1, 1, 16, 64}[g.R.Intn(4)]
				shadow, nap, evc := 0, 0, ev
				if g.R.Intn(3) == 0 {
					shadow = 1
				}
				if g.R.Intn(3) == 0 {
					nap, evc = 1, ev/3
				}
				g.Count("body " + body)
				g.Count(fmt.Sprintf("burst %02d", burst))
				g.Count(fmt.Sprintf("declaring scope defines event/v %d", shadow))
				g.Count(fmt.Sprintf("read-pause-read %d", nap))
				g.Emit(fmt.Sprintf("w=%d h=%d ev=%d sinks=%d ff=%d body=%s glob=%d burst=%d shadow=%d nap=%d seed=%d", w, h, evc, sinks, ff, body, glob, burst, shadow, nap, g.R.U64()%1000000))
			}
		},
		Run: c11Run,
	})
}
