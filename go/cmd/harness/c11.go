package main

// C11 — concurrent sink invocations are isolated; failures go to their own event.
//
// (1) `harness C11 -tool extract <out.lean>` regenerates lean/Ecal/Gen/C11.lean: for the
//     function literal assigned to rule.Action in interpreter/rt_sink.go and for
//     function.Run in interpreter/rt_func.go the variables assigned inside but
//     declared outside (captured writes), and the captured variables the enclosing
//     function re-assigns after creating the closure / loop variables around it.
// (2) stress: one case = one configuration + seed. A processor with w workers, 1..3
//     sinks, ev events submitted by h goroutines with AddEventAndWait. Every event
//     carries an id and per sink the instruction "fail with type T_<sink>_<id>" or
//     "succeed". Every invocation echoes its id through `event`, through a local,
//     through a shared global function (and counts itself in a mutex-protected
//     global). The expected report is computed per event.
//
//	payload: w=<workers> h=<submitters> ev=<events> sinks=<1..3> ff=<0|1> body=<light|heavy> glob=<0|1> burst=<batch size, 1 = AddEventAndWait>
//	         shadow=<0|1: the declaring scope defines `event` and `v`> nap=<0|1: read-pause-read of event>
//	         feat=<letters: t try/except re-raise, n nested func + lambda, o object via new, d default parameter,
//	               i sinks declared inside a function, x without shared(), c cascade of child events> seed=<n>
//	result : E<errors recorded>:<digest> R<echo records>:<digest> T<global counter|-> S<declaring scope intact 1/0|-> D<duplicate root monitor ids>
//	         digests = sums of per-record hashes of what was OBSERVED (event the error is recorded under, rule, shape and
//	         id / sink named inside the error; echoes: id through event / local / function / first read, acc, m.k).
//	         The Lean driver computes the same line from the payload alone (expected outcome of every (sink, event)).

import (
	"fmt"
	"os"
	"runtime"
	"strconv"
	"strings"
	"sync"
	"sync/atomic"
	"time"

	"github.com/krotik/ecal/engine"
	"github.com/krotik/ecal/interpreter"
	ecalparser "github.com/krotik/ecal/parser"
	"github.com/krotik/ecal/scope"
	"github.com/krotik/ecal/util"
)

// ---------------------------------------------------------------- stress

// c11Mix is the deterministic instruction table of a case: a function of (seed, id, salt) that the
// harness and the Lean driver compute alike (plain integer arithmetic, 15 bits).
func c11Mix(seed uint64, id, salt int) int {
	const P = 2147483647
	a := (seed+1)*1000003 + uint64(id+1)*7919 + uint64(salt)*104729
	x := (a % P) * 48271 % P
	y := (x*x + 12345) % P
	z := (y*69621 + uint64(id) + 1) % P
	return int((z / 8) % 32768)
}

type c11Cfg struct {
	seed            uint64
	sinks           int
	ff, glob, heavy bool
	shadow, nap     bool
	feat            string // t try/except re-raise + finally nap, n nested func + lambda, o object via new, d default parameter, i sinks declared inside a function, x no shared(), c cascade
	w, h, ev, burst int
}

func (c *c11Cfg) has(f byte) bool { return strings.IndexByte(c.feat, f) >= 0 }

func (c *c11Cfg) kind(id int) string {
	if c.sinks >= 2 && c11Mix(c.seed, id, 0)%2 == 1 {
		return "b"
	}
	return "a"
}

// fail: 0 succeed, 1 raise(T_<sink>_<id>, d<id>, id), 2 return id, 3 Go function failing with E_<sink>_<id>,
// 4 a plain scope error that carries the id (out-of-bounds list write at index id+1: the ErrSink branch of the action)
func (c *c11Cfg) fail(id, s int) int {
	m := c11Mix(c.seed, id, s)
	if m%2 == 0 {
		return 1 + (m/2)%4
	}
	return 0
}

// cas: number of child events sink s2 adds for this event
func (c *c11Cfg) cas(id int) int {
	if c.has('c') && c.sinks >= 2 && c11Mix(c.seed, id, 7)%2 == 0 {
		return 2 + c11Mix(c.seed, id, 8)%3
	}
	return 0
}

// every child event makes its sink add two grandchild events (on whatever worker runs the child):
// monitors of ONE root are then created by several workers at once
func c11GrandID(cid, k int) int { return 700000 + (cid-500000)*2 + k }

func c11ChildID(id, j int) int { return 500000 + id*4 + j }

func (c *c11Cfg) childFails(cid int) bool { return c11Mix(c.seed, cid, 1)%2 == 0 }

const c11Mod = 1000003

// record hashes: NOT linear in the fields (a square of a mixed value), so that two records which exchange a
// field — two invocations reporting each other's error or echoing each other's id — change the digest
func c11ErrHash(evid, sinkNo, shape, n, sinkIn int) int {
	x := (evid*1000003 + n*7919 + sinkNo*104729 + shape*1299709 + sinkIn*15485863 + 5) % 2147483647
	return (x*x + x/7 + 13) % c11Mod
}

func c11EchoHash(sinkNo, a, b, cc, d, acc, mk int) int {
	x := (sinkNo*15485863 + a*1000003 + b*7919 + cc*104729 + d*1299709 + acc*611953 + mk*3571 + 11) % 2147483647
	return (x*x + x/7 + 17) % c11Mod
}

func c11Int(v interface{}) int {
	if f, ok := v.(float64); ok && f >= 0 && f < 1e9 && f == float64(int(f)) {
		return int(f)
	}
	return 999983
}

func c11SinkNo(name string) int {
	switch name {
	case "s1":
		return 1
	case "s2":
		return 2
	case "s3":
		return 3
	case "sc":
		return 4
	case "sg":
		return 5
	}
	return 9
}

type c11Digest struct {
	mu     sync.Mutex
	n, sum int
}

func (d *c11Digest) add(h int) {
	d.mu.Lock()
	d.n++
	d.sum = (d.sum + h) % c11Mod
	d.mu.Unlock()
}

var c11Mu sync.Mutex
var c11Echo *c11Digest // echo records of the running case
var c11EchoTag float64 // … which carries this tag in its events (records of an abandoned earlier attempt are ignored)
var c11TagCounter int64

func c11Num(v interface{}) float64 {
	if f, ok := v.(float64); ok {
		return f
	}
	return -1
}

// c11Program: the ECAL program of a case.
func c11Program(c *c11Cfg) string {
	var sb strings.Builder
	if c.shadow {
		// the DECLARING scope holds variables with the names an invocation scope / a call frame
		// sets itself before it is linked to its parent: they must stay what they are
		sb.WriteString("event := {\"name\" : \"global\", \"kind\" : \"global\", \"state\" : {\"id\" : -7, \"f1\" : 0, \"f2\" : 0, \"f3\" : 0, \"cas\" : 0}}\nv := -7\n")
	}
	sb.WriteString("total := 0\nfunc shared(v) {\n    w := v\n    return w\n}\n")
	if c.has('n') {
		sb.WriteString("func outer(a) {\n    func inner(b) {\n        return b\n    }\n    lam := func (q) {\n        return q\n    }\n    return lam(inner(a))\n}\n")
	}
	if c.has('o') {
		sb.WriteString("Box := {\n    \"val\" : 0,\n    \"init\" : func (x0) {\n        this.val := x0\n    },\n    \"get\" : func () {\n        return this.val\n    }\n}\n")
	}
	if c.has('h') {
		sb.WriteString("Mk := {\n    \"mk\" : func (a0) {\n        return {\"v\" : a0, \"w\" : [a0]}\n    }\n}\n")
	}
	if c.has('l') {
		// names the sinks declare with `let`: the declaring scope's variables of these names stay what they are
		sb.WriteString("lt := -9\n")
	}
	if c.has('u') {
		sb.WriteString("last := 0\n")
	}
	if c.has('g') {
		sb.WriteString("func fire(nm, kd, st) {\n    addEvent(nm, kd, st)\n}\n")
	}
	if c.has('d') {
		// the default value is evaluated in the CALLER's scope: it sees the caller's `event`
		sb.WriteString("func withdef(a, b=event.state.id) {\n    return b\n}\n")
	}
	ind := ""
	if c.has('i') {
		sb.WriteString("func declare() {\n")
		ind = "    "
	}
	kinds := []string{`"t.a"`, `"t.*"`, `"t.b"`}
	w := func(format string, args ...interface{}) {
		for _, l := range strings.Split(strings.TrimRight(fmt.Sprintf(format, args...), "\n"), "\n") {
			sb.WriteString(ind + l + "\n")
		}
	}
	for s := 1; s <= c.sinks; s++ {
		w("sink s%d\n    kindmatch [ %s ],\n    priority %d,\n{", s, kinds[s-1], s)
		w("    id := event.state.id\n    loc := id")
		if c.heavy {
			w("    acc := 0\n    for i in range(1, 5) {\n        acc := acc + i + loc\n    }")
		} else {
			w("    acc := loc")
		}
		if c.has('x') {
			w("    viaf := id")
		} else {
			w("    viaf := shared(id)")
		}
		if c.has('n') {
			w("    viaf := outer(viaf)")
		}
		if c.has('o') {
			w("    bx := new(Box, viaf)\n    viaf := bx.get()")
		}
		if c.has('d') {
			w("    viaf := viaf + withdef(1) - id")
		}
		if c.has('h') {
			// an access AFTER a call: the result of the call lives in a scope of its own
			w("    viaf := Mk.mk(viaf).v + Mk.mk(id).w[0] - id")
		}
		if c.has('l') {
			w("    let lt := id\n    for li9 in [id] {\n        let lt2 := li9\n        viaf := viaf + lt2 - lt\n    }")
		}
		if c.has('f') {
			w("    acc2 := 0\n    for e in [1, 2, id + 10, 4] {\n        if e == 2 {\n            continue\n        }\n        if e == 4 {\n            break\n        }\n        acc2 := acc2 + e\n    }")
			w("    mp0 := {\"a\" : id}\n    for [k0, v0] in mp0 {\n        acc2 := acc2 + v0\n    }")
			w("    try {\n        raise(\"X{{id}}\")\n    } except \"nomatch\" as e1 {\n        acc2 := -1\n    } except e2 {\n        acc2 := acc2 - id\n    } otherwise {\n        acc2 := -2\n    }")
			w("    viaf := viaf + acc2 - 11 - id")
		}
		if c.has('u') {
			w("    last := id")
		}
		if c.has('k') {
			// closures declared in the invocation which read its local AFTER a pause
			w("    func getid() {\n        return id\n    }\n    lam2 := func () {\n        return loc\n    }\n    x.nap()\n    viaf := viaf + getid() - id + lam2() - loc")
		}
		w("    if event.name != \"n{{id %% 5}}\" or event.kind != \"t.%s\" {\n        viaf := -1\n    }", "{{event.state.kk}}")
		if c.glob {
			w("    mutex cm {\n        total := total + 1\n    }")
		}
		if c.nap {
			// read - pause - read: an overlapping invocation must not change what `event` is here
			w("    x.nap()")
		}
		w("    m := {\"k\" : loc}")
		w("    x.rec(\"s%d\", event.state.id, loc, viaf, id, acc, m.k, event.state.rt)", s)
		if s == 2 && c.has('c') {
			// (not in a loop: a loop body gets a fresh instance state without the monitor, addEvent would
			// then start an unrelated root monitor)
			for j := 1; j <= 4; j++ {
				add := "addEvent"
				if c.has('g') {
					add = "fire" // through a function: the call frame has a fresh instance state
				}
				w("    if event.state.cas >= %d {\n        cid%d := 500000 + id * 4 + %d\n        %s(\"c{{cid%d}}\", \"c.x\", {\"id\" : cid%d, \"f1\" : event.state.c%d, \"g1\" : event.state.g%da, \"g2\" : event.state.g%db, \"rt\" : event.state.rt})\n    }", j, j, j-1, add, j, j, j, j, j)
			}
		}
		if c.has('t') {
			w("    if event.state.f%d == 1 {\n        try {\n            try {\n                raise(\"T_s%d_{{id}}\", \"d{{loc}}\", viaf)\n            } finally {\n                x.nap()\n            }\n        } except e {\n            x.nap()\n            raise(e.type, e.detail, e.data)\n        }\n    }", s, s)
		} else {
			w("    if event.state.f%d == 1 {\n        raise(\"T_s%d_{{id}}\", \"d{{loc}}\", viaf)\n    }", s, s)
		}
		w("    if event.state.f%d == 2 {\n        return loc\n    }", s)
		w("    if event.state.f%d == 3 {\n        x.fail(\"s%d\", viaf)\n    }", s, s)
		w("    if event.state.f%d == 4 {\n        lst := [1]\n        lst[viaf + 1] := 0\n    }", s)
		w("}")
	}
	if c.has('c') {
		w("sink sc\n    kindmatch [ \"c.x\" ],\n    priority 1,\n{")
		w("    cid := event.state.id\n    cl := cid\n    x.rec(\"sc\", event.state.id, cl, cid, cid, cl, cid, event.state.rt)")
		w("    gid1 := 700000 + (cid - 500000) * 2\n    addEvent(\"g{{gid1}}\", \"g.x\", {\"id\" : gid1, \"f1\" : event.state.g1, \"rt\" : event.state.rt})")
		w("    gid2 := gid1 + 1\n    addEvent(\"g{{gid2}}\", \"g.x\", {\"id\" : gid2, \"f1\" : event.state.g2, \"rt\" : event.state.rt})")
		w("    if event.state.f1 == 1 {\n        raise(\"T_sc_{{cid}}\", \"d{{cl}}\", cid)\n    }\n}")
		w("sink sg\n    kindmatch [ \"g.x\" ],\n    priority 1,\n{")
		w("    gid := event.state.id\n    gl := gid\n    x.rec(\"sg\", event.state.id, gl, gid, gid, gl, gid, event.state.rt)")
		w("    if event.state.f1 == 1 {\n        raise(\"T_sg_{{gid}}\", \"d{{gl}}\", gid)\n    }\n}")
	}
	if c.has('i') {
		sb.WriteString("}\ndeclare()\n")
	}
	return sb.String()
}

// c11ExpectedLine mirrors the Lean driver (Ecal.Drv.C11): the result line the payload dictates.
// It is NOT used by the check (the model side of the comparison is the Lean driver); it serves
// `harness C11 -tool expect <payload>` when reading a replay.
func c11ExpectedLine(c *c11Cfg, spec bool) string {
	en, es, rn, rs, inv := 0, 0, 0, 0, 0
	for id := 0; id < c.ev; id++ {
		kind := c.kind(id)
		for s := 1; s <= c.sinks; s++ {
			if !((s == 1 && kind == "a") || s == 2 || (s == 3 && kind == "b")) {
				continue
			}
			inv++
			acc := id
			if c.heavy {
				acc = 15 + 5*id
			}
			rn++
			rs = (rs + c11EchoHash(s, id, id, id, id, acc, id)) % c11Mod
			if s == 2 {
				for j := 0; j < c.cas(id); j++ {
					cid := c11ChildID(id, j)
					rn++
					rs = (rs + c11EchoHash(4, cid, cid, cid, cid, cid, cid)) % c11Mod
					if c.childFails(cid) && !(c.has('g') && !spec) {
						en++
						es = (es + c11ErrHash(cid, 4, 1, cid, 4)) % c11Mod
					}
					for k := 0; k < 2; k++ {
						gid := c11GrandID(cid, k)
						rn++
						rs = (rs + c11EchoHash(5, gid, gid, gid, gid, gid, gid)) % c11Mod
						if c.childFails(gid) && !(c.has('g') && !spec) {
							en++
							es = (es + c11ErrHash(gid, 5, 1, gid, 5)) % c11Mod
						}
					}
				}
			}
			if f := c.fail(id, s); f != 0 {
				en++
				es = (es + c11ErrHash(id, s, f, id, s)) % c11Mod
				if c.ff {
					break
				}
			}
		}
	}
	tot, sh := "-", "-"
	if c.glob {
		tot = fmt.Sprint(inv)
	}
	if c.shadow {
		sh = "1"
	}
	return fmt.Sprintf("E%d:%d R%d:%d T%s S%s D0", en, es, rn, rs, tot, sh)
}

func c11ParseCfg(payload string) *c11Cfg {
	f := map[string]string{}
	for _, kv := range strings.Fields(payload) {
		if i := strings.IndexByte(kv, '='); i > 0 {
			f[kv[:i]] = kv[i+1:]
		}
	}
	c := &c11Cfg{w: c13Field(f, "w", 4), h: c13Field(f, "h", 8), ev: c13Field(f, "ev", 500), sinks: c13Field(f, "sinks", 1),
		burst: c13Field(f, "burst", 1), ff: f["ff"] == "1", glob: f["glob"] == "1", heavy: f["body"] == "heavy",
		shadow: f["shadow"] == "1", nap: f["nap"] == "1", feat: f["feat"]}
	c.seed, _ = strconv.ParseUint(f["seed"], 10, 64)
	if c.feat == "-" {
		c.feat = ""
	}
	return c
}

// c11Classify turns one recorded error into (shape, n, sink named in the error): what the
// invocation's code produced, read back from the error object alone.
func c11Classify(rule string, evid int, rerr error) (shape, n, sinkIn int) {
	d, isD := rerr.(*util.RuntimeErrorWithDetail)
	if !isD || d == nil || d.RuntimeError == nil || d.Type == nil {
		return 9, 0, 0
	}
	shape, n, sinkIn = 9, 0, 0
	typ := d.Type.Error()
	switch {
	case d.Type == util.ErrReturn:
		shape, n, sinkIn = 2, c11Int(d.Data), c11SinkNo(rule)
	case strings.HasPrefix(typ, "T_"):
		parts := strings.Split(typ, "_")
		if len(parts) == 3 {
			if k, err := strconv.Atoi(parts[2]); err == nil && d.Detail == fmt.Sprintf("d%d", k) && c11Int(d.Data) == k {
				shape, n, sinkIn = 1, k, c11SinkNo(parts[1])
			}
		}
	case d.Type == util.ErrSink && strings.Contains(d.Detail, "with index: "):
		if k, err := strconv.Atoi(strings.TrimSpace(d.Detail[strings.Index(d.Detail, "with index: ")+len("with index: "):])); err == nil && d.Data == nil {
			shape, n, sinkIn = 4, k-1, c11SinkNo(rule)
		}
	default:
		if i := strings.Index(d.Detail, "E_"); i >= 0 && d.Data == nil {
			rest := d.Detail[i+2:]
			if j := strings.IndexByte(rest, ';'); j > 0 {
				parts := strings.Split(rest[:j], "_")
				if len(parts) == 2 {
					if k, err := strconv.Atoi(parts[1]); err == nil {
						shape, n, sinkIn = 3, k, c11SinkNo(parts[0])
					}
				}
			}
		}
	}
	// the environment attached to the error is the invocation's own scope
	if env, isScope := d.Environment.(ecalparser.Scope); isScope && env != nil {
		if ev, _, _ := env.GetValue("event"); ev != nil {
			if em, isMap := ev.(map[interface{}]interface{}); isMap {
				if st, isMap := em["state"].(map[interface{}]interface{}); isMap && c11Int(st["id"]) != evid {
					shape += 10
				}
			}
		}
	}
	return
}

func c11Run(payload string) string {
	if s := concSkip(); s != "" {
		return s
	}
	return concDeadline(func() string { return c11RunCase(payload) }, 100*time.Second)
}

func c11RunCase(payload string) string {
	c := c11ParseCfg(payload)
	echo := &c11Digest{}
	tag := float64(atomic.AddInt64(&c11TagCounter, 1))
	c11Mu.Lock()
	c11Echo, c11EchoTag = echo, tag
	c11Mu.Unlock()

	erp := interpreter.NewECALRuntimeProvider("t", nil, &memLog{})
	defer erp.Cron.Stop()
	proc := engine.NewProcessor(c.w)
	proc.ThreadPool().TooManyCallback = func() {} // the default prints a warning to stderr
	proc.SetFailOnFirstErrorInTriggerSequence(c.ff)
	erp.Processor = proc
	vs := scope.NewScope(scope.GlobalScope)
	ast, err := ecalparser.ParseWithRuntime("t", c11Program(c), erp)
	if err != nil {
		return "setup-parse-error " + hx(err.Error())
	}
	if err = ast.Runtime.Validate(); err != nil {
		return "setup-validate-error " + hx(err.Error())
	}
	if _, err = ast.Runtime.Eval(vs, make(map[string]interface{}), erp.NewThreadID()); err != nil {
		return "setup-eval-error " + hx(err.Error())
	}
	proc.Start()
	defer proc.Finish()

	errs := &c11Digest{}
	var progress int64
	var wg sync.WaitGroup
	start := make(chan struct{})
	mkEvent := func(id int) *engine.Event {
		state := map[interface{}]interface{}{"id": float64(id), "f1": float64(c.fail(id, 1)), "f2": float64(c.fail(id, 2)),
			"f3": float64(c.fail(id, 3)), "cas": float64(c.cas(id))}
		b2f := func(b bool) float64 {
			if b {
				return 1
			}
			return 0
		}
		for j := 1; j <= 4 && c.has('c'); j++ {
			cid := c11ChildID(id, j-1)
			state[fmt.Sprintf("c%d", j)] = b2f(c.childFails(cid))
			state[fmt.Sprintf("g%da", j)] = b2f(c.childFails(c11GrandID(cid, 0)))
			state[fmt.Sprintf("g%db", j)] = b2f(c.childFails(c11GrandID(cid, 1)))
		}
		state["kk"] = c.kind(id)
		state["rt"] = tag
		return engine.NewEvent(fmt.Sprintf("n%d", id%5), []string{"t", c.kind(id)}, state) // several events share a name
	}
	// collect: every error recorded under the root monitor of an event, as it is
	var idMu sync.Mutex
	rootIDs := map[uint64]int{}
	collect := func(rm *engine.RootMonitor) {
		idMu.Lock()
		rootIDs[rm.ID()]++ // every event was given its own root monitor: the ids must be distinct
		idMu.Unlock()
		for _, te := range rm.AllErrors() {
			evid := 999983
			if te.Event != nil {
				evid = c11Int(te.Event.State()["id"])
			}
			for rule, rerr := range te.ErrorMap {
				shape, n, sinkIn := c11Classify(rule, evid, rerr)
				if os.Getenv("C11_DEBUG") != "" {
					fmt.Fprintln(os.Stderr, "recorded:", evid, rule, shape, n, sinkIn, rerr)
				}
				errs.add(c11ErrHash(evid, c11SinkNo(rule), shape, n, sinkIn))
			}
		}
		atomic.AddInt64(&progress, 1)
	}
	for t := 0; t < c.h; t++ {
		wg.Add(1)
		go func(t int) {
			defer wg.Done()
			<-start
			var mine []int
			for i := t; i < c.ev; i += c.h {
				mine = append(mine, i)
			}
			if c.burst <= 1 {
				for _, id := range mine {
					m, err := proc.AddEventAndWait(mkEvent(id), nil)
					if err == nil && m != nil {
						collect(m.RootMonitor())
					} else {
						atomic.AddInt64(&progress, 1)
					}
				}
				return
			}
			// burst submission: a batch of events is queued without waiting, so the workers
			// run invocations back to back
			for len(mine) > 0 {
				n := c.burst
				if n > len(mine) {
					n = len(mine)
				}
				batch := mine[:n]
				mine = mine[n:]
				rms := make([]*engine.RootMonitor, n)
				var bw sync.WaitGroup
				for i, id := range batch {
					rm := proc.NewRootMonitor(nil, nil)
					rm.SetFinishHandler(func(engine.Processor) { bw.Done() })
					bw.Add(1)
					m, err := proc.AddEvent(mkEvent(id), rm)
					if err != nil || m == nil {
						bw.Done()
						continue
					}
					rms[i] = rm
				}
				bw.Wait()
				for i := range batch {
					if rms[i] != nil {
						collect(rms[i])
					} else {
						atomic.AddInt64(&progress, 1)
					}
				}
			}
		}(t)
	}
	close(start)
	// watchdog: a slow machine is not a hang — only 30 s without a single finished event is
	done := make(chan struct{})
	go func() { wg.Wait(); close(done) }()
	last, lastAt := int64(-1), time.Now()
	for waiting := true; waiting; {
		select {
		case <-done:
			waiting = false
			continue
		case <-time.After(2 * time.Second):
		}
		if p := atomic.LoadInt64(&progress); p != last {
			last, lastAt = p, time.Now()
		} else if time.Since(lastAt) > 30*time.Second {
			return concStuck()
		}
	}

	if c.has('g') && c.has('c') {
		// children fired through a function run under root monitors of their own (known finding): nobody waits
		// for them — give them time to finish so that the echo records are complete
		wantRec := 0
		fmt.Sscanf(c11ExpectedLine(c, false), "E%d:%d R%d", new(int), new(int), &wantRec)
		for dl := time.Now().Add(20 * time.Second); time.Now().Before(dl); {
			echo.mu.Lock()
			n := echo.n
			echo.mu.Unlock()
			if n >= wantRec {
				break
			}
			time.Sleep(5 * time.Millisecond)
		}
	}
	tot, shadow := "-", "-"
	if c.glob {
		v, _, _ := vs.GetValue("total")
		tot = fmt.Sprint(c11Int(v))
	}
	if c.shadow {
		// the variables of the declaring scope are untouched
		shadow = "1"
		gev, _, _ := vs.GetValue("event")
		gid := float64(0)
		if em, ok := gev.(map[interface{}]interface{}); ok {
			if st, ok := em["state"].(map[interface{}]interface{}); ok {
				gid = c11Num(st["id"])
			}
		}
		if gv, _, _ := vs.GetValue("v"); gid != -7 || c11Num(gv) != -7 {
			shadow = "0" // an invocation / a call frame stored into the declaring scope
		}
	}
	if c.has('l') {
		lt, _, _ := vs.GetValue("lt")
		if c11Num(lt) != -9 {
			shadow = "0" // `let` / a loop variable wrote the declaring scope's variable of that name
		} else if shadow == "-" {
			shadow = "1"
		}
	}
	runStats["run.invocations"] += echo.n
	dupIDs := 0
	for _, n := range rootIDs {
		dupIDs += n - 1
	}
	return fmt.Sprintf("E%d:%d R%d:%d T%s S%s D%d", errs.n, errs.sum, echo.n, echo.sum, tot, shadow, dupIDs)
}

func init() {
	register("C11", &Prop{
		Timeout: 300 * time.Second,
		Setup: func() {
			registerX("nap", func(args []interface{}) (interface{}, error) {
				runtime.Gosched()
				time.Sleep(20 * time.Microsecond)
				return nil, nil
			})
			registerX("fail", func(args []interface{}) (interface{}, error) {
				return nil, fmt.Errorf("E_%v_%v;", args[0], args[1])
			})
			registerX("rec", func(args []interface{}) (interface{}, error) {
				if len(args) != 8 {
					return nil, fmt.Errorf("rec: 8 arguments")
				}
				h := c11EchoHash(c11SinkNo(fmt.Sprint(args[0])), c11Int(args[1]), c11Int(args[2]), c11Int(args[3]), c11Int(args[4]), c11Int(args[5]), c11Int(args[6]))
				c11Mu.Lock()
				d, tg := c11Echo, c11EchoTag
				c11Mu.Unlock()
				if d != nil && c11Num(args[7]) == tg {
					d.add(h)
				}
				return nil, nil
			})
		},
		Tool: func(args []string) int {
			if len(args) >= 1 && args[0] == "extract" {
				return c11Extract(args[1:])
			}
			if len(args) >= 2 && args[0] == "eval" { // evaluate a piece of ECAL (debugging aid)
				v, err := evalProgram(args[1], newGlobalScope(), &memLog{})
				fmt.Println(v, err)
				return 0
			}
			if len(args) >= 2 && args[0] == "expect" {
				fmt.Println(c11ExpectedLine(c11ParseCfg(args[1]), false))
				fmt.Println("spec:", c11ExpectedLine(c11ParseCfg(args[1]), true))
				return 0
			}
			if len(args) >= 1 && args[0] == "program" {
				feat := "tnodickhlufg"
				if len(args) > 1 {
					feat = args[1]
				}
				fmt.Print(c11Program(&c11Cfg{sinks: 3, heavy: true, glob: true, shadow: true, nap: true, feat: feat}))
				return 0
			}
			fmt.Fprintln(os.Stderr, "usage: harness C11 -tool extract <out.lean>")
			return 2
		},
		Gen: func(g *Gen) {
			cases, ev := 48, 6000
			if g.Thorough() {
				cases, ev = 240, 15000
			}
			if v := os.Getenv("VERIF_C11_CASES"); v != "" {
				cases, _ = strconv.Atoi(v)
			}
			if v := os.Getenv("VERIF_C11_EVENTS"); v != "" {
				ev, _ = strconv.Atoi(v)
			}
			for c := 0; c < cases; c++ {
				w := []int{2, 3, 4, 8, 16, 6, 12, 16}[g.R.Intn(8)]
				h := []int{2, 4, 8, 16, 32}[g.R.Intn(5)]
				sinks := 1 + g.R.Intn(3)
				ff := g.R.Intn(2)
				body := []string{"light", "light", "heavy"}[g.R.Intn(3)]
				glob := 0
				if g.R.Intn(3) == 0 {
					glob = 1
				}
				burst := []int{1, 1, 16, 64}[g.R.Intn(4)]
				shadow, nap, evc := 0, 0, ev
				if g.R.Intn(3) == 0 {
					shadow = 1
				}
				if g.R.Intn(3) == 0 {
					nap, evc = 1, ev/3
				}
				feat := ""
				for _, f := range "tnodixckhlufg" {
					if g.R.Intn(3) == 0 || (f == 'c' && g.R.Intn(3) == 0) {
						feat += string(f)
					}
				}
				if strings.Contains(feat, "g") && (!strings.Contains(feat, "c") || os.Getenv("VERIF_C11_NO_G") != "") {
					// (without its known-findings line the construct of the known finding is not generated)
					feat = strings.Replace(feat, "g", "", 1)
				}
				if strings.Contains(feat, "c") {
					evc = evc / 3 // every second event then causes 7..13 invocations under one root monitor
					if sinks < 2 {
						sinks = 2
					}

				}
				if strings.ContainsAny(feat, "tnodkhlf") {
					evc = evc / 2
				}
				if strings.Contains(feat, "k") {
					evc = evc / 2 // a pause in every invocation
				}
				if feat == "" {
					feat = "-"
				}
				g.Count(fmt.Sprintf("workers %02d", w))
				g.Count(fmt.Sprintf("sinks %d", sinks))
				g.Count("body " + body)
				g.Count(fmt.Sprintf("burst %02d", burst))
				g.Count(fmt.Sprintf("declaring scope defines event/v %d", shadow))
				g.Count(fmt.Sprintf("read-pause-read %d", nap))
				for _, f := range feat {
					g.Count("feature " + string(f))
				}
				g.Emit(fmt.Sprintf("w=%d h=%d ev=%d sinks=%d ff=%d body=%s glob=%d burst=%d shadow=%d nap=%d feat=%s seed=%d", w, h, evc, sinks, ff, body, glob, burst, shadow, nap, feat, g.R.U64()%1000000))
			}
		},
		Run: c11Run,
	})
}
