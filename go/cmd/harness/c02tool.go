package main

// C02 fact extractor: semantic facts about the synchronisation structure of the cascade
// protocol, re-derived from the source tree under test with go/ast on every run.
//
//	harness C02 -tool facts <out.lean>
//
// Every fact is three-valued: true / false / unknown (the extractor does not recognise the shape
// of the function any more: lock operations inside nested blocks, function missing, …). The Lean
// side (Props/C02.lean, "source facts") demands `some true` for each. Facts do not mention
// positions or local names: renaming locals, adding comments or unrelated statements changes
// nothing; moving a read of the counter out of the critical section, registering an observer
// after the hand-over, calling an asserting accessor in AllErrors … flips a fact.

import (
	"fmt"
	"go/ast"
	"go/token"
	"os"
	"path/filepath"
	"sort"
	"strings"
)

// c02Ev is one relevant operation of a function body, in source order.
type c02Ev struct {
	kind string // lock unlock deferunlock call read write
	name string // callee / field
	held bool   // the function's lock is held here
	pos  token.Pos
}

type c02Fn struct {
	evs     []c02Ev
	unknown bool
}

func c02Sel(e ast.Expr) (x ast.Expr, name string) {
	if s, ok := e.(*ast.SelectorExpr); ok {
		return s.X, s.Sel.Name
	}
	if id, ok := e.(*ast.Ident); ok {
		return nil, id.Name
	}
	return nil, ""
}

// c02IsLockRecv: the receiver expression of Lock/Unlock is the lock of this function
// (a field called `lock`, or the given package-level mutex).
func c02IsLockRecv(e ast.Expr, lockName string) bool {
	_, n := c02Sel(e)
	return n == lockName
}

// c02Walk lists lock operations on lockName, calls (by selector / identifier name) and
// accesses to the fields/variables in `watch`, with the lock state at each point.
func c02Walk(fd *ast.FuncDecl, lockName string, watch map[string]bool) *c02Fn {
	r := &c02Fn{}
	if fd == nil || fd.Body == nil {
		r.unknown = true
		return r
	}
	held, deferred := false, false
	writes := map[ast.Expr]bool{}
	var walkStmt func(s ast.Stmt, depth int)
	exprs := func(n ast.Node, depth int) {
		if n == nil {
			return
		}
		ast.Inspect(n, func(x ast.Node) bool {
			switch v := x.(type) {
			case *ast.FuncLit:
				// a closure runs later (observer callbacks): not part of this function's order
				return false
			case *ast.CallExpr:
				recv, name := c02Sel(v.Fun)
				if (name == "Lock" || name == "Unlock") && recv != nil && c02IsLockRecv(recv, lockName) {
					if depth > 0 {
						r.unknown = true
					}
					if name == "Lock" {
						held = true
						r.evs = append(r.evs, c02Ev{"lock", lockName, true, v.Pos()})
					} else {
						held = deferred
						r.evs = append(r.evs, c02Ev{"unlock", lockName, held, v.Pos()})
					}
					return false
				}
				if name != "" {
					r.evs = append(r.evs, c02Ev{"call", name, held, v.Pos()})
				}
			case *ast.SelectorExpr:
				if watch[v.Sel.Name] {
					k := "read"
					if writes[v] {
						k = "write"
					}
					r.evs = append(r.evs, c02Ev{k, v.Sel.Name, held, v.Pos()})
				}
			case *ast.Ident:
				if watch[v.Name] && v.Obj != nil && v.Obj.Kind == ast.Var {
					k := "read"
					if writes[v] {
						k = "write"
					}
					r.evs = append(r.evs, c02Ev{k, v.Name, held, v.Pos()})
				}
			}
			return true
		})
	}
	walkStmt = func(s ast.Stmt, depth int) {
		switch v := s.(type) {
		case nil:
		case *ast.BlockStmt:
			for _, t := range v.List {
				walkStmt(t, depth)
			}
		case *ast.DeferStmt:
			recv, name := c02Sel(v.Call.Fun)
			if name == "Unlock" && recv != nil && c02IsLockRecv(recv, lockName) {
				if depth > 0 {
					r.unknown = true
				}
				deferred = true
				r.evs = append(r.evs, c02Ev{"deferunlock", lockName, held, v.Pos()})
				return
			}
			exprs(v.Call, depth)
		case *ast.IncDecStmt:
			writes[v.X] = true
			exprs(v.X, depth)
		case *ast.AssignStmt:
			for _, l := range v.Lhs {
				writes[l] = true
			}
			for _, e := range v.Rhs {
				exprs(e, depth)
			}
			for _, l := range v.Lhs {
				exprs(l, depth)
			}
		case *ast.IfStmt:
			walkStmt(v.Init, depth+1)
			exprs(v.Cond, depth+1)
			walkStmt(v.Body, depth+1)
			walkStmt(v.Else, depth+1)
		case *ast.ForStmt:
			walkStmt(v.Init, depth+1)
			exprs(v.Cond, depth+1)
			walkStmt(v.Body, depth+1)
			walkStmt(v.Post, depth+1)
		case *ast.RangeStmt:
			exprs(v.X, depth+1)
			walkStmt(v.Body, depth+1)
		case *ast.SwitchStmt:
			walkStmt(v.Init, depth+1)
			exprs(v.Tag, depth+1)
			walkStmt(v.Body, depth+1)
		case *ast.CaseClause:
			for _, e := range v.List {
				exprs(e, depth+1)
			}
			for _, t := range v.Body {
				walkStmt(t, depth+1)
			}
		case *ast.GoStmt:
			// work moved to another goroutine: order unknown
			r.unknown = true
		default:
			exprs(s, depth)
		}
	}
	walkStmt(fd.Body, 0)
	return r
}

func (f *c02Fn) first(kind, name string) token.Pos {
	for _, e := range f.evs {
		if e.kind == kind && e.name == name {
			return e.pos
		}
	}
	return token.NoPos
}

func (f *c02Fn) all(kind, name string) []c02Ev {
	var out []c02Ev
	for _, e := range f.evs {
		if e.kind == kind && e.name == name {
			out = append(out, e)
		}
	}
	return out
}

type c02Tri int

const (
	c02Unknown c02Tri = iota
	c02False
	c02True
)

func c02B(b bool) c02Tri {
	if b {
		return c02True
	}
	return c02False
}

// ordered: every listed operation occurs, the first occurrences are in this order, and no
// occurrence of a later one precedes an earlier one.
func (f *c02Fn) ordered(ops ...[2]string) c02Tri {
	if f.unknown {
		return c02Unknown
	}
	var prevLast token.Pos
	for _, op := range ops {
		evs := f.all(op[0], op[1])
		if len(evs) == 0 {
			return c02Unknown
		}
		if evs[0].pos < prevLast {
			return c02False
		}
		prevLast = evs[len(evs)-1].pos
	}
	return c02True
}

func c02FindFunc(p *srcPkg, recvType, name string) *ast.FuncDecl {
	for _, f := range p.files {
		for _, d := range f.Decls {
			fd, ok := d.(*ast.FuncDecl)
			if !ok || fd.Name.Name != name {
				continue
			}
			rt := ""
			if fd.Recv != nil && len(fd.Recv.List) == 1 {
				t := fd.Recv.List[0].Type
				if s, ok := t.(*ast.StarExpr); ok {
					t = s.X
				}
				if id, ok := t.(*ast.Ident); ok {
					rt = id.Name
				}
			}
			if rt == recvType {
				return fd
			}
		}
	}
	return nil
}

// c02PostFilter: in EventPump.PostEvent every invocation of a callback taken from the observer
// table is guarded by `key == source || key == nil` where key is the range key over the table
// snapshot and source the function literal's second parameter.
func c02PostFilter(fd *ast.FuncDecl) c02Tri {
	if fd == nil {
		return c02Unknown
	}
	res := c02Unknown
	ast.Inspect(fd.Body, func(n ast.Node) bool {
		fl, ok := n.(*ast.FuncLit)
		if !ok || fl.Type.Params == nil {
			return true
		}
		var params []string
		for _, f := range fl.Type.Params.List {
			for _, id := range f.Names {
				params = append(params, id.Name)
			}
		}
		if len(params) != 2 {
			return true
		}
		src := params[1]
		// outer range: key over the sources map; inner range over callbacks
		ast.Inspect(fl.Body, func(m ast.Node) bool {
			rs, ok := m.(*ast.RangeStmt)
			if !ok || rs.Key == nil {
				return true
			}
			key, ok := rs.Key.(*ast.Ident)
			if !ok || key.Name == "_" {
				return true
			}
			// every call of a range value variable inside rs.Body must be under the guard
			var check func(s ast.Node, guarded bool)
			check = func(s ast.Node, guarded bool) {
				ast.Inspect(s, func(q ast.Node) bool {
					switch v := q.(type) {
					case *ast.IfStmt:
						g := guarded || c02IsSourceGuard(v.Cond, key.Name, src)
						check(v.Body, g)
						if v.Else != nil {
							check(v.Else, guarded)
						}
						return false
					case *ast.RangeStmt:
						if v != rs {
							if val, ok := v.Value.(*ast.Ident); ok {
								ast.Inspect(v.Body, func(c ast.Node) bool {
									if ce, ok := c.(*ast.CallExpr); ok {
										if id, ok := ce.Fun.(*ast.Ident); ok && id.Name == val.Name {
											if guarded {
												if res == c02Unknown {
													res = c02True
												}
											} else {
												res = c02False
											}
										}
									}
									return true
								})
							}
						}
					}
					return true
				})
			}
			check(rs.Body, false)
			return false
		})
		return false
	})
	return res
}

func c02IsSourceGuard(cond ast.Expr, key, src string) bool {
	b, ok := unparen(cond).(*ast.BinaryExpr)
	if !ok || b.Op != token.LOR {
		return false
	}
	eq := func(e ast.Expr, a, c string) bool {
		x, ok := unparen(e).(*ast.BinaryExpr)
		if !ok || x.Op != token.EQL {
			return false
		}
		l, _ := x.X.(*ast.Ident)
		r, _ := x.Y.(*ast.Ident)
		if l == nil || r == nil {
			return false
		}
		return (l.Name == a && r.Name == c) || (l.Name == c && r.Name == a)
	}
	return (eq(b.X, key, src) && eq(b.Y, key, "nil")) || (eq(b.Y, key, src) && eq(b.X, key, "nil"))
}

func c02Facts(root string) ([][2]string, []string, error) {
	eng, err := loadSrcPkg(filepath.Join(root, "engine"))
	if err != nil {
		return nil, nil, err
	}
	pub, err := loadSrcPkg(filepath.Join(root, "engine", "pubsub"))
	if err != nil {
		return nil, nil, err
	}
	var facts [][2]string
	add := func(name string, t c02Tri) {
		v := "none"
		switch t {
		case c02True:
			v = "some true"
		case c02False:
			v = "some false"
		}
		facts = append(facts, [2]string{name, v})
	}
	watch := map[string]bool{"unfinished": true}

	// descendantFinished: the counter is decremented and tested inside one critical section,
	// the message is posted outside it
	df := c02Walk(c02FindFunc(eng, "RootMonitor", "descendantFinished"), "lock", watch)
	if df.unknown || len(df.all("write", "unfinished")) == 0 || len(df.all("read", "unfinished")) == 0 {
		add("zeroTestInsideCriticalSection", c02Unknown)
	} else {
		ok := true
		for _, e := range df.evs {
			if (e.kind == "read" || e.kind == "write") && !e.held {
				ok = false
			}
		}
		add("zeroTestInsideCriticalSection", c02B(ok))
	}
	if pe := df.all("call", "PostEvent"); df.unknown || len(pe) == 0 {
		add("postOutsideCriticalSection", c02Unknown)
	} else {
		ok := true
		for _, e := range pe {
			ok = ok && !e.held
		}
		add("postOutsideCriticalSection", c02B(ok))
	}
	// every write of the counter anywhere in package engine happens under the root's lock
	{
		t := c02Unknown
		n := 0
		for _, f := range eng.files {
			for _, d := range f.Decls {
				fd, ok := d.(*ast.FuncDecl)
				if !ok {
					continue
				}
				w := c02Walk(fd, "lock", watch)
				for _, e := range w.all("write", "unfinished") {
					n++
					if w.unknown {
						t = c02Unknown
						n = -1000
					} else if !e.held {
						t = c02False
					} else if t == c02Unknown && n > 0 {
						t = c02True
					}
				}
			}
		}
		if n < 2 && t == c02True {
			t = c02Unknown // increment and decrement must both be found
		}
		add("counterWritesUnderLock", t)
	}
	// SetErrors: the error object is attached before the monitor is entered into the error map
	se := c02Walk(c02FindFunc(eng, "monitorBase", "SetErrors"), "lock", map[string]bool{"Err": true})
	if se.unknown || len(se.all("write", "Err")) == 0 || len(se.all("call", "descendantFailed")) == 0 {
		add("errorAttachedBeforeRegistered", c02Unknown)
	} else {
		add("errorAttachedBeforeRegistered", c02B(se.all("write", "Err")[0].pos < se.first("call", "descendantFailed")))
	}
	// Finish: declared finished, then counted
	fi := c02Walk(c02FindFunc(eng, "monitorBase", "Finish"), "lock", map[string]bool{"finished": true})
	if fi.unknown || len(fi.all("write", "finished")) == 0 {
		add("finishedFlagBeforeCount", c02Unknown)
	} else {
		add("finishedFlagBeforeCount", c02B(fi.all("write", "finished")[0].pos < fi.first("call", "descendantFinished") && fi.first("call", "descendantFinished") != token.NoPos))
	}
	// Task.Run: the monitor is finished only after ProcessEvent returned
	add("finishAfterProcessEvent", c02Walk(c02FindFunc(eng, "Task", "Run"), "lock", nil).ordered([2]string{"call", "ProcessEvent"}, [2]string{"call", "Finish"}))
	// HandleError: SetErrors, then Finish, then the error observer
	add("handleErrorOrder", c02Walk(c02FindFunc(eng, "Task", "HandleError"), "lock", nil).ordered([2]string{"call", "SetErrors"}, [2]string{"call", "Finish"}, [2]string{"call", "notifyRootMonitorErrors"}))
	// AddEventAndWait: the wait observer is registered before the event is added, the wait comes last
	add("waitObserverBeforeAddEvent", c02Walk(c02FindFunc(eng, "eventProcessor", "AddEventAndWait"), "lock", nil).ordered([2]string{"call", "AddObserver"}, [2]string{"call", "AddEvent"}, [2]string{"call", "Wait"}))
	// AddEvent: triggering test, finish-handler observer, Activate, AddTask in this order
	add("handlerObserverBeforeAddTask", c02Walk(c02FindFunc(eng, "eventProcessor", "AddEvent"), "lock", nil).ordered([2]string{"call", "IsTriggering"}, [2]string{"call", "AddObserver"}, [2]string{"call", "Activate"}, [2]string{"call", "AddTask"}))
	// monitor ids: read and increment of the counter in one critical section
	mi := c02Walk(c02FindFunc(eng, "", "newMonID"), "midcounterLock", map[string]bool{"midcounter": true})
	if mi.unknown || len(mi.all("write", "midcounter")) == 0 || len(mi.all("read", "midcounter")) == 0 {
		add("monitorIdAllocInCriticalSection", c02Unknown)
	} else {
		ok := true
		for _, e := range mi.evs {
			if (e.kind == "read" || e.kind == "write") && !e.held {
				ok = false
			}
		}
		add("monitorIdAllocInCriticalSection", c02B(ok))
	}
	// AllErrors: under the lock, and no asserting accessor
	ae := c02Walk(c02FindFunc(eng, "RootMonitor", "AllErrors"), "lock", map[string]bool{"Err": true, "errors": true})
	var calls []string
	if ae.unknown || len(ae.all("read", "errors")) == 0 {
		add("allErrorsUnderLock", c02Unknown)
	} else {
		ok := true
		for _, e := range ae.evs {
			if (e.kind == "read" || e.kind == "write") && !e.held {
				ok = false
			}
		}
		add("allErrorsUnderLock", c02B(ok))
	}
	seen := map[string]bool{}
	for _, e := range ae.evs {
		if e.kind == "call" && !seen[e.name] {
			seen[e.name] = true
			calls = append(calls, e.name)
		}
	}
	sort.Strings(calls)
	// PostEvent only calls the callbacks registered for the posting source (or for all sources)
	add("postFiltersBySource", c02PostFilter(c02FindFunc(pub, "EventPump", "PostEvent")))
	return facts, calls, nil
}

func c02Tool(args []string) int {
	if len(args) != 2 || args[0] != "facts" {
		fmt.Fprintln(os.Stderr, "usage: harness C02 -tool facts <out.lean>")
		return 2
	}
	facts, calls, err := c02Facts(repoDir())
	if err != nil {
		fmt.Fprintln(os.Stderr, err)
		return 1
	}
	var sb strings.Builder
	sb.WriteString("/-! GENERATED by `harness C02 -tool facts` from engine/monitor.go, engine/processor.go,\nengine/taskqueue.go, engine/pubsub/eventpump.go on every run of the check — do not edit.\n`some true` = the fact holds in the tree under test, `some false` = it does not, `none` = the\nextractor does not recognise the shape of the function any more. -/\nnamespace Ecal.Gen.C02\n\n")
	sb.WriteString("def facts : List (String × Option Bool) := [\n")
	for i, f := range facts {
		c := ","
		if i == len(facts)-1 {
			c = ""
		}
		fmt.Fprintf(&sb, "  (%q, %s)%s\n", f[0], f[1], c)
	}
	sb.WriteString("]\n\n/-- the functions and methods called (by name) in the body of `RootMonitor.AllErrors` -/\n")
	var q []string
	for _, c := range calls {
		q = append(q, fmt.Sprintf("%q", c))
	}
	fmt.Fprintf(&sb, "def allErrorsCalls : List String := [%s]\n\nend Ecal.Gen.C02\n", strings.Join(q, ", "))
	if err := os.WriteFile(args[1], []byte(sb.String()), 0644); err != nil {
		fmt.Fprintln(os.Stderr, err)
		return 1
	}
	return 0
}
