package main

// C02 fact extractor: semantic facts about the synchronisation structure of the cascade
// protocol, re-derived from the source tree under test with go/ast on every run.
//
//	harness C02 -tool facts <out.lean>
//
// Every fact is three-valued: true / false / unknown (the extractor does not recognise the shape
// of the function any more: lock operations inside nested blocks, function missing, …). The Lean
// side (Props/C02.lean, "source facts") demands `some true` for each. Facts do not mention
// positions or local names: renaming locals, adding comments or unrelated statements changes
// nothing; moving a read of the counter out of the critical section, registering an observer
// after the hand-over, calling an asserting accessor in AllErrors … flips a fact.

import (
	"fmt"
	"go/ast"
	"go/token"
	"os"
	"path/filepath"
	"sort"
	"strings"
)

// c02Ev is one relevant operation of a function body, in source order.
type c02Ev struct {
	kind string // lock unlock deferunlock call read write
	name string // callee / field
	held bool   // the function's lock is held here
	pos  token.Pos
}

type c02Fn struct {
	evs     []c02Ev
	unknown bool
}

func c02Sel(e ast.Expr) (x ast.Expr, name string) {
	if s, ok := e.(*ast.SelectorExpr); ok {
		return s.X, s.Sel.Name
	}
	if id, ok := e.(*ast.Ident); ok {
		return nil, id.Name
	}
	return nil, ""
}

// c02IsLockRecv: the receiver expression of Lock/Unlock is the lock of this function
// (a field called `lock`, or the given package-level mutex).
func c02IsLockRecv(e ast.Expr, lockName string) bool {
	_, n := c02Sel(e)
	return n == lockName
}

// c02Walk lists lock operations on lockName, calls (by selector / identifier name) and
// accesses to the fields/variables in `watch`, with the lock state at each point.
func c02Walk(fd *ast.FuncDecl, lockName string, watch map[string]bool) *c02Fn {
	r := &c02Fn{}
	if fd == nil || fd.Body == nil {
		r.unknown = true
		return r
	}
	held, deferred := false, false
	writes := map[ast.Expr]bool{}
	var walkStmt func(s ast.Stmt, depth int)
	exprs := func(n ast.Node, depth int) {
		if n == nil {
			return
		}
		ast.Inspect(n, func(x ast.Node) bool {
			switch v := x.(type) {
			case *ast.FuncLit:
				// a closure runs later (observer callbacks): not part of this function's order
				return false
			case *ast.CallExpr:
				recv, name := c02Sel(v.Fun)
				if (name == "Lock" || name == "Unlock") && recv != nil && c02IsLockRecv(recv, lockName) {
					if depth > 0 {
						r.unknown = true
					}
					if name == "Lock" {
						held = true
						r.evs = append(r.evs, c02Ev{"lock", lockName, true, v.Pos()})
					} else {
						held = deferred
						r.evs = append(r.evs, c02Ev{"unlock", lockName, held, v.Pos()})
					}
					return false
				}
				if name != "" {
					r.evs = append(r.evs, c02Ev{"call", name, held, v.Pos()})
				}
			case *ast.SelectorExpr:
				if watch[v.Sel.Name] {
					k := "read"
					if writes[v] {
						k = "write"
					}
					r.evs = append(r.evs, c02Ev{k, v.Sel.Name, held, v.Pos()})
				}
			case *ast.Ident:
				if watch[v.Name] && v.Obj != nil && v.Obj.Kind == ast.Var {
					k := "read"
					if writes[v] {
						k = "write"
					}
					r.evs = append(r.evs, c02Ev{k, v.Name, held, v.Pos()})
				}
			}
			return true
		})
	}
	walkStmt = func(s ast.Stmt, depth int) {
		switch v := s.(type) {
		case nil:
		case *ast.BlockStmt:
			for _, t := range v.List {
				walkStmt(t, depth)
			}
		case *ast.DeferStmt:
			recv, name := c02Sel(v.Call.Fun)
			if name == "Unlock" && recv != nil && c02IsLockRecv(recv, lockName) {
				if depth > 0 {
					r.unknown = true
				}
				deferred = true
				r.evs = append(r.evs, c02Ev{"deferunlock", lockName, held, v.Pos()})
				return
			}
			exprs(v.Call, depth)
		case *ast.IncDecStmt:
			writes[v.X] = true
			exprs(v.X, depth)
		case *ast.AssignStmt:
			for _, l := range v.Lhs {
				writes[l] = true
			}
			for _, e := range v.Rhs {
				exprs(e, depth)
			}
			for _, l := range v.Lhs {
				exprs(l, depth)
			}
		case *ast.IfStmt:
			walkStmt(v.Init, depth+1)
			exprs(v.Cond, depth+1)
			walkStmt(v.Body, depth+1)
			walkStmt(v.Else, depth+1)
		case *ast.ForStmt:
			walkStmt(v.Init, depth+1)
			exprs(v.Cond, depth+1)
			walkStmt(v.Body, depth+1)
			walkStmt(v.Post, depth+1)
		case *ast.RangeStmt:
			exprs(v.X, depth+1)
			walkStmt(v.Body, depth+1)
		case *ast.SwitchStmt:
			walkStmt(v.Init, depth+1)
			exprs(v.Tag, depth+1)
			walkStmt(v.Body, depth+1)
		case *ast.CaseClause:
			for _, e := range v.List {
				exprs(e, depth+1)
			}
			for _, t := range v.Body {
				walkStmt(t, depth+1)
			}
		case *ast.GoStmt:
			// work moved to another goroutine: order unknown
			r.unknown = true
		default:
			exprs(s, depth)
		}
	}
	walkStmt(fd.Body, 0)
	return r
}

func (f *c02Fn) first(kind, name string) token.Pos {
	for _, e := range f.evs {
		if e.kind == kind && e.name == name {
			return e.pos
		}
	}
	return token.NoPos
}

func (f *c02Fn) all(kind, name string) []c02Ev {
	var out []c02Ev
	for _, e := range f.evs {
		if e.kind == kind && e.name == name {
			out = append(out, e)
		}
	}
	return out
}

type c02Tri int

const (
	c02Unknown c02Tri = iota
	c02False
	c02True
)

func c02B(b bool) c02Tri {
	if b {
		return c02True
	}
	return c02False
}

// ordered: every listed operation occurs, the first occurrences are in this order, and no
// occurrence of a later one precedes an earlier one.
func (f *c02Fn) ordered(ops ...[2]string) c02Tri {
	if f.unknown {
		return c02Unknown
	}
	var prevLast token.Pos
	for _, op := range ops {
		evs := f.all(op[0], op[1])
		if len(evs) == 0 {
			return c02Unknown
		}
		if evs[0].pos < prevLast {
			return c02False
		}
		prevLast = evs[len(evs)-1].pos
	}
	return c02True
}

func c02FindFunc(p *srcPkg, recvType, name string) *ast.FuncDecl {
	for _, f := range p.files {
		for _, d := range f.Decls {
			fd, ok := d.(*ast.FuncDecl)
			if !ok || fd.Name.Name != name {
				continue
			}
			rt := ""
			if fd.Recv != nil && len(fd.Recv.List) == 1 {
				t := fd.Recv.List[0].Type
				if s, ok := t.(*ast.StarExpr); ok {
					t = s.X
				}
				if id, ok := t.(*ast.Ident); ok {
					rt = id.Name
				}
			}
			if rt == recvType {
				return fd
			}
		}
	}
	return nil
}

// c02PostFilter: every invocation of a callback taken from the observer table (a call of the
// value variable of a range nested in a range over the table snapshot) happens only for entries
// whose key is the posting source or nil: inside `if key == src || key == nil { … }`, or after
// `if key != src && key != nil { continue }` in the loop body. src = second parameter of the
// enclosing function (literal or declared). All functions of the package are scanned.
func c02PostFilter(p *srcPkg) c02Tri {
	res := c02Unknown
	scan := func(params *ast.FieldList, body *ast.BlockStmt) {
		if params == nil || body == nil {
			return
		}
		var names []string
		for _, f := range params.List {
			for _, id := range f.Names {
				names = append(names, id.Name)
			}
		}
		if len(names) != 2 {
			return
		}
		src := names[1]
		ast.Inspect(body, func(m ast.Node) bool {
			if _, ok := m.(*ast.FuncLit); ok {
				return false
			}
			rs, ok := m.(*ast.RangeStmt)
			if !ok || rs.Key == nil {
				return true
			}
			key, ok := rs.Key.(*ast.Ident)
			if !ok || key.Name == "_" {
				return true
			}
			var block func(list []ast.Stmt, guarded bool)
			var stmt func(s ast.Stmt, guarded bool)
			calls := func(n ast.Node, val string, guarded bool) {
				ast.Inspect(n, func(c ast.Node) bool {
					if ce, ok := c.(*ast.CallExpr); ok {
						if id, ok := ce.Fun.(*ast.Ident); ok && id.Name == val {
							if guarded {
								if res == c02Unknown {
									res = c02True
								}
							} else {
								res = c02False
							}
						}
					}
					return true
				})
			}
			stmt = func(s ast.Stmt, guarded bool) {
				switch v := s.(type) {
				case *ast.IfStmt:
					block(v.Body.List, guarded || c02IsSourceGuard(v.Cond, key.Name, src))
					if v.Else != nil {
						stmt(v.Else, guarded)
					}
				case *ast.BlockStmt:
					block(v.List, guarded)
				case *ast.RangeStmt:
					if val, ok := v.Value.(*ast.Ident); ok {
						calls(v.Body, val.Name, guarded)
					}
				case *ast.ForStmt:
					block(v.Body.List, guarded)
				}
			}
			block = func(list []ast.Stmt, guarded bool) {
				for _, s := range list {
					if is, ok := s.(*ast.IfStmt); ok && is.Else == nil && c02IsNegatedSourceGuard(is.Cond, key.Name, src) && c02EndsInContinue(is.Body) {
						guarded = true // the rest of the loop body only runs for matching entries
						continue
					}
					stmt(s, guarded)
				}
			}
			block(rs.Body.List, false)
			return false
		})
	}
	for _, f := range p.files {
		ast.Inspect(f, func(n ast.Node) bool {
			switch v := n.(type) {
			case *ast.FuncDecl:
				if v.Type != nil {
					scan(v.Type.Params, v.Body)
				}
			case *ast.FuncLit:
				scan(v.Type.Params, v.Body)
			}
			return true
		})
	}
	return res
}

func c02EndsInContinue(b *ast.BlockStmt) bool {
	if b == nil || len(b.List) == 0 {
		return false
	}
	br, ok := b.List[len(b.List)-1].(*ast.BranchStmt)
	return ok && br.Tok == token.CONTINUE
}

// c02IsNegatedSourceGuard: key != src && key != nil
func c02IsNegatedSourceGuard(cond ast.Expr, key, src string) bool {
	b, ok := unparen(cond).(*ast.BinaryExpr)
	if !ok || b.Op != token.LAND {
		return false
	}
	ne := func(e ast.Expr, a, c string) bool {
		x, ok := unparen(e).(*ast.BinaryExpr)
		if !ok || x.Op != token.NEQ {
			return false
		}
		l, _ := x.X.(*ast.Ident)
		r, _ := x.Y.(*ast.Ident)
		if l == nil || r == nil {
			return false
		}
		return (l.Name == a && r.Name == c) || (l.Name == c && r.Name == a)
	}
	return (ne(b.X, key, src) && ne(b.Y, key, "nil")) || (ne(b.Y, key, src) && ne(b.X, key, "nil"))
}

func c02IsSourceGuard(cond ast.Expr, key, src string) bool {
	b, ok := unparen(cond).(*ast.BinaryExpr)
	if !ok || b.Op != token.LOR {
		return false
	}
	eq := func(e ast.Expr, a, c string) bool {
		x, ok := unparen(e).(*ast.BinaryExpr)
		if !ok || x.Op != token.EQL {
			return false
		}
		l, _ := x.X.(*ast.Ident)
		r, _ := x.Y.(*ast.Ident)
		if l == nil || r == nil {
			return false
		}
		return (l.Name == a && r.Name == c) || (l.Name == c && r.Name == a)
	}
	return (eq(b.X, key, src) && eq(b.Y, key, "nil")) || (eq(b.Y, key, src) && eq(b.X, key, "nil"))
}

func c02Facts(root string) ([][2]string, []string, error) {
	eng, err := loadSrcPkg(filepath.Join(root, "engine"))
	if err != nil {
		return nil, nil, err
	}
	pub, err := loadSrcPkg(filepath.Join(root, "engine", "pubsub"))
	if err != nil {
		return nil, nil, err
	}
	var facts [][2]string
	add := func(name string, t c02Tri) {
		v := "none"
		switch t {
		case c02True:
			v = "some true"
		case c02False:
			v = "some false"
		}
		facts = append(facts, [2]string{name, v})
	}
	watch := map[string]bool{"unfinished": true}

	// `unfinished`: EVERY read (the zero test) and EVERY write (increment, decrement) anywhere in
	// package engine happens while the function holds the root's lock (Lock … Unlock or Lock +
	// deferred Unlock) — however the code is split into helper functions; the finished message
	// is posted from a place where the function does not hold the lock
	{
		reads, writes, posts := c02Unknown, c02Unknown, c02Unknown
		nr, nw := 0, 0
		unknown := false
		for _, f := range eng.files {
			for _, d := range f.Decls {
				fd, ok := d.(*ast.FuncDecl)
				if !ok {
					continue
				}
				w := c02Walk(fd, "lock", watch)
				for _, e := range w.evs {
					switch {
					case e.kind == "read" && e.name == "unfinished":
						nr++
						unknown = unknown || w.unknown
						if !e.held {
							reads = c02False
						} else if reads == c02Unknown {
							reads = c02True
						}
					case e.kind == "write" && e.name == "unfinished":
						nw++
						unknown = unknown || w.unknown
						if !e.held {
							writes = c02False
						} else if writes == c02Unknown {
							writes = c02True
						}
					case e.kind == "call" && e.name == "PostEvent":
						unknown = unknown || w.unknown
						if e.held {
							posts = c02False
						} else if posts == c02Unknown {
							posts = c02True
						}
					}
				}
			}
		}
		if unknown || nr < 1 || nw < 2 {
			if reads != c02False {
				reads = c02Unknown
			}
			if writes != c02False {
				writes = c02Unknown
			}
		}
		add("zeroTestInsideCriticalSection", reads)
		add("postOutsideCriticalSection", posts)
		add("counterWritesUnderLock", writes)
	}
	// SetErrors: the error object is attached before the monitor is entered into the error map
	se := c02Walk(c02FindFunc(eng, "monitorBase", "SetErrors"), "lock", map[string]bool{"Err": true})
	if se.unknown || len(se.all("write", "Err")) == 0 || len(se.all("call", "descendantFailed")) == 0 {
		add("errorAttachedBeforeRegistered", c02Unknown)
	} else {
		add("errorAttachedBeforeRegistered", c02B(se.all("write", "Err")[0].pos < se.first("call", "descendantFailed")))
	}
	// Finish: declared finished, then counted
	fi := c02Walk(c02FindFunc(eng, "monitorBase", "Finish"), "lock", map[string]bool{"finished": true})
	if fi.unknown || len(fi.all("write", "finished")) == 0 {
		add("finishedFlagBeforeCount", c02Unknown)
	} else {
		add("finishedFlagBeforeCount", c02B(fi.all("write", "finished")[0].pos < fi.first("call", "descendantFinished") && fi.first("call", "descendantFinished") != token.NoPos))
	}
	// Task.Run: the monitor is finished only after ProcessEvent returned
	add("finishAfterProcessEvent", c02Walk(c02FindFunc(eng, "Task", "Run"), "lock", nil).ordered([2]string{"call", "ProcessEvent"}, [2]string{"call", "Finish"}))
	// HandleError: SetErrors, then Finish, then the error observer
	add("handleErrorOrder", c02Walk(c02FindFunc(eng, "Task", "HandleError"), "lock", nil).ordered([2]string{"call", "SetErrors"}, [2]string{"call", "Finish"}, [2]string{"call", "notifyRootMonitorErrors"}))
	// AddEventAndWait: the wait observer is registered before the event is added
	add("waitObserverBeforeAddEvent", c02Walk(c02FindFunc(eng, "eventProcessor", "AddEventAndWait"), "lock", nil).ordered([2]string{"call", "AddObserver"}, [2]string{"call", "AddEvent"}))
	// AddEvent: finish-handler observer, Activate, AddTask in this order
	add("handlerObserverBeforeAddTask", c02Walk(c02FindFunc(eng, "eventProcessor", "AddEvent"), "lock", nil).ordered([2]string{"call", "AddObserver"}, [2]string{"call", "Activate"}, [2]string{"call", "AddTask"}))
	// monitor ids: read and increment of the counter in one critical section — or one atomic
	// fetch-and-add whose result is the only use of the counter
	{
		fd := c02FindFunc(eng, "", "newMonID")
		mi := c02Walk(fd, "midcounterLock", map[string]bool{"midcounter": true})
		acc := 0
		allHeld := true
		for _, e := range mi.evs {
			if e.kind == "read" || e.kind == "write" {
				acc++
				allHeld = allHeld && e.held
			}
		}
		adds, others := 0, 0
		if fd != nil {
			ast.Inspect(fd.Body, func(n ast.Node) bool {
				if ce, ok := n.(*ast.CallExpr); ok {
					if _, name := c02Sel(ce.Fun); strings.HasPrefix(name, "Add") && len(ce.Args) == 2 {
						if ue, ok := ce.Args[0].(*ast.UnaryExpr); ok && ue.Op == token.AND {
							if id, ok := ue.X.(*ast.Ident); ok && id.Name == "midcounter" {
								adds++
								return false
							}
						}
					}
				}
				if id, ok := n.(*ast.Ident); ok && id.Name == "midcounter" {
					others++
				}
				return true
			})
		}
		switch {
		case fd == nil || mi.unknown || (acc == 0 && adds == 0):
			add("monitorIdAllocInCriticalSection", c02Unknown)
		case adds == 1 && others == 0:
			add("monitorIdAllocInCriticalSection", c02True)
		default:
			add("monitorIdAllocInCriticalSection", c02B(allHeld && acc >= 2 && adds == 0))
		}
	}
	// AllErrors: under the lock, and no asserting accessor
	ae := c02Walk(c02FindFunc(eng, "RootMonitor", "AllErrors"), "lock", map[string]bool{"Err": true, "errors": true})
	var calls []string
	if ae.unknown || len(ae.all("read", "errors")) == 0 {
		add("allErrorsUnderLock", c02Unknown)
	} else {
		ok := true
		for _, e := range ae.evs {
			if (e.kind == "read" || e.kind == "write") && !e.held {
				ok = false
			}
		}
		add("allErrorsUnderLock", c02B(ok))
	}
	seen := map[string]bool{}
	for _, e := range ae.evs {
		if e.kind == "call" && !seen[e.name] {
			seen[e.name] = true
			calls = append(calls, e.name)
		}
	}
	sort.Strings(calls)
	// PostEvent only calls the callbacks registered for the posting source (or for all sources)
	add("postFiltersBySource", c02PostFilter(pub))
	return facts, calls, nil
}

func c02Tool(args []string) int {
	if len(args) == 1 && args[0] == "probe" {
		return c02ProbeTool()
	}
	if len(args) != 2 || args[0] != "facts" {
		fmt.Fprintln(os.Stderr, "usage: harness C02 -tool facts <out.lean>")
		return 2
	}
	facts, calls, err := c02Facts(repoDir())
	if err != nil {
		fmt.Fprintln(os.Stderr, err)
		return 1
	}
	var sb strings.Builder
	sb.WriteString("/-! GENERATED by `harness C02 -tool facts` from engine/monitor.go, engine/processor.go,\nengine/taskqueue.go, engine/pubsub/eventpump.go on every run of the check — do not edit.\n`some true` = the fact holds in the tree under test, `some false` = it does not, `none` = the\nextractor does not recognise the shape of the function any more. -/\nnamespace Ecal.Gen.C02\n\n")
	sb.WriteString("def facts : List (String × Option Bool) := [\n")
	for i, f := range facts {
		c := ","
		if i == len(facts)-1 {
			c = ""
		}
		fmt.Fprintf(&sb, "  (%q, %s)%s\n", f[0], f[1], c)
	}
	sb.WriteString("]\n\n/-- the functions and methods called (by name) in the body of `RootMonitor.AllErrors` -/\n")
	var q []string
	for _, c := range calls {
		q = append(q, fmt.Sprintf("%q", c))
	}
	fmt.Fprintf(&sb, "def allErrorsCalls : List String := [%s]\n\nend Ecal.Gen.C02\n", strings.Join(q, ", "))
	if err := os.WriteFile(args[1], []byte(sb.String()), 0644); err != nil {
		fmt.Fprintln(os.Stderr, err)
		return 1
	}
	return 0
}
