package main

// C02 fact extractor: semantic facts about the synchronisation structure of the cascade
// protocol, re-derived from the source tree under test with go/ast on every run.
//
//	harness C02 -tool facts <out.lean>
//
// Every fact is three-valued: true / false / not established (none). The Lean side (Props/C02.lean,
// "source facts") demands `≠ some false`: only a REFUTED fact breaks an obligation; `none` is an
// evidence note and amplifies the search of the same run. Facts do not mention
// positions or local names: renaming locals, adding comments or unrelated statements changes
// nothing; moving a read of the counter out of the critical section, registering an observer
// after the hand-over, calling an asserting accessor in AllErrors … flips a fact.

import (
	"fmt"
	"go/ast"
	"go/token"
	"os"
	"path/filepath"
	"sort"
	"strings"
)

// ---------------------------------------------------------------- traces with inlining
//
// c02Trace linearises a function: its statements in source order, calls into functions and
// methods of the SAME package inlined (by name; all candidates when a name is ambiguous; depth
// <= 6; recursion cut) with the caller's lock state. Lock state is semantic: "the lock" is any
// field of mutex type (sync.Mutex / sync.RWMutex, value or pointer) of the struct type that
// declares the watched field — whatever the field is called — or, for a package-level variable,
// any package-level mutex variable. `epoch` counts the Unlocks seen so far: two accesses are in
// the same critical section iff both are held and have the same epoch.

type c02Ev struct {
	kind  string // call read write mapwrite select go recv
	name  string
	held  bool
	epoch int
	via   string // names of the inlined same-package calls this event was reached through ("AddEvent>Activate")
	fn    string // lexical function
}

type c02An struct {
	pkg       *srcPkg
	funcs     map[string][]*ast.FuncDecl
	lockNames map[string]bool // mutex fields of the owner struct + package-level mutex variables
	ownerType string          // the struct type declaring the owner field ("" for a package-level variable)
	imports   map[*ast.FuncDecl]map[string]string
	watch     map[string]bool
}

func c02IsMutexType(e ast.Expr) bool {
	if s, ok := e.(*ast.StarExpr); ok {
		e = s.X
	}
	if s, ok := e.(*ast.SelectorExpr); ok {
		if id, ok := s.X.(*ast.Ident); ok && id.Name == "sync" && (s.Sel.Name == "Mutex" || s.Sel.Name == "RWMutex") {
			return true
		}
	}
	return false
}

// c02NewAn: ownerField names a field; the mutex fields of the struct declaring it are "the lock".
func c02NewAn(p *srcPkg, ownerField string, watch map[string]bool) *c02An {
	a := &c02An{pkg: p, funcs: map[string][]*ast.FuncDecl{}, lockNames: map[string]bool{}, watch: watch,
		imports: map[*ast.FuncDecl]map[string]string{}}
	for _, f := range p.files {
		imps := fileImports(f)
		for _, d := range f.Decls {
			switch v := d.(type) {
			case *ast.FuncDecl:
				a.funcs[v.Name.Name] = append(a.funcs[v.Name.Name], v)
				a.imports[v] = imps
			case *ast.GenDecl:
				for _, sp := range v.Specs {
					switch t := sp.(type) {
					case *ast.TypeSpec:
						st, ok := t.Type.(*ast.StructType)
						if !ok {
							continue
						}
						owns := false
						var mus []string
						for _, fl := range st.Fields.List {
							for _, n := range fl.Names {
								if n.Name == ownerField {
									owns = true
								}
								if c02IsMutexType(fl.Type) {
									mus = append(mus, n.Name)
								}
							}
						}
						if owns {
							a.ownerType = t.Name.Name
							for _, m := range mus {
								a.lockNames[m] = true
							}
						}
					case *ast.ValueSpec:
						// package-level mutex variables (var x = &sync.Mutex{} / var x sync.Mutex)
						if ownerField != "" && !p.vars[ownerField] {
							continue
						}
						for k, n := range t.Names {
							isMu := t.Type != nil && c02IsMutexType(t.Type)
							if k < len(t.Values) {
								v := t.Values[k]
								if u, ok := v.(*ast.UnaryExpr); ok {
									v = u.X
								}
								if cl, ok := v.(*ast.CompositeLit); ok && c02IsMutexType(cl.Type) {
									isMu = true
								}
							}
							if isMu {
								a.lockNames[n.Name] = true
							}
						}
					}
				}
			}
		}
	}
	return a
}

type c02Walker struct {
	a       *c02An
	evs     []c02Ev
	held    bool
	epoch   int
	unknown bool
	stack   map[*ast.FuncDecl]bool
}

func (w *c02Walker) add(kind, name, via, fn string) {
	w.evs = append(w.evs, c02Ev{kind, name, w.held, w.epoch, via, fn})
}

func (w *c02Walker) fn(fd *ast.FuncDecl, via string, depth int) {
	if fd == nil || fd.Body == nil || w.stack[fd] || depth > 6 {
		return
	}
	w.stack[fd] = true
	defer delete(w.stack, fd)
	entryHeld := w.held
	deferred := false
	name := fd.Name.Name
	writes := map[ast.Expr]bool{}
	// declared types of the receiver and the parameters (to tell WHOSE mutex is locked)
	varType := map[string]string{}
	declare := func(fl *ast.FieldList) {
		if fl == nil {
			return
		}
		for _, f := range fl.List {
			t := f.Type
			if st, ok := t.(*ast.StarExpr); ok {
				t = st.X
			}
			if id, ok := t.(*ast.Ident); ok {
				for _, n := range f.Names {
					varType[n.Name] = id.Name
				}
			}
		}
	}
	declare(fd.Recv)
	declare(fd.Type.Params)
	// isTheLock: <x>.<mutex field> with x declared of the owner type, or a package-level mutex variable
	isTheLock := func(recv ast.Expr) bool {
		base, ln := c02Sel(recv)
		if !w.a.lockNames[ln] {
			return false
		}
		if base == nil {
			return w.a.ownerType == "" // package-level mutex variable
		}
		if id, ok := base.(*ast.Ident); ok && w.a.ownerType != "" {
			return varType[id.Name] == w.a.ownerType
		}
		return false
	}
	imps := w.a.imports[fd]
	var stmt func(s ast.Stmt, nest int)
	var expr func(n ast.Node, nest int)
	expr = func(n ast.Node, nest int) {
		if n == nil {
			return
		}
		ast.Inspect(n, func(x ast.Node) bool {
			switch v := x.(type) {
			case *ast.FuncLit:
				return false // runs later (observer callbacks)
			case *ast.UnaryExpr:
				if v.Op == token.ARROW {
					w.add("recv", "", via, name)
				}
			case *ast.CallExpr:
				for _, arg := range v.Args {
					expr(arg, nest)
				}
				recv, cn := c02Sel(v.Fun)
				if (cn == "Lock" || cn == "Unlock" || cn == "RLock" || cn == "RUnlock") && recv != nil {
					if isTheLock(recv) {
						if nest > 0 {
							w.unknown = true
						}
						if cn == "Lock" || cn == "RLock" {
							w.held = true
						} else {
							w.held = false
							w.epoch++
						}
						return false
					}
				}
				if cn == "delete" && len(v.Args) == 2 {
					if se, ok := v.Args[0].(*ast.SelectorExpr); ok && w.a.watch[se.Sel.Name] {
						w.add("mapwrite", se.Sel.Name, via, name)
					}
				}
				if cn != "" {
					w.add("call", cn, via, name)
					if recv != nil {
						expr(recv, nest)
					}
					external := false
					if id, ok := recv.(*ast.Ident); ok && recv != nil {
						if _, isImp := imps[id.Name]; isImp && varType[id.Name] == "" {
							external = true // a function of an imported package
						}
					}
					for _, cand := range w.a.funcs[cn] {
						if external {
							break
						}
						nv := cn
						if via != "" {
							nv = via + ">" + cn
						}
						w.fn(cand, nv, depth+1)
					}
				}
				return false
			case *ast.IndexExpr:
				if se, ok := v.X.(*ast.SelectorExpr); ok && w.a.watch[se.Sel.Name] && writes[v] {
					w.add("mapwrite", se.Sel.Name, via, name)
				}
			case *ast.SelectorExpr:
				if w.a.watch[v.Sel.Name] {
					k := "read"
					if writes[v] {
						k = "write"
					}
					w.add(k, v.Sel.Name, via, name)
				}
			case *ast.Ident:
				if w.a.watch[v.Name] && w.a.pkg.vars[v.Name] {
					k := "read"
					if writes[v] {
						k = "write"
					}
					w.add(k, v.Name, via, name)
				}
			}
			return true
		})
	}
	stmt = func(s ast.Stmt, nest int) {
		switch v := s.(type) {
		case nil:
		case *ast.BlockStmt:
			for _, t := range v.List {
				stmt(t, nest)
			}
		case *ast.DeferStmt:
			recv, cn := c02Sel(v.Call.Fun)
			if (cn == "Unlock" || cn == "RUnlock") && recv != nil {
				if isTheLock(recv) {
					if nest > 0 {
						w.unknown = true
					}
					deferred = true
					return
				}
			}
			expr(v.Call, nest)
		case *ast.IncDecStmt:
			writes[v.X] = true
			expr(v.X, nest)
		case *ast.AssignStmt:
			for _, l := range v.Lhs {
				writes[l] = true
			}
			for _, e := range v.Rhs {
				expr(e, nest)
			}
			for _, l := range v.Lhs {
				expr(l, nest)
			}
		case *ast.IfStmt:
			stmt(v.Init, nest+1)
			expr(v.Cond, nest+1)
			stmt(v.Body, nest+1)
			stmt(v.Else, nest+1)
		case *ast.ForStmt:
			stmt(v.Init, nest+1)
			expr(v.Cond, nest+1)
			stmt(v.Body, nest+1)
			stmt(v.Post, nest+1)
		case *ast.RangeStmt:
			expr(v.X, nest+1)
			stmt(v.Body, nest+1)
		case *ast.SwitchStmt:
			stmt(v.Init, nest+1)
			expr(v.Tag, nest+1)
			stmt(v.Body, nest+1)
		case *ast.CaseClause:
			for _, e := range v.List {
				expr(e, nest+1)
			}
			for _, t := range v.Body {
				stmt(t, nest+1)
			}
		case *ast.SelectStmt:
			n := 0
			if v.Body != nil {
				n = len(v.Body.List)
			}
			w.add("select", fmt.Sprint(n), via, name)
			stmt(v.Body, nest+1)
		case *ast.CommClause:
			stmt(v.Comm, nest+1)
			for _, t := range v.Body {
				stmt(t, nest+1)
			}
		case *ast.GoStmt:
			w.add("go", "", via, name)
		default:
			expr(s, nest)
		}
	}
	stmt(fd.Body, 0)
	if deferred {
		// the deferred Unlock runs at return
		if w.held {
			w.epoch++
		}
		w.held = false
	}
	if w.held != entryHeld && !(deferred && !entryHeld) {
		// a helper that returns with a different lock state than it was entered with
		if depth > 0 {
			w.unknown = true
		}
	}
	if depth > 0 {
		w.held = entryHeld
	}
}

// trace of one function entered without the lock
func (a *c02An) trace(fd *ast.FuncDecl) *c02Walker {
	w := &c02Walker{a: a, stack: map[*ast.FuncDecl]bool{}}
	if fd == nil {
		w.unknown = true
		return w
	}
	w.fn(fd, "", 0)
	return w
}

// roots: the functions of the package no other function of the package calls (by name), plus the
// exported ones — the places where an analysis may assume "lock not held".
func (a *c02An) roots() []*ast.FuncDecl {
	called := map[string]bool{}
	for _, fds := range a.funcs {
		for _, fd := range fds {
			if fd.Body == nil {
				continue
			}
			ast.Inspect(fd.Body, func(n ast.Node) bool {
				if ce, ok := n.(*ast.CallExpr); ok {
					if _, cn := c02Sel(ce.Fun); cn != "" && cn != fd.Name.Name {
						called[cn] = true
					}
				}
				return true
			})
		}
	}
	var out []*ast.FuncDecl
	var names []string
	for n := range a.funcs {
		names = append(names, n)
	}
	sort.Strings(names)
	for _, n := range names {
		if !called[n] || ast.IsExported(n) {
			out = append(out, a.funcs[n]...)
		}
	}
	return out
}

type c02Tri int

const (
	c02Unknown c02Tri = iota
	c02False
	c02True
)

func c02B(b bool) c02Tri {
	if b {
		return c02True
	}
	return c02False
}

func c02FindFunc(p *srcPkg, recvType, name string) *ast.FuncDecl {
	for _, f := range p.files {
		for _, d := range f.Decls {
			fd, ok := d.(*ast.FuncDecl)
			if !ok || fd.Name.Name != name {
				continue
			}
			rt := ""
			if fd.Recv != nil && len(fd.Recv.List) == 1 {
				t := fd.Recv.List[0].Type
				if s, ok := t.(*ast.StarExpr); ok {
					t = s.X
				}
				if id, ok := t.(*ast.Ident); ok {
					rt = id.Name
				}
			}
			if rt == recvType {
				return fd
			}
		}
	}
	return nil
}

func c02Idx(evs []c02Ev, pred func(e c02Ev) bool) int {
	for i, e := range evs {
		if pred(e) {
			return i
		}
	}
	return -1
}

// before: the first event satisfying p comes before the first satisfying q (both must exist,
// otherwise not established)
func c02Before(w *c02Walker, p, q func(e c02Ev) bool) c02Tri {
	i, j := c02Idx(w.evs, p), c02Idx(w.evs, q)
	if w.unknown || i < 0 || j < 0 {
		return c02Unknown
	}
	return c02B(i < j)
}

func c02Sel(e ast.Expr) (x ast.Expr, name string) {
	if s, ok := e.(*ast.SelectorExpr); ok {
		return s.X, s.Sel.Name
	}
	if id, ok := e.(*ast.Ident); ok {
		return nil, id.Name
	}
	return nil, ""
}

// c02PostFilter: every invocation of a callback taken from the observer table (a call of the
// value variable of a range nested in a range over the table snapshot) happens only for entries
// whose key is the posting source or nil: inside `if key == src || key == nil { … }`, or after
// `if key != src && key != nil { continue }` in the loop body. src = second parameter of the
// enclosing function (literal or declared). All functions of the package are scanned.
func c02PostFilter(p *srcPkg) c02Tri {
	res := c02Unknown
	scan := func(params *ast.FieldList, body *ast.BlockStmt) {
		if params == nil || body == nil {
			return
		}
		var names []string
		for _, f := range params.List {
			for _, id := range f.Names {
				names = append(names, id.Name)
			}
		}
		if len(names) != 2 {
			return
		}
		src := names[1]
		ast.Inspect(body, func(m ast.Node) bool {
			if _, ok := m.(*ast.FuncLit); ok {
				return false
			}
			rs, ok := m.(*ast.RangeStmt)
			if !ok || rs.Key == nil {
				return true
			}
			key, ok := rs.Key.(*ast.Ident)
			if !ok || key.Name == "_" {
				return true
			}
			var block func(list []ast.Stmt, guarded bool)
			var stmt func(s ast.Stmt, guarded bool)
			calls := func(n ast.Node, val string, guarded bool) {
				ast.Inspect(n, func(c ast.Node) bool {
					if ce, ok := c.(*ast.CallExpr); ok {
						if id, ok := ce.Fun.(*ast.Ident); ok && id.Name == val {
							if guarded {
								if res == c02Unknown {
									res = c02True
								}
							} else {
								res = c02False
							}
						}
					}
					return true
				})
			}
			stmt = func(s ast.Stmt, guarded bool) {
				switch v := s.(type) {
				case *ast.IfStmt:
					block(v.Body.List, guarded || c02IsSourceGuard(v.Cond, key.Name, src))
					if v.Else != nil {
						stmt(v.Else, guarded)
					}
				case *ast.BlockStmt:
					block(v.List, guarded)
				case *ast.RangeStmt:
					if val, ok := v.Value.(*ast.Ident); ok {
						calls(v.Body, val.Name, guarded)
					}
				case *ast.ForStmt:
					block(v.Body.List, guarded)
				}
			}
			block = func(list []ast.Stmt, guarded bool) {
				for _, s := range list {
					if is, ok := s.(*ast.IfStmt); ok && is.Else == nil && c02IsNegatedSourceGuard(is.Cond, key.Name, src) && c02EndsInContinue(is.Body) {
						guarded = true // the rest of the loop body only runs for matching entries
						continue
					}
					stmt(s, guarded)
				}
			}
			block(rs.Body.List, false)
			return false
		})
	}
	for _, f := range p.files {
		ast.Inspect(f, func(n ast.Node) bool {
			switch v := n.(type) {
			case *ast.FuncDecl:
				if v.Type != nil {
					scan(v.Type.Params, v.Body)
				}
			case *ast.FuncLit:
				scan(v.Type.Params, v.Body)
			}
			return true
		})
	}
	return res
}

func c02EndsInContinue(b *ast.BlockStmt) bool {
	if b == nil || len(b.List) == 0 {
		return false
	}
	br, ok := b.List[len(b.List)-1].(*ast.BranchStmt)
	return ok && br.Tok == token.CONTINUE
}

// c02IsNegatedSourceGuard: key != src && key != nil
func c02IsNegatedSourceGuard(cond ast.Expr, key, src string) bool {
	b, ok := unparen(cond).(*ast.BinaryExpr)
	if !ok || b.Op != token.LAND {
		return false
	}
	ne := func(e ast.Expr, a, c string) bool {
		x, ok := unparen(e).(*ast.BinaryExpr)
		if !ok || x.Op != token.NEQ {
			return false
		}
		l, _ := x.X.(*ast.Ident)
		r, _ := x.Y.(*ast.Ident)
		if l == nil || r == nil {
			return false
		}
		return (l.Name == a && r.Name == c) || (l.Name == c && r.Name == a)
	}
	return (ne(b.X, key, src) && ne(b.Y, key, "nil")) || (ne(b.Y, key, src) && ne(b.X, key, "nil"))
}

func c02IsSourceGuard(cond ast.Expr, key, src string) bool {
	b, ok := unparen(cond).(*ast.BinaryExpr)
	if !ok || b.Op != token.LOR {
		return false
	}
	eq := func(e ast.Expr, a, c string) bool {
		x, ok := unparen(e).(*ast.BinaryExpr)
		if !ok || x.Op != token.EQL {
			return false
		}
		l, _ := x.X.(*ast.Ident)
		r, _ := x.Y.(*ast.Ident)
		if l == nil || r == nil {
			return false
		}
		return (l.Name == a && r.Name == c) || (l.Name == c && r.Name == a)
	}
	return (eq(b.X, key, src) && eq(b.Y, key, "nil")) || (eq(b.Y, key, src) && eq(b.X, key, "nil"))
}

func c02Facts(root string) ([][2]string, []string, error) {
	eng, err := loadSrcPkg(filepath.Join(root, "engine"))
	if err != nil {
		return nil, nil, err
	}
	pub, err := loadSrcPkg(filepath.Join(root, "engine", "pubsub"))
	if err != nil {
		return nil, nil, err
	}
	var facts [][2]string
	add := func(name string, t c02Tri) {
		v := "none"
		switch t {
		case c02True:
			v = "some true"
		case c02False:
			v = "some false"
		}
		facts = append(facts, [2]string{name, v})
	}
	isCall := func(names ...string) func(e c02Ev) bool {
		return func(e c02Ev) bool {
			if e.kind != "call" {
				return false
			}
			for _, n := range names {
				if e.name == n {
					return true
				}
			}
			return false
		}
	}
	isAcc := func(kind, name string) func(e c02Ev) bool {
		return func(e c02Ev) bool { return e.kind == kind && e.name == name }
	}

	// the root monitor's counter, error map and priority bookkeeping: every access from every entry
	// point of the package, helpers inlined with the caller's lock state
	rm := c02NewAn(eng, "unfinished", map[string]bool{"unfinished": true, "errors": true, "incomplete": true})
	{
		reads, writes, posts, section := c02Unknown, c02Unknown, c02Unknown, c02Unknown
		nr, nw := 0, 0
		unknown := len(rm.lockNames) == 0
		for _, fd := range rm.roots() {
			w := rm.trace(fd)
			if os.Getenv("C02_FACTS_DEBUG") != "" {
				for _, e := range w.evs {
					if e.kind != "call" || e.name == "PostEvent" {
						fmt.Fprintf(os.Stderr, "root %s unknown=%v: %+v\n", fd.Name.Name, w.unknown, e)
					}
				}
			}
			lastWrite := -1 // epoch of the latest write of unfinished on this path
			lastHeld := false
			for _, e := range w.evs {
				switch {
				case e.kind == "read" && e.name == "unfinished":
					nr++
					unknown = unknown || w.unknown
					if !e.held {
						reads = c02False
					} else if reads == c02Unknown {
						reads = c02True
					}
					// the test belongs to the critical section of the decrement/increment before it
					if lastWrite >= 0 {
						if !e.held || !lastHeld || e.epoch != lastWrite {
							section = c02False
						} else if section == c02Unknown {
							section = c02True
						}
					}
				case e.kind == "write" && e.name == "unfinished":
					nw++
					unknown = unknown || w.unknown
					lastWrite, lastHeld = e.epoch, e.held
					if !e.held {
						writes = c02False
					} else if writes == c02Unknown {
						writes = c02True
					}
				case (e.kind == "write" || e.kind == "mapwrite") && (e.name == "errors" || e.name == "incomplete"):
					if e.fn == "newRootMonitor" {
						continue // construction, not shared yet
					}
					unknown = unknown || w.unknown
					if !e.held {
						writes = c02False
					} else if writes == c02Unknown {
						writes = c02True
					}
				case e.kind == "call" && e.name == "PostEvent":
					unknown = unknown || w.unknown
					if e.held {
						posts = c02False
					} else if posts == c02Unknown {
						posts = c02True
					}
				}
			}
		}
		demote := func(t c02Tri) c02Tri {
			if t != c02False && (unknown || nr < 1 || nw < 2) {
				return c02Unknown
			}
			return t
		}
		add("zeroTestInsideCriticalSection", demote(reads))
		add("zeroTestInCriticalSectionOfTheDecrement", demote(section))
		add("postOutsideCriticalSection", demote(posts))
		add("counterWritesUnderLock", demote(writes))
	}
	mb := c02NewAn(eng, "unfinished", map[string]bool{"Err": true, "errors": true, "finished": true, "unfinished": true})
	// SetErrors: the error object is attached before the monitor enters the error map
	add("errorAttachedBeforeRegistered", c02Before(mb.trace(c02FindFunc(eng, "monitorBase", "SetErrors")),
		isAcc("write", "Err"), isAcc("mapwrite", "errors")))
	// Finish: declared finished, then counted
	add("finishedFlagBeforeCount", c02Before(mb.trace(c02FindFunc(eng, "monitorBase", "Finish")),
		isAcc("write", "finished"), isAcc("write", "unfinished")))
	// Task.Run: no monitor is declared finished before ProcessEvent returned
	add("finishAfterProcessEvent", c02Before(mb.trace(c02FindFunc(eng, "Task", "Run")),
		isCall("ProcessEvent"), isAcc("write", "finished")))
	// HandleError: error attached, monitor finished, then the error observer
	{
		w := mb.trace(c02FindFunc(eng, "Task", "HandleError"))
		a := c02Before(w, isAcc("write", "Err"), isAcc("write", "finished"))
		b := c02Before(w, isAcc("write", "finished"), isCall("rmErrorObserver"))
		switch {
		case a == c02False || b == c02False:
			add("handleErrorOrder", c02False)
		case a == c02True && b == c02True:
			add("handleErrorOrder", c02True)
		default:
			add("handleErrorOrder", c02Unknown)
		}
	}
	// AddEventAndWait: an observer is registered (outside AddEvent) before AddEvent is called
	{
		w := mb.trace(c02FindFunc(eng, "eventProcessor", "AddEventAndWait"))
		notVia := func(e c02Ev) bool {
			return e.kind == "call" && e.name == "AddObserver" && !strings.Contains(">"+e.via+">", ">AddEvent>") && e.via != "AddEvent"
		}
		add("waitObserverBeforeAddEvent", c02Before(w, notVia, isCall("AddEvent")))
		// … and the wait itself is unconditional: a blocking wait exists, no select with several
		// cases, no timer / context
		hasWait, bad, spawned := false, false, false
		for _, e := range w.evs {
			if strings.HasPrefix(e.via, "AddEvent") || e.via == "AddEvent" {
				continue
			}
			switch {
			case e.kind == "call" && e.name == "Wait", e.kind == "recv":
				hasWait = true
			case e.kind == "select" && e.name != "1" && e.name != "0":
				bad = true
			case e.kind == "call" && (e.name == "After" || e.name == "NewTimer" || e.name == "AfterFunc" || e.name == "WithTimeout" || e.name == "WithDeadline" || e.name == "Tick"):
				bad = true
			case e.kind == "go":
				spawned = true
			}
		}
		switch {
		case bad:
			add("waitIsUnconditional", c02False)
		case w.unknown || spawned || !hasWait:
			add("waitIsUnconditional", c02Unknown)
		default:
			add("waitIsUnconditional", c02True)
		}
	}
	// AddEvent: the finish-handler observer is registered before the task is handed to the pool
	add("handlerObserverBeforeAddTask", c02Before(mb.trace(c02FindFunc(eng, "eventProcessor", "AddEvent")),
		isCall("AddObserver"), isCall("AddTask")))
	// monitor ids: read and increment of the counter in one critical section of a package-level
	// mutex — or one atomic fetch-and-add whose result is the only use of the counter
	{
		fd := c02FindFunc(eng, "", "newMonID")
		ia := c02NewAn(eng, "midcounter", map[string]bool{"midcounter": true})
		w := ia.trace(fd)
		acc := 0
		allHeld, oneSection := true, true
		ep := -1
		for _, e := range w.evs {
			if e.kind == "read" || e.kind == "write" {
				acc++
				allHeld = allHeld && e.held
				if ep >= 0 && e.epoch != ep {
					oneSection = false
				}
				ep = e.epoch
			}
		}
		adds, others := 0, 0
		if fd != nil {
			ast.Inspect(fd.Body, func(n ast.Node) bool {
				if ce, ok := n.(*ast.CallExpr); ok {
					if _, name := c02Sel(ce.Fun); strings.HasPrefix(name, "Add") && len(ce.Args) == 2 {
						if ue, ok := ce.Args[0].(*ast.UnaryExpr); ok && ue.Op == token.AND {
							if id, ok := ue.X.(*ast.Ident); ok && id.Name == "midcounter" {
								adds++
								return false
							}
						}
					}
				}
				if id, ok := n.(*ast.Ident); ok && id.Name == "midcounter" {
					others++
				}
				return true
			})
		}
		switch {
		case fd == nil || w.unknown || (acc == 0 && adds == 0):
			add("monitorIdAllocInCriticalSection", c02Unknown)
		case adds == 1 && others == 0:
			add("monitorIdAllocInCriticalSection", c02True)
		case adds > 0 || acc < 2:
			add("monitorIdAllocInCriticalSection", c02B(false))
		default:
			add("monitorIdAllocInCriticalSection", c02B(allHeld && oneSection))
		}
	}
	// AllErrors: reads the error map under the lock; its whole call tree inside the package
	// (helpers inlined) contains no assertion / panic
	var calls []string
	{
		w := mb.trace(c02FindFunc(eng, "RootMonitor", "AllErrors"))
		under, n := true, 0
		asserts := false
		seen := map[string]bool{}
		for _, e := range w.evs {
			if (e.kind == "read" || e.kind == "mapwrite" || e.kind == "write") && e.name == "errors" {
				n++
				under = under && e.held
			}
			if e.kind == "call" {
				if strings.HasPrefix(e.name, "Assert") || e.name == "panic" || e.name == "Fatal" || e.name == "Fatalf" || e.name == "Panic" || e.name == "Panicf" {
					asserts = true
				}
				if !seen[e.name] {
					seen[e.name] = true
					calls = append(calls, e.name)
				}
			}
		}
		sort.Strings(calls)
		if w.unknown || n == 0 {
			add("allErrorsUnderLock", c02Unknown)
			if asserts {
				add("allErrorsNeverAsserts", c02False)
			} else {
				add("allErrorsNeverAsserts", c02Unknown)
			}
		} else {
			add("allErrorsUnderLock", c02B(under))
			add("allErrorsNeverAsserts", c02B(!asserts))
		}
	}
	// PostEvent only calls the callbacks registered for the posting source (or for all sources)
	add("postFiltersBySource", c02PostFilter(pub))
	return facts, calls, nil
}

func c02Tool(args []string) int {
	if len(args) == 1 && args[0] == "probe" {
		return c02ProbeTool()
	}
	if len(args) != 2 || args[0] != "facts" {
		fmt.Fprintln(os.Stderr, "usage: harness C02 -tool facts <out.lean>")
		return 2
	}
	facts, calls, err := c02Facts(repoDir())
	if err != nil {
		fmt.Fprintln(os.Stderr, err)
		return 1
	}
	var sb strings.Builder
	sb.WriteString("/-! GENERATED by `harness C02 -tool facts` from engine/monitor.go, engine/processor.go,\nengine/taskqueue.go, engine/pubsub/eventpump.go on every run of the check — do not edit.\n`some true` = the fact holds in the tree under test, `some false` = it does not, `none` = the\nextractor does not recognise the shape of the function any more. -/\nnamespace Ecal.Gen.C02\n\n")
	sb.WriteString("def facts : List (String × Option Bool) := [\n")
	for i, f := range facts {
		c := ","
		if i == len(facts)-1 {
			c = ""
		}
		fmt.Fprintf(&sb, "  (%q, %s)%s\n", f[0], f[1], c)
	}
	sb.WriteString("]\n\n/-- the functions and methods called (by name) in the body of `RootMonitor.AllErrors` -/\n")
	var q []string
	for _, c := range calls {
		q = append(q, fmt.Sprintf("%q", c))
	}
	fmt.Fprintf(&sb, "def allErrorsCalls : List String := [%s]\n\nend Ecal.Gen.C02\n", strings.Join(q, ", "))
	if err := os.WriteFile(args[1], []byte(sb.String()), 0644); err != nil {
		fmt.Fprintln(os.Stderr, err)
		return 1
	}
	return 0
}
