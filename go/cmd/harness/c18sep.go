package main

// C18, third case kind: statement separation is decided from token lines and is therefore
// unaffected by comments.
//
//	S <ref-hex> <var-hex> <tree-of-ref>     result: canonical tree of var
//
// ref is a comment-free program, var the same token sequence with comments put into the gaps.
// Every gap of ref is a blank or a newline; the gap of var is derived from it so that the
// newlines a comment contains (a block comment: those inside it, a # comment: the one that ends
// it) stand for the newlines of the gap. The canonical tree (node names, token values, children;
// no positions, no comments) or the parse error kind must then be the same for ref and var.
// The tree of ref is computed here with the real parser and shipped in the payload; whether the
// rule applies (same non-comment tokens, same "on the same line as the previous token?" relation
// throughout) is decided by the model side from the lexer model's token lines.

import (
	"strings"

	"github.com/krotik/ecal/parser"
)

func c18Tree(n *parser.ASTNode) string {
	if n == nil {
		return "nil"
	}
	var sb strings.Builder
	sb.WriteString(n.Name)
	if n.Token != nil && n.Token.Val != "" {
		sb.WriteString(":" + hx(n.Token.Val))
	}
	if len(n.Children) > 0 {
		sb.WriteString("(")
		for i, c := range n.Children {
			if i > 0 {
				sb.WriteString(",")
			}
			sb.WriteString(c18Tree(c))
		}
		sb.WriteString(")")
	}
	return sb.String()
}

func c18Parse(src string) (res string) {
	defer func() {
		if e := recover(); e != nil {
			res = "PANIC"
		}
	}()
	ast, err := parser.Parse("t", src)
	if err != nil {
		if pe, ok := err.(*parser.Error); ok {
			return "ERR:" + strings.ReplaceAll(pe.Type.Error(), " ", "_")
		}
		return "ERR:other"
	}
	return c18Tree(ast)
}

// token lines of the directed programs ("|" = line break in the reference, " " = same line)
var c18SepPrograms = []string{
	"func f ( ) { | return | } | x := f ( )",
	"func f ( a ) { | return a + 1 | }",
	"func f ( ) { | return | 1 + 2 | }",
	"func f ( ) { return }",
	"func f ( ) { return 1 }",
	"func f ( a ) { | return | a | }",
	"func f ( a ) { | return a | [ 1 ] | }",
	"func f ( a ) { | return a [ 1 ] | }",
	"return",
	"return 1",
	"return | 1",
	"a := b | [ 1 , 2 ]",
	"a := b [ 1 ]",
	"a := b . c [ 1 ] | [ 2 ]",
	"a := b . c | [ 1 ] [ 0 ]",
	"a := 1 + | 2",
	"a := 1 | - 2",
	"a := 1 | + 2 * | 3",
	"a := f | ( 1 )",
	"a := f ( 1 , | 2 )",
	"x := 1 | y := 2 | z := x + y",
	"x := 1 y := 2",
	"x := 1 ; y := 2 | z := 3",
	"a | b | c",
	"a b",
	"if a { | b := 1 | } else { | b := 2 | }",
	"if a { b := 1 } | else { b := 2 }",
	"for x in [ 1 , 2 ] { | c := x | d := c | }",
	"m := { | \"a\" : 1 , | \"b\" : 2 | }",
	"a := \"s\" | b := r\"x\ny\" | c := 1",
	"a := r\"x\ny\" b",
	"a := r\"x\ny\" | b",
	"try { | a := 1 | } except { | b := 2 | }",
	"a := not | b",
	"a := [ | 1 , | 2 | ] | b := a [ 0 ]",
	"log ( 1 ) | log ( 2 )",
	"a := b | ( c )",
	"a := 1 | [ 2 ] . x",
	"return a | b",
	"sink s | kindmatch [ \"a\" ] , | { | x := 1 | }",
	"a := 1 +",
	"a := ( 1 | )",
}

var c18SepTokens = []string{"a", "b", "f", "1", "2", ":=", "+", "-", "*", "(", ")", "[", "]", "{", "}", ",", ".", ";", "return", "not",
	"\"s\"", "r\"x\ny\"", "if", "else", "func", "and", ":", "for", "in"}

var c18SameLineGaps = []string{" ", " ", " /* c */ ", "/*c*/", " /**/ ", "\t/* é */\t", " /* a */ /* b */ "}
var c18NewLineGaps = []string{"\n", "\n", " # c\n", " #\n", " /* c */\n", "\n# whole line\n", "\n/* whole line */\n", " /* a\nb */ ", "/*\n*/",
	" # c\n\t/* d */ ", "\n\n", " # c\n# d\n", "\n /* a\n\nb */\n", " /* x */ # y\n", "\r\n", " # é\n  ", " /* # */ # /* \n", "\n/* l1\nl2 */ /* l3 */ "}
var c18EndGaps = []string{"", "", "\n", " # c", " # c\n", " /* c */", "\n/* c */\n", " /* a\nb */"}
var c18StartGaps = []string{"", "", "# c\n", "/* c */ ", "/* a\nb */\n", "\n", "#\n\n"}

// c18SepCase builds (ref, var) from token lines; ref keeps the plain gaps
func c18SepCase(g *Gen, toks []string, brk []bool) (string, string) {
	var ref, v strings.Builder
	start := g.R.Pick(c18StartGaps)
	v.WriteString(start)
	for i, t := range toks {
		if i > 0 {
			if brk[i] {
				ref.WriteString("\n")
				v.WriteString(g.R.Pick(c18NewLineGaps))
			} else {
				ref.WriteString(" ")
				v.WriteString(g.R.Pick(c18SameLineGaps))
			}
		}
		ref.WriteString(t)
		v.WriteString(t)
	}
	end := g.R.Pick(c18EndGaps)
	// the end gap decides whether EOF is on the last token's line: give ref the same newlines
	if strings.Contains(end, "\n") {
		ref.WriteString("\n")
	}
	v.WriteString(end)
	return ref.String(), v.String()
}

func c18SepSplit(p string) ([]string, []bool) {
	var toks []string
	var brk []bool
	nb := false
	for _, f := range strings.Split(p, " ") {
		if f == "|" {
			nb = true
			continue
		}
		toks = append(toks, f)
		brk = append(brk, nb)
		nb = false
	}
	return toks, brk
}

func c18SepGen(g *Gen, nDirected, nRebreak, nRandom int) {
	emit := func(class string, toks []string, brk []bool) {
		ref, v := c18SepCase(g, toks, brk)
		g.Count("sep " + class)
		g.Emit("S " + hx(ref) + " " + hx(v) + " " + c18Parse(ref))
	}
	// the shapes of the seeded defect first
	for _, c := range [][2]string{
		{"func f() {\nreturn\n}", "func f() {\nreturn # nothing to do\n}"},
		{"func f(x) {\nreturn\nx\n}", "func f(x) {\nreturn /* a\nb */ x\n}"},
		{"a := b\n[1]", "a := b # c\n[1]"},
		{"a := 1\nb := 2", "a := 1 /* \n */ b := 2"},
		{"a := 1\nb := 2", "a := 1 # c\nb := 2"},
		{"return\n", "return # c\n"},
	} {
		g.Count("sep corpus")
		g.Emit("S " + hx(c[0]) + " " + hx(c[1]) + " " + c18Parse(c[0]))
	}
	for _, p := range c18SepPrograms {
		toks, brk := c18SepSplit(p)
		for k := 0; k < nDirected; k++ {
			emit("directed", toks, brk)
		}
	}
	// the directed token sequences with the line breaks chosen at random
	for i := 0; i < nRebreak; i++ {
		toks, brk := c18SepSplit(c18SepPrograms[g.R.Intn(len(c18SepPrograms))])
		for k := range brk {
			switch g.R.Intn(4) {
			case 0:
				brk[k] = !brk[k]
			}
		}
		emit("re-broken", toks, brk)
	}
	// random token sequences (mostly parse errors: the error kind is compared)
	for i := 0; i < nRandom; i++ {
		n := 2 + g.R.Intn(7)
		toks := make([]string, n)
		brk := make([]bool, n)
		for k := range toks {
			toks[k] = g.R.Pick(c18SepTokens)
			brk[k] = g.R.Intn(3) == 0
		}
		emit("random tokens", toks, brk)
	}
}
