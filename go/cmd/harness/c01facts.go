package main

// C01 — regenerated fact about the trigger cache of eventProcessor.IsTriggering: the model keys the cache
// by the kind itself, which is right exactly if the real key is an injective rendering of event.Kind().
// Three-valued: 0 established (fmt.Sprintf("%q", event.Kind()) into a map[string]…), 2 refuted (a hash, a
// truncation, an unquoted Join / %v / %s, something that is not a function of the kind), 1 not established
// (anything else: the generator then adds a collision search).

import (
	"bytes"
	"fmt"
	"go/ast"
	"go/parser"
	"go/printer"
	"go/token"
	"os"
	"path/filepath"
	"strings"
)

func c01ExprText(fset *token.FileSet, e ast.Expr) string {
	var b bytes.Buffer
	printer.Fprint(&b, fset, e)
	return strings.Join(strings.Fields(b.String()), " ")
}

// c01CacheKeyFact returns (value, key expression as text, reason).
func c01CacheKeyFact() (int, string, string) {
	fset := token.NewFileSet()
	f, err := parser.ParseFile(fset, filepath.Join(repoDir(), "engine", "processor.go"), nil, 0)
	if err != nil {
		return 1, "", "cannot parse engine/processor.go: " + err.Error()
	}
	keyType := ""
	var fn *ast.FuncDecl
	ast.Inspect(f, func(n ast.Node) bool {
		switch x := n.(type) {
		case *ast.Field:
			for _, nm := range x.Names {
				if nm.Name == "triggeringCache" {
					if mt, ok := x.Type.(*ast.MapType); ok {
						keyType = c01ExprText(fset, mt.Key)
					}
				}
			}
		case *ast.FuncDecl:
			if x.Name.Name == "IsTriggering" && x.Recv != nil && strings.Contains(c01ExprText(fset, x.Recv.List[0].Type), "eventProcessor") {
				fn = x
			}
		}
		return true
	})
	if fn == nil {
		return 1, "", "eventProcessor.IsTriggering not found"
	}
	// the key expressions used on the cache
	var keys []ast.Expr
	ast.Inspect(fn, func(n ast.Node) bool {
		if ix, ok := n.(*ast.IndexExpr); ok && strings.HasSuffix(c01ExprText(fset, ix.X), "triggeringCache") {
			keys = append(keys, ix.Index)
		}
		return true
	})
	if len(keys) == 0 {
		return 1, "", "no access to triggeringCache in IsTriggering"
	}
	// resolve an identifier to the expressions assigned to it in the function
	defs := map[string][]ast.Expr{}
	ast.Inspect(fn, func(n ast.Node) bool {
		if as, ok := n.(*ast.AssignStmt); ok && len(as.Lhs) == len(as.Rhs) {
			for i, l := range as.Lhs {
				if id, ok := l.(*ast.Ident); ok {
					defs[id.Name] = append(defs[id.Name], as.Rhs[i])
				}
			}
		}
		return true
	})
	var exprs []string
	seen := map[string]bool{}
	for _, k := range keys {
		list := []ast.Expr{k}
		if id, ok := k.(*ast.Ident); ok {
			if d, ok := defs[id.Name]; ok {
				list = d
			}
		}
		for _, e := range list {
			t := c01ExprText(fset, e)
			if !seen[t] {
				seen[t] = true
				exprs = append(exprs, t)
			}
		}
	}
	text := strings.Join(exprs, " ; ")
	established := keyType == "string" && len(exprs) == 1 &&
		(exprs[0] == `fmt.Sprintf("%q", event.Kind())` || exprs[0] == `fmt.Sprintf("%q", event.kind)`)
	if established {
		return 0, text, "the key is the %q rendering of the kind slice (quotes every segment: injective)"
	}
	for _, e := range exprs {
		low := strings.ToLower(e)
		switch {
		case strings.Contains(low, "sum32") || strings.Contains(low, "sum64") || strings.Contains(low, "sum(") ||
			strings.Contains(low, "fnv") || strings.Contains(low, "crc") || strings.Contains(low, "md5") ||
			strings.Contains(low, "sha") || strings.Contains(low, "hash"):
			return 2, text, "the key is a hash: different kinds can share an entry"
		case strings.Contains(e, "[:") || strings.Contains(e, ":]"):
			return 2, text, "the key is truncated"
		case strings.Contains(e, "strings.Join"):
			return 2, text, "the segments are joined without quoting: [a.b] and [a b] share an entry"
		case strings.Contains(e, `"%v"`) || strings.Contains(e, `"%s"`) || strings.Contains(e, "fmt.Sprint("):
			return 2, text, "the slice is rendered without quoting its segments"
		case strings.Contains(e, "Name()") || strings.Contains(e, ".name"):
			return 2, text, "the key is not a function of the kind"
		case !strings.Contains(e, "Kind()") && !strings.Contains(e, ".kind"):
			return 2, text, "the key does not mention the kind"
		}
	}
	return 1, text, "key expression not recognised (key type " + keyType + ")"
}

func c01ExtractFacts(out string) int {
	v, text, why := c01CacheKeyFact()
	src := fmt.Sprintf(`/-! Regenerated on every run from engine/processor.go of the tree under test by
`+"`harness C01 -tool extract`"+` (go/cmd/harness/c01facts.go). Do not edit. -/
namespace Ecal.Gen.C01

/-- how the trigger cache of eventProcessor.IsTriggering is keyed:
    0 = established injective rendering of event.Kind(), 1 = not established, 2 = refuted -/
def cacheKey : Nat := %d

def cacheKeyExpr : String := %q

def cacheKeyWhy : String := %q

end Ecal.Gen.C01
`, v, text, why)
	if err := os.WriteFile(out, []byte(src), 0644); err != nil {
		fmt.Fprintln(os.Stderr, err)
		return 1
	}
	return 0
}
