package main

import (
	"fmt"
	"sync"

	"github.com/krotik/ecal/interpreter"
	"github.com/krotik/ecal/parser"
	"github.com/krotik/ecal/scope"
	"github.com/krotik/ecal/stdlib"
	"github.com/krotik/ecal/util"
)

// memLog collects log output of a runtime provider.
type memLog struct {
	mu    sync.Mutex
	lines []string
}

func (l *memLog) add(k string, v ...interface{}) {
	l.mu.Lock()
	defer l.mu.Unlock()
	l.lines = append(l.lines, k+":"+fmt.Sprint(v...))
}
func (l *memLog) LogError(v ...interface{}) { l.add("error", v...) }
func (l *memLog) LogInfo(v ...interface{})  { l.add("info", v...) }
func (l *memLog) LogDebug(v ...interface{}) { l.add("debug", v...) }

// goFunc adapts a Go closure to util.ECALFunction.
type goFunc struct {
	f func(args []interface{}) (interface{}, error)
}

func (g *goFunc) Run(instanceID string, vs parser.Scope, is map[string]interface{}, tid uint64, args []interface{}) (interface{}, error) {
	return g.f(args)
}
func (g *goFunc) DocString() (string, error) { return "harness function", nil }

var xPkgOnce sync.Once

// registerX registers (or replaces) the stdlib function x.<name>.
func registerX(name string, f func(args []interface{}) (interface{}, error)) {
	xPkgOnce.Do(func() { stdlib.AddStdlibPkg("x", "verification harness functions") })
	if err := stdlib.AddStdlibFunc("x", name, &goFunc{f}); err != nil {
		panic(err)
	}
}

// evalProgram parses, validates and evaluates src in the given scope with a fresh provider.
func evalProgram(src string, vs parser.Scope, lg util.Logger) (interface{}, error) {
	return evalProgramNamed("t", src, vs, lg)
}

// evalProgramNamed is evalProgram with a chosen name of the parsed unit (it appears in error texts).
func evalProgramNamed(name string, src string, vs parser.Scope, lg util.Logger) (interface{}, error) {
	erp := interpreter.NewECALRuntimeProvider("t", nil, lg)
	ast, err := parser.ParseWithRuntime(name, src, erp)
	if err != nil {
		return nil, err
	}
	if err = ast.Runtime.Validate(); err != nil {
		return nil, err
	}
	return ast.Runtime.Eval(vs, make(map[string]interface{}), erp.NewThreadID())
}

func newGlobalScope() parser.Scope { return scope.NewScope(scope.GlobalScope) }
