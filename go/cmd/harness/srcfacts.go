package main

// Source-fact extractors shared by C11 and C13 (pure go/ast over repoDir()).
//
//   pkgWrites   : every assignment / inc-dec / map-index write / delete / address-of
//                 whose root identifier is a PACKAGE-LEVEL variable, outside init()
//                 and outside _test files, with the enclosing function, plus a
//                 conservative name-based call graph.
//   capturedIn  : for a function literal (or a method): the variables assigned
//                 inside it but declared outside it.
//
// The output is normalised: entries are (variable, function, kind) triples, sorted
// and de-duplicated; no positions, no local names. Renaming a local variable or
// reordering statements does not change it.

import (
	"fmt"
	"go/ast"
	"go/parser"
	"go/token"
	"os"
	"path/filepath"
	"sort"
	"strings"
)

type srcWrite struct {
	Caller string // the unique calling function when Fn is an unexported helper with exactly one caller (else = Fn)
	Var  string // pkg.name
	Fn   string // pkg.func or pkg.Type.method
	Kind string // assign | incdec | delete | addr | atomic | call:<Method> | send | recv   (suffix "+lock" when a Lock() call precedes an assignment in the function)
}

type srcPkg struct {
	name  string
	files []*ast.File
	fset  *token.FileSet
	vars  map[string]bool // package-level variable names
	kinds map[string]string // package-level variable -> syntactic type ("sync.Pool", "chan", "list.List", …; "" unknown)
}

func loadSrcPkg(dir string) (*srcPkg, error) {
	fset := token.NewFileSet()
	ents, err := os.ReadDir(dir)
	if err != nil {
		return nil, err
	}
	p := &srcPkg{fset: fset, vars: map[string]bool{}, kinds: map[string]string{}}
	var names []string
	for _, e := range ents {
		n := e.Name()
		if e.IsDir() || !strings.HasSuffix(n, ".go") || strings.HasSuffix(n, "_test.go") {
			continue
		}
		names = append(names, n)
	}
	sort.Strings(names)
	for _, n := range names {
		f, err := parser.ParseFile(fset, filepath.Join(dir, n), nil, 0)
		if err != nil {
			return nil, err
		}
		p.name = f.Name.Name
		p.files = append(p.files, f)
		for _, d := range f.Decls {
			if gd, ok := d.(*ast.GenDecl); ok && gd.Tok == token.VAR {
				for _, s := range gd.Specs {
					vs := s.(*ast.ValueSpec)
					for i, id := range vs.Names {
						if id.Name != "_" {
							p.vars[id.Name] = true
							k := ""
							if vs.Type != nil {
								k = typeText(vs.Type)
							} else if i < len(vs.Values) {
								k = initTypeText(vs.Values[i])
							}
							p.kinds[id.Name] = k
						}
					}
				}
			}
		}
	}
	return p, nil
}

// typeText renders a type expression: sync.Pool, *list.List -> list.List, chan …
func typeText(e ast.Expr) string {
	switch x := e.(type) {
	case *ast.StarExpr:
		return typeText(x.X)
	case *ast.SelectorExpr:
		if id, ok := x.X.(*ast.Ident); ok {
			return id.Name + "." + x.Sel.Name
		}
	case *ast.IndexExpr: // atomic.Pointer[T]
		return typeText(x.X)
	case *ast.Ident:
		return x.Name
	case *ast.ChanType:
		return "chan"
	case *ast.MapType:
		return "map"
	case *ast.ArrayType:
		return "slice"
	}
	return ""
}

// initTypeText guesses the type from an initialiser: sync.Pool{…}, &sync.Map{}, list.New(),
// make(chan T), new(sync.Map)
func initTypeText(e ast.Expr) string {
	switch x := e.(type) {
	case *ast.UnaryExpr:
		return initTypeText(x.X)
	case *ast.CompositeLit:
		if x.Type != nil {
			return typeText(x.Type)
		}
	case *ast.CallExpr:
		if id, ok := x.Fun.(*ast.Ident); ok && (id.Name == "make" || id.Name == "new") && len(x.Args) > 0 {
			return typeText(x.Args[0])
		}
		if sel, ok := x.Fun.(*ast.SelectorExpr); ok {
			if id, ok := sel.X.(*ast.Ident); ok && id.Name == "list" && sel.Sel.Name == "New" {
				return "list.List"
			}
			if id, ok := sel.X.(*ast.Ident); ok && id.Name == "ring" && sel.Sel.Name == "New" {
				return "ring.Ring"
			}
			if id, ok := sel.X.(*ast.Ident); ok && id.Obj == nil {
				return id.Name + ".?" // result of a function of another package (regexp.MustCompile, …)
			}
		}
	}
	return ""
}

// containerLike: shared-state types from sync and friends whose methods mutate
var containerLike = map[string]bool{"sync.Pool": true, "sync.Map": true, "atomic.Value": true, "list.List": true,
	"ring.Ring": true, "chan": true, "bytes.Buffer": true, "strings.Builder": true, "heap.Interface": true,
	"sync.Once": true, "sync.Cond": true, "sync.WaitGroup": true}

// read-only methods of those types
var containerReadOnly = map[string]bool{"Load": true, "Len": true, "Front": true, "Back": true, "String": true,
	"Bytes": true, "Cap": true, "Lock": true, "Unlock": true, "RLock": true, "RUnlock": true}

// method names that mutate whatever they are called on (used when the type is not known)
var mutatingMethod = map[string]bool{"Put": true, "Store": true, "Delete": true, "LoadOrStore": true, "LoadAndDelete": true,
	"Swap": true, "CompareAndSwap": true, "PushBack": true, "PushFront": true, "PushBackList": true, "PushFrontList": true,
	"InsertBefore": true, "InsertAfter": true, "MoveToFront": true, "MoveToBack": true, "MoveBefore": true, "MoveAfter": true,
	"Remove": true, "Init": true, "Reset": true, "Write": true, "WriteString": true, "WriteByte": true, "WriteRune": true,
	"Push": true, "Pop": true, "Enqueue": true, "Dequeue": true, "Poll": true, "Clear": true}

// forEachPkgVarMutation reports mutating uses of package-level variables that are not
// syntactic assignments: method calls on container-like variables (sync.Pool Put/Get, sync.Map
// Store/Delete/…, atomic.Value Store, container/list, …), channel sends and receives.
func (p *srcPkg) forEachPkgVarMutation(n ast.Node, imports map[string]string, sink func(v string, kind string, pos token.Pos)) {
	ast.Inspect(n, func(x ast.Node) bool {
		switch s := x.(type) {
		case *ast.SendStmt:
			if id, _ := rootOf(s.Chan, imports); id != nil && p.isPkgLevel(id) {
				sink(id.Name, "send", s.Pos())
			}
		case *ast.UnaryExpr:
			if s.Op == token.ARROW {
				if id, _ := rootOf(s.X, imports); id != nil && p.isPkgLevel(id) {
					sink(id.Name, "recv", s.Pos())
				}
			}
		case *ast.RangeStmt:
			if id, _ := rootOf(s.X, imports); id != nil && p.isPkgLevel(id) && p.kinds[id.Name] == "chan" {
				sink(id.Name, "recv", s.Pos())
			}
		case *ast.CallExpr:
			sel, ok := s.Fun.(*ast.SelectorExpr)
			if !ok {
				return true
			}
			// the method must be called on the variable itself (possibly through & or *), not on
			// an element or field of it
			recv := unparen(sel.X)
			if u, ok := recv.(*ast.UnaryExpr); ok && u.Op == token.AND {
				recv = unparen(u.X)
			}
			if st, ok := recv.(*ast.StarExpr); ok {
				recv = unparen(st.X)
			}
			id, ok := recv.(*ast.Ident)
			if !ok || !p.isPkgLevel(id) {
				return true
			}
			m := sel.Sel.Name
			kind := p.kinds[id.Name]
			if strings.HasPrefix(kind, "atomic.") && kind != "atomic.Value" {
				// typed atomics (atomic.Uint64, atomic.Int32, atomic.Pointer[T], …): every method but Load updates the cell
				if m != "Load" {
					sink(id.Name, "atomic", s.Pos())
				}
				return true
			}
			if (containerLike[kind] && !containerReadOnly[m]) || mutatingMethod[m] {
				sink(id.Name, "call:"+m, s.Pos())
				return true
			}
			// a package-level object of a type of this package: does the method change it?
			if fd, _ := p.methodDecl(kind, m); fd != nil {
				if mut, locked := p.methodMutatesReceiver(kind, m, 0); mut {
					k := "method:" + m
					if locked {
						k += "+lock"
					}
					sink(id.Name, k, s.Pos())
				}
				return true
			}
			// a type of another package that is not a known container: listed, to be justified
			if kind != "" && !containerLike[kind] && strings.Contains(kind, ".") && kind != "sync.Mutex" && kind != "sync.RWMutex" {
				sink(id.Name, "extcall:"+kind+"."+m, s.Pos())
			}
		}
		return true
	})
}

// methodDecl finds the declaration of method m on the named type of this package.
func (p *srcPkg) methodDecl(typ, m string) (*ast.FuncDecl, *ast.File) {
	for _, f := range p.files {
		for _, d := range f.Decls {
			if fd, ok := d.(*ast.FuncDecl); ok && fd.Body != nil && fd.Recv != nil && len(fd.Recv.List) == 1 &&
				fd.Name.Name == m && typeNameOf(fd.Recv.List[0].Type) == typ {
				return fd, f
			}
		}
	}
	return nil, nil
}

// methodMutatesReceiver: does the method (or a same-type method it calls, two levels) write a
// component of its receiver? Second result: does it take a lock first (hint only).
func (p *srcPkg) methodMutatesReceiver(typ, m string, depth int) (bool, bool) {
	fd, f := p.methodDecl(typ, m)
	if fd == nil || depth > 2 {
		return false, false
	}
	var recv *ast.Ident
	if len(fd.Recv.List[0].Names) == 1 {
		recv = fd.Recv.List[0].Names[0]
	}
	if recv == nil {
		return false, false
	}
	imports := fileImports(f)
	mut, locked := false, false
	forEachWrite(fd.Body, imports, func(t ast.Expr, kind string, pos token.Pos) {
		if id, _ := rootOf(t, imports); id != nil && id.Obj == recv.Obj {
			if _, bare := unparen(t).(*ast.Ident); !bare {
				mut = true
				if lockBefore(fd.Body, pos) {
					locked = true
				}
			}
		}
	})
	ast.Inspect(fd.Body, func(n ast.Node) bool {
		if c, ok := n.(*ast.CallExpr); ok {
			if sel, ok := c.Fun.(*ast.SelectorExpr); ok {
				// mutating call on a field of the receiver (r.items.PushBack, r.m.Store) or another method of the receiver
				if id, path := selectorPath(sel.X); id != nil && id.Obj == recv.Obj {
					if len(path) > 0 && (mutatingMethod[sel.Sel.Name] || sel.Sel.Name == "Add") {
						mut = true
						locked = locked || lockBefore(fd.Body, c.Pos())
					}
					if len(path) == 0 {
						if m2, l2 := p.methodMutatesReceiver(typ, sel.Sel.Name, depth+1); m2 {
							mut = true
							locked = locked || l2 || lockBefore(fd.Body, c.Pos())
						}
					}
				}
			}
		}
		return true
	})
	return mut, locked
}

// isPkgLevel says whether an identifier occurrence denotes a package-level
// variable of its own package. The go/parser object resolution gives every
// identifier that is declared in the same file (locals, parameters, file-level
// declarations) an Obj; identifiers declared in another file of the package
// stay unresolved.
func (p *srcPkg) isPkgLevel(id *ast.Ident) bool {
	if !p.vars[id.Name] {
		return false
	}
	if id.Obj == nil {
		return true // declared in another file of the package
	}
	if id.Obj.Kind != ast.Var {
		return false
	}
	vs, ok := id.Obj.Decl.(*ast.ValueSpec)
	if !ok {
		return false // parameter, := , range … : a local shadows the package-level name
	}
	// a ValueSpec: package-level iff it is one of the top-level specs
	for _, f := range p.files {
		for _, d := range f.Decls {
			if gd, ok := d.(*ast.GenDecl); ok && gd.Tok == token.VAR {
				for _, s := range gd.Specs {
					if s == ast.Spec(vs) {
						return true
					}
				}
			}
		}
	}
	return false
}

// rootOf strips index, selector, star, paren, slice expressions. It returns the
// root identifier, or ("pkg","Name") when the root is a qualified identifier of
// an imported package.
func rootOf(e ast.Expr, imports map[string]string) (root *ast.Ident, qual string) {
	for {
		switch x := e.(type) {
		case *ast.ParenExpr:
			e = x.X
		case *ast.IndexExpr:
			e = x.X
		case *ast.SliceExpr:
			e = x.X
		case *ast.StarExpr:
			e = x.X
		case *ast.SelectorExpr:
			if id, ok := x.X.(*ast.Ident); ok && id.Obj == nil {
				if path, ok := imports[id.Name]; ok {
					return nil, path + "." + x.Sel.Name
				}
			}
			e = x.X
		case *ast.Ident:
			return x, ""
		default:
			return nil, ""
		}
	}
}

func fileImports(f *ast.File) map[string]string {
	m := map[string]string{}
	for _, im := range f.Imports {
		path := strings.Trim(im.Path.Value, `"`)
		base := path[strings.LastIndex(path, "/")+1:]
		name := base
		if im.Name != nil {
			name = im.Name.Name
		}
		m[name] = base
	}
	return m
}

func funcName(pkg string, fd *ast.FuncDecl) string {
	if fd.Recv != nil && len(fd.Recv.List) == 1 {
		t := fd.Recv.List[0].Type
		if s, ok := t.(*ast.StarExpr); ok {
			t = s.X
		}
		if id, ok := t.(*ast.Ident); ok {
			return pkg + "." + id.Name + "." + fd.Name.Name
		}
	}
	return pkg + "." + fd.Name.Name
}

// writeSink receives (expression written to, kind, position)
type writeSink func(target ast.Expr, kind string, pos token.Pos)

// forEachWrite reports every syntactic write inside n.
func forEachWrite(n ast.Node, imports map[string]string, sink writeSink) {
	atomicArgs := map[ast.Expr]bool{}
	ast.Inspect(n, func(x ast.Node) bool {
		switch s := x.(type) {
		case *ast.AssignStmt:
			if s.Tok != token.DEFINE {
				for _, l := range s.Lhs {
					sink(l, "assign", s.Pos())
				}
			} else {
				// `a, err := …` re-assigns an `err` that already exists in the same scope
				for _, l := range s.Lhs {
					if id, ok := l.(*ast.Ident); ok && id.Obj != nil && id.Obj.Decl != interface{}(s) {
						sink(l, "assign", s.Pos())
					}
				}
			}
		case *ast.IncDecStmt:
			sink(s.X, "incdec", s.Pos())
		case *ast.RangeStmt:
			if s.Tok == token.ASSIGN {
				if s.Key != nil {
					sink(s.Key, "assign", s.Pos())
				}
				if s.Value != nil {
					sink(s.Value, "assign", s.Pos())
				}
			}
		case *ast.CallExpr:
			if id, ok := s.Fun.(*ast.Ident); ok && id.Name == "delete" && id.Obj == nil && len(s.Args) == 2 {
				sink(s.Args[0], "delete", s.Pos())
			}
			if sel, ok := s.Fun.(*ast.SelectorExpr); ok {
				if id, ok := sel.X.(*ast.Ident); ok && id.Obj == nil && imports[id.Name] == "atomic" {
					for _, a := range s.Args {
						if u, ok := a.(*ast.UnaryExpr); ok && u.Op == token.AND {
							atomicArgs[u] = true
							if !strings.HasPrefix(sel.Sel.Name, "Load") {
								sink(u.X, "atomic", s.Pos())
							}
						}
					}
				}
			}
		case *ast.UnaryExpr:
			if s.Op == token.AND && !atomicArgs[s] {
				if _, isLit := s.X.(*ast.CompositeLit); !isLit {
					sink(s.X, "addr", s.Pos())
				}
			}
		}
		return true
	})
}

// lockBefore says whether a call `<x>.Lock()` / `<x>.RLock()`… precedes pos inside body
// (a syntactic hint only; every allowed entry is justified by hand in Props/C13.lean).
func lockBefore(body *ast.BlockStmt, pos token.Pos) bool {
	found := false
	ast.Inspect(body, func(x ast.Node) bool {
		if c, ok := x.(*ast.CallExpr); ok && c.Pos() < pos {
			if sel, ok := c.Fun.(*ast.SelectorExpr); ok && sel.Sel.Name == "Lock" {
				found = true
			}
		}
		return true
	})
	return found
}

type callGraph struct {
	funcsByBare map[string][]string // bare name -> qualified function names
	mentions    map[string]map[string]bool
}

// pkgWriteFacts scans the packages; returns all writes and the call graph (name based).
func pkgWriteFacts(root string, pkgs []string) ([]srcWrite, *callGraph, error) {
	var writes []srcWrite
	cg := &callGraph{funcsByBare: map[string][]string{}, mentions: map[string]map[string]bool{}}
	seen := map[srcWrite]bool{}
	for _, pn := range pkgs {
		p, err := loadSrcPkg(filepath.Join(root, pn))
		if err != nil {
			return nil, nil, err
		}
		for _, f := range p.files {
			imports := fileImports(f)
			for _, d := range f.Decls {
				switch fd := d.(type) {
				case *ast.FuncDecl:
					if fd.Body == nil {
						continue
					}
					fn := funcName(p.name, fd)
					if fd.Name.Name == "init" && fd.Recv == nil {
						fn = p.name + ".init"
					} else {
						cg.funcsByBare[fd.Name.Name] = append(cg.funcsByBare[fd.Name.Name], fn)
					}
					addMentions(cg, fn, fd.Body, p)
					if fd.Name.Name == "init" && fd.Recv == nil {
						// init runs before any goroutine of the host exists; the variables it
						// assigns become pseudo-nodes so that readers of the variable reach
						// the functions stored in it
						forEachWrite(fd.Body, imports, func(t ast.Expr, kind string, pos token.Pos) {
							if id, _ := rootOf(t, imports); id != nil && p.isPkgLevel(id) {
								addMentions(cg, "var:"+p.name+"."+id.Name, fd.Body, p)
							}
						})
						continue
					}
					body := fd.Body
					forEachWrite(body, imports, func(t ast.Expr, kind string, pos token.Pos) {
						id, qual := rootOf(t, imports)
						v := ""
						if id != nil && p.isPkgLevel(id) {
							v = p.name + "." + id.Name
						} else if qual != "" {
							v = qual
						}
						if v == "" {
							return
						}
						if kind != "atomic" && lockBefore(body, pos) {
							kind += "+lock"
						}
						w := srcWrite{Var: v, Fn: fn, Kind: kind}
						if !seen[w] {
							seen[w] = true
							writes = append(writes, w)
						}
					})
					// local aliases of package-level objects: x := pkgVar[k] / x, ok := pkgVar[k] / x := pkgVar.f / x := pkgVar
					aliases := map[*ast.Object][]string{}
					ast.Inspect(body, func(n ast.Node) bool {
						as, ok := n.(*ast.AssignStmt)
						if !ok || len(as.Rhs) != 1 || len(as.Lhs) < 1 {
							return true
						}
						if _, isCall := unparen(as.Rhs[0]).(*ast.CallExpr); isCall {
							return true
						}
						rid, _ := rootOf(as.Rhs[0], imports)
						if rid == nil || !p.isPkgLevel(rid) {
							return true
						}
						if u, isAddr := unparen(as.Rhs[0]).(*ast.UnaryExpr); isAddr && u.Op != token.AND {
							return true
						}
						if lid, ok := as.Lhs[0].(*ast.Ident); ok && lid.Obj != nil && lid.Name != "_" {
							aliases[lid.Obj] = append(aliases[lid.Obj], rid.Name)
						}
						return true
					})
					if len(aliases) > 0 {
						forEachWrite(body, imports, func(t ast.Expr, kind string, pos token.Pos) {
							id, _ := rootOf(t, imports)
							if id == nil || id.Obj == nil {
								return
							}
							vsAliased, ok := aliases[id.Obj]
							if !ok {
								return
							}
							if _, bare := unparen(t).(*ast.Ident); bare && kind != "addr" {
								return // re-binding the local, not a write through it
							}
							if kind == "addr" {
								return
							}
							for _, v := range vsAliased {
								w := srcWrite{Var: p.name + "." + v, Fn: fn, Kind: kind + "@alias"}
								if !seen[w] {
									seen[w] = true
									writes = append(writes, w)
								}
							}
						})
					}
					if len(aliases) > 0 {
						// mutating method calls through a local alias of a package-level object (vs = pkgScope; vs.SetValue(…))
						ast.Inspect(body, func(n ast.Node) bool {
							if c, ok := n.(*ast.CallExpr); ok {
								if sel, ok := c.Fun.(*ast.SelectorExpr); ok {
									m := sel.Sel.Name
									if id, ok := sel.X.(*ast.Ident); ok && id.Obj != nil && (mutatingMethod[m] || strings.HasPrefix(m, "Set") || m == "Add" || m == "Clear") {
										for _, v := range aliases[id.Obj] {
											w := srcWrite{Var: p.name + "." + v, Fn: fn, Kind: "call:" + m + "@alias"}
											if !seen[w] {
												seen[w] = true
												writes = append(writes, w)
											}
										}
									}
								}
							}
							return true
						})
					}
					p.forEachPkgVarMutation(body, imports, func(v string, kind string, pos token.Pos) {
						w := srcWrite{Var: p.name + "." + v, Fn: fn, Kind: kind}
						if !seen[w] {
							seen[w] = true
							writes = append(writes, w)
						}
					})
				case *ast.GenDecl:
					if fd.Tok == token.VAR {
						for _, s := range fd.Specs {
							vs := s.(*ast.ValueSpec)
							for _, id := range vs.Names {
								for _, val := range vs.Values {
									addMentions(cg, "var:"+p.name+"."+id.Name, val, p)
								}
							}
						}
					}
				}
			}
		}
	}
	// a write inside an unexported helper with exactly ONE calling function is attributed to that caller
	// (extracting `nextID()` out of `newThing()` does not change who writes)
	for i := range writes {
		writes[i].Caller = writes[i].Fn
		for rep := 0; rep < 2; rep++ {
			fn := writes[i].Caller
			dot := strings.LastIndexByte(fn, '.')
			if dot < 0 || strings.Count(fn, ".") != 1 {
				break // a method, or not pkg.func
			}
			bare := fn[dot+1:]
			if bare == "" || ast.IsExported(bare) || len(cg.funcsByBare[bare]) != 1 {
				break
			}
			var callers []string
			for from, ms := range cg.mentions {
				if ms[bare] && from != fn && !strings.HasPrefix(from, "var:") && strings.HasPrefix(from, fn[:dot+1]) {
					callers = append(callers, from)
				}
			}
			if len(callers) != 1 {
				break
			}
			writes[i].Caller = callers[0]
		}
	}
	{
		dedup := map[srcWrite]bool{}
		var ws []srcWrite
		for _, w := range writes {
			if !dedup[w] {
				dedup[w] = true
				ws = append(ws, w)
			}
		}
		writes = ws
	}
	sort.Slice(writes, func(i, j int) bool {
		a, b := writes[i], writes[j]
		if a.Var != b.Var {
			return a.Var < b.Var
		}
		if a.Fn != b.Fn {
			return a.Fn < b.Fn
		}
		return a.Kind < b.Kind
	})
	return writes, cg, nil
}

func addMentions(cg *callGraph, from string, n ast.Node, p *srcPkg) {
	m := cg.mentions[from]
	if m == nil {
		m = map[string]bool{}
		cg.mentions[from] = m
	}
	ast.Inspect(n, func(x ast.Node) bool {
		if id, ok := x.(*ast.Ident); ok {
			m[id.Name] = true
			if p.vars[id.Name] {
				m["var:"+p.name+"."+id.Name] = true
			}
		}
		return true
	})
}

// reachable returns the qualified names reachable from the entry predicates.
func (cg *callGraph) reachable(isEntry func(q string) bool) map[string]bool {
	seen := map[string]bool{}
	var work []string
	for _, qs := range cg.funcsByBare {
		for _, q := range qs {
			if isEntry(q) && !seen[q] {
				seen[q] = true
				work = append(work, q)
			}
		}
	}
	sort.Strings(work)
	for len(work) > 0 {
		q := work[len(work)-1]
		work = work[:len(work)-1]
		for name := range cg.mentions[q] {
			var targets []string
			if strings.HasPrefix(name, "var:") {
				targets = []string{name}
			} else {
				targets = cg.funcsByBare[name]
			}
			for _, t := range targets {
				if !seen[t] {
					seen[t] = true
					work = append(work, t)
				}
			}
		}
	}
	return seen
}

// capturedWrites: variables assigned inside the function node `fn` (a FuncLit or
// a FuncDecl) whose declaration lies outside it (for a method the receiver
// counts as outside: it is shared by all calls). Result: sorted, de-duplicated
// "name" / "name.field…" roots, kind appended.
func capturedWritesOf(fn ast.Node, recv *ast.Ident, p *srcPkg, imports map[string]string) []string {
	lo, hi := fn.Pos(), fn.End()
	set := map[string]bool{}
	forEachWrite(fn, imports, func(t ast.Expr, kind string, pos token.Pos) {
		id, qual := rootOf(t, imports)
		if qual != "" {
			set[qual+" "+kind] = true
			return
		}
		if id == nil || id.Name == "_" {
			return
		}
		// a bare `&x` of a local/outer variable handed to a call is not counted as an
		// assignment unless the root is declared outside (conservative)
		inside := false
		if id.Obj != nil {
			if dp := objPos(id.Obj); dp != token.NoPos && dp >= lo && dp < hi {
				inside = true
			}
		}
		if recv != nil && id.Obj != nil && id.Obj == recv.Obj {
			inside = false
		}
		if id.Obj == nil && !p.vars[id.Name] {
			return // universe / unresolved non-variable
		}
		if inside {
			return
		}
		_, isIdent := unparen(t).(*ast.Ident)
		what := id.Name
		if !isIdent {
			what += "(.)" // a component (field / element) of the outer variable
		}
		set[what+" "+kind] = true
	})
	var out []string
	for k := range set {
		out = append(out, k)
	}
	sort.Strings(out)
	return out
}

func unparen(e ast.Expr) ast.Expr {
	for {
		p, ok := e.(*ast.ParenExpr)
		if !ok {
			return e
		}
		e = p.X
	}
}

func objPos(o *ast.Object) token.Pos {
	switch d := o.Decl.(type) {
	case *ast.Field:
		for _, n := range d.Names {
			if n.Name == o.Name {
				return n.Pos()
			}
		}
		return d.Pos()
	}
	if n, ok := o.Decl.(ast.Node); ok {
		return n.Pos()
	}
	return token.NoPos
}

func sfLeanStr(s string) string { return fmt.Sprintf("%q", s) }

// ---------------------------------------------------------------- writes through shared objects

type objWrite struct {
	Obj   string // struct type of the shared object (runtime component / ECALRuntimeProvider)
	Field string
	Fn    string
	Kind  string
	Phase string // "validate": inside a method named Validate (runs once, before the tree is shared); "run": anywhere else
}

func isSharedObjType(name string) bool {
	return name == "ECALRuntimeProvider" || strings.HasSuffix(name, "Runtime") || name == "ASTNode" || name == "function" || name == "ecalDebugger"
}

func typeNameOf(e ast.Expr) string {
	if s, ok := e.(*ast.StarExpr); ok {
		e = s.X
	}
	if id, ok := e.(*ast.Ident); ok {
		return id.Name
	}
	if sel, ok := e.(*ast.SelectorExpr); ok { // parser.ASTNode
		return sel.Sel.Name
	}
	return ""
}

// selectorPath returns root identifier and the selector names from the root outwards
// (index / star / paren are skipped): rt.erp.Mutexes[name] -> rt, [erp Mutexes]
func selectorPath(e ast.Expr) (*ast.Ident, []string) {
	var rev []string
	for {
		switch x := e.(type) {
		case *ast.ParenExpr:
			e = x.X
		case *ast.IndexExpr:
			e = x.X
		case *ast.SliceExpr:
			e = x.X
		case *ast.StarExpr:
			e = x.X
		case *ast.SelectorExpr:
			rev = append(rev, x.Sel.Name)
			e = x.X
		case *ast.Ident:
			path := make([]string, len(rev))
			for i := range rev {
				path[len(rev)-1-i] = rev[i]
			}
			return x, path
		default:
			return nil, nil
		}
	}
}

// sharedObjectWriteFacts: assignments / inc-dec / map-index writes / deletes / address-of /
// atomic updates of FIELDS of objects that are shared between parses and evaluations:
// the runtime provider and the runtime components attached to an AST. The object is
// recognised syntactically: the method receiver or a parameter whose declared type is
// *ECALRuntimeProvider or a struct type named …Runtime (a field `erp` on the way leads to
// the provider). Locals initialised inside the function (fresh objects) are not counted.
func sharedObjectWriteFacts(root string, pkg string) ([]objWrite, error) {
	p, err := loadSrcPkg(filepath.Join(root, pkg))
	if err != nil {
		return nil, err
	}
	seen := map[objWrite]bool{}
	var out []objWrite
	for _, f := range p.files {
		imports := fileImports(f)
		for _, d := range f.Decls {
			fd, ok := d.(*ast.FuncDecl)
			if !ok || fd.Body == nil {
				continue
			}
			shared := map[*ast.Object]string{}
			add := func(fl *ast.FieldList) {
				if fl == nil {
					return
				}
				for _, fld := range fl.List {
					tn := typeNameOf(fld.Type)
					if !isSharedObjType(tn) {
						continue
					}
					for _, n := range fld.Names {
						if n.Obj != nil {
							shared[n.Obj] = tn
						}
					}
				}
			}
			if !(fd.Recv != nil && len(fd.Recv.List) == 1 && typeNameOf(fd.Recv.List[0].Type) == "ecalDebugger" && fd.Name.Name != "InjectValue") {
				// (of the debugger only the console's parse path — InjectValue — belongs here; the rest is C15 / C16)
				add(fd.Recv)
			}
			add(fd.Type.Params)
			// parameters of function literals inside count too
			ast.Inspect(fd.Body, func(n ast.Node) bool {
				if fl, ok := n.(*ast.FuncLit); ok {
					add(fl.Type.Params)
				}
				return true
			})
			if len(shared) == 0 {
				continue
			}
			fn := funcName(p.name, fd)
			body := fd.Body
			// function literals handed to <once>.Do(…): what they write is written once, with the
			// happens-before edge of sync.Once
			var onceRanges [][2]token.Pos
			ast.Inspect(body, func(n ast.Node) bool {
				if c, ok := n.(*ast.CallExpr); ok {
					if sel, ok := c.Fun.(*ast.SelectorExpr); ok && sel.Sel.Name == "Do" && len(c.Args) == 1 {
						if fl, ok := c.Args[0].(*ast.FuncLit); ok {
							onceRanges = append(onceRanges, [2]token.Pos{fl.Pos(), fl.End()})
						}
					}
				}
				return true
			})
			inOnce := func(pos token.Pos) bool {
				for _, r := range onceRanges {
					if pos >= r[0] && pos < r[1] {
						return true
					}
				}
				return false
			}
			// local aliases of fields of shared objects: known := rt.erp.importTexts; known[k] = v
			type aliasOf struct{ obj, field string }
			fieldAlias := map[*ast.Object]aliasOf{}
			ast.Inspect(body, func(n ast.Node) bool {
				as, ok := n.(*ast.AssignStmt)
				if !ok || len(as.Rhs) != 1 || len(as.Lhs) < 1 {
					return true
				}
				if _, isCall := unparen(as.Rhs[0]).(*ast.CallExpr); isCall {
					return true
				}
				rid, rpath := selectorPath(as.Rhs[0])
				if rid == nil || rid.Obj == nil || len(rpath) == 0 {
					return true
				}
				obj, ok := shared[rid.Obj]
				if !ok {
					return true
				}
				field := rpath[0]
				if field == "erp" && len(rpath) > 1 {
					obj, field = "ECALRuntimeProvider", rpath[1]
				} else if field == "erp" || field == "baseRuntime" {
					return true
				} else if field == "node" {
					return true
				}
				if lid, ok := as.Lhs[0].(*ast.Ident); ok && lid.Obj != nil && lid.Name != "_" {
					fieldAlias[lid.Obj] = aliasOf{obj, field}
				}
				return true
			})
			if len(fieldAlias) > 0 {
				forEachWrite(body, imports, func(t ast.Expr, kind string, pos token.Pos) {
					id, _ := rootOf(t, imports)
					if id == nil || id.Obj == nil || kind == "addr" {
						return
					}
					al, ok := fieldAlias[id.Obj]
					if !ok {
						return
					}
					if _, bare := unparen(t).(*ast.Ident); bare {
						return
					}
					phase := "run"
					if fd.Name.Name == "Validate" && fd.Recv != nil {
						phase = "validate"
					}
					w := objWrite{al.obj, al.field, fn, kind + "@alias", phase}
					if !seen[w] {
						seen[w] = true
						out = append(out, w)
					}
				})
				ast.Inspect(body, func(n ast.Node) bool {
					if c, ok := n.(*ast.CallExpr); ok {
						if sel, ok := c.Fun.(*ast.SelectorExpr); ok && (mutatingMethod[sel.Sel.Name] || sel.Sel.Name == "Add") {
							if id, ok := sel.X.(*ast.Ident); ok && id.Obj != nil {
								if al, ok := fieldAlias[id.Obj]; ok {
									w := objWrite{al.obj, al.field, fn, "call:" + sel.Sel.Name + "@alias", "run"}
									if !seen[w] {
										seen[w] = true
										out = append(out, w)
									}
								}
							}
						}
					}
					return true
				})
			}
			forEachWrite(body, imports, func(t ast.Expr, kind string, pos token.Pos) {
				id, path := selectorPath(t)
				if id == nil || id.Obj == nil || len(path) == 0 {
					return
				}
				obj, ok := shared[id.Obj]
				if !ok {
					return
				}
				field := path[0]
				if field == "erp" && len(path) > 1 {
					obj, field = "ECALRuntimeProvider", path[1]
				} else if field == "baseRuntime" && len(path) > 1 {
					field = path[1]
				} else if field == "node" && len(path) > 1 {
					obj, field = "ASTNode", path[1] // the AST node the component is attached to: shared by all evaluations
				}
				if kind != "atomic" && lockBefore(body, pos) {
					kind += "+lock"
				}
				phase := "run"
				if fd.Name.Name == "Validate" && fd.Recv != nil {
					phase = "validate"
				} else if inOnce(pos) {
					phase = "once" // inside the function handed to sync.Once.Do
				}
				w := objWrite{obj, field, fn, kind, phase}
				if !seen[w] {
					seen[w] = true
					out = append(out, w)
				}
			})
			// mutating method calls on FIELDS of shared objects: rt.erp.MutexLog.Add(…), rt.cache.Store(…)
			ast.Inspect(body, func(n ast.Node) bool {
				c, ok := n.(*ast.CallExpr)
				if !ok {
					return true
				}
				sel, ok := c.Fun.(*ast.SelectorExpr)
				if !ok || !(mutatingMethod[sel.Sel.Name] || sel.Sel.Name == "Add" || sel.Sel.Name == "Get") {
					return true
				}
				id, path := selectorPath(sel.X)
				if id == nil || id.Obj == nil || len(path) == 0 {
					return true
				}
				obj, ok := shared[id.Obj]
				if !ok {
					return true
				}
				field := path[0]
				if field == "erp" && len(path) > 1 {
					obj, field = "ECALRuntimeProvider", path[1]
				} else if field == "erp" || field == "baseRuntime" {
					return true // a method of the provider / base component itself, not of a field
				}
				if sel.Sel.Name == "Get" && !(strings.Contains(strings.ToLower(field), "pool")) {
					return true
				}
				phase := "run"
				if fd.Name.Name == "Validate" && fd.Recv != nil {
					phase = "validate"
				}
				w := objWrite{obj, field, fn, "call:" + sel.Sel.Name, phase}
				if !seen[w] {
					seen[w] = true
					out = append(out, w)
				}
				return true
			})
		}
	}
	sort.Slice(out, func(i, j int) bool {
		a, b := out[i], out[j]
		if a.Obj != b.Obj {
			return a.Obj < b.Obj
		}
		if a.Field != b.Field {
			return a.Field < b.Field
		}
		if a.Fn != b.Fn {
			return a.Fn < b.Fn
		}
		return a.Kind < b.Kind
	})
	return out, nil
}

// ---------------------------------------------------------------- where the value of a package-level counter flows

func firstFieldOf(p *srcPkg, typ string) string {
	for _, f := range p.files {
		for _, d := range f.Decls {
			if gd, ok := d.(*ast.GenDecl); ok && gd.Tok == token.TYPE {
				for _, sp := range gd.Specs {
					if ts, ok := sp.(*ast.TypeSpec); ok && ts.Name.Name == typ {
						if st, ok := ts.Type.(*ast.StructType); ok && len(st.Fields.List) > 0 && len(st.Fields.List[0].Names) > 0 {
							return st.Fields.List[0].Names[0].Name
						}
					}
				}
			}
		}
	}
	return ""
}

// flowOfCallsTo: every call `helper(…)` in the package — does its result go (through fmt.Sprint / strconv /
// conversions) into the id field of a baseRuntime literal? "instanceID" if all do, "" if none found / not judged.
func flowOfCallsTo(p *srcPkg, helper string) string {
	res := ""
	for _, f := range p.files {
		parents := map[ast.Node]ast.Node{}
		var stack []ast.Node
		ast.Inspect(f, func(n ast.Node) bool {
			if n == nil {
				stack = stack[:len(stack)-1]
				return true
			}
			if len(stack) > 0 {
				parents[n] = stack[len(stack)-1]
			}
			stack = append(stack, n)
			return true
		})
		ast.Inspect(f, func(n ast.Node) bool {
			c, ok := n.(*ast.CallExpr)
			if !ok {
				return true
			}
			id, ok := c.Fun.(*ast.Ident)
			if !ok || id.Name != helper {
				return true
			}
			var cur ast.Node = c
			verdict := "unknown:result of helper " + helper
			for steps := 0; steps < 6; steps++ {
				par := parents[cur]
				switch x := par.(type) {
				case *ast.ParenExpr:
					cur = par
					continue
				case *ast.CallExpr:
					if sel, ok := x.Fun.(*ast.SelectorExpr); ok {
						if pid, ok := sel.X.(*ast.Ident); ok && (pid.Name == "fmt" || pid.Name == "strconv") {
							cur = par
							continue
						}
					}
				case *ast.CompositeLit:
					if typeNameOf(x.Type) == "baseRuntime" && len(x.Elts) > 0 && x.Elts[0] == cur {
						verdict = "instanceID"
					}
				case *ast.KeyValueExpr:
					if k, ok := x.Key.(*ast.Ident); ok && k.Name == firstFieldOf(p, "baseRuntime") {
						verdict = "instanceID"
					}
				}
				break
			}
			if res == "" || (res == "instanceID" && verdict != "instanceID") {
				res = verdict
			}
			return true
		})
	}
	return res
}

// counterFlows: for every place where the value of package-level variable `name` of package pkg is
// obtained (result of an atomic Add / Load / method Add / plain read), where does the value go?
// "instanceID"  = (through fmt.Sprint / Sprintf / strconv / a conversion / one local variable) into the field
//                 instanceID (first field) of a baseRuntime literal;
// "other:<ctx>" = into a condition, an operator, an index, a return value, another field — the value
//                 influences something else (refutes "flows only into instanceID");
// "unknown:<ctx>" = a context the extractor does not judge.
func counterFlows(root, pkg, name string) ([][2]string, error) {
	p, err := loadSrcPkg(filepath.Join(root, pkg))
	if err != nil {
		return nil, err
	}
	var out [][2]string
	seen := map[[2]string]bool{}
	for _, f := range p.files {
		for _, d := range f.Decls {
			fd, ok := d.(*ast.FuncDecl)
			if !ok || fd.Body == nil || (fd.Name.Name == "init" && fd.Recv == nil) {
				continue
			}
			fn := funcName(p.name, fd)
			parents := map[ast.Node]ast.Node{}
			var stack []ast.Node
			ast.Inspect(fd.Body, func(n ast.Node) bool {
				if n == nil {
					stack = stack[:len(stack)-1]
					return true
				}
				if len(stack) > 0 {
					parents[n] = stack[len(stack)-1]
				}
				stack = append(stack, n)
				return true
			})
			var classify func(n ast.Node, depth int) string
			classify = func(n ast.Node, depth int) string {
				for {
					par := parents[n]
					switch x := par.(type) {
					case *ast.ParenExpr:
						n = par
						continue
					case *ast.UnaryExpr: // &counter inside atomic.AddUint64(&counter, 1)
						n = par
						continue
					case *ast.SelectorExpr: // counter.Add / counter.Load
						n = par
						continue
					case *ast.CallExpr:
						if sel, ok := x.Fun.(*ast.SelectorExpr); ok {
							if id, ok := sel.X.(*ast.Ident); ok && (id.Name == "atomic" || id.Name == "fmt" || id.Name == "strconv") {
								n = par
								continue
							}
							if sel == n { // method call on the counter itself
								if sel.Sel.Name == "Store" || sel.Sel.Name == "CompareAndSwap" || sel.Sel.Name == "Swap" {
									return "other:" + sel.Sel.Name
								}
								n = par
								continue
							}
						}
						if id, ok := x.Fun.(*ast.Ident); ok && (id.Name == "string" || id.Name == "uint64" || id.Name == "int") {
							n = par
							continue
						}
						return "unknown:argument of a call"
					case *ast.CompositeLit:
						if typeNameOf(x.Type) == "baseRuntime" && len(x.Elts) > 0 && x.Elts[0] == n {
							return "instanceID"
						}
						return "other:element of a " + typeNameOf(x.Type) + " literal"
					case *ast.KeyValueExpr:
						// the id field = the FIRST field of struct baseRuntime, whatever it is called
						if k, ok := x.Key.(*ast.Ident); ok && k.Name == firstFieldOf(p, "baseRuntime") {
							if cl, ok := parents[par].(*ast.CompositeLit); ok && typeNameOf(cl.Type) == "baseRuntime" {
								return "instanceID"
							}
						}
						return "other:keyed element"
					case *ast.AssignStmt:
						// id := counter.Add(1): follow the local
						if depth < 2 && len(x.Lhs) == 1 && len(x.Rhs) == 1 {
							if id, ok := x.Lhs[0].(*ast.Ident); ok && id.Obj != nil {
								res := ""
								ast.Inspect(fd.Body, func(u ast.Node) bool {
									if uid, ok := u.(*ast.Ident); ok && uid.Obj == id.Obj && uid != id {
										c := classify(uid, depth+1)
										if res == "" || (res == "instanceID" && c != "instanceID") {
											res = c
										}
									}
									return true
								})
								if res == "" {
									return "unknown:value dropped"
								}
								return res
							}
						}
						return "other:assignment"
					case *ast.ExprStmt:
						return "dropped"
					case *ast.BinaryExpr:
						return "other:operator"
					case *ast.IfStmt, *ast.SwitchStmt, *ast.ForStmt:
						return "other:condition"
					case *ast.IndexExpr:
						return "other:index"
					case *ast.ReturnStmt:
						// a helper that just returns the value: where do the results of its calls go? (one level)
						if depth < 2 && fd.Recv == nil {
							if v := flowOfCallsTo(p, fd.Name.Name); v != "" {
								return v
							}
						}
						return "other:returned"
					default:
						return fmt.Sprintf("unknown:%T", par)
					}
				}
			}
			ast.Inspect(fd.Body, func(n ast.Node) bool {
				if id, ok := n.(*ast.Ident); ok && id.Name == name && p.isPkgLevel(id) {
					c := classify(id, 0)
					if c == "dropped" {
						return true
					}
					e := [2]string{fn, c}
					if !seen[e] {
						seen[e] = true
						out = append(out, e)
					}
				}
				return true
			})
		}
	}
	sort.Slice(out, func(i, j int) bool { return out[i][0]+out[i][1] < out[j][0]+out[j][1] })
	return out, nil
}

// ---------------------------------------------------------------- Validate call sites

// validateCallSites: every call `<x>.Validate()` in the package, classified:
// "recursion" = inside a method named Validate, on the embedded base component or on a child's runtime;
// "fresh"     = on the Runtime of a tree the same function obtained from ParseWithRuntime / Parse (validated
//               by the goroutine that parsed it, before anybody else can hold it);
// "other"     = anything else (e.g. a lazily validating Eval on a shared component).
func validateCallSites(root, pkg string) ([][2]string, error) {
	p, err := loadSrcPkg(filepath.Join(root, pkg))
	if err != nil {
		return nil, err
	}
	var out [][2]string
	seen := map[[2]string]bool{}
	for _, f := range p.files {
		for _, d := range f.Decls {
			fd, ok := d.(*ast.FuncDecl)
			if !ok || fd.Body == nil {
				continue
			}
			fn := funcName(p.name, fd)
			// trees obtained from the parser in this function
			fresh := map[*ast.Object]bool{}
			ast.Inspect(fd.Body, func(n ast.Node) bool {
				if as, ok := n.(*ast.AssignStmt); ok && len(as.Rhs) == 1 {
					if c, ok := as.Rhs[0].(*ast.CallExpr); ok {
						if sel, ok := c.Fun.(*ast.SelectorExpr); ok && (sel.Sel.Name == "ParseWithRuntime" || sel.Sel.Name == "Parse") {
							if id, ok := as.Lhs[0].(*ast.Ident); ok && id.Obj != nil {
								fresh[id.Obj] = true
							}
						}
					}
				}
				return true
			})
			ast.Inspect(fd.Body, func(n ast.Node) bool {
				c, ok := n.(*ast.CallExpr)
				if !ok {
					return true
				}
				sel, ok := c.Fun.(*ast.SelectorExpr)
				if !ok || sel.Sel.Name != "Validate" || len(c.Args) != 0 {
					return true
				}
				class := "other"
				id, path := selectorPath(sel.X)
				switch {
				case id != nil && id.Obj != nil && fresh[id.Obj]:
					class = "fresh"
				case fd.Name.Name == "Validate" && fd.Recv != nil && id != nil && len(path) >= 1 &&
					(path[len(path)-1] == "baseRuntime" || path[len(path)-1] == "Runtime" || strings.HasSuffix(path[len(path)-1], "Runtime")):
					class = "recursion"
				}
				e := [2]string{fn, class}
				if !seen[e] {
					seen[e] = true
					out = append(out, e)
				}
				return true
			})
		}
	}
	sort.Slice(out, func(i, j int) bool { return out[i][0]+out[i][1] < out[j][0]+out[j][1] })
	return out, nil
}

// ---------------------------------------------------------------- clocks on the parse path

// timeUses: calls of the time package (After, Now, Sleep, Tick, NewTimer, NewTicker, AfterFunc, Since, Until) in the
// functions for which reach says true: a parse that looks at a clock (e.g. a select with a timeout around the token
// channel) is not a function of its input even though it writes nothing.
func timeUses(root string, pkgs []string, reach map[string]bool) ([][2]string, error) {
	clock := map[string]bool{"After": true, "Now": true, "Sleep": true, "Tick": true, "NewTimer": true, "NewTicker": true,
		"AfterFunc": true, "Since": true, "Until": true}
	var out [][2]string
	seen := map[[2]string]bool{}
	for _, pn := range pkgs {
		p, err := loadSrcPkg(filepath.Join(root, pn))
		if err != nil {
			return nil, err
		}
		for _, f := range p.files {
			imports := fileImports(f)
			for _, d := range f.Decls {
				fd, ok := d.(*ast.FuncDecl)
				if !ok || fd.Body == nil || !reach[funcName(p.name, fd)] {
					continue
				}
				ast.Inspect(fd.Body, func(n ast.Node) bool {
					if sel, ok := n.(*ast.SelectorExpr); ok {
						if id, ok := sel.X.(*ast.Ident); ok && id.Obj == nil && imports[id.Name] == "time" && clock[sel.Sel.Name] {
							e := [2]string{funcName(p.name, fd), "time." + sel.Sel.Name}
							if !seen[e] {
								seen[e] = true
								out = append(out, e)
							}
						}
					}
					return true
				})
			}
		}
	}
	sort.Slice(out, func(i, j int) bool { return out[i][0]+out[i][1] < out[j][0]+out[j][1] })
	return out, nil
}
