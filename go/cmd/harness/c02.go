package main

// C02 — waiting on an event returns after its whole cascade, with exactly its errors.
//
// A case is a set of cascade plans which are run concurrently on one REAL
// engine.Processor. A plan is a tree of events: every node says whether its event
// triggers (t), is skipped (s: no rule for its kind) or triggers without any rule
// matching its state (z); a triggering node has rules (o = returns nil, x = returns an
// error), children are added from inside the action of a given rule with
// NewChildMonitor + AddEvent under the action's monitor.
//
//	payload : W<workers>,F<failOnFirstError 0|1>,S<schedule seed>,D<schedule mode 0..5>,M<through ECAL 0|1> <casc> <casc> …
//	casc    : <w|a>=<node>/<node>/…        w = AddEventAndWait, a = AddEvent + finish handler
//	node    : <parent|->.<parent rule|->.<t|s|z>.<rules|->      (node 0 is the root)
//	result  : <casc result> ; … [ ~ <trace> ; …]
//	casc result : ret=1 early=0 handler=H fin=K/K errs=<node>.<rule>e,… foreign=0 nil=0
//
// ret: the wait returned; early: number of rule actions whose completion stamp is later
// than the return; handler: finish handler invocations; fin: monitors handed to AddEvent
// which report IsFinished() after the return / monitors handed; errs: AllErrors() after the
// return as a sorted list; foreign: entries of another cascade; nil: nil entries seen by the
// root-monitor error observer (which calls AllErrors() the way engine.md shows).
//
// With the hook call sites of hooks/C02.patch present in the tree under test, every case
// also records the ordered trace of the protocol steps of each cascade (and yields/parks
// goroutines at those points, seeded); the Lean driver replays the traces on the
// transition system.

import (
	"fmt"
	"os"
	"runtime"
	"sort"
	"strconv"
	"strings"
	"sync"
	"sync/atomic"
	"syscall"
	"time"

	"github.com/krotik/ecal/engine"
	"github.com/krotik/ecal/stdlib"
	"github.com/krotik/ecal/verifhook"
)

type c02Node struct {
	parent, prule int
	kind          byte   // t triggering, s skipped (no rule for the kind), z triggering without a matching rule
	rules         string // o ok, x error, O/X the same after blocking for a while, r (ECAL) sink ends in `return`
	link          byte   // how the event is added: c child monitor of the adding action's monitor;
	// n new root monitor + AddEventAndWait inside the action (nested wait); d new root monitor /
	// nil monitor / ECAL scope argument, not waited for; l (ECAL) addEvent inside a for loop of the
	// sink; u (ECAL) addEvent inside a user function called by the sink
	children map[int][]int
	unit     int // the (sub-)cascade the node belongs to
	twin     int // >= 0: the event has the NAME, KIND and RULES of that (sibling) node, only its state differs
}

type c02Casc struct {
	mode  byte
	nodes []c02Node
}

// c02Unit is one root monitor's cascade: the outer cascade of a plan, or a nested / detached one
// started by an action.
type c02Unit struct {
	ci, root int
	mode     byte // w AddEventAndWait, a AddEvent + finish handler, n nested wait, d detached
	via      byte
}

type c02Plan struct {
	workers   int
	failFirst bool
	seed      uint64
	sched     int // schedule mode, see c02Hook
	ecal      bool
	noHandler bool // H0: no finish handler is set (w mode)
	noErrObs  bool // E0: no root monitor error observer
	prios     bool // P1: child monitors get different priorities
	nilRoot   bool // R0: AddEventAndWait(ev, nil) — the root monitor is created inside (w mode, triggering root)
	cascs     []c02Casc
	units     []c02Unit
}

func c02Parse(p string) *c02Plan {
	f := strings.Split(p, " ")
	pl := &c02Plan{}
	for _, h := range strings.Split(f[0], ",") {
		v, _ := strconv.ParseUint(h[1:], 10, 64)
		switch h[0] {
		case 'W':
			pl.workers = int(v)
		case 'F':
			pl.failFirst = v == 1
		case 'S':
			pl.seed = v
		case 'D':
			pl.sched = int(v)
		case 'M':
			pl.ecal = v == 1
		case 'H':
			pl.noHandler = v == 0
		case 'E':
			pl.noErrObs = v == 0
		case 'P':
			pl.prios = v == 1
		case 'R':
			pl.nilRoot = v == 0
		}
	}
	for ci, cs := range f[1:] {
		c := c02Casc{mode: cs[0]}
		for _, ns := range strings.Split(cs[2:], "/") {
			x := strings.Split(ns, ".")
			n := c02Node{parent: -1, prule: -1, kind: x[2][0], link: 'c', twin: -1, children: map[int][]int{}}
			if x[0] != "-" {
				n.parent, _ = strconv.Atoi(x[0])
				n.prule, _ = strconv.Atoi(x[1])
			}
			if x[3] != "-" {
				n.rules = x[3]
			}
			if len(x) > 4 {
				n.link = x[4][0]
			}
			if len(x) > 5 && x[5][0] == 't' {
				n.twin, _ = strconv.Atoi(x[5][1:])
			}
			ni := len(c.nodes)
			switch {
			case n.parent < 0:
				n.unit = len(pl.units)
				pl.units = append(pl.units, c02Unit{ci: ci, root: 0, mode: c.mode})
			case n.link != 'c':
				n.unit = len(pl.units)
				m := byte('d')
				if n.link == 'n' {
					m = 'n'
				}
				pl.units = append(pl.units, c02Unit{ci: ci, root: ni, mode: m, via: n.link})
			default:
				n.unit = c.nodes[n.parent].unit
			}
			c.nodes = append(c.nodes, n)
			if n.parent >= 0 {
				pn := &c.nodes[n.parent]
				pn.children[n.prule] = append(pn.children[n.prule], ni)
			}
		}
		pl.cascs = append(pl.cascs, c)
	}
	return pl
}

func (c *c02Casc) String() string {
	var ns []string
	for _, n := range c.nodes {
		r := n.rules
		if r == "" {
			r = "-"
		}
		l := ""
		if n.link != 'c' && n.link != 0 || n.twin >= 0 {
			lk := n.link
			if lk == 0 {
				lk = 'c'
			}
			l = "." + string(lk)
			if n.twin >= 0 {
				l += fmt.Sprintf(".t%d", n.twin)
			}
		}
		if n.parent < 0 {
			ns = append(ns, fmt.Sprintf("-.-.%c.%s", n.kind, r))
		} else {
			ns = append(ns, fmt.Sprintf("%d.%d.%c.%s%s", n.parent, n.prule, n.kind, r, l))
		}
	}
	return string(c.mode) + "=" + strings.Join(ns, "/")
}

// c02GenCasc draws a cascade shape: fan-out <= 4, depth <= 4, at most maxNodes nodes.
// rich: also nested waits, detached events, blocking actions (and, through ECAL, addEvent inside a
// loop / a user function, sinks ending in return); nested: how many nested waits may still be drawn.
func c02GenCasc(r *Rand, maxNodes int, pFail int, rich bool, ecal bool, nested *int) c02Casc {
	c := c02Casc{mode: 'w'}
	if r.Intn(4) == 0 {
		c.mode = 'a'
	}
	type item struct{ idx, depth int }
	mk := func(parent, prule, depth int) c02Node {
		n := c02Node{parent: parent, prule: prule, kind: 't', link: 'c', twin: -1, children: map[int][]int{}}
		if rich && parent >= 0 {
			switch x := r.Intn(100); {
			case x < 7 && *nested > 0:
				n.link = 'n'
				*nested--
			case x < 15:
				n.link = 'd'
			case x < 20 && ecal:
				n.link = 'l'
			case x < 25 && ecal:
				n.link = 'u'
			}
		}
		switch x := r.Intn(20); {
		case x < 3:
			n.kind = 's'
		case x < 5:
			n.kind = 'z'
		}
		if parent < 0 && r.Intn(8) != 0 {
			n.kind = 't'
		}
		if n.kind == 't' {
			k := 1 + r.Intn(3)
			for i := 0; i < k; i++ {
				ch := "o"
				if r.Intn(100) < pFail {
					ch = "x"
					if rich && ecal && r.Intn(8) == 0 {
						ch = "r"
					}
				}
				if rich && ch != "r" && r.Intn(7) == 0 {
					ch = strings.ToUpper(ch)
				}
				n.rules += ch
			}
		}
		return n
	}
	c.nodes = append(c.nodes, mk(-1, -1, 0))
	queue := []item{{0, 0}}
	for len(queue) > 0 {
		it := queue[0]
		queue = queue[1:]
		n := c.nodes[it.idx]
		if n.kind != 't' || it.depth >= 4 {
			continue
		}
		fan := r.Intn(5)
		if it.depth == 0 && fan == 0 {
			fan = 1 + r.Intn(3)
		}
		for k := 0; k < fan && len(c.nodes) < maxNodes; k++ {
			pr := r.Intn(len(n.rules))
			c.nodes = append(c.nodes, mk(it.idx, pr, it.depth+1))
			queue = append(queue, item{len(c.nodes) - 1, it.depth + 1})
		}
	}
	if rich {
		// up to two TWINS: a second event with the name, kind and rules of a leaf sibling, added by
		// the same action with a different state (one rule serves both events)
		for t := 0; t < 2 && len(c.nodes) < maxNodes+2; t++ {
			var leaves []int
			for i, n := range c.nodes {
				if n.parent >= 0 && n.kind == 't' && n.link == 'c' && n.twin < 0 {
					leaf := true
					for _, m := range c.nodes {
						if m.parent == i || m.twin == i {
							leaf = false
						}
					}
					if leaf {
						leaves = append(leaves, i)
					}
				}
			}
			if len(leaves) == 0 || r.Intn(2) == 0 {
				break
			}
			a := leaves[r.Intn(len(leaves))]
			n := c.nodes[a]
			c.nodes = append(c.nodes, c02Node{parent: n.parent, prule: n.prule, kind: 't', rules: n.rules, link: 'c', twin: a, children: map[int][]int{}})
		}
	}
	return c
}

// c02TinyPlans enumerates "W<w>,F<f> <casc>" for all cascades with <= 3 events (rule lists o, x, ox,
// xo; skipped and zero-rule events), workers 1..2, failOnFirstError on/off, both wait modes.
func c02TinyPlans() []string {
	kinds := []string{"t.o", "t.x", "t.ox", "t.xo", "s.-", "z.-"}
	nrules := func(k string) int {
		if k[0] != 't' {
			return 0
		}
		return len(k) - 2
	}
	var shapes []string
	for _, k0 := range kinds {
		shapes = append(shapes, "-.-."+k0)
		for r1 := 0; r1 < nrules(k0); r1++ {
			for _, k1 := range kinds {
				two := fmt.Sprintf("-.-.%s/0.%d.%s", k0, r1, k1)
				shapes = append(shapes, two)
				for par, pk := range []string{k0, k1} {
					for r2 := 0; r2 < nrules(pk); r2++ {
						if par == 0 && r2 < r1 {
							continue // children of the root are listed in rule order
						}
						for _, k2 := range kinds {
							shapes = append(shapes, fmt.Sprintf("%s/%d.%d.%s", two, par, r2, k2))
						}
					}
				}
			}
		}
	}
	var out []string
	for _, sh := range shapes {
		for _, w := range []int{1, 2} {
			for _, f := range []int{0, 1} {
				for _, m := range []string{"w", "a"} {
					out = append(out, fmt.Sprintf("W%d,F%d %s=%s", w, f, m, sh))
				}
			}
		}
	}
	return out
}

// ---------------------------------------------------------------- run state, hook handler

type c02State struct {
	plan *c02Plan
	mu   sync.Mutex
	rng  *Rand
	// trace
	rootOf  map[uint64]int         // go root monitor id -> cascade
	dense   map[uint64]int         // go monitor id -> id inside its cascade
	nextID  map[int]int            // cascade -> next monitor id
	goIdx   map[uint64]int         // goroutine id -> worker index
	trace   map[int][]string       // cascade -> tokens
	gtrace  []string               // all tokens in global order, <cascade>:<token>
	hooks   int                    // hook events seen
	parked  bool                   // a task is parked between SetErrors and Finish
	obsDone int                    // completed AllErrors calls of the error observer
	nilSeen map[int]int            // cascade -> nil entries seen by the error observer
	handed  map[int][]engine.Monitor
	stamps  map[int]map[string]int64
	unknown int
	goCasc  map[uint64]int // goroutine evaluating addEventAndWait(...) -> cascade (ECAL mode)
	posted  map[uint64]int // root -> cascade.post events seen
	obsRun  map[uint64]int // root -> callbacks run
	holds   map[uint64]int // root -> lock holds done
	prio    map[uint64]int // PCT: goroutine -> priority
	change  []int          // PCT: priority change points (hook event numbers)
	step    int
	low     int
	cmu     sync.Mutex
	counts  map[string]int
	expect  map[uint64]int // goroutine -> unit whose root monitor the goroutine is about to create
}

var c02Cur atomic.Pointer[c02State]
var c02Clock int64

func c02Goid() uint64 {
	var buf [64]byte
	n := runtime.Stack(buf[:], false)
	f := strings.Fields(string(buf[:n]))
	if len(f) < 2 {
		return 0
	}
	v, _ := strconv.ParseUint(f[1], 10, 64)
	return v
}

// rec appends a token to the trace of the cascade of root (caller holds st.mu).
func (st *c02State) rec(root uint64, tok string) {
	ci, ok := st.rootOf[root]
	if !ok {
		st.unknown++
		return
	}
	st.trace[ci] = append(st.trace[ci], tok)
	st.gtrace = append(st.gtrace, strconv.Itoa(ci)+":"+tok)
}

func (st *c02State) id(mon uint64) int {
	if d, ok := st.dense[mon]; ok {
		return d
	}
	return 9999
}

// c02EventNode: the plan node of an event = the "id" entry of its state (names and kinds may be
// shared by several events).
func c02EventNode(e interface{}) int {
	ev, ok := e.(*engine.Event)
	if !ok || ev == nil {
		return 9999
	}
	switch v := ev.State()["id"].(type) {
	case int:
		return v
	case float64:
		return int(v)
	}
	return 9999
}

// name and kind of the event of a plan node: c<ci>n<A> / ["c<ci>", "n<A>"], A = the node or its twin
func c02EvName(plan *c02Plan, ci, ni int) string {
	if t := plan.cascs[ci].nodes[ni].twin; t >= 0 {
		ni = t
	}
	return fmt.Sprintf("c%dn%d", ci, ni)
}

func c02EvKind(plan *c02Plan, ci, ni int) []string {
	if t := plan.cascs[ci].nodes[ni].twin; t >= 0 {
		ni = t
	}
	return []string{fmt.Sprintf("c%d", ci), fmt.Sprintf("n%d", ni)}
}

func c02Event(plan *c02Plan, ci, ni int) *engine.Event {
	return engine.NewEvent(c02EvName(plan, ci, ni), c02EvKind(plan, ci, ni), map[interface{}]interface{}{"id": ni})
}

// count adds to a per-case counter (hook goroutines run concurrently: not CountRun directly)
func (st *c02State) count(key string) {
	st.cmu.Lock()
	st.counts[key]++
	st.cmu.Unlock()
}

// flush hands the per-case counters to the run statistics (case goroutine only)
func (st *c02State) flush() {
	st.cmu.Lock()
	defer st.cmu.Unlock()
	for k, v := range st.counts {
		for i := 0; i < v; i++ {
			CountRun(k)
		}
	}
	st.counts = map[string]int{}
}

func (st *c02State) has(mode int) bool {
	d := st.plan.sched
	return d == mode || (d == 5 && mode >= 1 && mode <= 3)
}

func c02Hook(point string, args ...interface{}) {
	st := c02Cur.Load()
	if st == nil {
		return
	}
	if point == "pool.add.done" && st.has(2) {
		// pool.AddTask is over. If this is the goroutine that adds a cascade's root event, hold it
		// until that cascade has posted its finished message (and the callbacks ran)
		gid := c02Goid()
		st.mu.Lock()
		ci, ok := st.goCasc[gid]
		st.mu.Unlock()
		if !ok {
			return
		}
		dl := time.Now().Add(20 * time.Millisecond)
		for time.Now().Before(dl) {
			st.mu.Lock()
			d := st.posted[c02RootOfCasc(st, ci)] > 0
			st.mu.Unlock()
			if d {
				time.Sleep(300 * time.Microsecond)
				st.count("sched: adder held after AddTask until the cascade posted")
				break
			}
			time.Sleep(50 * time.Microsecond)
		}
		return
	}
	if !strings.HasPrefix(point, "cascade.") {
		return
	}
	u := func(i int) uint64 {
		v, _ := args[i].(uint64)
		return v
	}
	var gid uint64
	root := u(0)
	st.mu.Lock()
	_, known := st.rootOf[root]
	st.mu.Unlock()
	if point == "cascade.pop" || st.plan.sched == 4 || !known {
		gid = c02Goid()
	}
	st.mu.Lock()
	st.hooks++
	if !known {
		// a root monitor created inside the engine / a builtin: the goroutine announced the unit
		// (x.c02expect / nil-monitor AddEvent), or it is the goroutine evaluating an outer addEventAndWait
		if un, ok := st.expect[gid]; ok {
			st.bind(root, un)
			delete(st.expect, gid)
		} else if un, ok := st.goCasc[gid]; ok && point == "cascade.wait.registered" {
			if _, taken := st.nextID[un]; !taken {
				st.bind(root, un)
			}
		}
	}
	const (
		actNone = iota
		actParkSetErrors
		actHoldLock
		actHoldZeroSeer
		actHoldAfterUnlock
	)
	act := actNone
	switch point {
	case "cascade.child":
		if ci, ok := st.rootOf[root]; ok {
			st.dense[u(1)] = st.nextID[ci]
			st.nextID[ci]++
		}
		st.rec(root, fmt.Sprintf("C%d.%d.%v", st.id(u(2)), st.id(u(1)), args[3]))
	case "cascade.push":
		st.rec(root, fmt.Sprintf("A%d.%d", st.id(u(1)), c02EventNode(args[2])))
	case "cascade.handler.registered":
		st.rec(root, "J")
	case "cascade.added":
		st.rec(root, fmt.Sprintf("K%d", st.id(u(1))))
	case "cascade.pop":
		w, ok := st.goIdx[gid]
		if !ok {
			w = len(st.goIdx)
			st.goIdx[gid] = w
		}
		st.rec(root, fmt.Sprintf("B%d.%d", st.id(u(1)), w))
	case "cascade.run.begin":
		st.rec(root, fmt.Sprintf("G%d", st.id(u(1))))
	case "cascade.run.end":
		st.rec(root, fmt.Sprintf("N%d.%v", st.id(u(1)), args[2]))
	case "cascade.seterrors":
		st.rec(root, fmt.Sprintf("T%d", st.id(u(1))))
		if st.has(1) && !st.parked {
			st.parked = true
			act = actParkSetErrors
		}
	case "cascade.handled":
		st.rec(root, fmt.Sprintf("H%d", st.id(u(1))))
	case "cascade.finished.locked":
		st.rec(root, fmt.Sprintf("F%d.%v.%d", st.id(u(1)), args[2], c02EventNode(args[3])))
		if unf, _ := args[2].(int); st.has(3) && unf == 1 && st.holds[root] < 2 {
			st.holds[root]++
			act = actHoldLock
		}
	case "cascade.finished.unlocked":
		b := 0
		if v, _ := args[2].(bool); v {
			b = 1
		}
		st.rec(root, fmt.Sprintf("U%d.%d", st.id(u(1)), b))
		if st.has(3) {
			if b == 1 {
				act = actHoldZeroSeer
			} else if st.rng.Intn(3) == 0 {
				act = actHoldAfterUnlock
			}
		}
	case "cascade.post":
		st.posted[root]++
		st.rec(root, "P")
	case "cascade.queue.drop":
		st.rec(root, "D")
	case "cascade.obs.queue":
		st.obsRun[root]++
		st.rec(root, "Oq")
	case "cascade.obs.wait":
		st.obsRun[root]++
		st.rec(root, "Ow")
	case "cascade.obs.handler":
		st.obsRun[root]++
		st.rec(root, "Oh")
	case "cascade.wait.registered":
		st.rec(root, "W")
	}
	x := st.rng.Intn(100)
	obs0 := st.obsDone
	pct := time.Duration(0)
	if st.plan.sched == 4 {
		// PCT: rank of this goroutine's priority among the goroutines seen so far
		st.step++
		if _, ok := st.prio[gid]; !ok {
			st.prio[gid] = 1000 + st.rng.Intn(1000)
		}
		for _, cp := range st.change {
			if cp == st.step {
				st.low--
				st.prio[gid] = st.low
			}
		}
		rank := 0
		for _, p := range st.prio {
			if p > st.prio[gid] {
				rank++
			}
		}
		pct = time.Duration(rank) * 25 * time.Microsecond
	}
	st.mu.Unlock()
	switch act {
	case actParkSetErrors:
		// hold this failing task between SetErrors and Finish until the error observer of another
		// task has called AllErrors (or nothing of the kind happens)
		dl := time.Now().Add(20 * time.Millisecond)
		for time.Now().Before(dl) {
			st.mu.Lock()
			d := st.obsDone > obs0
			st.mu.Unlock()
			if d {
				st.count("sched: failing task held between SetErrors and Finish until another AllErrors call")
				break
			}
			time.Sleep(50 * time.Microsecond)
		}
		st.mu.Lock()
		st.parked = false
		st.mu.Unlock()
		return
	case actHoldLock:
		st.count("sched: finisher held inside the root lock with one monitor outstanding (2 ms)")
		time.Sleep(2 * time.Millisecond)
		return
	case actHoldZeroSeer:
		st.count("sched: zero-seer held before PostEvent")
		time.Sleep(500 * time.Microsecond)
		return
	case actHoldAfterUnlock:
		st.count("sched: non-last finisher held after Unlock")
		time.Sleep(300 * time.Microsecond)
		return
	}
	if st.plan.sched == 4 {
		if pct > 0 {
			time.Sleep(pct)
		}
		return
	}
	switch {
	case x < 55:
	case x < 85:
		runtime.Gosched()
	case x < 97:
		time.Sleep(time.Duration(10+x) * time.Microsecond)
	default:
		time.Sleep(300 * time.Microsecond)
	}
}

// c02Await waits for a cascade's wait to return. "Stuck" is decided from the absence of progress
// (hook events, action completions) over 10 s of observed time, not from a wall-clock limit: polls
// that come late (the whole process was not scheduled) do not count.
func c02Await(st *c02State, ci int, done chan struct{}) bool {
	progress := func() int64 {
		st.mu.Lock()
		defer st.mu.Unlock()
		return int64(st.hooks) + atomic.LoadInt64(&c02Clock)
	}
	last, lastT, idle := progress(), time.Now(), 0
	for {
		select {
		case <-done:
			return true
		case <-time.After(50 * time.Millisecond):
		}
		now := time.Now()
		gap := now.Sub(lastT)
		lastT = now
		if gap > 400*time.Millisecond {
			idle = 0
			continue
		}
		// the more waits of this run already proved stuck, the less patience (a tree in which
		// hundreds of cases hang must not take hours): 10 s, then 3 s, then 1 s without progress
		limit, short := 200, 40
		if h := c02HangsSoFar(); h >= 20 {
			limit, short = 20, 10
		} else if h >= 5 {
			limit, short = 60, 20
		}
		if p := progress(); p != last {
			last, idle = p, 0
		} else if idle++; idle >= limit {
			return false
		} else if idle >= short {
			// the hooks saw this cascade post its finished message and nothing has moved for
			// 2 s: the notification did not reach the waiter
			st.mu.Lock()
			posted := st.posted[c02RootOfCasc(st, ci)] > 0
			st.mu.Unlock()
			if posted {
				return false
			}
		}
	}
}

// c02Stuck ends the process when a wait did not return (a blocked AddEventAndWait cannot be
// cancelled; the parent records CRASH with this line and restarts): where the goroutines are.
// c02HangsSoFar: number of stuck waits recorded by the harness processes of this run (file in the
// working directory shared by all shards; read once per process).
var c02HangsOnce sync.Once
var c02Hangs int

func c02HangsSoFar() int {
	c02HangsOnce.Do(func() {
		if b, err := os.ReadFile("c02.hangs"); err == nil {
			c02Hangs = strings.Count(string(b), "\n")
		}
	})
	return c02Hangs
}

func c02Stuck(result string) {
	if f, err := os.OpenFile("c02.hangs", os.O_CREATE|os.O_WRONLY|os.O_APPEND, 0644); err == nil {
		fmt.Fprintln(f, "hang")
		f.Close()
	}
	buf := make([]byte, 1<<20)
	buf = buf[:runtime.Stack(buf, true)]
	cnt := map[string]int{}
	for _, b := range strings.Split(string(buf), "\n\n") {
		ls := strings.Split(b, "\n")
		var fs []string
		for _, l := range ls[1:] {
			if !strings.HasPrefix(l, "\t") && !strings.HasPrefix(l, "created by") {
				f := l
				if i := strings.LastIndex(f, "("); i > 0 {
					f = f[:i]
				}
				if i := strings.LastIndex(f, "/"); i >= 0 {
					f = f[i+1:]
				}
				fs = append(fs, f)
			}
			if len(fs) == 4 {
				break
			}
		}
		cnt[strings.Join(fs, "<")]++
	}
	var ks []string
	for k, v := range cnt {
		ks = append(ks, fmt.Sprintf("%dx %s", v, k))
	}
	sort.Strings(ks)
	fmt.Fprintf(os.Stderr, "C02-HANG wait did not return: %s || %s\n", result, strings.Join(ks, " | "))
	os.Exit(7)
}

func c02NilEntries(errs []*engine.TaskError) int {
	nils := 0
	for _, e := range errs {
		if e == nil || e.ErrorMap == nil || e.Event == nil {
			nils++
		}
	}
	return nils
}

type c02Fin interface{ IsFinished() bool }

// c02RootOfCasc finds the go id of the root monitor bound to cascade ci (caller holds st.mu).
func c02RootOfCasc(st *c02State, ci int) uint64 {
	for r, c := range st.rootOf {
		if c == ci {
			return r
		}
	}
	return 0
}

func init() {
	register("C02", &Prop{
		Timeout:          30 * time.Second,
		NoRestartOnPanic: false,
		Tool:             c02Tool,
		Setup: func() {
			// keep everything the process writes to stderr (a panic of a worker goroutine: message
			// and stacks) in a file next to the case files: the parent only sees a short tail
			if f, err := os.OpenFile(fmt.Sprintf("c02.stderr.%d", os.Getpid()), os.O_CREATE|os.O_WRONLY|os.O_APPEND, 0644); err == nil {
				if syscall.Dup2(int(f.Fd()), 2) == nil {
					c02Stderr = f
				}
			}
			verifhook.SetHandler(c02Hook)
			xPkgOnce.Do(func() { stdlib.AddStdlibPkg("x", "verification harness functions") })
			check(stdlib.AddStdlibFunc("x", "c02stamp", c02XFn{c02FnStamp}))
			check(stdlib.AddStdlibFunc("x", "c02expect", c02XFn{c02FnExpect}))
			check(stdlib.AddStdlibFunc("x", "c02result", c02XFn{c02FnResult}))
		},
		Gen: func(g *Gen) {
			ecalMode := false
			flags := ""
			emit := func(workers int, ff bool, sched int, cs []c02Casc) {
				var parts []string
				for i := range cs {
					parts = append(parts, cs[i].String())
				}
				f, d := 0, sched
				if ff {
					f = 1
				}
				// every nested wait occupies a worker while it waits: with all of them waiting at
				// the same time one more worker must be free (workers <= nesting is a deadlock of
				// the design, not generated: documented limitation)
				nestedWaits := 0
				for _, ps := range parts {
					nestedWaits += strings.Count(ps+"/", ".n/")
				}
				if workers < nestedWaits+1 {
					workers = nestedWaits + 1
				}
				g.Count(fmt.Sprintf("cascades=%d", len(cs)))
				g.Count(fmt.Sprintf("workers=%d", workers))
				m := 0
				if ecalMode {
					m = 1
					g.Count("through ECAL sinks")
					for i := range parts {
						parts[i] = "w" + parts[i][1:]
					}
				}
				g.Emit(fmt.Sprintf("W%d,F%d,S%d,D%d,M%d%s %s", workers, f, g.R.Intn(1<<30), d, m, flags, strings.Join(parts, " ")))
			}
			lit := func(s string) c02Casc { return c02Parse("W1 " + s).cascs[0] }
			// corpus: the shapes of the repaired defect (several failing tasks in one cascade, error
			// observer calling AllErrors) under the directed schedule, and protocol corner cases
			corpus := []string{
				"w=-.-.t.x/0.0.t.x/0.0.t.x/0.0.t.x",
				"w=-.-.t.ox/0.0.t.x/0.0.t.xo/0.1.t.x/1.0.t.x",
				"a=-.-.t.x/0.0.t.x/0.0.t.x",
				"w=-.-.s.-", "a=-.-.s.-", "w=-.-.z.-", "a=-.-.z.-", "w=-.-.t.o", "w=-.-.t.x",
				"w=-.-.t.o/0.0.s.-/0.0.s.-", "w=-.-.t.o/0.0.z.-/0.0.t.x/2.0.s.-",
			}
			for _, c := range corpus {
				for k, w := range []int{1, 2, 4, 16} {
					g.Count("corpus")
					emit(w, false, 1, []c02Casc{lit(c)})
					emit(w, false, []int{2, 3, 5, 4}[k], []c02Casc{lit(c)})
				}
			}
			// directed schedules around descendantFinished / PostEvent and around AddEvent: siblings
			// finishing at the same time (the last two finishers), adder held after AddTask
			for _, c := range []string{
				"w=-.-.t.o/0.0.t.o/0.0.t.o", "a=-.-.t.o/0.0.t.o/0.0.t.o", "w=-.-.t.o/0.0.t.x/0.0.t.o/0.0.t.x",
				"w=-.-.t.oo/0.0.t.o/0.1.t.o/1.0.t.o/2.0.t.o", "w=-.-.t.o", "a=-.-.t.o", "a=-.-.t.x", "w=-.-.t.o/0.0.s.-",
			} {
				for rep := 0; rep < 3; rep++ {
					for _, w := range []int{2, 4, 16} {
						g.Count("corpus directed")
						emit(w, false, 2, []c02Casc{lit(c)})
						emit(w, false, 3, []c02Casc{lit(c)})
						emit(w, rep == 1, 5, []c02Casc{lit(c), lit(c)})
					}
				}
			}
			// many tasks of one cascade failing at the same time on many workers: the error observers
			// overlap with other tasks' SetErrors … Finish even when no hook is compiled in
			wide := "w=-.-.t.o" + strings.Repeat("/0.0.t.x", 12)
			for i := 0; i < 60; i++ {
				g.Count("corpus wide failing cascade")
				emit(16, false, []int{1, 0, 3, 5, 1, 4}[i%6], []c02Casc{lit(wide)})
			}
			// nested waits (workers >= depth + 1), detached events, blocking actions, nil monitor, no
			// handler / no error observer, priorities; through ECAL: scope argument, loop, user function, return
			for _, c := range []string{
				"w=-.-.t.o/0.0.t.x.n/1.0.t.x", "w=-.-.t.ox/0.0.t.o.n/1.0.t.x.n/2.0.t.x", "a=-.-.t.X/0.0.t.O.d/1.0.t.x/0.0.t.o.d",
				"w=-.-.t.OX/0.1.t.x/0.0.t.O/2.0.t.X", "w=-.-.t.xo/0.1.t.o.n/0.0.s.-.d/0.0.s.-.n",
			} {
				for k, w := range []int{3, 4, 16} {
					g.Count("corpus rich")
					flags = []string{"", ",H0,P1", ",E0"}[k]
					emit(w, false, []int{0, 5, 4}[k], []c02Casc{lit(c)})
					emit(w, true, 1, []c02Casc{lit(c), lit(c)})
				}
			}
			flags = ""
			// two events with the same name and kind (and one rule serving both), different state;
			// a wide cascade: 300 failing children of one action (report size, counter width)
			twins := []string{"w=-.-.t.o/0.0.t.x/0.0.t.x.c.t1", "w=-.-.t.ox/0.1.t.xx/0.1.t.xx.c.t1/0.0.t.o/0.0.t.o.c.t3", "a=-.-.t.o/0.0.t.ox/0.0.t.ox.c.t1/0.0.t.x"}
			wide300 := "w=-.-.t.o" + strings.Repeat("/0.0.t.x", 300)
			for _, m := range []bool{false, true} {
				ecalMode = m
				for _, c := range twins {
					for _, w := range []int{2, 8} {
						g.Count("corpus shared event names")
						emit(w, false, 0, []c02Casc{lit(c)})
						emit(w, true, 4, []c02Casc{lit(c), lit(c)})
					}
				}
				if !m || g.Thorough() {
					g.Count("corpus 300 failing children")
					emit(16, false, 0, []c02Casc{lit(wide300)})
				}
			}
			ecalMode = false
			if g.Thorough() {
				// an action parked for 2.2 s: the wait must not return meanwhile (early=0)
				for _, c := range []string{"w=-.-.t.P", "w=-.-.t.o/0.0.t.P/0.0.t.x", "a=-.-.t.o/0.0.t.Px"} {
					g.Count("corpus parked action")
					emit(4, false, 0, []c02Casc{lit(c)})
				}
				ecalMode = true
				emit(4, false, 0, []c02Casc{lit("w=-.-.t.o/0.0.t.P")})
				ecalMode = false
			}
			ecalMode = true
			for _, c := range []string{
				"w=-.-.t.o/0.0.t.x.l/0.0.t.x.u/0.0.t.x.d/0.0.t.x", "w=-.-.t.or/0.0.t.r/0.1.t.x.n/2.0.t.r",
				"w=-.-.t.Ox/0.0.t.o.n/1.0.t.x.l/0.1.t.X.u",
			} {
				for _, w := range []int{3, 8} {
					g.Count("corpus rich")
					emit(w, false, 0, []c02Casc{lit(c)})
					emit(w, true, 5, []c02Casc{lit(c)})
				}
			}
			for _, c := range corpus[:2] {
				g.Count("corpus")
				emit(4, false, 1, []c02Casc{lit(c)})
				emit(4, true, 5, []c02Casc{lit(c), lit(c)})
			}
			ecalMode = false
			for _, w := range []int{2, 8} {
				g.Count("corpus")
				emit(w, false, 1, []c02Casc{lit(corpus[0]), lit(corpus[1]), lit(corpus[2])})
				emit(w, true, 5, []c02Casc{lit(corpus[1]), lit(corpus[1])})
			}
			// tiny plans (<= 3 events, <= 2 workers): every one of them is explored exhaustively on the
			// transition system by the driver; the real code runs each several times under different
			// schedule modes and the states its traces visit are compared with the explored space
			tiny := c02TinyPlans()
			reps := 30
			if !g.Thorough() {
				// a seed-dependent sample of 200 plans
				var pick []string
				for len(pick) < 200 {
					pick = append(pick, tiny[g.R.Intn(len(tiny))])
				}
				tiny = pick
			} else {
				reps = 12
			}
			for _, t := range tiny {
				for r := 0; r < reps; r++ {
					g.Count("tiny plan runs")
					g.Emit(fmt.Sprintf("%s,S%d,D%d,M0,T1 %s", t[:strings.Index(t, " ")], g.R.Intn(1<<30), []int{0, 4, 3, 5, 2, 1, 4, 0}[r%8], t[strings.Index(t, " ")+1:]))
				}
			}
			n := 2000
			if g.Thorough() {
				n = 12000
			}
			for i := 0; i < n; i++ {
				workers := 1 + g.R.Intn(16)
				if g.R.Intn(3) == 0 {
					workers = 1 + g.R.Intn(3)
				}
				nc := 1
				if g.R.Intn(2) == 0 {
					nc = 2 + g.R.Intn(3)
				}
				maxNodes := 4 + g.R.Intn(24)
				if i < n/4 {
					maxNodes = 2 + g.R.Intn(5)
				}
				pf := []int{0, 15, 30, 60}[g.R.Intn(4)]
				ecalMode = i%5 == 4
				rich := i%3 == 1
				nested := 2
				var cs []c02Casc
				for k := 0; k < nc; k++ {
					cs = append(cs, c02GenCasc(g.R, maxNodes, pf, rich, ecalMode, &nested))
				}
				if 2-nested >= workers {
					workers = 3 - nested // every nested wait occupies a worker: one more must be free
				}
				flags = ""
				if rich {
					g.Count("rich plans (nested/detached/blocking/…)")
					if g.R.Intn(8) == 0 {
						flags += ",H0"
					}
					if g.R.Intn(8) == 0 {
						flags += ",E0"
					}
					if g.R.Intn(3) == 0 {
						flags += ",P1"
					}
					if !ecalMode && g.R.Intn(8) == 0 {
						flags += ",R0"
					}
				}
				emit(workers, g.R.Intn(4) == 0, []int{0, 0, 0, 0, 0, 1, 1, 1, 2, 2, 2, 3, 3, 3, 4, 4, 4, 4, 5, 5}[g.R.Intn(20)], cs)
				flags = ""
				ecalMode = false
			}
		},
		Run: c02Run,
	})
}
