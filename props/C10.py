"""C10 — priorities order execution; the first failing rule ends a trigger sequence."""
import glob
import json
import os
import re
import subprocess

import checklib


def decode(p):
    f = p.split(" ")
    kind = {"R": "rules of one event (flag, prio:fails:addsChild …)", "S": "the same as ECAL sinks (interpreter default: flag on)", "B": "RootMonitor calls (N=new child, A=activate, S=skip, F=finish)",
            "K": "cascade script (workers, roots of parent:prio:triggers:fails)"}.get(f[0], "?")
    return {"kind": kind, "payload": p}


GEN = os.path.join(checklib.LEAN, "Ecal", "Gen", "C10.lean")


def extract(ctx):
    """regenerate lean/Ecal/Gen/C10.lean from engine/*.go of the tree under test (go/ast)"""
    binp = checklib.go_build(ctx)
    if os.path.exists(GEN):
        os.remove(GEN)
    p = subprocess.run([binp, "C10", "-tool", "facts", GEN], env=dict(checklib.GOENV, VERIF_REPO=checklib.REPO),
                       stdout=subprocess.PIPE, stderr=subprocess.STDOUT, text=True, timeout=120)
    if p.returncode != 0 or not os.path.exists(GEN):
        raise checklib.CheckError("C10 fact extraction failed: " + p.stdout[-500:])
    src = open(GEN).read()
    unknown = sorted(set(re.findall(r'"(unknown|other)"', src)))
    ctx.coverage["generated_facts"] = {"file": "lean/Ecal/Gen/C10.lean", "undetermined_values": len(re.findall(r'"(unknown|other)"', src))}
    if unknown:
        ctx.notes.append("fact extractor: some facts are undetermined (unknown/other) for this tree; the theorems over the facts only reject "
                         "definite bad shapes, the correspondence decides")


def race_run(ctx):
    """cascades on several workers with a harness built with -race: a DATA RACE report with frames in the
    tree under test, or a crash, is a violation (clause c with several workers rests on the lock section)"""
    cov = ctx.coverage
    cov["race_cases"] = 0
    try:
        binp = checklib.go_build(ctx, out="harness-race", race=True)
    except checklib.CheckError as e:
        ctx.notes.append("the -race build of the harness failed; no race run in this check: " + str(e)[-200:])
        return
    nsh = 6
    procs = []
    for i in range(nsh):
        env = dict(checklib.GOENV, CGO_ENABLED="1", GORACE=f"log_path={ctx.work}/race-log halt_on_error=0", VERIF_REPO=checklib.REPO)
        procs.append(subprocess.Popen([binp, "C10", "-tier", "race", "-seed", str(ctx.seed), "-shard", f"{i}/{nsh}",
                                       "-cases", os.path.join(ctx.work, f"race-cases.{i}"), "-out", os.path.join(ctx.work, f"race-out.{i}")],
                                      cwd=ctx.work, env=env, stdout=subprocess.PIPE, stderr=subprocess.STDOUT, text=True))
    crashed = []
    for i, p in enumerate(procs):
        try:
            out, _ = p.communicate(timeout=600)
        except subprocess.TimeoutExpired:
            p.kill()
            out = "timeout"
        if p.returncode != 0:
            crashed.append((i, p.returncode, out[-1500:]))
    ncases = 0
    for i in range(nsh):
        f = os.path.join(ctx.work, f"race-out.{i}")
        if os.path.exists(f):
            ncases += sum(1 for l in open(f, errors="replace") if l and not l.startswith("#"))
    cov["race_cases"] = ncases
    reports = []
    for fn in sorted(glob.glob(os.path.join(ctx.work, "race-log*"))):
        txt = open(fn, errors="replace").read()
        for blk in txt.split("=================="):
            if "DATA RACE" in blk and ("/engine/" in blk or "krotik/ecal/engine" in blk):
                reports.append(blk.strip())
    cov["race_reports_in_engine"] = len(reports)
    for i, rc, out in crashed[:1]:
        last = ""
        cf = os.path.join(ctx.work, f"race-cases.{i}")
        if os.path.exists(cf):
            ls = [l for l in open(cf, errors="replace") if l.strip()]
            last = ls[-1].split("\t", 1)[-1].strip() if ls else ""
        rp = checklib.write_replay(ctx, "race-crash", {"payload": last, "output": out[-1200:]},
                                   "cascades on several workers run without a fatal error", f"harness exited with status {rc}",
                                   "build the harness with -race and run the payload with -one", tag="racecrash")
        checklib.violation(ctx, rp, "the real code crashed in the race run: " + " ".join(out.split())[-160:])
    if reports:
        rp = checklib.write_replay(ctx, "race", {"reports": len(reports), "first": reports[0][:3000]},
                                   "no data race in engine/ while cascades run on several workers",
                                   f"{len(reports)} DATA RACE report(s) with frames in engine/",
                                   "build the harness with -race (GORACE=log_path=…) and run `harness C10 -tier race`", tag="race")
        checklib.violation(ctx, rp, f"{len(reports)} DATA RACE report(s) in engine/ ({ncases} cascades on 2..8 workers)")


def post(ctx, cases, gores, model):
    """dequeue traces recorded at queue.push / queue.pop in the multi-worker runs → model"""
    race_run(ctx)
    traces = {}
    for fn in sorted(glob.glob(os.path.join(ctx.work, "c10-traces-*.txt"))):
        for l in open(fn, errors="replace"):
            l = l.rstrip("\n")
            if "\t" in l:
                payload, tr = l.split("\t", 1)
                traces[len(traces)] = (payload, tr)
    cov = ctx.coverage
    # runs with free tie order: the observed run is validated by the model
    obs = {}
    for fn in sorted(glob.glob(os.path.join(ctx.work, "c10-validate-*.txt"))):
        for l in open(fn, errors="replace"):
            l = l.rstrip("\n")
            if " ## " in l:
                obs[len(obs)] = l
    cov["validated_runs"] = 0
    if obs:
        vres = checklib.run_driver(ctx, ctx.prop, obs, args=["validate"], shards=8)
        vbad = [k for k in sorted(obs) if vres.get(k, ("MISSING", {}))[0] not in ("ok", "ok-floored-only")]
        floored = [k for k in sorted(obs) if vres.get(k, ("", {}))[0] == "ok-floored-only"]
        cov["sink_runs_admissible_only_for_floored_priorities"] = len(floored)
        if floored:
            known, _ = checklib.load_known()
            text = (f"{len(floored)} sink runs that are trigger sequences for the floored priorities but not for the numbers as written, "
                    f"e.g. {obs[floored[0]]}")
            if (ctx.prop, "fractional-sink-priority-floored") in known:
                checklib.known_finding(ctx, "id=fractional-sink-priority-floored " + text)
            else:
                ctx.notes.append("finding not yet in known_findings.txt (fractional-sink-priority-floored): " + text)
        cov["validated_runs"] = len(obs) - len(vbad)
        vbad.sort(key=lambda k: len(obs[k]))
        for k in vbad[:3]:
            payload, observed = obs[k].split(" ## ", 1)
            rp = checklib.write_replay(ctx, "validate", {"payload": payload, "observed": observed},
                                       "an admissible run: ascending priorities, nothing of smaller priority left out, stop exactly after the first failure (flag on), errors = failing started rules",
                                       observed, f"./check {ctx.prop} --replay <this file>", theorem="Ecal.Props.C10.fail_first_prefix", tag="validate")
            checklib.violation(ctx, rp, f"observed run rejected by the validator: {observed[:120]!r} for {payload[:80]!r}")
    multi = sum(1 for c in cases.values() if c.startswith("K ") and not c.startswith("K 1 "))
    cov["multi_worker_runs"] = multi
    cov["traces_validated_against_impl"] = 0
    cov["trace_events"] = 0
    if not traces:
        ctx.notes.append("no queue.push/queue.pop hook events were seen (hooks/C10.patch not applied to the tree under test): "
                         "the dequeue order with several workers was not checked in this run")
        return
    res = checklib.run_driver(ctx, ctx.prop, {k: v[1] for k, v in traces.items()}, args=["trace"], shards=8)
    bad = [k for k in sorted(traces) if res.get(k, ("MISSING", {}))[0] not in ("ok", "ok-unclamped")]
    cov["traces_following_the_unclamped_queue"] = sum(1 for k in traces if res.get(k, ("", {}))[0] == "ok-unclamped")
    cov["traces_validated_against_impl"] = len(traces) - len(bad)
    cov["trace_events"] = sum(len(v[1].split(" ")) for v in traces.values())
    bad.sort(key=lambda k: len(traces[k][1]))
    for k in bad[:3]:
        payload, tr = traces[k]
        rp = checklib.write_replay(ctx, "trace", {"payload": payload, "trace": tr},
                                   "every queue.pop returns the least (priority, insertion number) queued for its root monitor",
                                   res.get(k, ("MISSING", {}))[0] + " (index of the offending trace event)",
                                   f"./check {ctx.prop} --replay <this file>", theorem="Ecal.Props.C10.pop_is_min", tag="trace")
        checklib.violation(ctx, rp, f"dequeue trace rejected by the model: {res.get(k, ('MISSING', {}))[0]}")


SPEC = dict(
    lean_modules=["Ecal.Props.C10"],
    shards=12,
    rule=("Case kinds (quick tier counts in input_distribution; ~97 % of the cases and of distinct_nontrivial are the B enumeration, R+S+V+K+Q "
          "together are a few thousand): "
          "R: one event on ONE worker, rules with priorities 0..5 in shuffled declaration order, failing rule at every rank / none / two, both flag "
          "settings; equal-priority groups with a uniform outcome, negative priorities; 13..40 rules with distinct priorities (beyond sort.Sort's "
          "insertion-sort range); optionally after a processor life-cycle history (Start/Finish cycles, Reset + re-declaration as in "
          "CLIInterpreter.LoadInitialFile, the flag set before / in between / after). Compared: priority sequence of the action starts, priorities "
          "in the error report, number of processed child events. "
          "V: 0..40 rules with ties of mixed outcome; Go reports the started rule NAMES and the model VALIDATES the run (Ecal.Priority.validRun; "
          "validRun_iff: it accepts exactly the runs of the rule loop under some admissible sort) instead of predicting it. "
          "P: 2..8 rules with distinct priorities plus ScopeMatch / SuppressionList / two matching kind patterns on a root monitor with a "
          "restricted scope: the order of what ProcessEvent's pre-sort half (de-duplication, scope filter, suppression) leaves. "
          "S: the R rule sets as ECAL sinks run by the interpreter with its default flag: priority numbers equal / negative / fractional (also "
          "negative fractions, floor), a number outside the int range (declaration must be rejected), the three ways a sink fails (raise, "
          "runtime error, top-level return), addEvent; also after life-cycle histories. "
          "W: sinks whose fractional numbers tie after flooring, with mixed outcomes: the observed run is validated for the floored numbers; runs "
          "that are not trigger sequences for the numbers as written are counted for the finding fractional-sink-priority-floored. "
          "B: RootMonitor driven directly (HighestPriority() after every call, IsActivated() of every monitor at the end): every sequence of exactly 6 (quick) / 7 (thorough) steps over 3 priorities (heap of at most 3 entries: "
          "exercises the counting and the Skip guard, cannot see heap-order defects); random sequences of up to 90 calls over up to 12 priorities "
          "incl. negative and rejected calls; heap-stress sequences (8..30 distinct priorities active at once, then 40..160 random finishes and "
          "activations). HighestPriority() after every call. "
          "Q: sortutil.PriorityQueue driven directly (Push with 2..40 distinct priorities incl. negative, Pop, Peek, Clear, up to 450 calls): "
          "returned values AND the slice layout (PriorityQueue.String()) after every call against the heap-slice model HPQ. "
          "K: cascade scripts (1..3 root monitors, up to 12 events each with 0..4 rules of distinct priorities, monitor priorities from -3..5, "
          "6..40, 1000 and MaxInt32, skipped "
          "events, failing rules, both flag settings; the events of a rule are added by that rule). 1 worker: exact order of action starts per "
          "root with HighestPriority() sampled in every action, error report, final report. 2..8 workers: set of started (event, rule) pairs, "
          "error report, final report, a schedule-independent oracle for HighestPriority() inside every action (<= own priority, is the priority of "
          "a triggering event of that root), and the recorded queue.push/queue.pop trace replayed on the abstract queue and on HPQ; a few "
          "cascades of 200..400 events with 16 priorities on 8 workers. RACE RUN: 150 cascades on 2..8 workers and 12 big ones with a harness "
          "built with -race; a DATA RACE report with frames in engine/ or a crash is a violation. "
          "Non-trivial = at least two rules and a failing one / a finish after at least two activations or skips / at least three events / at "
          "least four queue calls."),
    exhaustive="all RootMonitor step sequences of the stated length over 3 priorities",
    trusted_base=[
        "the proved model starts from the list ProcessEvent sorts; its pre-sort half (de-duplication of double kind matches, scope filter, "
        "suppression — code of ProcessEvent itself; WHICH rules run is C01's subject) is only replicated by a filter in the driver for the P cases",
        "Go's sort.Sort(RuleSlice) returns a permutation in non-decreasing priority order (IsPrioSort); nothing is assumed about ties; both of its "
        "code paths (n <= 12 and n > 12) are exercised by the R/V cases",
        "sortutil.PriorityQueue: the abstract queue ('pop = least (clamped priority, counter)') is proved to be refined by the container/heap "
        "representation HPQ in every reachable state (pq_reachable_heap_ordered, real_pop_is_min); that HPQ / Heap.push / Heap.pop transcribe "
        "the Go code is tied by the Q cases (values and slice layout after every call) and by replaying every recorded trace on HPQ; "
        "Heap.init / Heap.fix / IntHeap.RemoveFirst by the B cases (heap-stress family)",
        "TaskQueue.Push / Pop are atomic (tq.lock, and the pool calls them under its own queueLock); ReachableTQ has no notion of a worker — it is "
        "every sequence of atomic calls, which is what several workers produce; with several workers the dequeue order is observed at the hook points queue.push / queue.pop "
        "called under that lock",
        "HighestPriority with several workers: highest_priority_exact_concurrent / every_read_is_exact hold for EVERY interleaving of any number "
        "of workers in the model Ecal.Priority.Conc, where each NewChildMonitor / Activate / Skip / Finish call and each HighestPriority read is "
        "ONE atomic step. What is trusted is that atomicity: (1) the extracted fact that no use of incomplete / priorities follows an Unlock "
        "of a RootMonitor mutex inside its function (gen_bookkeeping_under_lock; textual lock sections, 'unknown' where the extractor cannot "
        "tell), (2) the monitor's own flags (activated / finished / skipped) are written outside the lock but only by the one goroutine that "
        "drives that monitor (by reading), (3) the race run and the in-action HighestPriority oracle as dynamic backing",
        "go/ast fact extractor go/cmd/harness/c10tool.go; three-valued: an obligation breaks only on positive evidence (a constant written to "
        "failOnFirstError; a use after an Unlock; RemoveFirst with nothing after it that reaches a re-heapify; a decrement guarded by the "
        "activated flag alone), everything else is 'unknown'/'other' and left to the correspondence. The flag fact does NOT exclude the "
        "positional literal in NewProcessor, struct copies or unclassified right-hand sides; the life-cycle histories test Start/Finish/Reset/AddRule only",
        "the cascade model (ProcessEvent composed with the queue) runs ONE worker on ONE root monitor; for several workers the QUEUE clause is proved "
        "for every interleaving of atomic Push/Pop calls on any roots (ReachableTQ, several_workers_pop_is_min) and accepted_trace_pops_are_min says "
        "what the replay of a recorded trace establishes; the other observables of runs on several workers are schedule-independent (started "
        "sets, error reports, the HighestPriority oracle)",
    ],
    assumptions=[
        "sink priorities: the interpreter floors the number (documented only as 'number', code calls the type int); numbers that tie after flooring "
        "run in any order — finding fractional-sink-priority-floored (a sink `priority 0.7` may run before a failing `priority 0.2` sink); a number "
        "outside the int range is rejected at declaration (repair fixes/C10-sink-priority-range.patch; before it such a sink became MinInt and ran first)",
        "priority numbers of child monitors are >= 0 (documented domain, '0 is the highest'). Declared deviation for negative numbers: "
        "PriorityQueue.Push clamps them to 0 while RootMonitor does not, so an event with number -2 is not taken before an earlier event with "
        "number 0 and HighestPriority reports -2 meanwhile (theorem queue_clamps_negative_priorities, findings/C10-negative-priority-clamped.json). "
        "Go API only: ECAL code creates child monitors with NewChildMonitor(0) exclusively (interpreter/func_provider.go); negative RULE "
        "priorities (sink `priority -1`) are ordered correctly. The queue theorems are stated for the clamped number",
        "HighestPriority = -1 means 'none' only for priorities >= 0; the Option-valued theorem has no such restriction",
        "which non-empty root queue a worker serves is random in TaskQueue.Pop and not constrained by the property",
    ],
    decode=decode,
    extract=extract,
    post=post,
)

META = dict(
    technique=("Lean 4 theorems over executable models of ProcessEvent's sort/run loop composed with the per-root priority queue (cascade model), of "
               "sortutil.PriorityQueue on its container/heap slice, and of the RootMonitor bookkeeping incl. IntHeap.RemoveFirst; source facts "
               "re-extracted with go/ast on every run; differential correspondence through the public engine / interpreter / sortutil API plus "
               "replay of recorded TaskQueue push/pop traces and validation of observed runs where the order of ties is free"),
    level_text=("Proof: (a) for every admissible (non-stable) priority sort the started rules are a prefix of the sorted list, hence ascending; ties "
                "may run in any order. (b) every pop returns the least (clamped priority, insertion number), nothing left in a reachable queue "
                "should have gone first, and the container/heap representation implements this in every reachable state (Push keeps, Pop uses "
                "the heap order); the same for a TaskQueue shared by any number of workers under any interleaving of atomic pushes and pops, "
                "and an accepted trace means every recorded pop was the least of its root. (c) for every accepted sequence of NewChildMonitor/Activate/Skip/Finish calls the heap root equals "
                "the least priority of the monitors activated by a triggering event and not finished (heapify, sift-up, RemoveFirst+Init "
                "proved), and the same in every state reachable by ANY interleaving of several workers' call sequences with every value read "
                "being exact at the moment of the read (each call / read one atomic step — that atomicity is the extracted lock fact, not a theorem). (d) with fail-on-first-error "
                "exactly the prefix through the first failing rule runs and exactly that rule is reported; composed with the queue in the "
                "one-worker cascade model: the events of every started rule (also of the failing one and of those before it) are processed, "
                "rules not started add nothing, no event runs twice. (e) without the flag all rules run and all failures are reported; the flag "
                "is only written by its setter (extracted) and survives Start/Finish/Reset/AddRule. The defects repaired by 5e0512e and the "
                "clamping of negative priorities are kept as decide-checked negative theorems."),
    level_note=("Trusted: Lean kernel + propext/Classical.choice/Quot.sound; the correspondence harness and the go/ast extractor; sort.Sort's "
                "contract; the transcription of container/heap, PriorityQueue and IntHeap into Lean (tied by the Q and B cases incl. slice "
                "layout); that each monitor call / read is one atomic step (rm.lock sections, one goroutine per monitor) and that TaskQueue.Push/Pop are atomic (tq.lock); scheduling across root monitors is unconstrained; priorities "
                "below 0 deviate (declared)."),
)


def run(ctx):
    return checklib.standard(ctx, SPEC)


def replay(ctx, path):
    obj = json.load(open(path))
    if obj.get("kind") == "validate":
        lock = checklib._lean_lock()
        try:
            checklib.sh(["lake", "build", "driver"], cwd=checklib.LEAN)
        finally:
            lock.close()
        res = checklib.run_driver(ctx, ctx.prop, {0: obj["case"]["payload"] + " ## " + obj["case"]["observed"]}, args=["validate"], shards=1)
        verdict = res.get(0, ("MISSING", {}))[0]
        print("case     :", obj["case"]["payload"])
        print("observed :", obj["case"]["observed"])
        print("model    :", verdict)
        if verdict != "ok":
            print(f"VIOLATION property={ctx.prop} replay={os.path.relpath(path, checklib.VERIF)}")
            return 1
        return 0
    if obj.get("kind") != "trace":
        return checklib.replay(ctx, SPEC, path)
    lock = checklib._lean_lock()
    try:
        checklib.sh(["lake", "build", "driver"], cwd=checklib.LEAN)
    finally:
        lock.close()
    res = checklib.run_driver(ctx, ctx.prop, {0: obj["case"]["trace"]}, args=["trace"], shards=1)
    verdict = res.get(0, ("MISSING", {}))[0]
    print("case   :", obj["case"]["payload"])
    print("trace  :", obj["case"]["trace"])
    print("model  :", verdict)
    if verdict != "ok":
        print(f"VIOLATION property={ctx.prop} replay={os.path.relpath(path, checklib.VERIF)}")
        return 1
    return 0
