"""C10 — priorities order execution; the first failing rule ends a trigger sequence."""
import glob
import json
import os
import re
import subprocess

import checklib


def decode(p):
    f = p.split(" ")
    kind = {"R": "rules of one event (flag, prio:fails:addsChild …)", "S": "the same as ECAL sinks (interpreter default: flag on)", "B": "RootMonitor calls (N=new child, A=activate, S=skip, F=finish)",
            "K": "cascade script (workers, roots of parent:prio:triggers:fails)"}.get(f[0], "?")
    return {"kind": kind, "payload": p}


GEN = os.path.join(checklib.LEAN, "Ecal", "Gen", "C10.lean")


def extract(ctx):
    """regenerate lean/Ecal/Gen/C10.lean from engine/*.go of the tree under test (go/ast)"""
    binp = checklib.go_build(ctx)
    if os.path.exists(GEN):
        os.remove(GEN)
    p = subprocess.run([binp, "C10", "-tool", "facts", GEN], env=dict(checklib.GOENV, VERIF_REPO=checklib.REPO),
                       stdout=subprocess.PIPE, stderr=subprocess.STDOUT, text=True, timeout=120)
    if p.returncode != 0 or not os.path.exists(GEN):
        raise checklib.CheckError("C10 fact extraction failed: " + p.stdout[-500:])
    src = open(GEN).read()
    unknown = sorted(set(re.findall(r'"(unknown|other)"', src)))
    ctx.coverage["generated_facts"] = {"file": "lean/Ecal/Gen/C10.lean", "undetermined_values": len(re.findall(r'"(unknown|other)"', src))}
    if unknown:
        ctx.notes.append("fact extractor: some facts are undetermined (unknown/other) for this tree; the theorems over the facts only reject "
                         "definite bad shapes, the correspondence decides")


def post(ctx, cases, gores, model):
    """dequeue traces recorded at queue.push / queue.pop in the multi-worker runs → model"""
    traces = {}
    for fn in sorted(glob.glob(os.path.join(ctx.work, "c10-traces-*.txt"))):
        for l in open(fn, errors="replace"):
            l = l.rstrip("\n")
            if "\t" in l:
                payload, tr = l.split("\t", 1)
                traces[len(traces)] = (payload, tr)
    cov = ctx.coverage
    # runs with free tie order: the observed run is validated by the model
    obs = {}
    for fn in sorted(glob.glob(os.path.join(ctx.work, "c10-validate-*.txt"))):
        for l in open(fn, errors="replace"):
            l = l.rstrip("\n")
            if " ## " in l:
                obs[len(obs)] = l
    cov["validated_runs"] = 0
    if obs:
        vres = checklib.run_driver(ctx, ctx.prop, obs, args=["validate"], shards=8)
        vbad = [k for k in sorted(obs) if vres.get(k, ("MISSING", {}))[0] != "ok"]
        cov["validated_runs"] = len(obs) - len(vbad)
        vbad.sort(key=lambda k: len(obs[k]))
        for k in vbad[:3]:
            payload, observed = obs[k].split(" ## ", 1)
            rp = checklib.write_replay(ctx, "validate", {"payload": payload, "observed": observed},
                                       "an admissible run: ascending priorities, nothing of smaller priority left out, stop exactly after the first failure (flag on), errors = failing started rules",
                                       observed, f"./check {ctx.prop} --replay <this file>", theorem="Ecal.Props.C10.fail_first_prefix", tag="validate")
            checklib.violation(ctx, rp, f"observed run rejected by the validator: {observed[:120]!r} for {payload[:80]!r}")
    multi = sum(1 for c in cases.values() if c.startswith("K ") and not c.startswith("K 1 "))
    cov["multi_worker_runs"] = multi
    cov["traces_validated_against_impl"] = 0
    cov["trace_events"] = 0
    if not traces:
        ctx.notes.append("no queue.push/queue.pop hook events were seen (hooks/C10.patch not applied to the tree under test): "
                         "the dequeue order with several workers was not checked in this run")
        return
    res = checklib.run_driver(ctx, ctx.prop, {k: v[1] for k, v in traces.items()}, args=["trace"], shards=8)
    bad = [k for k in sorted(traces) if res.get(k, ("MISSING", {}))[0] != "ok"]
    cov["traces_validated_against_impl"] = len(traces) - len(bad)
    cov["trace_events"] = sum(len(v[1].split(" ")) for v in traces.values())
    bad.sort(key=lambda k: len(traces[k][1]))
    for k in bad[:3]:
        payload, tr = traces[k]
        rp = checklib.write_replay(ctx, "trace", {"payload": payload, "trace": tr},
                                   "every queue.pop returns the least (priority, insertion number) queued for its root monitor",
                                   res.get(k, ("MISSING", {}))[0] + " (index of the offending trace event)",
                                   f"./check {ctx.prop} --replay <this file>", theorem="Ecal.Props.C10.pop_is_min", tag="trace")
        checklib.violation(ctx, rp, f"dequeue trace rejected by the model: {res.get(k, ('MISSING', {}))[0]}")


SPEC = dict(
    lean_modules=["Ecal.Props.C10"],
    shards=12,
    rule=("R: one event, rules with priorities 0..5 in shuffled declaration order, failing rule at every rank / none / two, both flag "
          "settings, plus rule sets with equal and negative priorities; S: the same rule sets declared as ECAL sinks (priority attribute, raise, addEvent) "
          "run by the interpreter with its default setting; R and S also after processor life-cycle histories (Start/Finish cycles, Reset and "
          "re-declaration as in CLIInterpreter.LoadInitialFile, the flag set before / in between / after); B: every sequence of exactly 6 (quick) / 7 (thorough) RootMonitor "
          "steps over 3 priorities (activate, skip, finish per priority, root monitor) plus random sequences of up to 90 calls over up to 12 "
          "priorities incl. negative and rejected calls; K: random cascade scripts (1..3 root monitors, up to 12 events each, priorities "
          "-3..5, skipped and failing events) on 1 worker (exact start order + HighestPriority sampled in every action) and on 2..8 workers "
          "(started sets, errors, and the recorded queue.push/queue.pop trace replayed on the model). Non-trivial = at least two rules and a "
          "failing one / a finish after at least two activations or skips / at least three events."),
    exhaustive="all RootMonitor step sequences of the stated length over 3 priorities",
    trusted_base=[
        "the rules handed to ProcessEvent's sort/loop are produced by the rule index (C01); the model starts from the triggered, non-suppressed rules",
        "sortutil.PriorityQueue: the abstract queue ('pop = least (priority, counter)') is proved to be refined by the real container/heap representation in every reachable state (pq_reachable_heap_ordered, real_pop_is_min); that the Lean Heap.* functions transcribe container/heap is tied by the correspondence",
        "with several workers the dequeue order is observed at the hook points queue.push / queue.pop (hooks/C10.patch), called under TaskQueue.lock",
    ],
    assumptions=["HighestPriority = -1 means 'none' only for priorities >= 0 (the documented domain); the Option-valued theorem has no such restriction",
                 "which non-empty root queue a worker serves is random in TaskQueue.Pop and not constrained by the property"],
    decode=decode,
    extract=extract,
    post=post,
)

META = dict(
    technique=("Lean 4 theorems over executable models of ProcessEvent's sort/run loop, the per-root priority queue and the RootMonitor "
               "bookkeeping including a faithful container/heap (up/down/Init/Fix) and IntHeap.RemoveFirst; differential correspondence "
               "through the public engine API plus replay of recorded TaskQueue push/pop traces on the model"),
    level_text=("Proof: for every admissible (non-stable) priority sort the started rules are a prefix of the sorted list, hence ascending; with "
                "fail-on-first-error exactly the prefix through the first failing rule runs and exactly that rule is reported, without it all run "
                "and all failures are reported; every pop returns the least (priority, insertion number) and nothing left in a reachable queue "
                "should have gone first; for every accepted sequence of NewChildMonitor/Activate/Skip/Finish calls the heap root equals the least "
                "priority of the monitors activated by a triggering event and not finished (heapify and sift-up proved, not assumed); heap.Push keeps "
                "and heap.Pop uses the heap order, so the real PriorityQueue implements pop-is-least in every reachable state; in the cascade "
                "model the events added by a rule are started whether or not the rule fails, each event once. The two "
                "defects repaired by 5e0512e are kept as decide-checked negative theorems about the same algorithms."),
    level_note=("Trusted: Lean kernel + propext/Classical.choice/Quot.sound; the correspondence harness; the Lean transcription of container/heap "
                "(up/down/Init/Push/Pop/Fix) is tied to the Go code by the correspondence; scheduling across root monitors is unconstrained."),
)


def run(ctx):
    return checklib.standard(ctx, SPEC)


def replay(ctx, path):
    obj = json.load(open(path))
    if obj.get("kind") == "validate":
        lock = checklib._lean_lock()
        try:
            checklib.sh(["lake", "build", "driver"], cwd=checklib.LEAN)
        finally:
            lock.close()
        res = checklib.run_driver(ctx, ctx.prop, {0: obj["case"]["payload"] + " ## " + obj["case"]["observed"]}, args=["validate"], shards=1)
        verdict = res.get(0, ("MISSING", {}))[0]
        print("case     :", obj["case"]["payload"])
        print("observed :", obj["case"]["observed"])
        print("model    :", verdict)
        if verdict != "ok":
            print(f"VIOLATION property={ctx.prop} replay={os.path.relpath(path, checklib.VERIF)}")
            return 1
        return 0
    if obj.get("kind") != "trace":
        return checklib.replay(ctx, SPEC, path)
    lock = checklib._lean_lock()
    try:
        checklib.sh(["lake", "build", "driver"], cwd=checklib.LEAN)
    finally:
        lock.close()
    res = checklib.run_driver(ctx, ctx.prop, {0: obj["case"]["trace"]}, args=["trace"], shards=1)
    verdict = res.get(0, ("MISSING", {}))[0]
    print("case   :", obj["case"]["payload"])
    print("trace  :", obj["case"]["trace"])
    print("model  :", verdict)
    if verdict != "ok":
        print(f"VIOLATION property={ctx.prop} replay={os.path.relpath(path, checklib.VERIF)}")
        return 1
    return 0
