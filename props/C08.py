"""C08 — formatting preserves program meaning and is idempotent."""
import os
import subprocess

import checklib

GEN = os.path.join(checklib.LEAN, "Ecal", "Gen", "C08.lean")


def decode(p):
    if p == "TABLES":
        return {"report": "hypothesis RP.tablesAgree"}
    if p.startswith("FMT "):
        return {"format_tool_tree_variant": p[4:]}
    f = p.split(" ", 2)
    try:
        return {"source": bytes.fromhex(f[0]).decode("utf8", "replace") if f[0] != "-" else "",
                "evaluated": f[1] in ("1", "3"), "format_tool_run": f[1] in ("2", "3"), "ast_fields": len(f[2].split(" "))}
    except Exception:
        return p[:200]


def _strip_parens(hex_txt):
    if hex_txt == "-":
        return b""
    try:
        return bytes.fromhex(hex_txt).replace(b"(", b"").replace(b")", b"")
    except ValueError:
        return hex_txt.encode()


def equal(g, m, attrs):
    """Result lines agree if every verdict agrees and the printed texts are equal — or differ only in parentheses
    (string literals are canonicalised on both sides, so no parenthesis is inside a literal). Which redundant
    parentheses the printer writes is not constrained by the property; whether they are SUFFICIENT is decided by
    Go's own re-parse (rt) and by the sufficiency fact about the extracted rule."""
    if g == m:
        return True
    gf, mf = g.split(" "), m.split(" ")
    if len(gf) != len(mf) or not gf[0].startswith("txt=") or not mf[0].startswith("txt=") or gf[1:] != mf[1:]:
        return False
    return _strip_parens(gf[0][4:]) == _strip_parens(mf[0][4:])


def extract(ctx):
    """regenerate lean/Ecal/Gen/C08.lean (operator table, prefix offset, ppNeedsBrackets) from the tree under test"""
    binp = checklib.go_build(ctx, out="harness-extract")
    if os.path.exists(GEN):
        os.remove(GEN)
    p = subprocess.run([binp, "C08", "-tool", "gen", GEN], env=checklib.GOENV, stdout=subprocess.PIPE,
                       stderr=subprocess.STDOUT, text=True, timeout=120)
    if p.returncode != 0 or not os.path.exists(GEN):
        raise checklib.CheckError("C08 fact extractor failed: " + p.stdout[-800:])
    genp = os.path.join(checklib.LEAN, "Ecal", "Gen", "C08Print.lean")
    if os.path.exists(genp):
        os.remove(genp)
    p = subprocess.run([binp, "C08", "-tool", "isprint", genp], env=checklib.GOENV, stdout=subprocess.PIPE,
                       stderr=subprocess.STDOUT, text=True, timeout=120)
    if p.returncode != 0 or not os.path.exists(genp):
        raise checklib.CheckError("C08 strconv.IsPrint table extractor failed: " + p.stdout[-800:])
    gen = open(GEN).read()
    established = "def shapeOk : Bool := true" in gen
    ctx.coverage["bracket_rule_translated"] = established
    if not established:
        why = [l[3:].strip() for l in gen.splitlines() if l.startswith("-- rule not established")]
        ctx.notes.append("bracket rule NOT established from the source (" + "; ".join(why) + "): the facts about the generated rule "
                         "are vacuous in this run; amplified search instead: all operator trees with <= 3 operators (infix, prefix, "
                         "let) through the real printer, compared with the model printer and re-parsed")
        # the harness processes inherit this environment
        checklib.GOENV["C08_AMPLIFY"] = "1"
        ctx.log("bracket rule not established -> amplified search")


def post(ctx, cases, gores, model):
    xc = sum(1 for i in model if model[i][1].get("xc") == "1")
    ctx.coverage["expression_model_cross_checked"] = xc
    ctx.coverage["text_identical"] = sum(1 for i in cases if gores.get(i, "").split(" ")[0] == model.get(i, ("", {}))[0].split(" ")[0])
    for i in model:
        if "tables_agree" in model[i][1]:
            ctx.coverage["parser_model_table_agrees"] = model[i][1]["tables_agree"] == "true"
            if model[i][1]["tables_agree"] != "true":
                ctx.notes.append("Parser.lean's hand-copied operator table does not agree number by number with the table regenerated "
                                 "from parser.go: the theorems on Ecal.Parse.run (print_parse_expr_real_parser_partial) do not speak "
                                 "about this tree in this run (hypothesis RP.tablesAgree is false); nothing else depends on it")
    if xc == 0:
        ctx.notes.append("no case was cross-checked against the expression-level model (operator table drifted?)")


SPEC = dict(
    lean_modules=["Ecal.Props.C08"],
    shards=16,
    extract=extract,
    equal=equal,
    post=post,
    rule=("cases = sources the real parser accepts, handed to the model as the AST the real parser built: corpus of past "
          "failures; every infix operator (20) / prefix operator (3) under every other on either side with and without "
          "parentheses over three atom sets (exhaustive depth 2); every statement kind nested in every other (pairs; triples "
          "sampled); statements starting with a sign / parenthesis after 19 kinds of statement ends; depth-3 nestings with a prefix operator as right operand under every pair of infix operators; postfixes after multi-line containers; let / sink attributes with operator operands; blank lines before except/otherwise/finally/elif/else and after mutex/sink; string values with % and invalid UTF-8 bytes (escaped and raw); all sequences of <=3 (quick) / <=4 (thorough) atoms from {\\\", \", ', \\\\, \\n, newline, {{, }}, é, a, "
          "\\u005c} in the four literal forms; lists/maps with threshold-1/=/+1 elements in 12 contexts; one comment / blank "
          "line before every token of 12 base programs (8 comment shapes) and random multiple insertions; random deeper "
          "expressions and random programs. About every 3rd case also runs tool.FormatFiles on a scratch file (ff=ok: file bytes = PrettyPrint text + newline, a file with another extension untouched). Compared: printed text byte for byte (model printer vs PrettyPrint), Go's own "
          "round trip verdicts rt/idem/beh against what the theorems predict. Non-trivial = AST with at least 3 nodes."),
    exhaustive="depth-2 operator nestings, statement pairs, string atom sequences up to the stated length",
    trusted_base=[
        "the AST handed to the printer model is the one the real parser built (serialised by reflection incl. binding / left denotation); the correspondence run does not use the Lean lexer/parser models",
        "quote_lex_roundtrip and parser_reads_* are about Ecal.Lex.lexValue / Ecal.Parse.run (Lexer.lean, Parser.lean); the tie of those models to lexer.go / parser.go is the correspondence run of C18 / C07, not of this check",
        "Ecal.Print.isPrint consults a table regenerated from strconv.IsPrint of the Go toolchain in use (lean/Ecal/Gen/C08Print.lean); quote_lex_roundtrip does not depend on it (it holds for every predicate that is false on the newline)",
        "tool.FormatFiles / Format: tested only. ff (about every 3rd case): the file is left unchanged or parses to a tree equal to the original modulo the known local differences — never text that does not parse (counted: format-tool.UNPARSEABLE-TEXT-WRITTEN, format-tool.file-left-unchanged); fmt (8 variants of a directory tree): unparseable / empty / CRLF files, a file whose printed text does not parse, sub-directory, other extension, absolute symlink, -help; the mode check can only fail for a tool that rewrites through a temporary file (WriteFile does not chmod an existing file); write errors are not exercised",
        "rt/idem/beh are computed by the real parser, printer and interpreter; the tree equality (names, values, nesting, raw-vs-interpolating kind; ignores positions, comments, blank lines) is implemented in the harness",
        "printed texts are compared with string literals in canonical spelling (hex of the value the literal lexes back to, on both sides) and modulo parentheses (SPEC equal): which escapes and which redundant parentheses the printer writes is not constrained by the property; whether parentheses suffice is decided by Go's own re-parse and by the sufficiency fact",
        "go/ast extractor (harness C08 -tool gen; astNodeMap as positional or keyed literals, otherwise the operator table is obtained by probing the real parser with `a OP b` / `OP a`) translating ppNeedsBrackets (control flow: if / switch / early returns / set literals / inlined helpers; the recursive helper ppIsProductChain stays an opaque node predicate, modelled by hand), astNodeMap, ndPrefix, the templates of prettyPrinterMap and the multi-line thresholds into lean/Ecal/Gen/C08.lean; the printer models RUN the extracted rule, templates and thresholds (hand copies only as fallback when the extractor does not understand the source)",
        "theorems are about the expression-level model and the string-literal model; statements, comments and blank lines are covered by the correspondence run only",
    ],
    assumptions=[
        "no rt verdict is predicted for the structurally defined class newline-inside-statement: a /* */ comment in front of a token that does not start its statement, a blank line directly behind the keyword of a return statement, a bare return that is not a statement (operand, list element, call argument — here the text may not even parse: `[return` NEWLINE `]` is printed `[return]`), a composition access [..] behind a call/access of the same identifier chain whose text spans lines (x := a([1,2,3,4,5])[0]), a # comment unless it sits on an identifier/number leaf and is printed directly behind that token at the end of a line",
        "no idem verdict is predicted for the class layout-not-idempotent: the class above, any /* */ comment, a blank line in front of a token that does not start its statement or in front of an infix operator, a mutex/sink statement followed by a statement without a blank line before it",
        "consequence: the comment / blank-line dimension of the quantifier is essentially unverified for rt (848 quick cases) and idem (1446 quick cases) — text fidelity of the printer model is checked there, Go's verdicts are only counted",
        "inside the classes with a definite rt=diff (raw-string-kind, mul-right-brackets) the trees must agree modulo the known local difference (eqm=ok: raw flag ignored, product spliced into the left spine of its right operand) and behaviour must be preserved unless a raw string contains {{, or (mul-right-brackets) the original itself raises an error / has side effects, where re-association may change which error is raised first; stmt-starts-with-sign and bare-return-at-end predict the exact verdicts",
        "all classes are computed independently by the harness (Go AST) and the driver (payload AST); Go's real outcomes inside the classes are counted in input_distribution; outside the classes rt=ok idem=ok is demanded",
    ],
    decode=decode,
)

META = dict(
    technique=("Lean 4 theorems over an expression-level Pratt parser/printer model instantiated with the operator table and "
               "bracket rule re-extracted from the Go source on every run + string-literal model; full printer model tied to "
               "prettyprinter.go byte for byte; Go's own parse-print-parse / evaluate round trip on generated programs"),
    level_text=("Proof: for operator trees of ANY depth over the real table, outside the known class mul-right-brackets, the "
                "printer's local bracket rule yields admissible parentheses and the Pratt parser reads the printed tokens back "
                "to the same tree — also on the REAL parser model Ecal.Parse.run with the bracket rule extracted from the Go source (print_parse_expr_real_parser_partial; number and identifier atoms, no return operands) — hence idempotence there; lex(quote v)=v with allowEscapes=true for EVERY byte string on the real printer "
                "and lexer models (Ecal.Print.quoteWith ip / Ecal.Lex.lexValue, for every printability predicate ip that is false on the newline); bracket rule of return <value>; kind preserved for non-raw "
                "literals; negative witnesses for the two known classes. Statements, comments, blank lines: differential test "
                "only (text identical to the model printer; Go round trip)."),
    performance_note=("PrettyPrint is cubic in the nesting depth of if statements (observed by C07: 2500 levels take about two "
                      "minutes) because every level re-indents the whole text of its body by textual replacement; not a violation "
                      "of this property, generated programs stay far below such depths"),
    level_note=("Trusted: Lean kernel + propext/Classical.choice/Quot.sound; the extractor; the harness' tree equality. "
                "FormatFiles is tested only. Known deviations with classifiers: raw-string-kind, mul-right-brackets, stmt-starts-with-sign, bare-return-at-end, "
                "newline-inside-statement, layout-not-idempotent."),
)


def run(ctx):
    return checklib.standard(ctx, SPEC)
