"""C04 — control flow and try/except/otherwise/finally follow the reference semantics."""
import checklib


def decode(p):
    f = p.split(" ")
    try:
        return {"source": bytes.fromhex(f[0]).decode("utf8", "replace") if f[0] != "-" else ""}
    except Exception:
        return p


SPEC = dict(
    lean_modules=["Ecal.Props.C04", "Ecal.Props.C04Eval", "Ecal.Props.C04Loops", "Ecal.Props.C04Program", "Ecal.Props.C04Spec", "Ecal.Props.C04SpecEval", "Ecal.Props.C04Examples"],
    shards=12,
    rule=("cases = marker programs (x.mark(n) appends to an ordered trace): corpus of the repaired defects; exhaustive "
          "exit kind {fallthrough, break, continue, return, raise E1, raise E2 with detail+data, raise(), runtime error} x "
          "20 except-clause sets (none, bare, one type, two types, with/without `as e`, `e`, `as e`, `\"T\" e`, the control-signal texts, several clauses) x "
          "otherwise x finally x context {top level, for-in loop, condition loop, function, range loop in function}; the "
          "same exits inside handler / otherwise / finally; re-entrant evaluation (a recursive or mutually recursive call from "
          "finally / except / otherwise re-evaluates the statement whose return/break/continue/error is still travelling); "
          "except type strings in interpolated, raw and single-quoted form x handler shapes x raise form; "
          "ranges with every sign combination of (to - from, step) incl. fractional steps and equal bounds in every loop context; "
          "range loops whose bounds / step (variables, len(l), n - 1) the body modifies, in every loop context; guards that raise "
          "(runtime error, raise through a called function) at every position of if/elif chains, in condition-loop guards and for-in "
          "iterables, inside and outside try; if and list/map loop families; random nestings of "
          "if/loop/try/function up to depth 4 (3000 quick, 100000 thorough). Compared: ordered marker trace, final value, "
          "error type, class (runtime error / raised / return signal), line and column, raised detail and data (no message text); the value of a "
          "return is observed through the value of the call; inexact fractional range steps are generated (elements of repeated float addition). Non-trivial = the model's trace has at least two entries."),
    exhaustive="exit kind x except-clause set x otherwise x finally x context, and the range/if/list/map families",
    trusted_base=[
        "the tree evaluated by the model is the one the real parser built (serialised by the harness); parser and lexer are not part of C04",
        "the evaluator model calls the proved combinators with closures over itself; that the surrounding model code (scopes, values, "
        "builtins) matches rt_*.go is established by the differential run only",
        "IEEE-754: float64 order, equality and addition are exact on integers below 2^53 (NumEmbOn floatOps on that set is assumed, not proved)",
    ],
    assumptions=[
        "programs with unbounded recursion or loops are outside (fuel), as the property allows",
        "READING (not constrained by the property text): an abnormal exit OF the finally block itself (raise / break / continue / return "
        "inside finally) is dropped by the deferred evaluation; Spec.afterFin follows the code there",
        "READING: the number 0 is truthy (`if 0 {}` / `for 0 {}` run their block); `for [a] in [[1],[2]]` binds a = [1] (one variable is never destructured)",
        "READING: a break raised while the GUARD of a condition loop is evaluated ends that loop, a continue raised there goes to the enclosing loop",
        "READING: a loop body that WRITES the list it iterates may be seen live (the code) or not (a copy): both accepted on such programs (spec=)",
        "READING of inclusive ranges: elements by repeated float64 addition; inexact fractional steps are compared rounded to three decimals",
        "a generated program that does not parse is a disagreement (UNEXPECTED-NOPARSE) unless its family is declared may-not-parse; the tree of the "
        "real parser is additionally compared with the tree C07's parser model builds from the same text (TREE-MISMATCH)",
        "positions (line, column) of the final error are compared; the error object's line/pos entries are Go ints and are not modelled",
        "not modelled: an iterator signal crossing a list literal (Go hands the partially built list on); bytesToString is injective only on valid UTF-8 type names",
    ],
    decode=decode,
)

META = dict(
    technique="Lean 4 theorems about the control-flow combinators the executable evaluator model calls, wiring lemmas "
              "(eval on a node of each statement kind IS the combinator over the evaluations of its children), eval-level "
              "corollaries, one composed program-level theorem + differential correspondence of the whole model with Runtime.Eval",
    level_text=("Proof: (1) REFINEMENT to an independent reference semantics: Spec.exec (big-step, structured outcomes normal|brk|cont|ret|err|stop, "
                "control signals are not errors, written from the statement of the property) over a deep syntax with abstract leaves; "
                "refines: the evaluator's combinators on that syntax have exactly the Spec outcome and final state; eval_is_impl / "
                "eval_refines_spec: for EVERY tree, fuel, scope and state eval is that interpretation of the statement the tree reads as "
                "(statements, if/elif/else, condition loops, try with otherwise/finally and with EVERY except-clause shape as syntax: bare, typed, "
                "`e`, `as e`, typed `as e`, typed `e` — spec_first_listed_clause(_as): a typed clause of plain literals handles e iff its type is "
                "listed; spec_binding_clause: the error object is bound in the clause scope before the block; for-in loops and call nodes are "
                "leaves: spec_refinement_partial; calls are connected at the call node by "
                "eval_user_call / eval_call_refines_spec / eval_call_never_ret). (2) Per construct, arbitrary sub-trees and fuel: "
                "if_first_true/if_guard_error; "
                "break/continue never leave the innermost loop (condition loop and for-in, at eval level; bindLoopVars raises no loop "
                "signal); return ends the innermost call; first matching except / unhandled unchanged / a typed clause handles e iff "
                "its type is listed (plain literals); otherwise iff no error; finally exactly once on every way out; raise fields; "
                "map keys in byte order of their string forms (unconditional); statements sequencing and the composed "
                "program_try_finally_signal. Loops over lists: loop_list is about the evaluator's iterator (reads the backing array "
                "LIVE: element j is what the array holds when step j starts). Ranges: loop_range_runs_rangeVals (the loop over the "
                "range step = forEach over rangeVals, on ANY carrier incl. Float), runBuiltin_range_next (the call's state machine "
                "does that step) and the Int theorems (inclusive end, both directions, wrong direction empty, closed forms) which "
                "rangeVals_emb transfers to any carrier on which the integers in play embed faithfully."),
    level_note=("Unfolding equations used as lemmas (by construction, no content of their own): loop_guard, loop_iter_step, tryCore_eq, dispatch_cons, "
                "ifChain_cons, return_innermost_function, raise_fields(_seen_by_handler), the *_example theorems. Real content: the refinement, "
                "break/continue-innermost, loop_list, if_first_true, first-matching/unhandled (vs Decline), finally_exactly_once (vs afterFinally), "
                "typed-clause-decides, range closed forms, sortBy/loop_map_sorted, statements/program composition. "
                "KNOWN FINDING iterator-returned-by-function: `for i in r()` with r returning range(...) calls r every round, binds nil and never ends "
                "by itself (bounded directed cases carry spec=; kf= once the id is listed). Anchor 4 (ndTry / ndOtherwiseFinally) is not proved here: owner "
                "C07; here only the cross-check payload tree = parser-model tree on every C04 program and the >=3-types / clause-order families. "
                "READING of 'inclusive range': the elements of range(a, b, s) are a, a+s, a+2s, ... by repeated addition in float64 "
                "while not beyond b; b itself is delivered iff the accumulation hits it exactly. For integer-valued arguments below "
                "2^53 that is the mathematical inclusive range (IEEE-754 exactness is an assumption here: Float is opaque to the Lean "
                "kernel, NumEmbOn floatOps is not proved); for inexact fractional steps the end can be missed "
                "(range(0, 0.3, 0.1) gives 0, 0.1, 0.2) — Go and the model agree on it, it is recorded as the reading, not as a deviation. "
                "eval_range_step: eval of the call expression `range(...)` inside a for-in node IS the rangeIter step on the call site's entry "
                "(hypotheses: range not shadowed; re-evaluating the arguments leaves the entry alone). NOT proved (loop_range_inclusive_partial): the "
                "induction over the rounds joining it with loop_range_runs_rangeVals, which needs 'block, binder and arguments leave the loop's "
                "range entry alone' as an invariant of all of eval. "
                "break/continue DO cross a call boundary (func b() { break } called in a loop ends the loop): Go = model, generated, "
                "not excluded by the property text. The `_wf` theorems take node shapes from C07's WellFormed; the C04 driver evaluates "
                "WellFormed on every tree it runs. eval-level theorems keep scope creation as a hypothesis (newChild_ok shows it always holds)."),
)


def run(ctx):
    return checklib.standard(ctx, SPEC)
