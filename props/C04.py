"""C04 — control flow and try/except/otherwise/finally follow the reference semantics."""
import checklib


def decode(p):
    f = p.split(" ")
    try:
        return {"source": bytes.fromhex(f[0]).decode("utf8", "replace") if f[0] != "-" else ""}
    except Exception:
        return p


SPEC = dict(
    lean_modules=["Ecal.Props.C04", "Ecal.Props.C04Eval"],
    shards=12,
    rule=("cases = marker programs (x.mark(n) appends to an ordered trace): corpus of the repaired defects; exhaustive "
          "exit kind {fallthrough, break, continue, return, raise E1, raise E2 with detail+data, raise(), runtime error} x "
          "14 except-clause sets (none, bare, one type, two types, with/without `as e`, `e`, `as e`, several clauses) x "
          "otherwise x finally x context {top level, for-in loop, condition loop, function, range loop in function}; the "
          "same exits inside handler / otherwise / finally; re-entrant evaluation (a recursive or mutually recursive call from "
          "finally / except / otherwise re-evaluates the statement whose return/break/continue/error is still travelling); "
          "except type strings in interpolated, raw and single-quoted form x handler shapes x raise form; "
          "ranges with every sign combination of (to - from, step) incl. fractional steps and equal bounds in every loop context; "
          "range loops whose bounds / step (variables, len(l), n - 1) the body modifies, in every loop context; guards that raise "
          "(runtime error, raise through a called function) at every position of if/elif chains, in condition-loop guards and for-in "
          "iterables, inside and outside try; if and list/map loop families; random nestings of "
          "if/loop/try/function up to depth 4 (3000 quick, 100000 thorough). Compared: ordered marker trace, final value, "
          "error TYPE (no message, no position). Non-trivial = the model's trace has at least two entries."),
    exhaustive="exit kind x except-clause set x otherwise x finally x context, and the range/if/list/map families",
    trusted_base=[
        "the tree evaluated by the model is the one the real parser built (serialised by the harness); parser and lexer are not part of C04",
        "the evaluator model calls the proved combinators with closures over itself; that the surrounding model code (scopes, values, "
        "builtins) matches rt_*.go is established by the differential run only",
        "range theorems are stated at Int for the end test the evaluator instantiates at Float (small integers behave alike)",
    ],
    assumptions=["programs with unbounded recursion or loops are outside (fuel), as the property allows"],
    decode=decode,
)

META = dict(
    technique="Lean 4 theorems about the control-flow combinators the executable evaluator model calls + differential correspondence "
              "of the whole model with Runtime.Eval on exhaustive and random marker programs",
    level_text=("Proof: per-construct equations for arbitrary sub-computations (no bound on nesting): if_first_true, loop_guard, "
                "loop_iter_step/loop_list, loop_range_inclusive_{pos,neg,equal_bounds}, sortBy_{perm,sorted} (map order), "
                "break/continue never leave the innermost loop, return ends the innermost call, try_first_matching_except, "
                "try_otherwise_iff_no_error, finally_exactly_once (all exit kinds), unhandled_propagates_unchanged, raise_fields."),
    level_note=("Props/C04Eval.lean restates finally_exactly_once, otherwise-iff-no-error, first-matching-except, unhandled-unchanged, "
                "break-innermost (condition loop), return-innermost and if-first-true for `eval` itself via wiring lemmas "
                "(Lemmas/C04Wiring.lean: eval on a node of each statement kind IS the combinator over the evaluations of its children) "
                "with node shapes from C07's WellFormed (Lemmas/C04Shape.lean). "
                "Theorems are about the combinators (ifChain, guardLoop, iterLoop, tryCore, dispatchExcept, typedMatch, tryFinally, "
                "callCore, raiseSig/errObject, rangeDone, sortBy) that Model/Eval.lean executes, not about the whole mutual evaluator; "
                "the glue is covered by the correspondence run."),
)


def run(ctx):
    return checklib.standard(ctx, SPEC)
