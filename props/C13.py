"""C13 — parsing is a pure, re-entrant function of its input."""
import importlib.util
import os

import checklib

_spec = importlib.util.spec_from_file_location("props__conc", os.path.join(os.path.dirname(os.path.abspath(__file__)), "_conc.py"))
_conc = importlib.util.module_from_spec(_spec)
_spec.loader.exec_module(_conc)


def decode(p):
    return dict(kv.split("=", 1) for kv in p.split(" ") if "=" in kv)


SPEC = dict(
    lean_modules=["Ecal.Props.C13"],
    shards=8,
    budget_s=900,
    extract=lambda ctx: _conc.extract(ctx, "C13", "C13.lean"),
    rule=("one case = one stress configuration + seed: g in {2,3,4,5,8,12,16} goroutines (1 in mode poison), a list of n programs: 12 directed "
          "ones (map literals, if/for, comments, the inputs of the repaired defect) plus generated ones covering every token kind the lexer can "
          "produce (all keywords and symbols, pre / post comments, raw / single-quoted strings, escapes, composition access, let, break / continue, "
          "try / except / otherwise / finally, sinks with all clauses, `;`) — the evidence counts token kinds seen / producible and AST node kinds "
          "seen —, a quarter damaged. Modes: parse (with / without provider), eval (imports + interpolation parsed at run time), console, mixed: "
          "every result is computed sequentially first, then by all goroutines concurrently; canonical result = hash of the tree with names, token "
          "ids, values, flags, positions, source labels and meta data, or error type + line + column + detail, plus validation / evaluation value. "
          "cold: all goroutines evaluate the SAME fresh validated AST at once (reference from a separate parse). ids: one shared provider, instance "
          "ids of all components (reflection) distinct. poison: parses abandoned by a recovered panic (faulty provider panicking at the k-th Runtime() "
          "call) followed by ordinary parses. pp: concurrent PrettyPrint of shared trees next to parses. sinks: sinks fired on g pool workers "
          "interpolate strings and import files while host goroutines parse. inject: the debugger's InjectValue for a suspended thread next to "
          "parses. lean (after every case): the payload carries programs with their token lists; every concurrent Go result is compared "
          "with the result of the LEAN parser model (Model/Parser, the port C07 ties to parser.go) on the same tokens. Result = differing results, "
          "duplicate instance ids (mode lean: result hashes). Non-trivial = at least 2 goroutines (or mode poison / lean) and the directed programs "
          "included. A 10-case slice runs under the race detector in the quick tier, the quick set in the thorough tier."),
    trusted_base=[
        "the frame theorems (parse_reentrant, schedule_independent, shared_ast_reentrant) are conditional on hW (the threads write only the listed "
        "cells) and hC (results do not depend on the allowed cells); neither is proved of the Go code: hW is tied by the extracted write facts "
        "(exact allowed lists), hC by the stress (results compared at different counter values) and the counterFlows fact. They are discharged "
        "for the models only (parserSys, idSys, their product)",
        "except in mode lean the comparison is concurrent Go vs. sequential Go; the Lean side of those cases runs the abstract thread models "
        "(constant `0 0` by theorem). Mode lean compares with the Lean port of the parser",
        "regexp.Regexp values are safe for concurrent use (documented); datautil.RingBuffer locks internally; the host registers stdlib "
        "functions before it parses or evaluates (AddStdlibFunc is unsynchronised by design)",
        "method calls on package-level objects are followed into same-package methods only; calls through interfaces, function values and "
        "aliases passed to other functions are not followed",
        "the access classification is syntactic (go/ast): writes through aliases, through method calls on package-level "
        "values and in dependencies (krotik/common) are not seen by the extractor; the race-detector run of the thorough "
        "tier is the supporting evidence for those",
        "the call graph is name-based and over-approximates; it is sound only if every function reachable through a "
        "function value is mentioned by name in a reachable function or package-level table",
        "Validate-phase writes to runtime components are allowed on the protocol 'a tree is validated once by the goroutine that "
        "parsed it before any other goroutine evaluates it' (true of every Validate call site in /repo; a host that validates a "
        "shared tree concurrently is outside the claim)",
        "hypothesis hC of parse_reentrant (results do not depend on the instance counter) is tied by the stress: the "
        "sequential and the concurrent results are computed at different counter values",
    ],
    assumptions=["no debugger is attached to a provider while two or more goroutines evaluate with it: ecalDebugger.VisitState writes ed.lastVisit "
                 "holding only the read lock and SetLockingState / SetThreadPool are check-then-set without synchronisation (data races in "
                 "interpreter/debug.go, no crash observed). The property constrains the parser and the construction of runtime components; the "
                 "debugger's evaluation hooks are C15 / C16's code. Mode inject suspends ONE thread",
                 "all sources are named \"t\" (Error.Source / Lsource do not vary); imports go through MemoryImportLocator only","sequentially consistent interleaving semantics (data races are looked for with -race in the thorough tier, not modelled)"],
    decode=decode,
)
SPEC["search"] = _conc.search(SPEC)

META = dict(
    technique=("Lean 4 non-interference theorem over an interleaving model of N threads sharing named cells; the write set of the "
               "real code is re-extracted from the Go source (go/ast) on every run and checked by a generated obligation; "
               "in-process concurrent stress (and -race in the thorough tier) as correspondence"),
    level_text=("CONDITIONAL on hW and hC, which are tied to the code by extracted facts and stress, not proved of it. Proof (abstract model): for every number of threads and every schedule, if the package-level writes on the "
                "parse / runtime-construction path are all atomic or lock-protected updates of cells the result does not depend on, "
                "every parse result equals the sequential result and no other package-level state changes (parse_reentrant, "
                "schedule_independent, parse_pure); the unrepaired table rewrite interferes and poisons (witnesses). "
                "Instance ids drawn atomically are distinct for all schedules (instance_ids_distinct; counter++ collides: witness). "
                "Tie to /repo: the package-level write set and the writes to fields of shared objects (runtime provider, AST-attached "
                "runtime components) are extracted from the source on every run (obligations writesOnParsePath_allowed, "
                "sharedObjectWrites_allowed by decide, allowed entries justified one by one), "
                "concurrent parses / evaluations are compared with sequential results."),
    level_note=("Trusted: Lean kernel + propext/Classical.choice/Quot.sound; the syntactic extractor (no alias analysis, name-based call "
                "graph); sequential consistency. The theorem is about the abstract thread model, not about a Lean port of parser.go; "
                "races are probabilistic, the stress and -race runs are supporting evidence."),
)


def run(ctx):
    rc = checklib.standard(ctx, SPEC)
    if ctx.tier == "thorough":
        rc = max(rc, _conc.race_run(ctx, SPEC, tier="quick"))
    else:
        # a 10-case slice under the race detector in the quick tier too
        rc = max(rc, _conc.race_run(ctx, SPEC, tier="quick", env_more={"VERIF_C13_STRATIFIED": "1"}))
    return rc
