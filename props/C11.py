"""C11 — concurrent sink invocations are isolated; failures go to their own event."""
import importlib.util
import os

import checklib

_spec = importlib.util.spec_from_file_location("props__conc", os.path.join(os.path.dirname(os.path.abspath(__file__)), "_conc.py"))
_conc = importlib.util.module_from_spec(_spec)
_spec.loader.exec_module(_conc)


def extract(ctx):
    """regenerate the facts; a fact the extractor could not establish is noted and makes this run look harder"""
    import re
    txt = _conc.extract(ctx, "C11", "C11.lean")
    _conc.extract(ctx, "C13", "C13.lean")  # Props/C11 also uses the shared-object write facts of the C13 extractor
    unknown = re.findall(r"def (\w+)Known : Bool := false\ndef \w+Why : String := \"([^\"]*)\"", txt)
    if unknown:
        ctx.notes.append("facts NOT established by the extractor (no obligation depends on them in this run; the stress run is "
                         "amplified instead): " + "; ".join(f"{n}: {w}" for n, w in unknown))
        ctx.c11_amplify = True
    return txt


def amplify(ctx):
    """facts not established: run the thorough-tier stress in the same run"""
    ctx.log("amplify: facts not established -> thorough-tier stress in this run")
    cases, gores, model, bad = _conc.stress(ctx, ctx.harness, "thorough", "amplify", SPEC.get("shards", 8), 900)
    ctx.coverage["amplified_evaluations"] = len(cases)
    for i in bad[:2]:
        rp = checklib.write_replay(ctx, "input", {"payload": cases[i], "readable": cases[i]},
                                   model.get(i, ("MISSING", {}))[0], gores.get(i, "MISSING"),
                                   f"./check {ctx.prop} --replay <this file>", tag="amplify")
        checklib.violation(ctx, rp, f"(amplified run) go={gores.get(i, 'MISSING')[:80]!r}")
    checklib.write_evidence(ctx)
    return 1 if ctx.violations else 0


def decode(p):
    return dict(kv.split("=", 1) for kv in p.split(" ") if "=" in kv)


SPEC = dict(
    lean_modules=["Ecal.Props.C11"],
    shards=12,
    budget_s=900,
    extract=extract,
    rule=("one case = one stress configuration + seed: a processor with w in {2,3,4,6,8,12,16} workers, 1..3 sinks "
          "(kindmatch t.a / t.* / t.b, priorities 1..3, fail-on-first-error on or off), ev events submitted by h goroutines "
          "(AddEventAndWait, or bursts of AddEvent with one root monitor per event); every event carries its id and per sink an "
          "instruction: succeed / raise(T_<sink>_<id>, d<id>, id) / return id / Go function failing with E_<sink>_<id>; every "
          "invocation echoes the id through `event`, a local and a shared global function (and increments a mutex-protected global); "
          "in a third of the cases the DECLARING scope defines variables named `event` and `v` (the names an invocation scope / a "
          "call frame stores before it is linked to its parent) which must stay untouched, in a third the sink reads `event`, pauses, reads again. "
          "Compared per event with the report dictated by its payload: result = lost, duplicated, mis-attributed errors "
          "(type, detail, data, attached environment), wrong/missing/extra echoes. Non-trivial = at least 2 workers, "
          "at least 2 events in flight and at least 100 events."),
    trusted_base=[
        "the access classification is syntactic (go/ast): the extractor sees assignments to captured variables and to "
        "components of captured variables by name, not writes through aliases or inside called methods; the race-detector "
        "run of the thorough tier is the supporting evidence for those",
        "the expected per-event report (which sinks run, which fail) is computed by the harness from the rule definitions "
        "(C01/C10 cover rule selection and ordering)",
    ],
    assumptions=["sequentially consistent interleaving semantics (data races are looked for with -race in the thorough tier, not modelled)",
                 "generated sinks do not branch on explicitly shared globals (hypothesis hC of `isolation`)"],
    decode=decode,
)
SPEC["search"] = _conc.search(SPEC)

META = dict(
    technique=("Lean 4 non-interference theorem over an interleaving model of N invocations sharing named cells; the captured-write set "
               "of the action closure (and of function.Run) is re-extracted from the Go source (go/ast) on every run and checked by a "
               "generated obligation; in-process stress with per-event expected reports (and -race in the thorough tier) as correspondence"),
    level_text=("Proof (abstract model): for every number of overlapping invocations and every schedule, if the closure assigns no captured "
                "variable, each invocation's outcome, `event` and locals equal those of running it alone, modulo the lock-protected globals "
                "it explicitly shares (isolation); for the closure model every completed invocation returns exactly its own outcome — nothing "
                "lost, duplicated or mis-attributed (errors_attributed); the unrepaired captured `err` loses and mis-attributes errors (witness). "
                "`event` is invocation-local when it is stored before the scope gets its parent, also if the declaring scope has a variable of that name "
                "(event_is_local; parent-first shares it: witness). "
                "Tie to /repo: captured writes and the order of scope set-up calls extracted from the source on every run (obligations "
                "capturedWrites_nil, scope_setup_local by decide); overlapping "
                "invocations compared with per-event expected reports."),
    level_note=("Trusted: Lean kernel + propext/Classical.choice/Quot.sound; the syntactic extractor (no alias analysis); sequential "
                "consistency. The theorem is about the abstract invocation model, not about a Lean port of the evaluator; the recording of "
                "returned errors by the engine is C02's subject; races are probabilistic, the stress and -race runs are supporting evidence."),
)


def run(ctx):
    rc = checklib.standard(ctx, SPEC)
    if getattr(ctx, "c11_amplify", False) and ctx.tier != "thorough":
        rc = max(rc, amplify(ctx))
    if ctx.tier == "thorough":
        rc = max(rc, _conc.race_run(ctx, SPEC, tier="quick"))
    return rc
