"""C11 — concurrent sink invocations are isolated; failures go to their own event."""
import importlib.util
import os

import checklib

_spec = importlib.util.spec_from_file_location("props__conc", os.path.join(os.path.dirname(os.path.abspath(__file__)), "_conc.py"))
_conc = importlib.util.module_from_spec(_spec)
_spec.loader.exec_module(_conc)


def extract(ctx):
    """regenerate the facts; a fact the extractor could not establish is noted and makes this run look harder"""
    import re
    txt = _conc.extract(ctx, "C11", "C11.lean")
    _conc.extract(ctx, "C13", "C13.lean")  # Props/C11 also uses the shared-object write facts of the C13 extractor
    unknown = re.findall(r"def (\w+)Known : Bool := false\ndef \w+Why : String := \"([^\"]*)\"", txt)
    m = re.search(r"def scopeLocking[^\n]*", txt)
    if m and '"unknown"' in m.group(0):
        unknown.append(("scopeLocking", "a lock call could not be tied to the scope lock / no hand-over of the lock recognised"))
    if unknown:
        ctx.notes.append("facts NOT established by the extractor (no obligation depends on them in this run; the stress run is "
                         "amplified instead): " + "; ".join(f"{n}: {w}" for n, w in unknown))
        ctx.c11_amplify = True
    return txt


def amplify(ctx):
    """facts not established: run the thorough-tier stress in the same run"""
    ctx.log("amplify: facts not established -> thorough-tier stress in this run")
    cases, gores, model, bad = _conc.stress(ctx, ctx.harness, "thorough", "amplify", SPEC.get("shards", 8), 900)
    ctx.coverage["amplified_evaluations"] = len(cases)
    for i in bad[:2]:
        rp = checklib.write_replay(ctx, "input", {"payload": cases[i], "readable": cases[i]},
                                   model.get(i, ("MISSING", {}))[0], gores.get(i, "MISSING"),
                                   f"./check {ctx.prop} --replay <this file>", tag="amplify")
        checklib.violation(ctx, rp, f"(amplified run) go={gores.get(i, 'MISSING')[:80]!r}")
    checklib.write_evidence(ctx)
    return 1 if ctx.violations else 0


def decode(p):
    return dict(kv.split("=", 1) for kv in p.split(" ") if "=" in kv)


import re

# race reports count when a frame lies in the code of this property: interpreter/, scope/, parser/ and the
# engine files the property is anchored in (task queue, monitor, processor). engine/pool (the worker pool)
# belongs to C09, engine/pubsub to C02.
RACE_DIRS_C11 = re.compile(r"/(parser|interpreter|scope)/[A-Za-z0-9_]+\.go:\d+|/engine/(taskqueue|monitor|processor|rule|event)\.go:\d+")

SPEC = dict(
    race_dirs=RACE_DIRS_C11,
    lean_modules=["Ecal.Props.C11", "Ecal.Props.C11Frame"],
    shards=12,
    budget_s=900,
    extract=extract,
    rule=("one case = one stress configuration + seed: a processor with w in {2,3,4,6,8,12,16} workers, 1..3 sinks "
          "(kindmatch t.a / t.* / t.b, priorities 1..3, fail-on-first-error on or off), ev events submitted by h goroutines "
          "(AddEventAndWait, or bursts of AddEvent with one root monitor per event). The instruction table is a deterministic function of "
          "(seed, event id): kind, per sink succeed / raise(T_<sink>_<id>, d<id>, id) / return id / Go function failing with E_<sink>_<id>, "
          "cascade. Sink bodies are composed from features: try/except re-raising e.type/e.detail/e.data with naps in finally and except, "
          "nested function + lambda, object method via new, default parameter evaluated in the caller, sinks declared inside a function, "
          "with / without the shared global function, heavy loop; two-level cascade (sink s2 adds 2..4 child events, each child's sink adds "
          "2 grandchild events on whatever worker runs it; their failures are recorded under the root's monitor); read-pause-read of `event`; "
          "the declaring scope defining `event` and `v`; a mutex-protected global counter. Observed and digested: every error recorded under "
          "every root monitor (event it is recorded under, rule, shape, id / sink / detail / data named inside the error, attached environment), "
          "every invocation's echo (id through event / local / function chain / first read, accumulator, m.k), the global counter, the declaring "
          "scope, duplicate root monitor ids. The Lean driver computes the same line from the payload alone (Ecal.SinkSpec: invocations each event "
          "must cause and the outcome of each (sink, event)). Non-trivial = at least 2 workers, at least 2 events in flight and at least 100 events. "
          "A slice of 8 cases runs under the race detector in the quick tier, the whole quick set in the thorough tier."),
    trusted_base=[
        "the model side of the compared line is an ORACLE: Model/SinkSpec computes the expected invocations and outcomes from the payload by "
        "plain definitions; no theorem is about SinkSpec, and none of the proved systems is compared with Go beyond the driver's self-check "
        "(closureSys with the extracted captured list, setupSys with the extracted set-up order)",
        "hypothesis hW of `isolation` for the real evaluator: nothing an invocation executes writes shared state without protection. "
        "Discharged only syntactically and in part: the closure assigns no captured variable (capturedWrites_nil), no Eval method of a "
        "runtime component writes a field of a component or of the provider (runtime_components_write_nothing_shared, C13's extractor), "
        "the scope methods lock and children adopt the tree lock (scope_locking). Writes through aliases, into event state maps, error "
        "objects and instance-state maps are not seen; the stress and -race runs are the evidence for those",
        "hypothesis hC: the observed part of an invocation does not depend on explicitly shared globals (true of the generated sinks)",
        "the engine's recording of a returned error under the event's monitor (ProcessEvent, TaskError, RootMonitor.errors) is not "
        "modelled here (C02); it is covered by the observed digests only",
        "the access classification is syntactic (go/ast): the extractor sees assignments to captured variables and to "
        "components of captured variables by name, not writes through aliases or inside called methods; the race-detector "
        "run of the thorough tier is the supporting evidence for those",
        "the expected per-event report (which sinks run, which fail) is computed by the harness from the rule definitions "
        "(C01/C10 cover rule selection and ordering)",
    ],
    assumptions=["nested waits need a free worker each: at least as many overlapping invocations of a sink that calls addEventAndWait as the "
                 "processor has workers block all workers for ever (the child cascades are queued behind them) — C02's declared assumption, "
                 "not generated here",
                 "container values are aliased by the language (event.state is the host's map; template containers are shared by `new`): "
                 "generated sinks do not mutate them","sequentially consistent interleaving semantics (data races are looked for with -race in the thorough tier, not modelled)",
                 "generated sinks do not branch on explicitly shared globals (hypothesis hC of `isolation`)"],
    decode=decode,
)
SPEC["search"] = _conc.search(SPEC)

META = dict(
    technique=("Lean 4 theorems over interleaving models (closure with variables by name, scope storage / parent chain, tree lock with a "
               "fault outcome) + facts re-extracted from the Go source (go/ast, three-valued) on every run + in-process stress whose "
               "expected outcome table is computed by the Lean driver from the payload (+ -race slice)"),
    level_text=("Proof about abstract models, ASSUMING hW (nothing an invocation executes writes shared state unprotected) and hC (the observed "
                "part does not read explicitly shared globals) for the real evaluator: for every number of overlapping invocations and every "
                "schedule each invocation's outcome and `event` equal those of running it alone (isolation); the closure model with the extracted "
                "captured-write list returns exactly outcome(sink, event) — nothing lost, duplicated, mis-attributed (errors_attributed_partial); `event`, "
                "`this`, `super` and parameters stay invocation-local for the extracted scope set-up order whatever the declaring scope defines "
                "(stored_names_are_local on a scope model, storesLocal proved sound); locking scope-method calls never fault and never deadlock "
                "(bookkeeping_never_faults_partial). For a FRAGMENT hW is now a theorem about the evaluator model (Props/C11Frame.lean, over Model/Eval's own "
                "eval and its setValue / setLocalValue / newChild, with C05's scope lemmas): a sink body that is a `statements` node of `let v` and `v := w` "
                "statements (plain identifiers, assigned names not defined in the declaring chain), evaluated by Ecal.Ev.eval in the sink scope, writes no "
                "scope outside the sink's sub-tree (fragment_body_frame, by the sequencing induction eval_statements_frame over eval_let_statement_frame / "
                "eval_assign_statement_frame), so the declaring chain and every other invocation's scopes are untouched (sink_body_leaves_others_alone) — "
                "no hypothesis about what evaluation writes; the right side may be any arithmetic expression (+ - * / //, nested) over variables and number "
                "literals (arithExpr_reads, computed_body_frame, computed_body_leaves_others_alone); and what another invocation then reads is unchanged: every such "
                "expression B evaluates in its own scopes gives the same result after A's body as before (arithExpr_value_local, computed_body_noninterference); "
                "round 7: the same two theorems with true / false / null and raw string literals also allowed on the right (read_body_frame, read_body_noninterference). "
                "`if` (allocation), x.* calls, interpolating strings, comparisons, and the interleaving of whole bodies (isolation via isolation_mod) are NOT done. Otherwise hW is discharged only as far as the regenerated syntactic facts go; locals created by the statements "
                "are covered by hW, not by an instance theorem. Tie to /repo: facts + stress compared with the model-computed per-event table."),
    level_note=("Trusted: Lean kernel + propext/Classical.choice/Quot.sound; the syntactic extractors (no alias analysis); sequential consistency; "
                "the evaluator itself is not modelled (no Lean port of statement evaluation inside these models); the engine's error recording is "
                "C02's; races are probabilistic — stress and -race runs are supporting evidence."),
)


KF_NESTED = "error-lost-under-nested-instance-state"


def run(ctx):
    known, _ = checklib.load_known()
    if ("C11", KF_NESTED) not in known:
        # the construct that exhibits the known finding is only generated once known_findings.txt lists it
        checklib.GOENV["VERIF_C11_NO_G"] = "1"
        ctx.notes.append("known finding %s is not listed in known_findings.txt: the construct (cascade fired through a function) was not generated" % KF_NESTED)
    rc = checklib.standard(ctx, SPEC)
    if getattr(ctx, "c11_amplify", False) and ctx.tier != "thorough":
        rc = max(rc, amplify(ctx))
    if ctx.tier == "thorough":
        rc = max(rc, _conc.race_run(ctx, SPEC, tier="quick"))
    else:
        # a slice under the race detector in the quick tier too
        rc = max(rc, _conc.race_run(ctx, SPEC, tier="quick", env_more={"VERIF_C11_CASES": "8", "VERIF_C11_EVENTS": "1000"}))
    return rc
