"""C20 — a packed executable always finds and runs its embedded program."""
import os
import subprocess

import checklib

GEN = os.path.join(checklib.LEAN, "Ecal", "Gen", "C20.lean")


def extract(ctx):
    """regenerate lean/Ecal/Gen/C20.lean (buffer geometry, marker assembly, skip table, call of
    RunPackedBinary in main) from cli/tool/pack.go and cli/ecal.go of the tree under test with the
    harness's go/ast extractor, and build the real CLI executable for the process cases.
    A source the extractor cannot translate is neither a check error nor an alarm: the generated file
    then carries `extractProblems` and reference values, the problems go into the evidence (notes) and
    the generator amplifies the sweep; only a real disagreement / fall / fail is a violation."""
    binp = checklib.go_build(ctx)
    previous = open(GEN).read() if os.path.exists(GEN) else None
    if previous is not None:
        os.remove(GEN)
    p = subprocess.run([binp, "C20", "-tool", "extract", GEN], stdout=subprocess.PIPE, stderr=subprocess.STDOUT,
                       text=True, env=dict(checklib.GOENV, VERIF_REPO=checklib.REPO), cwd=ctx.work, timeout=120)
    if p.returncode != 0 or not os.path.exists(GEN):
        # the extractor itself failed (unreadable source): keep the last generated facts, marked as not regenerated
        msg = "extractor failed: " + " ".join(p.stdout.split())[:300].replace('"', "'").replace("\\", "/")
        ctx.notes.append("C20 facts NOT regenerated (" + msg + "); the last committed Gen/C20.lean was used for the sweep")
        if previous is None:
            raise checklib.CheckError("C20: no generated facts and the extractor failed: " + p.stdout[-500:])
        import re
        txt = re.sub(r"def extractProblems : List String := \[.*\]", 'def extractProblems : List String := ["%s"]' % msg, previous)
        open(GEN, "w").write(txt)
    facts = open(GEN).read()
    import re
    m = re.search(r"def extractProblems : List String := \[(.*)\]", facts)
    if m and m.group(1).strip():
        ctx.notes.append("C20 extractor: NOT TRANSLATED (reference values used, sweep amplified to the thorough one): " + m.group(1))
        ctx.log("NOT TRANSLATED:", m.group(1))
    ctx.log("extracted:", " ".join(l.strip() for l in facts.splitlines()
                                   if l.startswith("def ") and "skipTable" not in l and "markerPieces" not in l))
    p = subprocess.run([binp, "C20", "-tool", "buildcli", os.path.join(ctx.work, "ecal-cli")], stdout=subprocess.PIPE,
                       stderr=subprocess.STDOUT, text=True, env=dict(checklib.GOENV, VERIF_REPO=checklib.REPO),
                       cwd=ctx.work, timeout=900)
    if p.returncode != 0:
        raise checklib.CheckError("C20: building the CLI of the tree under test failed: " + p.stdout[-800:])


def decode(p):
    f = p.split(" ")
    try:
        if f[0] == "realbin":
            return {"real_interpreter_binary": "hypothesis of scan_finds_archive checked on the CLI built from the tree under test; started unpacked"}
        if f[0] == "out":
            return {"after_the_scan": f[1], "binary_size": int(f[2]), "filler": f[3], "entry_number": int(f[4])}
        if f[0] == "rt":
            return {"random_project_tree_seed": int(f[1]), "binary_size": int(f[2]), "entry_returns": int(f[4]),
                    "packed_through": "CLIPacker.ParseArgs (in-process)" if f[5] == "args" else "the real CLI as child process: ecal pack -target T entry (cwd = project)"}
        if f[0] == "seq":
            first = {"-": "target does not exist"}.get(f[1]) or (
                "target exists as an unrelated file of %s bytes" % f[1][2:] if f[1].startswith("F:") else
                "first packed: project tree %s onto a binary of %s bytes" % (f[1].split(":")[3], f[1].split(":")[1]))
            return {"sequence": first, "target_mode_before": f[2], "then_packed": "project tree %s onto a binary of %s bytes (-1 = the real CLI)" % (f[5], f[3]),
                    "entry_returns": int(f[6]), "also_started_as_process": f[7] == "1"}
        if f[0] == "proc":
            return {"real_executable": "CLI of the tree under test, packed with project tree %s" % f[1], "entry_returns": int(f[2]),
                    "command_line": [] if f[3] == "-" else [bytes.fromhex(x).decode("latin1") for x in f[3].split(",")],
                    "started_as": {"abs": "absolute path", "bare": "bare argv[0] as after a $PATH lookup, cwd elsewhere",
                                   "decoy": "bare argv[0], cwd contains an unrelated file of the same name", "rel": "./app.bin",
                                   "dotdot": "cwd/../app.bin", "symlink": "symbolic link in another directory"}.get(f[4] if len(f) > 4 else "abs")}
        filler = {"0": "letters (no '#')", "1": "'#' every 61 bytes, newline every 127", "2": "pseudo-random (LCG seed %s)" % f[3]}[f[2]]
        d = {"packed": f[0] == "1", "binary_size": int(f[1]), "filler": filler, "project_tree": f[6] + (" (must be refused by the pack tool)" if f[6].endswith("r") else ""), "entry_returns": int(f[7])}
        if f[4] != "-":
            d["planted"] = [{"offset": int(x.split(":")[0]), "bytes": bytes.fromhex(x.split(":")[1]).decode("latin1")}
                            for x in f[4].split(",")]
        if f[5] != "-":
            d["bytes_between_marker_and_archive"] = f[5]
        return d
    except Exception:
        return p


SPEC = dict(
    lean_modules=["Ecal.Props.C20"],
    shards=16,
    extract=extract,
    rule=("a case = (size n of the source binary, filler kind, planted byte strings, optional white-space after the marker, "
          "project tree, number the entry returns); the binary is packed with the real CLIPacker.Pack and run with the real "
          "RunPackedBinary; compared: outcome (exit callback with the entry's result / fall "
          "through / fail) and files seen through the memory import locator byte-identical to the tree. Sweep: every n in "
          "[0, 3*max(bufSize, b1+b2)+2|marker|+8] (thorough: 6*) (geometry regenerated from pack.go) x 3 fillers; every proper prefix of the "
          "marker and every one-byte-changed marker at every alignment around 6 block boundaries x gaps to the real marker "
          "(0 = immediately followed); marker inside the binary; white-space after the marker; unpacked binaries; large random "
          "sizes; sequences (target already exists: earlier pack of a bigger/equal/smaller project onto another binary, unrelated larger file "
          "ending in a zip end record, restrictive mode) compared byte by byte with a fresh pack, executable bit, run; the real CLI executable packed and started as a child process with 9 command lines (none, unknown words, flags, "
          "every tool name) x 2 trees: entry must run with its exit code and nothing else printed; 6 project trees (nested dirs, empty file, all byte values, files containing the marker, 120 kB archive, 40 files). "
          "Non-trivial = the marker does not lie inside the first read (n+|marker| > bufSize) or bytes were planted or white-space follows."),
    exhaustive="all source-binary sizes from 0 to 3 buffer lengths (more than two periods of every stride of the scanner, before and after the repair) with three fillers",
    trusted_base=[
        "archive/zip writer and reader of the Go standard library are inverse to each other (exercised by the file comparison, not modelled)",
        "the ECAL interpreter evaluates the entry program (C03-C06 cover it); the model stops at the bytes handed to the zip reader",
        "strings.Index / bytes.Index = first occurrence (model: findFirst); unicode.IsSpace/IsControl as tabulated by the extractor",
        "seek, zip reader, parser and interpreter enter the outcome model as the named facts of `After` (seekOk, zipOk, entryOk, result); "
        "they are exercised (out/rt/tree cases) but not modelled",
        "os.Executable() names the file that was started (model: scannedIsStarted; exercised by the start-form process cases)",
        "os.File.Read returns 1..len(p) bytes before the end of a regular file and 0, io.EOF at the end (the theorems hold for every such read schedule)",
        "go/ast extractor in go/cmd/harness/c20.go that regenerates lean/Ecal/Gen/C20.lean (buffer sizes, keep expression, marker pieces, skip table, first statement of main)",
    ],
    post=lambda ctx, cases, gores, model: ctx.coverage.update(
        witnesses_not_counted_as_obligations=len([l for l in open(os.path.join(checklib.LEAN, "Ecal", "Props", "C20.lean"))
                                                  if l.startswith("example")]),
        obligations_note=("obligations = the theorems of Props/C20.lean. Recorded facts regenerated from the source and checked by decide: "
                          "geom_marker_nonempty, geom_keep_covers_marker, geom_keep_lt_buf, zip_signature_not_skipped (semantic: evaluated), "
                          "main_call_not_guarded, locate_not_by_argv0_alone (three-valued, only a REFUTED fact breaks them; they are not theorems "
                          "about the code's behaviour - the process cases are the tie). Statements over the model: the scan theorems (scan_eq_spec, "
                          "scan_finds_archive, archive_exact, scan_total, scan_first_occurrence, scan_skips_whitespace, read-schedule theorems) are "
                          "inductions over all files; packed_runs_entry / packed_never_falls_through / plain_binary_falls_through are a CASE TABLE for "
                          "the control flow after the scan whose hypotheses (zipOk, entryOk, result) ARE the clauses 'files recovered' and 'entry "
                          "runs' - those clauses are tested, not proved. Witnesses / definitional facts / instances are `example`s, not counted.")),
    assumptions=[
        "requires fixes/C20-source-is-target.patch and fixes/C20-memory-import-clean-path.patch in the tree under test (findings of review 2; "
        "without them the check reports VIOLATION, findings/C20-source-is-target-*.json, C20-unclean-import-path-*.json); the earlier repairs "
        "(a0bf548, 4d6bfdb, 4584a1a, cc5774c) are in /repo",
        "`-source X -target X` (same file, also via hard link) is REFUSED by the pack tool with an error and X stays intact (spec decision with the fix)",
        "Go's zip reader locates the central directory from the end record and accepts bytes in front of the archive (trusted): therefore the OFFSET "
        "handed to it is not an observable (counted only), white-space after the marker and a source binary that already contains marker+archive "
        "(repacking) still run the last packed project; hbin is necessary for the offset theorem, not for the property",
        "write errors reported by zip.Writer.Close / dest.Close at the end of Pack are dropped by Pack (exit 0, broken executable) - by reading, not "
        "injected; a FIFO inside the project makes `pack` block for ever - both outside what the cases exercise",
        "45k of the cases run RunPackedBinary in-process with osArgs overridden, i.e. through the filepath.Abs(osArgs[0]) branch that production "
        "never takes; the production branch (os.Executable) is run by the ~110 real-process cases only",
        "interpreter sizes exercised: every size 0..3 buffer lengths, random up to ~180 kB, the real CLI (~9 MB), sparse zero files of 2^24, 2^25+1, "
        "2^27-1 (thorough: up to 2^29); the theorems cover every size, the tie does not go beyond 512 MB",
        "random project trees: <= 40 files, <= 310 kB per file, depth <= 5 (hidden / oddly named directories included); fixed tree 10 has files of "
        "2^16±1, 2^20±1 and 3 MB; nothing larger is compared",
        "the extractor recognises Read / carry-over copy / skip predicate but does NOT verify that the scan loop has no further exit condition "
        "(review 2, S5): such drift is only caught by the size dimension of the generator",
        "a project with a root file named .ecalsrc-entry, or containing a symbolic link to a directory / a dangling link, is REFUSED by the pack "
        "tool with an error (spec decision: no executable is better than one that runs an impostor or silently lacks files); the property is "
        "about the projects the tool accepts",
        "the hypothesis 'no marker occurrence starts inside the interpreter binary' (hbin) is CHECKED AT RUN TIME on the real CLI binary built "
        "from the tree under test (case realbin: first occurrence in bin++marker is at |bin|; srcmarker=0 in the process cases) - this "
        "GOOS/GOARCH and build; markerBuiltByCall is the syntactic reason why it holds",
        "Windows: only the suffix logic is exercised (file app.exe started as app, in-process, on Linux); no Windows build is run",
        "short / interrupted reads (EINTR-style partial reads) are covered by the theorems (every read schedule rd: each read returns 1..len(p) "
        "bytes) but cannot be provoked on a regular file, so they are proved and executed in the model only (two irregular schedules per small case)",
        "an I/O error other than EOF during the scan ends the loop silently = fall through to the normal command line (not modelled, not injected)",
        "the scan is independent of the project tree (consequence of archive_exact: the archive is opaque bytes after the marker); the size sweep "
        "therefore uses one small tree, other trees run on boundary sizes only",
        "no occurrence of the marker starts inside the source binary (binary followed by the marker): a binary that contains the complete "
        "marker, or ends with the marker minus its last byte, is ambiguous by design - first occurrence wins (scan_first_occurrence, witnesses)",
    ],
    decode=decode,
)

META = dict(
    technique=("Lean 4 theorems over a byte-list model of Pack's layout and RunPackedBinary's block loop (geometry regenerated from "
               "pack.go by a go/ast extractor) + differential correspondence driving the real Pack and RunPackedBinary over an "
               "exhaustive size sweep"),
    level_text=("Proof for the marker scan (clause 'locates the embedded archive ... for every binary of any size and content') and a case table for "
                "the control flow after it; the clauses 'which file is scanned', 'recovers every packed file' and 'runs the entry file' are "
                "hypotheses of that table and are TESTED (start forms and command lines of the real process, 12 fixed and random project trees "
                "through the tool's own command line, sequences, sizes up to 2^27), not proved. Proof: for every binary length and content (no marker occurrence starting inside the binary), every archive starting "
                "with a non-space byte and every read schedule, the overlapping-window scan returns |bin|+|marker| and the zip reader "
                "gets exactly the archive bytes; on every file the scan equals strings.Index over the whole file, terminates, stays in "
                "bounds and falls through when there is no marker; first occurrence wins otherwise. Negative witness for the scanner "
                "before the repair. Model tied to pack.go by an exhaustive sweep of sizes x fillers, partial markers at every alignment "
                "and project trees through the real code."),
    level_note=("Trusted: Lean kernel + propext/Classical.choice/Quot.sound; the correspondence harness and fact extractor; Go's "
                "archive/zip round trip and the interpreter are exercised (files compared byte by byte, exit code) but not modelled."),
)


def run(ctx):
    return checklib.standard(ctx, SPEC)
