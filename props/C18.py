"""C18 — tokens, errors and breakpoints carry the true source position."""
import os
import subprocess

import checklib


def decode(p):
    f = p.split(" ")
    try:
        if f[0] == "L":
            return {"kind": "lex", "source": bytes.fromhex(f[1]).decode("utf8", "backslashreplace") if f[1] != "-" else ""}
        if f[0] == "S":
            return {"kind": "statement separation under comments",
                    "reference": bytes.fromhex(f[1]).decode("utf8", "backslashreplace"),
                    "variant": bytes.fromhex(f[2]).decode("utf8", "backslashreplace"), "tree_of_reference": f[3]}
        return {"kind": "planted " + ("parse" if f[1] == "P" else "runtime") + " error",
                "source": bytes.fromhex(f[2]).decode("utf8", "backslashreplace"), "offending_token_offset": f[3]}
    except Exception:
        return p


GEN = os.path.join(checklib.LEAN, "Ecal", "Gen", "C18.lean")


def extract(ctx):
    """regenerate lean/Ecal/Gen/C18.lean (where the code copies a token's position into errors, messages,
    stack traces, the except object and break point keys) from the tree under test (go/ast). Verdict per
    site: 0 established, 1 refuted (breaks the obligation errors_carry_token_pos), 2 unknown shape (reported)."""
    binp = checklib.go_build(ctx)
    previous = open(GEN).read() if os.path.exists(GEN) else None
    if previous is not None:
        os.remove(GEN)
    p = subprocess.run([binp, "C18", "-tool", "extract", GEN], stdout=subprocess.PIPE, stderr=subprocess.STDOUT,
                       text=True, env=dict(checklib.GOENV, VERIF_REPO=checklib.REPO), cwd=ctx.work, timeout=120)
    if p.returncode != 0 or not os.path.exists(GEN):
        if previous is None:
            raise checklib.CheckError("C18: no generated facts and the extractor failed: " + p.stdout[-500:])
        open(GEN, "w").write(previous)
        ctx.notes.append("C18 facts NOT regenerated (extractor failed: " + " ".join(p.stdout.split())[:200] + "); the last committed Gen/C18.lean was used")
        return
    lines = [l for l in p.stdout.splitlines() if l[:2] in ("0 ", "1 ", "2 ")]
    ctx.coverage["fact_sites"] = len(lines)
    ctx.coverage["fact_sites_established"] = len([l for l in lines if l.startswith("0 ")])
    gen = open(GEN).read()
    import re
    rows = re.findall(r"\((\d+), (\d+), \"", gen)
    ctx.coverage["fact_kinds_established"] = sorted(set(int(k) for k, v in rows if v == "0"))
    ctx.coverage["fact_kinds_present"] = sorted(set(int(k) for k, v in rows))
    ctx.coverage["fact_sites_refuted"] = [l[2:] for l in lines if l.startswith("1 ")]
    ctx.coverage["fact_sites_unknown_shape"] = [l[2:] for l in lines if l.startswith("2 ")]
    if ctx.coverage["fact_sites_unknown_shape"]:
        ctx.notes.append("C18 source fact: sites of unknown shape (no obligation broken): " + "; ".join(ctx.coverage["fact_sites_unknown_shape"])[:400])


SPEC = dict(
    extract=extract,
    lean_modules=["Ecal.Props.C18"],
    shards=8,
    rule=("lex cases: the known-finding/repair corpus, every sequence of <=3 (quick) / <=4 (thorough) atoms from "
          "{a,1,+,space,\\n,#c,/*c*/,/*\\n*/,\"s\",r\"x\\ny\",\"x\\ny\",\\r,\\t,é,\\xff,\"\\\\\",',*/,;} and random interleavings "
          "(2..25 atoms) of identifiers, keywords, numbers, symbols, blanks (CR, LF, CRLF, tab, VT, FF, NUL, NEL, NBSP, U+3000), "
          "quoted/raw strings with newlines and escapes, # and /* */ comments (multi-line, unterminated), multi-byte and "
          "invalid UTF-8, raw random bytes; compared: (Pos, Lline, Lpos) of every token of parser.LexToList incl. comments, "
          "EOF and the error token. planted cases: a statement with a parse or runtime error at a known byte offset inside "
          "random well-formed surroundings; compared: Line/Pos of parser.Error / util.RuntimeError (and, for runtime errors, "
          "that the error's node token starts at that offset) against the model token starting there. On every case the model "
          "side also recomputes the true line/column from the byte offset (all tokens but EOF). "
          "sep cases: a comment-free reference program (42 directed token sequences with return, identifier followed by ( or [ on the "
          "same/next line, infix operators at line ends, ;-free statement sequences, multi-line raw strings; the same with re-drawn line "
          "breaks; random token sequences) and a variant with comments in its gaps (same-line gap -> block comments without newline; "
          "newline gap -> trailing # comment, whole-line # or /* */ comments, block comment containing the newline(s), CRLF, extra blank "
          "lines; comments before the first and after the last token). Rule (decided by the model side from the lexer model's token "
          "lines): if reference and variant have the same non-comment tokens (kind, value, flags, EOF included) and for every token but "
          "the first the same answer to 'on the same line as the previous non-comment token?', then parser.Parse must give the same "
          "canonical tree (node names, token values, children; no positions, no comments) or the same error kind; the reference's tree "
          "is computed by the real parser and shipped in the payload. hash-comment-column excuses nothing here. "
          "Non-trivial = a compared token lies on a line > 1 (sep: the variant has a comment and a line break between tokens)."),
    exhaustive="all sequences of the 19 small atoms up to the stated length",
    trusted_base=[
        "lean/Ecal/Model/Lexer.lean is a hand-written port of parser/lexer.go; its agreement with the Go lexer is tested on every run (this correspondence), not proved",
        "isSpace / isControl / isNumber / decodeRune of the model are hand copies of the Go tables (go1.23.5, Unicode 15.0.0); they are swept against unicode.IsSpace / IsControl / IsNumber / utf8.DecodeRune for U+0000-U+2FFF on every quick run and for every code point (incl. surrogates, out of range) on every thorough run (case kind U)",
        "the EOF token's stale Pos/column (known finding eof-stale-position) is evaluated on every case; its LINE (eof_line_true) and the stale column value after a # comment (stale_column_exact) are proved about the model",
        "comment tokens are exempt from 'Pos is the first character': their Pos is the first byte of the comment TEXT (what Val holds; the opener # or /* stands directly before it - proved); they are meta data and never reach an error or a break point",
        "errors_carry_token_pos is a syntactic source fact: the judgement (operands of the constructions, of the Sprintf calls, of the value that indexes ed.breakPoints) is Go string matching in go/cmd/harness/c18extract.go and is trusted; Lean only checks 'every kind present, none refuted' over the printed list; that the error names the OFFENDING token is checked by the planted-error cases (11 parse + 13 runtime plants x 4 shapes)",
        "the gap clause of 'Pos is the first character' is proved (gap_is_blank: only a run of blank runes between the end of the previous token's lexing and Pos / the comment opener) and additionally tested on every case by the driver's independent scan (expectedPositions); the end of a token's lexing is pinned to Pos+|Val| for keywords, symbols, identifiers, numbers and comments - for string and error tokens the C18 theorems state only Pos < end (C14Lex gives the extent of a string literal that starts a token)",
    ],
    assumptions=["sep cases: token lines never decrease along the token sequence (proved: lines_monotone), so the same-line-as-previous relation "
                 "determines every line comparison the parser makes; that parser.go uses token lines only in such comparisons (run, ndReturn, "
                 "ndIdentifier, hasMoreStatements) is by reading",
                 "the EOF token has no first character: the position asked for is the end of the input (the code's stale Pos/Lpos there is the known finding eof-stale-position); an EOF that follows an error token (the lexer has stopped) is compared between model and code only",
                 "positions of errors raised inside a string interpolation \"{{...}}\" are relative to the interpolated snippet (rt_value.go parses the code as its own source 'String interpolation: <code>'): the unit of 'the source text the user sees' is the parsed unit (C14's unit); no C18 case contains {{ }}; break points never match inside a snippet",
                 "the error token of an UNTERMINATED block comment has the comment convention (Pos = first byte after the opener /*): parser.Error points two columns right of the /* (plant 'a := /* c'); declared, proved (token_starts_at_first_character) and compared, not counted as a deviation",
                 "planted runtime errors are those the interpreter raises as *util.RuntimeError (11 parse + 13 runtime plants); failed variable / container access and failed import (4 plants, kinds A / Y, plain and inside try) are bare errors without position: known finding access-errors-unpositioned (candidate repair fixes/C18-access-errors-positioned.patch not applied: it changes the error type programs and the C04-C06 models observe; a repaired tree is accepted); inside a called function the interpreter re-wraps such an error at the CALL token - not planted; the 45 NewRuntimeError / 11 newParserError sites are not enumerated",
                 "kind B drives the debugger through its Go API on ONE source name: SetBreakPoint / DisableBreakPoint / RemoveBreakPoint, first and second suspension (Continue with Resume), break point on a continuation line; the textual commands (break / rmbreak / disablebreak via HandleInput), break points in imported sources and the source part of a break target containing ':' (debug_cmd.go splits at the first colon - a source-name matter, not a line matter) are not exercised"],
    decode=decode,
)

META = dict(
    technique="Lean 4 theorems over an executable port of the lexer + differential correspondence with parser.LexToList, parser.Parse and the interpreter",
    level_text=("Proof (about the executable lexer model, all inputs): every emitted non-EOF token carries the true line of its Pos, and the true "
                "column unless the last newline before it ended a # comment - then exactly the column measured from that comment's line start "
                "(token_positions_true_partial, stale_column_exact; negative witness proved); at Pos stands a non-blank rune and the "
                "token's text (token_starts_at_first_character, token_text_at_pos; comment tokens: first byte of the comment text, opener directly "
                "before; only a run of blank runes lies between the end of one token's lexing and the next Pos: gap_is_blank, "
                "token_pos_is_first_character); "
                "EOF only at the end with the line of the end of input, Pos strictly increasing, lines never decreasing (token_list_shape, "
                "lines_monotone, eof_line_true); the lexer always terminates with EOF or an error token, no fuel runs out (lexer_always_closes); "
                "errors, messages, stack traces, the except object and break point keys copy Lline/Lpos of one token (errors_carry_token_pos: "
                "three-valued go/ast fact regenerated on every run - the judging is trusted Go code, Lean checks 'all kinds present, none refuted'). Model tied to parser/lexer.go by an exhaustive-for-short / "
                "random-for-long differential run and a code point sweep; error positions (fields, message text, JSON, except object, stack "
                "trace), break points on the real debugger and statement separation under comments are tested on every run."),
    level_note=("Trusted: Lean kernel + propext/Classical.choice/Quot.sound; the correspondence harness. Known finding hash-comment-column "
                "(pinned by TestObjectInstantiation) is reported, any other wrong position is a violation."),
)


def _accept(go, alt):
    """token-by-token acceptance: every token Go reports equals one of the values the model lists for
    that token (the code as it is, or a tree with some of the known findings repaired)"""
    g, a = go.split(" "), alt.split(" ")
    return len(g) == len(a) and all(x in y.split("|") for x, y in zip(g, a))


def run(ctx):
    # checklib.standard compares whole result lines (Go == model or Go == spec). The two known findings
    # of C18 are independent, so a tree that repairs ONE of them equals neither string on inputs that
    # show both. The driver therefore lists per token what is acceptable (`alt=`); a Go line that is
    # acceptable token by token is handed to the standard comparison as the case's `spec`.
    stash = {}
    orig_cases, orig_driver = checklib.run_cases, checklib.run_driver

    def run_cases(*a, **k):
        res = orig_cases(*a, **k)
        stash["go"] = res[1]
        return res

    def run_driver(c, prop, cases, *a, **k):
        model = orig_driver(c, prop, cases, *a, **k)
        n = 0
        for i, (m, attrs) in model.items():
            g = stash.get("go", {}).get(i)
            if "alt" in attrs and g is not None and g != m and g != attrs.get("spec") and _accept(g, attrs["alt"]):
                attrs["spec"] = g
                n += 1
        if n:
            c.coverage["accepted_token_by_token"] = n
        return model

    checklib.run_cases, checklib.run_driver = run_cases, run_driver
    try:
        return checklib.standard(ctx, SPEC)
    finally:
        checklib.run_cases, checklib.run_driver = orig_cases, orig_driver
