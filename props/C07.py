"""C07 — parsing is total: an error or a well-formed tree, and nothing left running."""
import os
import re
import subprocess

import checklib

GEN = os.path.join(checklib.LEAN, "Ecal", "Gen", "C07.lean")


def extract(ctx):
    """regenerate lean/Ecal/Gen/C07.lean (token ids, astNodeMap, block-brace entry, synchronisation skeleton of the
    token channel) from the tree under test; theorems table_matches_source / source_selects_sync decide over it"""
    binp = checklib.go_build(ctx, out="harness-extract")
    if os.path.exists(GEN):
        os.remove(GEN)
    p = subprocess.run([binp, "C07", "-tool", "gen", GEN], env=checklib.GOENV, stdout=subprocess.PIPE,
                       stderr=subprocess.STDOUT, text=True, timeout=120)
    if p.returncode != 0 or not os.path.exists(GEN):
        raise checklib.CheckError("C07 fact extractor failed: " + p.stdout[-800:])
    gen = open(GEN).read()
    facts = dict(re.findall(r'def (closeFact|syncFact|errFact) : String := "(\w+)"', gen))
    facts["tableUnderstood"] = "yes" if "def tableUnderstood : Bool := true" in gen else "unknown"
    ctx.coverage["source_facts"] = facts
    for n in [l[5:] for l in p.stdout.splitlines() if l.startswith("NOTE ")]:
        ctx.notes.append("source fact not established (no obligation): " + n)
    # a fact about the channel skeleton that is neither established nor refuted: search harder in this run
    if facts.get("closeFact") == "unknown" or facts.get("syncFact") == "unknown":
        checklib.GOENV["C07_AMPLIFY"] = "1"
        ctx.log("channel skeleton not established from the source -> amplified leak search (more tails, more concurrent callers)")


def decode(p):
    f = p.split(" ")
    if f[0] == "CONC":
        return {"concurrent_callers": 8, "seed": f[1]}
    try:
        src = bytes.fromhex(f[0]) if f[0] != "-" else b""
        txt = src.decode("utf8", "backslashreplace")
        if len(txt) > 300:
            txt = txt[:200] + " …(%d bytes)" % len(src)
        return {"source": txt, "tokens": 0 if f[1] == "-" else len(f[1].split(","))}
    except Exception:
        return p


SIX = {"UnexpectedEnd", "LexicalError", "UnknownToken", "ImpossibleNullDenotation", "ImpossibleLeftDenotation", "UnexpectedToken"}
BEHAVIOUR = {}   # (go line, model line) -> count: differences which do NOT contradict the property


def equal(g, m, attrs):
    """The property constrains: error xor tree, the error one of the six kinds and positioned at a token of the input,
    the tree well formed, nothing left running. It does not say WHICH error. So an ERR answer of the real code that differs
    from the model's ERR answer in kind / position only, is one of the six kinds, points at a token of the input (at=tok,
    decided on the Go side against the real token list) and has the same leak / ParseWithRuntime verdicts is recorded as a
    BEHAVIOUR CHANGE (note), not a violation. A positioned answer also satisfies the known finding's spec side.
    Everything else (tree vs error, different trees, BOTH/NEITHER, PANIC/CRASH/HANG, leak, rt=DIFF, at=none/unpos) is compared exactly."""
    if g == m:
        return True
    gf, mf = g.split(" "), m.split(" ")
    if len(gf) >= 6 and len(mf) >= 6 and gf[0] == "ERR" and mf[0] == "ERR" and gf[1] in SIX and gf[4] == "at=tok" \
            and gf[5:] == mf[5:]:
        k = (" ".join(gf[:5]), " ".join(mf[:5]))
        BEHAVIOUR[k] = BEHAVIOUR.get(k, 0) + 1
        return True
    return False


def post(ctx, cases, gores, model):
    """evidence only: on how many cases the lexer MODEL reproduces the real lexer's token list (the end-to-end theorem
    is about parse = parseToks o lex; the lexer tie itself is C18's correspondence)"""
    agree = differ = skipped = 0
    ex = []
    for i, (_, attrs) in model.items():
        la = attrs.get("la")
        if la == "1":
            agree += 1
        elif la == "0":
            differ += 1
            if len(ex) < 5:
                ex.append(decode(cases[i]))
        else:
            skipped += 1
    # behaviour changes: only those where the line really differs from the model's own answer
    changes = {}
    for i in cases:
        g = gores.get(i, "")
        mm = model.get(i, ("", {}))[0]
        if g != mm and g.startswith("ERR ") and mm.startswith("ERR ") and equal(g, mm, {}):
            k = (" ".join(g.split(" ")[:5]), " ".join(mm.split(" ")[:5]))
            changes.setdefault(k, []).append(i)
    if changes:
        n = sum(len(v) for v in changes.values())
        ex = [{"case": decode(cases[v[0]]), "go": k[0], "model": k[1], "cases": len(v)} for k, v in list(changes.items())[:5]]
        ctx.coverage["behaviour_changes"] = {"cases": n, "classes": len(changes), "examples": ex}
        ctx.notes.append(f"BEHAVIOUR CHANGE (not a violation): on {n} cases the real parser answers with a different error "
                         f"(kind / position) than the model, still one of the six kinds at a token of the input; e.g. {ex[0]}")
        print(f"BEHAVIOUR-CHANGE: property=C07 {n} cases, {len(changes)} classes, e.g. {ex[0]}", flush=True)
    ctx.coverage["lexer_model_equals_real_token_list"] = {"agree": agree, "differ": differ, "not_evaluated": skipped,
                                                          "examples_differ": ex}


SPEC = dict(
    extract=extract,
    equal=equal,
    post=post,
    lean_modules=["Ecal.Props.C07"],
    shards=16,
    rule=("cases = source texts: the inputs of the repaired defects and ~100 directed corner cases, every byte string of "
          "length <=3 over 20 symbols, every sequence of <=3 (quick) / <=4 (thorough) token texts over the 40 most "
          "structural tokens, 5k/100k mutants of 18 valid programs (delete/duplicate/swap/replace tokens, unbalance "
          "brackets, stray ; } ) inside blocks, truncate), ~1.5k guards containing bracketed/parenthesised brace expressions, "
          "~630 try statements with errors inside except/otherwise/finally clauses, 2k/20k strings with invalid UTF-8 and control characters, 3 long-tail inputs (early error followed by 10^5 tokens). "
          "The real lexer's token list is part of the case; compared: tree shape (names, token values, raw flag; no "
          "positions) or error kind+line+col, model verdicts wf=1 (WellFormed on the identical tree) and leak=0 measured by goroutine accounting around parser.Parse. "
          "Further families: 26k/120k grammar-driven VALID programs (all statement/expression kinds, depth <=10, some of ~10^4 tokens; "
          ">=20k distinct OK trees), nesting of every nesting construct to depth 50, one 10^5-deep parenthesis nesting, the deterministic "
          "injection sweep (17 stray texts inserted at / replacing EVERY token position of 29 programs, every prefix: ~19k), long tails "
          "after late / nested / extra-token errors, non-ASCII space/control/digit and exponent forms. On every OK tree the real "
          "PrettyPrint and ParseWithRuntime(ECAL provider)+Validate run under recover (a panic = violation). "
          "NOTE: wf= and leak= on the MODEL line are constants (wf=1 by parse_wellformed/_strict/parse_walkable, leak=0 by "
          "producer_done_at_return); what is compared is the tree text / error kind+line+col and the MEASURED leak. "
          "kf=unexpected-end-unpositioned marks the cases whose error is the unpositioned `Unexpected end` (spec = EOF position). "
          "Non-trivial = the token list has at least 3 tokens."),
    exhaustive="all byte strings <=3 over 20 symbols; all token-text sequences <=3 (quick) / <=4 (thorough) over 40 tokens",
    trusted_base=[
        "the token list handed to the model parser is produced by the real lexer (parser.LexToList); the lexer MODEL (of parse_end_to_end) is tied to lexer.go by C18's correspondence; "
        "C07's run additionally records on how many of its cases the lexer model reproduces the real token list (coverage.lexer_model_equals_real_token_list; error message texts ignored)",
        "facts extracted by go/ast from the tree under test (harness C07 -tool gen -> lean/Ecal/Gen/C07.lean): token ids, astNodeMap, block-brace entry, go statements / close / defer drain skeleton",
        "the 3-slot look-ahead ring is not modelled in the parser model (argued invisible, notes in Model/Parser.lean) and over-approximated in the channel model",
        "goroutine accounting AT RETURN TIME: directly after parser.Parse / ParseWithRuntime returns the goroutine count is read and, if it is above the level before the call, the goroutine dump is taken BEFORE the measuring goroutine yields; it is searched for frames of package parser; only a goroutine recognised in that dump as a lexer past its close() (no frame below (*lexer).run / the go-statement wrapper) is then given time to end; long-tail inputs (10^5 tokens after an error; one 10^6 tail in thorough) keep anything asynchronous busy at that moment. Timers and heap growth are NOT observed",
    ],
    assumptions=[
        "BY CONSTRUCTION OF THE MODEL: the parser model is a short-circuit error monad with functional node construction, so 'tree xor error', "
        "'the first error wins' and 'no child appended after an error' hold in the model by construction; for parser.go (err variables, one guard "
        "per site, in-place appends) they are TESTED by the correspondence (exact error kind+line+col, BOTH/NEITHER, NIL children) and the source "
        "fact errFact only searches two refuting patterns (discarded error result; err overwritten in a loop untested) - the full per-site error "
        "discipline is an assumption",
        "POSITIONS are those of the real lexer's tokens: C07 inherits C18's known finding eof-stale-position (the EOF token's column is measured "
        "from a stale line start, e.g. `(a\\n\\n` -> Unexpected end (Line:3 Pos:-2)); error_position_from_input is satisfied by such positions "
        "(a token of the input = that EOF token) and the spec side of unexpected-end-unpositioned demands the EOF token's (possibly stale) position",
        "STATE BETWEEN CALLS: memory retained across calls (heap growth) and runtime timers are not observed; what is checked is the source fact "
        "'no package-level variable written outside init' and eight concurrent callers per run",
        "RECURSION DEPTH: the model parser recurses on an unbounded fuel; the real parser recurses on the Go stack (default limit 1 GB): "
        "measured by the reviewer, parser.Parse dies with an unrecoverable `fatal error: stack overflow` at about 5M nested `(` (10 MB "
        "of input), 3M `[`, 2M `if a {`; 1M nested parentheses parse in 3.4 s. The run contains one 10^5-deep nesting case; inputs nested "
        "deeper than ~10^6 are outside what is checked. Kept as an ASSUMPTION, not a known finding: the property's quantifier is 'up to a size "
        "bound', a 10 MB nesting is beyond any bound the run can afford, and the limit is the Go runtime's stack ceiling of a recursive-descent "
        "parser (no small repair)",
        "SIZE of successful inputs: the longest generated successful program has 2*10^4 (quick) / 4*10^4 (thorough) statements "
        "(~10^5 tokens); the model driver is quadratic in the number of children of one node (Node.add = children ++ [c], kept because "
        "Printer/Eval/C04/C06 proofs use this list), so 10^6-statement programs are outside what is run",
        "Go channel semantics (`for range ch` ends when the channel is observed closed; an unbuffered send completes with a receive) as "
        "encoded in Model/TokenChannel.lean",
        "the consumer census `walkable` (Model/ParserWalk.lean) is a hand transcription of the unguarded dereferences of Validate/Eval/"
        "PrettyPrint; tested by running PrettyPrint and ParseWithRuntime+Validate on every OK tree, Eval is not run here (C06)",
    ],
    decode=decode,
)

META = dict(
    technique="Lean 4 theorems over an executable model of parser.go (all token lists) + channel transition system + differential correspondence with parser.Parse and goroutine accounting",
    level_text=("Proof on the model parser for every token list: result is a tree xor an error, never a nil dereference; an error has one of the six kinds and the position of an input "
                "token or is the unpositioned Unexpected end (error_position_from_input; known finding), the token is never a comment and fits the kind (error_token_per_kind), "
                "and in SOURCE positions: true line, true column up to C18's hash-comment-column, first character of a token of the text (error_position_in_source, composed with C18); "
                "the printer model's visit never takes its nil-child branch on a returned tree (printer_never_hits_nil_child); a returned tree is "
                "WellFormed and strictly well-formed (parse_wellformed, parse_wellformed_strict: no nil child, known node names, operands carry tokens, per-kind child counts/kinds) "
                "and therefore walkable by the transcribed consumer census (wellformed_walkable); the model's grammar table equals the extracted astNodeMap (table_matches_source); a fuel bound linear in the token "
                "count is never exhausted; in the channel model selected by the extracted synchronisation skeleton (source_selects_sync) no helper exists and the lexer "
                "goroutine is past its close at every return (producer_done_at_return; negative witnesses without drain and with an asynchronous drain). Model tied to parser.go by exhaustive-for-short / random-for-long differential runs."),
    level_note=("By construction of the model (not findings about the code): tree-xor-error and first-error-wins (short-circuit error monad), "
                "'returned => clean' of the channel model (guard of drainEnd). Differences that do not contradict the property (another error of the six kinds "
                "at a token of the input) are reported as BEHAVIOUR CHANGE, not as violations. "
                "Trusted: Lean kernel + propext/Classical.choice/Quot.sound; the correspondence harness; the real lexer's token list is an input; "
                "goroutine accounting is a measurement."),
)


def run(ctx):
    return checklib.standard(ctx, SPEC)
