"""C07 — parsing is total: an error or a well-formed tree, and nothing left running."""
import checklib


def decode(p):
    f = p.split(" ")
    try:
        src = bytes.fromhex(f[0]) if f[0] != "-" else b""
        txt = src.decode("utf8", "backslashreplace")
        if len(txt) > 300:
            txt = txt[:200] + " …(%d bytes)" % len(src)
        return {"source": txt, "tokens": 0 if f[1] == "-" else len(f[1].split(","))}
    except Exception:
        return p


SPEC = dict(
    lean_modules=["Ecal.Props.C07"],
    shards=16,
    rule=("cases = source texts: the inputs of the repaired defects and ~100 directed corner cases, every byte string of "
          "length <=3 over 20 symbols, every sequence of <=3 (quick) / <=4 (thorough) token texts over the 40 most "
          "structural tokens, 5k/100k mutants of 18 valid programs (delete/duplicate/swap/replace tokens, unbalance "
          "brackets, stray ; } ) inside blocks, truncate), ~1.5k guards containing bracketed/parenthesised brace expressions, "
          "~630 try statements with errors inside except/otherwise/finally clauses, 2k/20k strings with invalid UTF-8 and control characters, 3 long-tail inputs (early error followed by 10^5 tokens). "
          "The real lexer's token list is part of the case; compared: tree shape (names, token values, raw flag; no "
          "positions) or error kind+line+col, model verdicts wf=1 (WellFormed on the identical tree) and leak=0 measured by goroutine accounting around parser.Parse. "
          "Non-trivial = the token list has at least 3 tokens."),
    exhaustive="all byte strings <=3 over 20 symbols; all token-text sequences <=3 (quick) / <=4 (thorough) over 40 tokens",
    trusted_base=[
        "the token list handed to the model parser is produced by the real lexer (parser.LexToList); the lexer itself is not modelled here (C18/C08)",
        "the 3-slot look-ahead ring is not modelled in the parser model (argued invisible, notes in Model/Parser.lean) and over-approximated in the channel model",
        "goroutine accounting AT RETURN TIME: directly after parser.Parse returns the goroutine dump is searched for frames of package parser; only a lexer goroutine past its close() (single frame (*lexer).run) is given time to end; long-tail inputs (10^5 tokens after a first-token error) keep anything asynchronous busy at that moment",
    ],
    assumptions=[],
    decode=decode,
)

META = dict(
    technique="Lean 4 theorems over an executable model of parser.go (all token lists) + channel transition system + differential correspondence with parser.Parse and goroutine accounting",
    level_text=("Proof on the model parser for every token list: result is a tree xor an error, never a nil dereference; a returned tree is "
                "WellFormed (parse_wellformed, full: no nil child, known node names, token clause, per-kind child counts/kinds the consumers index unchecked); a fuel bound linear in the token "
                "count is never exhausted; in the channel model the lexer goroutine is terminated at every return when the drain is present "
                "(negative witness without). Model tied to parser.go by exhaustive-for-short / random-for-long differential runs."),
    level_note=("Trusted: Lean kernel + propext/Classical.choice/Quot.sound; the correspondence harness; the real lexer's token list is an input; "
                "goroutine accounting is a measurement."),
)


def run(ctx):
    return checklib.standard(ctx, SPEC)
