"""C09 — the thread pool runs every accepted task exactly once without outside help."""
import json
import os
import subprocess

import checklib

LEAN_MODULES = ["Ecal.Props.C09"]

RULE = ("one case = one schedule of the real pool under the hook scheduler (go/cmd/harness/c09sched.go): "
        "directed schedules (lost-wake-up windows after the empty Pop / after L.Lock / after the predicate check, "
        "kill vs. wait, resize up/down during bursts, shrink-and-back with pending kill requests, a waiting resize superseded by a later one, JoinAll against a worker about to wait, resize while an earlier shrink is still carried out (over-kill / under-shoot / waiting shrink), "
        "resize / AddTask while a JoinAll is carried out, a SetWorkerCount that overwrites a JoinAll's request (JoinAll must still return), SetWorkerCount(0) with a backlog and back, a running task waiting for the start of a queued one, "
        "a task adding tasks from Run, JoinAll after a burst, WaitAll while a task runs) x workers {1,2,4}; a family on a real engine.Processor "
        "(engine.TaskQueue, rule actions injecting child events from inside Run, AddEventAndWait); "
        "randomised schedules (seeded yield/sleep/park decisions at every park point, per-thread priorities), workers 1..16, "
        "programs of AddTask (single, burst, concurrent, background, nested from Run, dependent pairs), SetWorkerCount up/down/0 (wait or not, "
        "two concurrent callers), WaitAll, JoinAll (also concurrent with adds); "
        "thorough: delay-bounded systematic enumeration for <=2 workers, <=3 tasks. Compared: the Go monitors "
        "(tasks added/done, State() at quiescence, stuck detection from hook states, per-task execution counts, WaitAll/JoinAll "
        "return vs completion stamps, final worker count) against the monitors the Lean model computes by REPLAYING the recorded "
        "hook trace on the per-worker LTS (every event enabled; every value observed under a lock equal to the model's). "
        "Non-trivial = the trace contains at least one task start and one completed Wait/wake-up cycle.")

TRUSTED = [
    "hook call sites in engine/pool/threadpool.go (hooks/C09.patch, add-only, active with build tag verif) sit where the model's transitions are; "
    "records written inside queueLock / workerMapLock / L are ordered exactly, the others are ordered by the validator's lazy/alternative rules (Drivers/C09.lean header)",
    "sync.Mutex / sync.Cond behave as specified (mutual exclusion; Wait = atomically enqueue and unlock; Signal wakes one waiter, Broadcast all); "
    "sequentially consistent execution (thorough tier runs under the race detector; since 910444b no race is reported in engine/pool)",
    "critical sections are atomic steps of the model: that the lock nesting is acyclic (L -> queueLock, L -> workerMapLock, workerMapLock -> queueLock) and the "
    "shape of the sync skeleton (Signal under L after Push; Size() and workerKill re-read under L before Wait; SetWorkerCount decides in one workerMapLock "
    "section from len(workerMap)-workerExiting) are re-extracted from threadpool.go on every run (lean/Ecal/Gen/C09.lean, three-valued) and tied to the "
    "model's Variant by `decide`",
    "TooManyCallback / TooFewCallback (called under queueLock+RegulationLock / RegulationLock) are not modelled: a callback that calls back into the pool deadlocks; "
    "the engine's callbacks only print",
    "the task queue is an abstract bag (Pop returns any queued task); DefaultTaskQueue's FIFO order is checked by the trace validator, engine.TaskQueue's "
    "priority / per-root pick and Clear() are not part of C09 (C10)",
    "callers are over-approximated: workerKill set by SetWorkerCount(down) is any positive value, polling broadcasts may happen at any time",
]

ASSUMPTIONS = [
    "fairness (F1): a goroutine whose next step stays enabled is eventually scheduled; a goroutine blocked on a mutex released infinitely often eventually gets it",
    "termination (F2): every task's Run returns",
    "'eventually started' is a THEOREM under explicit hypotheses (fair_queued_task_started: Exec.Fair = F1+F2 as one hypothesis, Exec.CallsStopAt) at queue level; fifo_started_in_order gives the order for DefaultTaskQueue; kill_within_bound the bound for a pending shrink. Fairness itself and real-time bounds are assumed / not proved",
    "resize_target holds until the next resize / JoinAll (re-)asserts its request; when a JoinAll and a SetWorkerCount(n>0) overlap the one deciding last wins: JoinAll keeps its request up in its loop (fix C09-joinall-vs-setworkercount), both calls return",
    "'eventually started' is proved at QUEUE level (some queued task is popped after boundedly many internal steps unless the pool is saturated or workerless); "
    "per-task start needs a fair queue (DefaultTaskQueue is FIFO, checked on traces only); engine.TaskQueue can starve a low-priority task under continuous arrivals — not a C09 obligation",
    "the RETURN of SetWorkerCount / its two polling loops are not modelled; that an overruled or superseded waiting call returns is only tested (judged from the call's own loop iterations, never from wall-clock time)",
    "OUTSIDE THE QUANTIFIER ('while the pool has at least one worker'): WaitAll on a pool without workers returns at once with tasks queued (hypothesis 0 < workerCount of waitall_sound); "
    "JoinAll on a pool without workers but with queued tasks never returns (ran: SetWorkerCount(0,true) with a backlog, then JoinAll: spins) — JoinAll's termination is proved as bounded work + no stuck state (joinall_bound, joinall_not_stuck) under fairness; WaitAll's termination is not claimed, only that its exit guard is sound",
    "the RETURN of SetWorkerCount(n>0, …) is not modelled: its trailing loop waits until some worker is idle, i.e. on a saturated pool until the backlog is drained (ran: 1 busy worker, SetWorkerCount(1,false) returned after the backlog); the property constrains the worker COUNT (resize_target, resize_converges), not the call's return",
]

META = dict(
    technique=("Lean 4: per-worker transition system of threadpool.go + counting abstraction, simulation lemma, inductive invariant; "
               "hook traces of the real pool under a controlled scheduler replayed on the transition system"),
    level_text=("Proof over all reachable states (any number of workers and callers, any interleaving): added = queued + running + done as multisets "
                "(no task dropped or started twice); pending work or a pending kill request with a live worker always leaves an enabled pool-internal step "
                "(no lost wake-up; negative witness proved for the protocol before df51b96); WaitAll's / JoinAll's exit guards imply nothing queued or running / "
                "everything done and zero workers. Tied to the code by replaying recorded hook traces of directed, randomised and (thorough) systematic schedules."),
    level_note=("Liveness: under the explicit hypotheses Exec.Fair (scheduler fairness + terminating tasks, ASSUMED) and Exec.CallsStopAt a queued task is started "
                "(fair_queued_task_started, queue level; fifo_started_in_order for DefaultTaskQueue's order; kill_within_bound for a pending shrink). "
                "Trusted: Lean kernel, the hook placement, sync.Mutex/Cond semantics, sequential consistency (data races are not modelled), "
                "the trace validator's handling of partially ordered records."),
)

FIELDS = ["added", "done", "q", "w", "i", "stuck", "exec", "wa", "ja", "rs"]


def parse_monitors(text):
    d = {}
    for f in text.split():
        if "=" in f:
            k, v = f.split("=", 1)
            d[k] = v
    return d


def breach(mon):
    """property-level breach visible in the Go monitors alone"""
    out = []
    if mon.get("stuck") not in ("0",):
        out.append("stuck=" + str(mon.get("stuck")))
    if mon.get("exec") != "ok":
        out.append("exec=" + str(mon.get("exec")))
    for k in ("wa", "ja", "rs"):
        if mon.get(k) == "bad":
            out.append(k + "=bad")
    return out


def compare(go_text, model_text):
    """returns (ok, reason)"""
    if " | " not in go_text or go_text.split(" ", 1)[0] in ("CRASH", "HANG", "PANIC", "MISSING-RESULT"):
        return False, "no result from the real pool: " + go_text[:200]
    gm = parse_monitors(go_text.split(" | ", 1)[0])
    b = breach(gm)
    if model_text.startswith("INVALID") or model_text.startswith("bad") or model_text.startswith("MISSING"):
        return False, ("; ".join(b) + "; " if b else "") + "trace is not a run of the model: " + model_text[:160]
    mm = parse_monitors(model_text)
    diffs = []
    for k in FIELDS:
        if k == "ja" and gm.get("ja") == "ud":
            continue  # the harness could not decide within its time limit whether JoinAll spins: not judged
        if k == "rs" and gm.get("rs") == "na":
            if mm.get("rs") == "bad":
                diffs.append("rs: the model's final worker count differs from the last decided SetWorkerCount target")
            continue
        if gm.get(k) != mm.get(k):
            diffs.append(f"{k}: go={gm.get(k)} model={mm.get(k)}")
    if b or diffs:
        return False, "; ".join(b + diffs)
    return True, ""


def decode(p):
    f = p.split(" ")
    if f[0] == "D":
        return {"kind": "directed", "schedule": f[1], "workers": f[2]}
    if f[0] == "R":
        return {"kind": "random", "seed": f[1], "workers": f[2], "program": f[3] if len(f) > 3 else ""}
    if f[0] == "S":
        return {"kind": "systematic", "workers": f[1], "tasks": f[2], "hold": f[3:]}
    return p


GEN = os.path.join(checklib.LEAN, "Ecal", "Gen", "C09.lean")


def extract(ctx, binp):
    """regenerate lean/Ecal/Gen/C09.lean from the tree under test; returns (facts, notes)"""
    if os.path.exists(GEN):
        os.remove(GEN)
    env = dict(checklib.GOENV, VERIF_REPO=checklib.REPO)
    p = subprocess.run([binp, "C09", "-tool", "skeleton", GEN], env=env, stdout=subprocess.PIPE,
                       stderr=subprocess.STDOUT, text=True, timeout=300)
    if p.returncode != 0 or not os.path.exists(GEN):
        raise checklib.CheckError("C09 skeleton extraction failed: " + p.stdout[-500:])
    facts, notes = {}, []
    for l in p.stdout.splitlines():
        f = l.split()
        if l.startswith("fact ") and len(f) == 3:
            facts[f[1]] = int(f[2])
        elif l.startswith("note: "):
            notes.append(l[6:])
    return facts, notes


def run(ctx):
    thorough = ctx.tier == "thorough"
    ctx.log("go: building harness against", checklib.REPO)
    # thorough: the harness (and the pool) is built with the race detector; a reported race ends the
    # process inside the case (CRASH with the report) and is a violation
    binp0 = checklib.go_build(ctx, race=thorough)
    facts, fnotes = extract(ctx, binp0)
    refuted = sorted(k for k, v in facts.items() if v == 0)
    unknown = sorted(k for k, v in facts.items() if v == 2)
    ctx.coverage["skeleton_facts"] = {"established": sorted(k for k, v in facts.items() if v == 1),
                                      "refuted": refuted, "not_established": unknown, "notes": fnotes}
    if unknown:
        # three-valued policy: not a violation; a note and a larger search in this run
        ctx.notes.append("skeleton facts not established from the source (search amplified x3): " + ", ".join(unknown))
        checklib.GOENV["C09_AMPLIFY"] = "3"
    if refuted:
        ctx.log("skeleton facts REFUTED:", refuted)
    ctx.log("lean: building", LEAN_MODULES)
    lres = checklib.lean_check(ctx, LEAN_MODULES, leanchecker=thorough)
    cov = ctx.coverage
    cov["obligations"] = lres["obligations"]
    cov["discharged"] = lres["discharged"]
    cov["checker_cmd"] = "harness C09 -tool skeleton lean/Ecal/Gen/C09.lean && " + lres.get("checker_cmd", "")
    cov["theorems"] = lres["theorems"]
    cov["axioms_used"] = lres["axioms"]
    cov["trusted_base"] = checklib.BASE_TRUSTED + TRUSTED
    if lres.get("leanchecker"):
        cov["leanchecker_ok"] = lres["leanchecker"]
    ctx.assumptions += ASSUMPTIONS
    proof_broken = bool(lres["failures"]) or lres["discharged"] != lres["obligations"]
    if proof_broken:
        ctx.log("LEAN FAILURES:", lres["failures"])

    binp = binp0
    if thorough:
        checklib.GOENV["GORACE"] = "halt_on_error=1"
    cov["race_detector"] = thorough
    ctx.harness = binp
    cases, gores, stats, infos = checklib.run_cases(ctx, binp, "C09", shards=16,
                                                    budget_s=3000 if thorough else 600)
    crashes = sum(len(i["crashes"]) for i in infos.values())
    ctx.log(f"harness: {len(cases)} schedules, {crashes} crashes")
    cov["crash_details"] = [{"idx": c["idx"], "rc": c["rc"], "case": cases.get(c["idx"]), "result": gores.get(c["idx"], "")[:200],
                             "output": c["output"][-400:]} for i in infos.values() for c in i["crashes"]][:10]
    for d in cov["crash_details"]:
        ctx.log("crash:", d["idx"], d["rc"], d["case"], "|", d["result"][:80], "|", " ".join(d["output"].split())[-200:])
    # the model replays the recorded trace: hand it payload + trace
    lines = {}
    for i, p in cases.items():
        g = gores.get(i, "")
        if " | " in g and g.startswith("added="):
            lines[i] = p + " | " + g.split(" | ", 1)[1]
    model = checklib.run_driver(ctx, "C09", lines, shards=16) if lines else {}

    bad, validated, events, nontrivial = [], 0, 0, set()
    windows = {"hit": 0, "missed": 0}
    for i in cases:
        w = parse_monitors(gores.get(i, "").split(" | ", 1)[0]).get("win")
        if w == "1":
            windows["hit"] += 1
        elif w == "0":
            windows["missed"] += 1
    cov["directed_windows"] = windows  # directed schedules that did / did not hit the intended window (load)
    for i in sorted(cases):
        g = gores.get(i, "MISSING-RESULT")
        m, attrs = model.get(i, ("MISSING-MODEL-RESULT", {}))
        if attrs.get("valid") == "1":
            validated += 1
            events += int(attrs.get("events", "0"))
        if attrs.get("nt") == "1":
            nontrivial.add(cases[i])
        ok, why = compare(g, m)
        if not ok:
            bad.append((i, why))
    cov["evaluations"] = len(cases)
    cov["traces_validated_against_impl"] = validated
    cov["states"] = events
    cov["distinct_nontrivial"] = len(nontrivial)
    cov["rule"] = RULE
    cov["input_distribution"] = stats
    cov["disagreements"] = len(bad)
    cov["crashes"] = crashes
    cov["exhaustive"] = False
    cov["exhaustive_part"] = ("thorough tier: every placement of one and a stride sample of two held park points for <=2 workers, <=3 tasks "
                              "(delay-bounded, not all interleavings)") if thorough else "none in the quick tier"
    idxs = sorted(cases)
    sample_idx = idxs[:: max(1, len(idxs) // 6)][:6]
    cov["samples"] = [{"case": decode(cases[i]), "go": gores.get(i, "")[:300], "model": model.get(i, ("", {}))[0]}
                      for i in sample_idx]

    # directed cases first, then short traces
    bad.sort(key=lambda x: (0 if cases[x[0]].startswith("D ") else 1, len(gores.get(x[0], "")), x[0]))
    seen = set()
    reported = 0
    for i, why in bad:
        key = cases[i].split(" ")[0:2]
        key = tuple(key) if cases[i].startswith("D ") else (cases[i],)
        if key in seen:
            continue
        seen.add(key)
        g = gores.get(i, "MISSING")
        trace = g.split(" | ", 1)[1] if " | " in g else ""
        rp = checklib.write_replay(
            ctx, "schedule",
            {"payload": cases[i], "readable": decode(cases[i]), "observed_trace": trace},
            model.get(i, ("MISSING", {}))[0][:400], g.split(" | ", 1)[0][:400],
            f"./check C09 --replay <this file>  (re-runs the schedule on the current tree and re-validates the recorded trace)")
        checklib.violation(ctx, rp, why[:300])
        reported += 1
        if reported == 3:
            break
    # a harness process that died (panic in a worker goroutine, race report) is a violation even when the
    # case it died in had already written its result
    for d in cov["crash_details"]:
        if not any(i == d["idx"] for i, _ in bad):
            rp = checklib.write_replay(ctx, "schedule", {"payload": d["case"], "readable": decode(d["case"] or "")},
                                       "the harness process survives the case", f"process died with status {d['rc']}: " + d["output"][-300:],
                                       "./check C09 --replay <this file>", tag="crash")
            checklib.violation(ctx, rp, f"harness process died (status {d['rc']}) at case {d['idx']}")
    if proof_broken and not bad:
        rp = checklib.write_replay(ctx, "obligation", {"failures": lres["failures"], "theorems": lres["theorems"],
                                                        "skeleton_facts_refuted": refuted},
                                   "all property theorems check with allowed axioms", "see failures",
                                   "cd lean && lake build " + " ".join(LEAN_MODULES),
                                   theorem="; ".join(lres["failures"])[:500])
        checklib.violation(ctx, rp, no_input=True)
    cov["disagreements_reported"] = reported
    checklib.write_evidence(ctx)
    return 1 if ctx.violations else 0


def replay(ctx, path):
    obj = json.load(open(path))
    case = obj.get("case", {})
    if "payload" not in case:
        print("replay of kind", obj.get("kind"), ":", json.dumps(obj, indent=1)[:2000])
        lres = checklib.lean_check(ctx, LEAN_MODULES)
        print("lean:", lres["failures"] or "all theorems check")
        return 1 if lres["failures"] else 0
    lres = checklib.lean_check(ctx, LEAN_MODULES)
    binp = checklib.go_build(ctx)
    payload = case["payload"]
    print("case  :", case.get("readable", payload))
    rc = 0
    if case.get("observed_trace"):
        m = checklib.run_driver(ctx, "C09", {0: payload + " | " + case["observed_trace"]}, shards=1)
        print("recorded trace on the model:", m.get(0, ("MISSING", {}))[0][:300])
    runs = 1 if payload.startswith("D ") else 5
    for k in range(runs):
        p = subprocess.run([binp, "C09", "-one", payload], stdout=subprocess.PIPE, stderr=subprocess.STDOUT,
                           text=True, cwd=ctx.work, env=checklib.GOENV, timeout=120)
        out = [l for l in p.stdout.splitlines() if l.strip()]
        g = out[0] if (out and p.returncode in (0, 3, 4)) else "CRASH " + " ".join(p.stdout.split())[:300]
        m = ("MISSING", {})
        if " | " in g:
            m = checklib.run_driver(ctx, "C09", {0: payload + " | " + g.split(" | ", 1)[1]}, shards=1).get(0, m)
        ok, why = compare(g, m[0])
        print(f"run {k}: go    :", g.split(" | ", 1)[0][:300])
        print(f"run {k}: model :", m[0][:300])
        print(f"run {k}: agree :", ok, why)
        if not ok:
            rc = 1
    if rc:
        print(f"VIOLATION property=C09 replay={os.path.relpath(path, checklib.VERIF)}")
    return rc
