"""C16 — the debugger command interface is total."""
import os
import subprocess
import checklib


def _unhex(h):
    return "" if h == "-" else bytes.fromhex(h).decode("utf8", "replace")


def decode(p):
    f = p.split(" ")
    try:
        steps = [_unhex(s.split("/")[0]) for s in f[3:]]
        return {"scenario": f[0], "global_scope_given": f[1] == "1", "state_before": f[2], "lines": steps,
                "state_after_last": f[-1].split("/")[2] if len(f) > 3 else f[2]}
    except Exception:
        return p


def extract(ctx):
    """regenerate lean/Ecal/Gen/C16.lean (DebugCommandsMap + argument-count tests) from the tree under test"""
    binp = checklib.go_build(ctx)
    out = os.path.join(checklib.LEAN, "Ecal", "Gen", "C16.lean")
    p = subprocess.run([binp, "C16", "-tool", "vocabulary"], stdout=subprocess.PIPE, stderr=subprocess.PIPE,
                       text=True, timeout=120, env=checklib.GOENV)
    if p.returncode != 0:
        raise checklib.CheckError("C16 vocabulary extractor failed: " + p.stderr[-500:])
    if os.path.exists(out):
        os.remove(out)
    with open(out, "w") as f:
        f.write(p.stdout)


SPEC = dict(
    lean_modules=["Ecal.Props.C16"],
    shards=16,
    extract=extract,
    rule=("a case = scenario (nothing run / break-on-start at the first node / suspended at top level / running (blocked in a "
          "Go function) / suspended 1..3 calls deep / suspended by break-on-error / the same with an ECAL map, a nested list+map, a non-finite number as error data / finished / finished with error / two threads) "
          "with or without a global scope, then 1..5 steps (command lines for HandleInput, or harness actions starting a thread / "
          "releasing running threads); lines = every command of DebugCommandsMap (+ an unknown one) x argument vectors from "
          "{valid/invalid/negative/huge/signed thread ids, known/unknown sources, well- and malformed source:line, identifiers, "
          "dotted paths, expressions, invalid UTF-8, case variants incl. U+0130}: exhaustive for <=1 argument over 38 values and "
          "<=2 over 14 (quick) / 38 (thorough, scenarios with a global scope), structured products for extract/inject with 3, malformed "
          "`inject` expressions on suspended threads, sampled for 3..4 and after random histories; plus a concurrent kind (cont from one "
          "goroutine, break/rmbreak/disablebreak and status/describe from two others, 300 rounds, watchdog). Compared: reply class (ok/error/PANIC/HANG/NOJSON) of every command incl. json.Marshal of the result, and "
          "the class of a following `status` (time-bounded). Non-trivial = the last line names a command of the vocabulary."),
    exhaustive="all command lines with <=2 arguments over the stated argument values in every scenario",
    trusted_base=[
        "the abstract state handed to the model (thread table, call depths, visible names, lazily set references) is read from the real debugger through Status/Describe/LockState after every step; the model must explain every change by an evaluator event it allows",
        "whether the expression of an `inject` evaluates without error is measured with the real parser/interpreter (oracle bit); for an `inject` into a dotted container path ok and error are reported as one class (Scope.SetValue on paths is C05's domain)",
        "unicode.ToLower is modelled as: ASCII, U+0130 -> i, U+212A -> k, every other rune keeps a non-ASCII value",
    ],
    assumptions=[
        "running threads are observed while blocked in a registered Go function (deterministic); no command is issued while a thread is between two states",
        "evaluating the `inject` expression itself does not panic or block (C06)",
    ],
    decode=decode,
)

META = dict(
    technique="Lean 4 theorems over an executable model of debug_cmd.go and the command side of debug.go (explicit panic primitives, lock counter, Hoare-style rules) + vocabulary regenerated from DebugCommandsMap + differential correspondence with the real debugger in every state of a small state machine",
    level_text=("Proof: for every debugger state satisfying the reachability invariant (preserved by every command and every "
                "evaluator event), every byte string as input line and every behaviour of the two oracles, HandleInput's model "
                "returns ok/error (no panic primitive fails, no lock taken twice), leaves the lock free and answers a following "
                "`status`; the two guards of a44f74f are necessary (witnesses). Model tied to the code by the regenerated command "
                "table (keys, types, argument-count tests) and a reply-class differential over scenarios x command lines."),
    level_note=("Trusted: Lean kernel + propext/Classical.choice/Quot.sound; the correspondence harness; JSON-encodability of the "
                "result is tested (json.Marshal on every reply), not proved; expression evaluation and container paths are oracles."),
)


def run(ctx):
    return checklib.standard(ctx, SPEC)
