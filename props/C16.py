"""C16 — the debugger command interface is total."""
import os
import subprocess
import checklib


def _unhex(h):
    return "" if h == "-" else bytes.fromhex(h).decode("utf8", "replace")


def decode(p):
    f = p.split(" ")
    try:
        steps = [_unhex(s.split("/")[0]) for s in f[3:]]
        return {"scenario": f[0], "global_scope_given": f[1] == "1", "state_before": f[2], "lines": steps,
                "state_after_last": f[-1].split("/")[2] if len(f) > 3 else f[2]}
    except Exception:
        return p


def _race_pass(ctx):
    """the concurrent kind once more under Go's race detector: a race on a MAP of the debugger / provider
    (runtime.mapaccess/mapassign/mapiter/mapdelete in the report) is a latent "fatal error: concurrent map …",
    i.e. a crash of the debugged process that the plain run only hits by luck of timing"""
    import re
    import shutil
    res = {"ran": False}
    ctx.race_result = res
    try:
        modfile = os.path.join(ctx.work, "go-race.mod")
        src = open(os.path.join(checklib.GO, "go.mod")).read()
        open(modfile, "w").write(re.sub(r"=> /repo\b", "=> " + checklib.REPO, src))
        shutil.copy(os.path.join(checklib.REPO, "go.sum"), os.path.join(ctx.work, "go-race.sum"))
        binr = os.path.join(ctx.work, "harness-race")
        env = dict(checklib.GOENV, CGO_ENABLED="1")
        rc, out = checklib.sh(["go", "build", "-race", "-tags", "verif", "-modfile=" + modfile, "-o", binr, "./cmd/harness"],
                              cwd=checklib.GO, env=env, timeout=900)
        if rc != 0:
            res["error"] = "race build failed: " + out[-300:]
            return
        outs = ""
        for payload in ("conc 1 0", "telnet 1 0"):
            p = subprocess.run([binr, "C16", "-one", payload], cwd=ctx.work, env=dict(env, GORACE="halt_on_error=0"),
                               stdout=subprocess.PIPE, stderr=subprocess.STDOUT, text=True, errors="replace", timeout=600)
            outs += p.stdout + "\n==================\n"
        p.stdout = outs
        blocks = [b for b in p.stdout.split("==================") if "DATA RACE" in b]
        maps = [b for b in blocks if re.search(r"(runtime|reflect)\.map(access|assign|iter|delete|len)", b)]
        # A map that is WRITTEN only while it is being built (scope snapshot in buildVsSnapshot /
        # buildGlobalVsSnapshot / ToJSONObject, under the debugger lock) and read later through a list
        # Describe handed out is a publication race, not a table changing under a reader: the Go runtime
        # cannot abort on it. Counted and noted (fixes/C16-describe-copies-snapshots.patch), not a violation.
        def publication(b):
            w = b.split("Previous write")[1] if "Previous write" in b else (b.split("Previous read")[0] if "Write at" in b.split("Previous")[0] else "")
            w = w.split("Goroutine")[0]
            return bool(re.search(r"buildVsSnapshot|buildGlobalVsSnapshot|ToJSONObject", w))
        pub = [b for b in maps if publication(b)]
        maps = [b for b in maps if not publication(b)]
        res["snapshot_publication_races"] = len(pub)
        res.update(ran=True, data_races=len(blocks), map_races=len(maps), first=maps[0].strip()[:3000] if maps else "",
                   result=[l for l in p.stdout.splitlines() if l.startswith("R:")][:2])
    except Exception as e:  # the pass must not take the check down
        res["error"] = repr(e)[:300]


def extract(ctx):
    """regenerate lean/Ecal/Gen/C16.lean (DebugCommandsMap + argument-count tests) from the tree under test"""
    binp = checklib.go_build(ctx)
    out = os.path.join(checklib.LEAN, "Ecal", "Gen", "C16.lean")
    p = subprocess.run([binp, "C16", "-tool", "vocabulary"], stdout=subprocess.PIPE, stderr=subprocess.PIPE,
                       text=True, timeout=120, env=checklib.GOENV)
    if p.returncode != 0:
        raise checklib.CheckError("C16 vocabulary extractor failed: " + p.stderr[-500:])
    if os.path.exists(out):
        os.remove(out)
    with open(out, "w") as f:
        f.write(p.stdout)
    # the scenario of known finding describe-cyclic-value is only generated when the finding is listed
    known, _ = checklib.load_known()
    if ("C16", "describe-cyclic-value") in known:
        checklib.GOENV["C16_CYCLIC"] = "1"
    import threading
    ctx.race_thread = threading.Thread(target=_race_pass, args=(ctx,))
    ctx.race_thread.start()
    # three-valued facts: what the extractor could not establish is a note and amplifies the search
    import re
    txt = p.stdout
    unknown = re.findall(r'\("([^"]*)", "([^"]*)"\)', txt.split("def lockUnknown")[1]) if "def lockUnknown" in txt else [("?", "no lock facts")]
    unknown += [(k, "argument-count test not understood") for k, _, t in
                re.findall(r'\("([^"]*)", "([^"]*)", "([TF?]*)"\)', txt.split("def lockDiscipline")[0]) if "?" in t]
    verdicts = dict(re.findall(r'\("([^"]*)", "(established|refuted|unknown)"\)', txt))
    ctx.coverage["fact_lock_discipline"] = {v: sorted(k for k in verdicts if verdicts[k] == v) for v in set(verdicts.values())}
    ctx.coverage["fact_lock_refuted"] = re.findall(r'\("([^"]*)", "([^"]*)"\)', txt.split("def lockRefuted")[1].split("def lockUnknown")[0]) if "def lockRefuted" in txt else []
    if unknown:
        ctx.notes.append("facts NOT ESTABLISHED (no obligation broken by that): " + "; ".join(f"{a}: {b}" for a, b in unknown[:6]) +
                         " — the concurrent kind and the history sample are amplified (4x) in this run")
        checklib.GOENV["C16_AMPLIFY"] = "1"


SPEC = dict(
    lean_modules=["Ecal.Props.C16"],
    shards=16,
    extract=extract,
    rule=("a case = scenario (nothing run / break-on-start at the first node / suspended at top level / running (blocked in a "
          "Go function) / suspended 1..3 calls deep / suspended by break-on-error / the same with an ECAL map, a nested list+map, a non-finite number as error data / finished / finished with error / two threads) "
          "with or without a global scope, then 1..5 steps (command lines for HandleInput, or harness actions starting a thread / "
          "releasing running threads); lines = every command of DebugCommandsMap (+ an unknown one) x argument vectors from "
          "{valid/invalid/negative/huge/signed thread ids, known/unknown sources, well- and malformed source:line, identifiers, "
          "dotted paths, expressions, invalid UTF-8, case variants incl. U+0130}: exhaustive for <=1 argument over 38 values and "
          "<=2 over 14 (quick) / 38 (thorough, scenarios with a global scope), structured products for extract/inject with 3, malformed "
          "`inject` expressions on suspended threads, sampled for 3..4 and after random histories; plus a concurrent kind (cont from one "
          "goroutine, break/rmbreak/disablebreak and status/describe from two others, 300 rounds, watchdog). Compared: reply class (ok/error/PANIC/HANG/NOJSON) of every command incl. json.Marshal of the result, and "
          "the class of a following `status` (time-bounded). Non-trivial = the last command passed its argument-count test (it reached a debugger method); distinct (scenario, command, reply/shape, state of the addressed thread) combinations are counted in distinct_scenario_command_branch."),
    exhaustive="all command lines with <=2 arguments over the stated argument values in every scenario",
    trusted_base=[
        "the abstract state handed to the model (thread table, call depths, visible names, lazily set references) is read from the real debugger through Status/Describe/LockState after every step; the model must explain every change by an evaluator event it allows",
        "whether the expression of an `inject` evaluates without error is measured with the real parser/interpreter (oracle bit); for an `inject` into a dotted container path ok and error are reported as one class (Scope.SetValue on paths is C05's domain)",
        "unicode.ToLower is modelled as: ASCII, U+0130 -> i, U+212A -> k, every other rune keeps a non-ASCII value",
    ],
    assumptions=[
        "values visible to a suspended thread are acyclic: `describe` of a thread that sees a self-containing list/map never ends (fatal stack overflow; known finding describe-cyclic-value, root cause shared with C06 cyclic-container-stringify)",
        "the model's lock is ed.lock only (counter, `locked` restores it by construction); is.cond.L and ed.mutexesMutex are covered by the regenerated lock fact and the concurrent kinds, not by theorems",
        "commands are atomic in the model; a command arriving while another one or an evaluator call is in progress is only tested (conc, telnet, race pass)",
        "running threads are observed while blocked in a registered Go function (deterministic); no command is issued while a thread is between two states",
        "evaluating the `inject` expression does not panic (C06); what it does otherwise (calls program functions, does not return) is an outcome the theorems quantify over",
    ],
    decode=decode,
)

META = dict(
    technique="Lean 4 theorems over an executable model of debug_cmd.go and the command side of debug.go (explicit panic primitives, lock counter, Hoare-style rules) + vocabulary regenerated from DebugCommandsMap + differential correspondence with the real debugger in every state of a small state machine",
    level_text=("Proof: for every debugger state satisfying the reachability invariant (preserved by every command and every "
                "evaluator event incl. the late completion of a pending inject), every byte string as input line and every behaviour "
                "of the oracles, HandleInput's model returns ok/error OR is `inject` still evaluating its expression (third disjunct "
                "of handle_never_panics; proved to occur only when the oracle says the expression does not return); no panic primitive "
                "fails, ed.lock is not taken twice, it is free after the command and while the expression is evaluated, a following "
                "`status` answers. Concurrent clients: `inject` (the one command with two lock sections) linearises — whatever command "
                "lines of other clients are answered between its sections, reply and state are those of an atomic inject issued before "
                "(thread not suspended at the first look) or after all of them (inject_linearises, _among_commands); a pending inject has "
                "changed nothing, blocks nobody and can always complete (pending_inject_*, inject_completion_enabled). Atomicity of the "
                "single-section commands is the lock fact's reading, an assumption. Guard necessity by witnesses. Tied to the code by regenerated facts (command words, evaluated "
                "argument-count tests, words HandleInput compares with, lock discipline of every function of debug.go for ed.lock, "
                "is.cond.L, ed.mutexesMutex) and a reply-class differential over scenarios x command lines, incl. concurrent kinds."),
    level_note=("Trusted: Lean kernel + propext/Classical.choice/Quot.sound; the correspondence harness; JSON-encodability of the "
                "result is tested (json.Marshal on every reply), not proved (only error data is modelled); replies that alias live tables and concurrent commands are tested (concurrent kind), not modelled; expression evaluation and container paths are oracles."),
)


def post(ctx, cases, gores, model):
    """cases the harness could not record or skipped after repeated hangs are compared as equal on both
    sides: they are counted, and a run that is otherwise clean must not have any"""
    brs = set(a.get("br") for _, a in model.values() if a.get("br"))
    ctx.coverage["distinct_scenario_command_branch"] = len(brs)
    ctx.coverage["distinct_command_branch"] = len(set(b.split("/", 1)[1] for b in brs if "/" in b))
    n = sum(1 for i in cases if gores.get(i) == "RECORD-TIMEOUT")
    ctx.coverage["uncompared_cases"] = n
    ctx.uncompared = n


SPEC["post"] = post


def run(ctx):
    rc = checklib.standard(ctx, SPEC)
    if getattr(ctx, "race_thread", None):
        ctx.race_thread.join()
        r = ctx.race_result
        ctx.coverage["race_pass"] = {k: r.get(k) for k in ("ran", "data_races", "map_races", "snapshot_publication_races", "result", "error") if k in r}
        if r.get("snapshot_publication_races"):
            ctx.notes.append(f"race pass: {r['snapshot_publication_races']} publication races on scope snapshots handed out by Describe "
                             "(live lists; fixes/C16-describe-copies-snapshots.patch) - noted, cannot abort the process")
        if r.get("map_races"):
            rp = checklib.write_replay(ctx, "race", {"payload": "conc 1 0", "readable": "concurrent commands under the race detector",
                                                     "report": r["first"]},
                                       "no data race on a map of the debugger / provider", f"{r['map_races']} map races",
                                       "go build -race -tags verif ./cmd/harness && GORACE=halt_on_error=0 harness C16 -one 'conc 1 0'")
            checklib.violation(ctx, rp, "data race on a map (latent fatal 'concurrent map …' crash): " +
                               " / ".join(l.strip() for l in r["first"].splitlines() if "ecalDebugger" in l or "Runtime)" in l)[:200])
            rc = 1
        elif not r.get("ran"):
            ctx.notes.append("race pass did not run: " + str(r.get("error")))
        checklib.write_evidence(ctx)
    if rc == 0 and getattr(ctx, "uncompared", 0) > 0:
        raise checklib.CheckError(f"{ctx.uncompared} cases were not compared (recording timed out) although no disagreement was seen")
    return rc
