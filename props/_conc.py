"""Pieces shared by the checks of C11 and C13 (schedule properties tied by regenerated
source facts + in-process stress + race detector)."""
import glob
import os
import re
import shutil

import checklib


def extract(ctx, prop, gen_file):
    """regenerate lean/Ecal/Gen/<gen_file> from the source under test (deterministic)"""
    binp = checklib.go_build(ctx, out="harness-extract")
    tmp = os.path.join(ctx.work, gen_file)
    rc, out = checklib.sh([binp, prop, "-tool", "extract", tmp], env=dict(checklib.GOENV, VERIF_REPO=checklib.REPO), timeout=300)
    if rc != 0:
        raise checklib.CheckError(f"fact extractor of {prop} failed: {out[-1500:]}")
    dst = os.path.join(checklib.LEAN, "Ecal", "Gen", gen_file)
    new = open(tmp).read()
    old = open(dst).read() if os.path.exists(dst) else None
    if new != old:
        if os.path.exists(dst):
            os.remove(dst)
        with open(dst, "w") as f:
            f.write(new)
        ctx.log("extract: facts changed ->", os.path.relpath(dst, checklib.VERIF))
    ctx.coverage["facts_file"] = os.path.relpath(dst, checklib.VERIF)
    ctx.coverage["facts_changed_vs_committed"] = new != old
    return new


def _stash(ctx, tag):
    d = os.path.join(ctx.work, "run-" + tag)
    os.makedirs(d, exist_ok=True)
    for f in glob.glob(os.path.join(ctx.work, "cases.*")) + glob.glob(os.path.join(ctx.work, "out.*")):
        shutil.move(f, os.path.join(d, os.path.basename(f)))


def stress(ctx, binp, tier, tag, shards, budget_s, env_extra=None):
    """one more sharded run of the harness (other tier / other binary); returns (cases, gores, model, bad)"""
    _stash(ctx, "before-" + tag)
    old_tier = ctx.tier
    saved = {}
    for k, v in (env_extra or {}).items():
        saved[k] = checklib.GOENV.get(k)
        checklib.GOENV[k] = v
    try:
        ctx.tier = tier
        cases, gores, stats, infos = checklib.run_cases(ctx, binp, ctx.prop, shards=shards, budget_s=budget_s)
    finally:
        ctx.tier = old_tier
        for k, v in saved.items():
            if v is None:
                checklib.GOENV.pop(k, None)
            else:
                checklib.GOENV[k] = v
        _stash(ctx, tag)
    model = checklib.run_driver(ctx, ctx.prop, cases, shards=shards)
    bad = [i for i in sorted(cases) if gores.get(i, "MISSING-RESULT") != model.get(i, ("MISSING-MODEL-RESULT", {}))[0]]
    return cases, gores, model, bad


def search(spec):
    """SPEC['search']: the side obligation broke and the quick stress found nothing: thorough stress"""
    def f(ctx):
        ctx.log("search: thorough stress for a concrete failing run")
        cases, gores, model, bad = stress(ctx, ctx.harness, "thorough", "search", spec.get("shards", 8), 900)
        ctx.coverage["search_evaluations"] = len(cases)
        if not bad:
            # no wrong result observed: look for the race itself
            cases, gores, model, bad, hits = race_collect(ctx, spec, "quick")
            if hits and not bad:
                return race_replay(ctx, hits, spec)[0]
        if not bad:
            return None
        i = bad[0]
        return checklib.write_replay(ctx, "input", {"payload": cases[i], "readable": cases[i]},
                                     model.get(i, ("MISSING", {}))[0], gores.get(i, "MISSING"),
                                     f"./check {ctx.prop} --replay <this file>  (a schedule-dependent failure: repeat)", tag="search")
    return f


RACE_DIRS = re.compile(r"/(parser|interpreter|scope)/[A-Za-z0-9_]+\.go:\d+")


def race_collect(ctx, spec, tier="quick", env_more=None):
    ctx.log("race: building the harness with -race")
    binp = checklib.go_build(ctx, out="harness-race", race=True)
    logp = os.path.join(ctx.work, "race")
    for f in glob.glob(logp + ".*"):
        os.remove(f)
    cases, gores, model, bad = stress(ctx, binp, tier, "race", spec.get("shards", 8), 1500,
                                      env_extra=dict({"GORACE": f"log_path={logp} exitcode=0 history_size=3", "VERIF_RACE_LOG": logp}, **(env_more or {})))
    reports = []
    for f in sorted(glob.glob(logp + ".*")):
        txt = open(f, errors="replace").read(8 << 20)  # a flooded log is not read to its end
        reports += [r for r in txt.split("==================") if "DATA RACE" in r][:2000]
    dirs = spec.get("race_dirs", RACE_DIRS)
    hits = [r for r in reports if dirs.search(r)]
    cov = ctx.coverage
    cov["race_evaluations"] = len(cases)
    cov["race_reports_total"] = len(reports)
    cov["race_reports_in_parser_interpreter_scope"] = len(hits)
    other = sorted(set(m.group(0) for r in reports if r not in hits for m in re.finditer(r"/(engine[a-z/]*|stdlib|util|config)/[A-Za-z0-9_]+\.go:\d+", r)))
    if other:
        cov["race_reports_elsewhere_frames"] = other[:12]
    ctx.log(f"race: {len(cases)} cases, {len(reports)} reports, {len(hits)} with frames in parser/interpreter/scope, {len(bad)} disagreements")
    return cases, gores, model, bad, hits


def race_replay(ctx, hits, spec=None):
    dirs = (spec or {}).get("race_dirs", RACE_DIRS)
    frames = sorted(set(m.group(0) for r in hits for m in dirs.finditer(r)))
    rp = checklib.write_replay(ctx, "race", {"frames": frames[:40], "report": hits[0][:6000]},
                               "no data race with frames in parser/, interpreter/, scope/", f"{len(hits)} race reports",
                               f"./check {ctx.prop} --tier thorough", tag="race-report")
    return rp, frames


def race_run(ctx, spec, tier="quick", env_more=None):
    """the same stress under the race detector; reports with frames in the directories of the
    property (default parser/, interpreter/, scope/) are failures"""
    cases, gores, model, bad, hits = race_collect(ctx, spec, tier, env_more)
    for i in bad[:2]:
        rp = checklib.write_replay(ctx, "input", {"payload": cases[i], "readable": cases[i]},
                                   model.get(i, ("MISSING", {}))[0], gores.get(i, "MISSING"),
                                   f"./check {ctx.prop} --replay <this file>", tag="race")
        checklib.violation(ctx, rp, f"(under -race) go={gores.get(i, 'MISSING')[:80]!r}")
    if hits:
        rp, frames = race_replay(ctx, hits, spec)
        checklib.violation(ctx, rp, f"data race: {frames[0]}")
    checklib.write_evidence(ctx)
    return 1 if ctx.violations else 0
