"""C05 — lexical scoping, functions, containers and objects behave as specified."""
import checklib


def decode(p):
    try:
        secs = p.split(" @ ")
        srcs = []
        for s in secs:
            f = s.split(" ")[0]
            srcs.append(bytes.fromhex(f).decode("utf8", "replace") if f != "-" else "")
        return {"program": srcs[0], "probes": srcs[1:]}
    except Exception:
        return p


SPEC = dict(
    lean_modules=["Ecal.Props.C05"],
    shards=12,
    rule=("cases = programs over the names {a,b,c,f,g,o} + probe expressions evaluated afterwards in the same global scope: "
          "corpus (numeric map key written through m[1] := v, fix 5e0a7a5); exhaustive scope shape {top, if, if-if, loop entered twice, "
          "loop-if, try/finally, except, function called twice, parameter, block in function, named closure, returned anonymous closure, "
          "called from another function} x 13 assignment forms (:=, let, list destructuring, element write, loop variable, func "
          "declaration, except-as, shadowing block) x 5 places of definition; parameter sets x defaults x argument counts 0..n+1 x "
          "call context; directed closures / recursion / by-value vs by-reference / argument programs; exhaustive container kind (13) x "
          "key (19 bracket keys incl. 1 vs \"1\", negative, out of range, keys containing '.', variables + 30 nested dot/bracket paths) x "
          "read | write-then-read; pairs (thorough: triples) of len/add/del/concat operations with aliases; builtin argument checks; "
          "object templates (single / multiple inheritance, init, super); random programs mixing all of it (2500 quick, 120000 thorough). "
          "Compared: outcome (value or error TYPE) of the program and of every probe, canonical dump of the global scope, ordered "
          "marker trace. Non-trivial = the trace has at least one entry."),
    exhaustive="scope shape x assignment form x definition place; parameters x argument counts x context; container x key x access form",
    trusted_base=[
        "the tree evaluated by the model is the one the real parser built (serialised by the harness); parser and lexer are not part of C05",
        "theorems are about the scope / heap / frame functions of Model/Eval.lean and Model/EvalObjects.lean that the executable evaluator "
        "calls; that the evaluator as a whole matches rt_*.go, scope/*.go is established by the differential run",
    ],
    assumptions=["programs with unbounded recursion are outside (fuel), as the property allows",
                 "programs that stringify non-integral numbers / mixed-key maps or call inside a longer access chain are outside the model (UNSUP, counted)"],
    decode=decode,
)

META = dict(
    technique="Lean 4 theorems about the scope chain, heap and call-frame functions the executable evaluator model calls + differential "
              "correspondence of the whole model with Runtime.Eval on exhaustive and random programs with probes and scope dumps",
    level_text="(filled in below)",
    level_note="(filled in below)",
)


def run(ctx):
    return checklib.standard(ctx, SPEC)
