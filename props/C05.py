"""C05 — lexical scoping, functions, containers and objects behave as specified."""
import checklib


def decode(p):
    try:
        secs = p.split(" @ ")
        srcs = []
        for s in secs:
            f = s.split(" ")[0]
            srcs.append(bytes.fromhex(f).decode("utf8", "replace") if f != "-" else "")
        return {"program": srcs[0], "probes": srcs[1:]}
    except Exception:
        return p


SPEC = dict(
    lean_modules=["Ecal.Props.C05"],
    shards=12,
    rule=("cases = programs over the names {a,b,c,f,g,o} + probe expressions evaluated afterwards in the same global scope: "
          "corpus (numeric map key written through m[1] := v, fix 5e0a7a5); exhaustive scope shape {top, if, if-if, loop entered twice, "
          "loop-if, try/finally, except, function called twice, parameter, block in function, named closure, returned anonymous closure, "
          "called from another function} x 13 assignment forms (:=, let, list destructuring, element write, loop variable, func "
          "declaration, except-as, shadowing block) x 5 places of definition; parameter sets x defaults x argument counts 0..n+1 x "
          "call context; directed closures / recursion / by-value vs by-reference / argument programs; exhaustive container kind (13) x "
          "key (19 bracket keys incl. 1 vs \"1\", negative, out of range, keys containing '.', variables + 30 nested dot/bracket paths) x "
          "read | write-then-read; pairs (thorough: triples) of len/add/del/concat operations with aliases; builtin argument checks; "
          "object templates (single / multiple inheritance, init, super); exhaustive outer context {top level, function, method, method inside blocks, init with super, closure of a method} x 11 inner declarations (helper templates / function literals declared, instantiated and called INSIDE the running outer call, parameters named like outer variables, this/super as parameters, recursion) with marks of the OUTER this/super/params/locals afterwards; random programs mixing all of it (2500 quick, 120000 thorough). "
          "Compared: outcome (value or error TYPE) of the program and of every probe, canonical dump of the global scope, ordered "
          "marker trace. Non-trivial = the trace has at least one entry."),
    exhaustive="scope shape x assignment form x definition place; parameters x argument counts x context; container x key x access form",
    trusted_base=[
        "the tree evaluated by the model is the one the real parser built (serialised by the harness); parser and lexer are not part of C05",
        "theorems are about the scope / heap / frame functions of Model/Eval.lean and Model/EvalObjects.lean that the executable evaluator "
        "calls; that the evaluator as a whole matches rt_*.go, scope/*.go is established by the differential run",
    ],
    assumptions=["programs with unbounded recursion are outside (fuel), as the property allows",
                 "the correspondence compares with the code AS IT IS for add / del: results agree with the list model (builtins_refine_spec), but "
                 "Go slice aliasing makes add(l, v[, i]) / del(l, i) change OTHER list values (the argument itself, earlier results) and "
                 "del(map, number) does not remove a number key — deviations from the property's list / map model, witnessed by "
                 "add_del_alias_deviation; proposed repair: fixes/C05-add-del-aliasing.patch (unedited suite passes twice); until it is "
                 "applied or the deviations are listed as known findings they are NOT reported by this check",
                 "programs that stringify non-integral numbers / mixed-key maps or call inside a longer access chain are outside the model (UNSUP, counted)"],
    decode=decode,
)

META = dict(
    technique="Lean 4 theorems about the scope chain, heap and call-frame functions the executable evaluator model calls + differential "
              "correspondence of the whole model with Runtime.Eval on exhaustive and random programs with probes and scope dumps",
    level_text=("Proof (about functions of Model/Eval.lean that runFunction / runBuiltin call — runFunction_uses_buildFrame, runBuiltin_uses, "
                "addSuperClasses_order, superLoop_order are the unfolding equations): lookup_nearest, assign_nearest_or_local (+ one scope "
                "touched, heap untouched), let_local, inner_not_visible_outside; call frames on buildFrame: call_fresh_locals, "
                "closure_sees_definition_scope, call_does_not_write_enclosing_frames (every outcome), args_missing_default_extra_ignored; "
                "len_add_del_model and add_insert_concat_model: len, add = Go append and add(l,v,i) = insertion with the aliasing cases (same "
                "backing array when capacity suffices, new array otherwise), del(list,i), del(map,k), concat (always a new array), argument "
                "errors; read_after_write (map cell, number and string keys, fix 5e0a7a5), prims_by_value_containers_by_ref, "
                "read_after_write_paths; objects: new_has_all_template_props (every string key of the template and of every super template "
                "reachable through the super lists, transitively, is a key of the object; own non-function property wins; later super over "
                "earlier by copy order), method_this (frame of a bound function: nearest `this` = the frame's own, value = the object cell), "
                "init_once_with_args + init_once_with_args_and_supers + init_reads_super (init of the finished object runs exactly once, last, "
                "with the constructor arguments; its super = the list of collected super inits in order), addSuperClasses_no_fuel (cyclic "
                "super graph: fuel)."),
    level_note=("Hypotheses: number-key theorems assume == is reflexive on the float of the index (not NaN; Lean's Float is opaque); object "
                "key theorems are about string keys, templates are cells other than the fresh object and slot 0 of the list store is the nil "
                "slice; frame theorems assume parameter names without access path, no parameter named this/super for the this/super value "
                "theorems, and that evaluating a default leaves the scope in question and the unreachable new frame alone. Slice theorems "
                "assume the slice invariant len <= capacity. A template that reaches itself through `super` exhausts the model's fuel (HANG); "
                "the Go code recurses without bound there (stack overflow, see C06) — such cyclic containers are kept out of the generator. "
                "Programs whose result shows an error object / non-integral float text are outside the model (counted as not compared)."),
)


def run(ctx):
    return checklib.standard(ctx, SPEC)
