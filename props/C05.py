"""C05 — lexical scoping, functions, containers and objects behave as specified."""
import checklib


def decode(p):
    try:
        secs = p.split(" @ ")
        srcs = []
        for s in secs:
            f = s.split(" ")[0]
            srcs.append(bytes.fromhex(f).decode("utf8", "replace") if f != "-" else "")
        return {"program": srcs[0], "probes": srcs[1:]}
    except Exception:
        return p


def frames_equal(go, model):
    """F section: the call frames of the program. Go (hook func.frame) reports per frame: the kinds of the scopes it
    is really linked to (b/f/g/r chain) and the names it holds when the body starts (sorted); the model reports its
    frames with the same link description and the names of the FINAL frame in insertion order. Every frame Go
    reports must be matched by a DISTINCT model frame with the same link whose first names are exactly those
    (this / super / parameters come first: frame_contents); order is free (Go reports at link time, the model lists
    by creation), and the model may list frames Go did not report. `F nohook`: the tree has no hook call site."""
    if go == "F nohook":
        return True
    if not go.startswith("F ") or "HOOK-PRESENT-BUT-SILENT" in go:
        return False
    def parse(t):
        out = []
        for x in t[2:].split("|"):
            if x:
                h, n = x.split("[", 1)
                out.append((h, [y for y in n.rstrip("]").split(",") if y]))
        return out
    gf, mf = parse(go), parse(model)
    if len(gf) > len(mf):
        return False
    edges = [[j for j, (mh, mn) in enumerate(mf) if mh == gh and sorted(mn[:len(gn)]) == sorted(gn)] for gh, gn in gf]
    match = {}
    def augment(i, seen):
        for j in edges[i]:
            if j not in seen:
                seen.add(j)
                if j not in match or augment(match[j], seen):
                    match[j] = i
                    return True
        return False
    return all(augment(i, set()) for i in range(len(gf)))


def equal(go, model, attrs):
    """section-wise comparison: the model prints U for a probe section it cannot give (value it does not know, or the
    probe left the model: then also every later section); the F section is compared by frames_equal; everything else
    must be equal, section by section"""
    gs, ms = go.split(";"), model.split(";")
    if len(gs) != len(ms):
        return False
    for x, y in zip(gs, ms):
        if y == "U" or x == y:
            continue
        if x.startswith("F ") and y.startswith("F ") and frames_equal(x, y):
            continue
        return False
    return True


def post(ctx, cases, gores, model):
    """evidence: how many cases had their call frames compared (hook present) and how many frames; masked sections"""
    nframes = ncases = masked = 0
    for i, g in gores.items():
        secs = g.split(";")
        if len(secs) > 3 and secs[3].startswith("F ") and secs[3] != "F nohook":
            ncases += 1
            nframes += len([x for x in secs[3][2:].split("|") if x])
        m = model.get(i, ("", {}))[0]
        if not m.startswith("UNSUP") and "U" in m.split(";"):
            masked += 1
    ctx.coverage["frames_compared"] = {"cases": ncases, "frames": nframes}
    ctx.coverage["cases_with_masked_probe_sections"] = masked


SPEC = dict(
    equal=equal,
    post=post,
    lean_modules=["Ecal.Props.C05"],
    shards=12,
    rule=("cases = programs over the names {a,b,c,f,g,o} + probe expressions evaluated afterwards in the same global scope: "
          "corpus (numeric map key written through m[1] := v, fix 5e0a7a5; review corpus: one-target destructuring [a] := x, cyclic / "
          "diamond / 3-level super graphs, number keys at the edge of int64); exhaustive scope shape {top, if, if-if, loop entered twice, "
          "loop-if, try/finally, except, otherwise, function called twice, parameter, block in function, named closure, returned anonymous closure, "
          "called from another function; + the child scope of an interpolating string literal} x 13 assignment forms (:=, let, list destructuring, element write, loop variable, func "
          "declaration, except-as, shadowing block) x 5 places of definition; parameter sets x defaults x argument counts 0..n+1 x "
          "call context; directed closures / recursion / by-value vs by-reference / argument programs; exhaustive container kind (13) x "
          "key (19 bracket keys incl. 1 vs \"1\", negative, out of range, keys containing '.', variables + 30 nested dot/bracket paths) x "
          "read | write-then-read; pairs (thorough: triples) of len/add/del/concat operations with aliases; builtin argument checks; "
          "object templates (single / multiple inheritance, init, super); exhaustive outer context {top level, function, method, method inside blocks, init with super, closure of a method} x 11 inner declarations (helper templates / function literals declared, instantiated and called INSIDE the running outer call, parameters named like outer variables, this/super as parameters, recursion) with marks of the OUTER this/super/params/locals afterwards; random programs mixing all of it (2500 quick, 120000 thorough). "
          "Compared section by section (SPEC.equal): outcome (value or error TYPE) of the program, canonical dump of the global scope, ordered "
          "marker trace, call frames of the program (F; hook func.frame: link structure and names at body start), then per probe its outcome and trace (U = the model cannot "
          "give that section), final dump; "
          "error objects (except ... as e) in a canonical form on both sides (type, data, detail of raise; message / position / "
          "source / trace as placeholders). Non-trivial = the trace has at least one entry."),
    exhaustive="scope shape x assignment form x definition place; parameters x argument counts x context; container x key x access form",
    trusted_base=[
        "the tree evaluated by the model is the one the real parser built (serialised by the harness); parser and lexer are not part of C05",
        "theorems are about functions of Model/Eval.lean that the evaluator runs (setValue, getValue, containerWalk, containerGet, scopeFor, "
        "buildFrame, appendVals, copyProps, addSuperClasses, newB ...; runFunction_uses_buildFrame / runBuiltin_uses / addSuperClasses_order "
        "are the unfolding equations); fieldKey / listIdx / stepP of the lemma files are tied to them by setValue_path, listIndex_run, "
        "containerWalk_step, containerGet_step; that the evaluator as a whole matches rt_*.go, scope/*.go is established by the differential run",
        "slice capacity growth (growCap / sizeClasses) follows go1.23 runtime.growslice; since add / del build new lists it only decides "
        "the capacity of list literals and concat results, which no ECAL program can observe",
    ],
    assumptions=["programs with unbounded recursion are outside (fuel), as the property allows",
                 "the code the model copies is NOT lexical in three places, each a known finding with kf=/spec= cases: defaults are evaluated "
                 "in the CALLER's scope (defaults-in-caller-scope: earlier parameters invisible, constructor defaults see nothing; flagged on "
                 "the whole parameter family, other programs with name-reading defaults follow the code as it is; candidate repair "
                 "fixes/C05-defaults-in-declaration-scope.patch), block scopes are keyed by node kind + line + pos only "
                 "(block-scope-shared-by-position: segments of one interpolating literal, separately parsed sources share blocks; "
                 "block_scope_under_current proves exactly this reuse by name), calls after a call result are dropped and the arguments of a "
                 "call on a later identifier of the chain are evaluated in the parentless funcresult scope (call-result-not-callable)",
                 "outside the model, not compared: mutex / sink / import / like nodes, f()[i], error text inside an interpolating literal "
                 "(whole case), stringified mixed-key maps / functions / non-integral floats, numbers given as strings to add / del",
                 "the model describes add / del AFTER the repairs fixes/C05-add-del-new-list.patch (add and del return new lists) and "
                 "fixes/C05-del-number-key.patch (del(map, k) removes an existing number key): on a tree without them the corpus cases "
                 "`b := add(a,4); c := add(a,5)`, `del(a,0)`, `del({1:x},1)` are reported (unrepaired_add_del_deviate = the witnesses)",
                 "programs that stringify non-integral numbers / mixed-key maps or call inside a longer access chain are outside the model (UNSUP, counted)"],
    decode=decode,
)

META = dict(
    technique="Lean 4 theorems about the scope chain, heap and call-frame functions the executable evaluator model calls + differential "
              "correspondence of the whole model with Runtime.Eval on exhaustive and random programs with probes and scope dumps",
    level_text=("Proof (about functions of Model/Eval.lean that runFunction / runBuiltin call; unfolding equations runFunction_uses_buildFrame, "
                "runBuiltin_uses, addSuperClasses_order, superLoop_order): lookup_nearest, assign_nearest_or_local (+ one scope touched, heap "
                "untouched), let_local, let_statement_local, inner_not_visible_outside, block_scope_under_current (newChild: parent = current scope, reused by name, not "
                "on the parent's chain), frame_invisible_from_existing, scopes_wf_preserved; call frames on buildFrame: call_fresh_locals, closure_sees_definition_scope, "
                "call_does_not_write_enclosing_frames (every outcome; hypothesis = the defaults of THIS parameter list preserve the frame "
                "invariant; call_frames_noDefaults, frame_contents, param_value (exact contents of a finished frame) need none; instantiated on "
                "the real eval in examples), "
                "args_missing_default_extra_ignored; ScopesWF (parent index < own index, children point back) preserved by buildFrame with its frame "
                "link (call_preserves_wf), calls without defaults: frame invisible from every existing scope with no hypothesis on the evaluator "
                "(call_frame_invisible_noDefaults), setValue / setLocalValue for every name and outcome (writes_preserve_wf), the control-flow "
                "combinators preserve every invariant their parts preserve (control_flow_preserves_invariants), and eval itself preserves ScopesWF on "
                "the fragment Calm (straight-line code with if: constants, numbers, plain reads, arithmetic, plain assignments v := e, let, "
                "sequences, guards, if/elif/else; eval_preserves_wf_calm); read_after_write_path on setValue / getValue themselves for any nesting (containerWalk "
                "and containerGet reach the same cell, fieldKey = the key setValue writes, negative list indices) and "
                "prims_by_value_containers_by_ref (a write through one name is read through any alias reaching the same cell); "
                "len_add_del_concat_model: len / add / add-at-index / del / del(map) / concat refine an independent list / finite-map Spec, every "
                "list result is a NEW cell and no existing array changes (no side condition), unrepaired_add_del_deviate (negative witnesses "
                "for the code before the repairs); objects: "
                "new_has_all_template_props (string keys of all templates reachable through super lists, cyclic templates cut as f42b440 does; "
                "own non-function property wins), method_this, init_once_with_args, init_once_with_args_and_supers, init_reads_super, "
                "addSuperClasses_cycle."),
    level_note=("Not proved: `eval preserves ScopesWF` beyond the fragment Calm (eval_preserves_wf_calm) — comparison / boolean / string "
                "operators, literals of lists and maps, destructuring and path assignments, loops, try, access paths, calls, declarations are "
                "not in that induction yet; that eval never touches an unreferenced root scope (so the default-evaluation hypothesis of the frame theorems is discharged per "
                "example, not in general); inherited VALUES and later-super-wins only per copy step; bindParamNode propagates a setValue error "
                "where Go drops it (unreachable for parser-made names). Hypotheses: Float == reflexive on integer keys (Lean's Float is "
                "opaque); object theorems are about string keys, templates other than the fresh object, list slot 0 = nil slice; no "
                "parameter named this/super for the this/super value theorems; slices with len <= capacity; paths that do not pass through "
                "the cell they write. Calls of a call result f()(x): known finding call-result-not-callable (calls after the first funccall of "
                "an identifier are dropped); the model runs the as-is program (kf=) and the let-desugaring (spec=); candidate repair "
                "fixes/C05-call-of-call-result.patch. Outside the model (not compared): mutex blocks, "
                "stringified mixed-key maps / functions / non-integral floats."),
)


def run(ctx):
    return checklib.standard(ctx, SPEC)
