"""C05 — lexical scoping, functions, containers and objects behave as specified."""
import checklib


def decode(p):
    try:
        secs = p.split(" @ ")
        srcs = []
        for s in secs:
            f = s.split(" ")[0]
            srcs.append(bytes.fromhex(f).decode("utf8", "replace") if f != "-" else "")
        return {"program": srcs[0], "probes": srcs[1:]}
    except Exception:
        return p


SPEC = dict(
    lean_modules=["Ecal.Props.C05"],
    shards=12,
    rule=("cases = programs over the names {a,b,c,f,g,o} + probe expressions evaluated afterwards in the same global scope: "
          "corpus (numeric map key written through m[1] := v, fix 5e0a7a5); exhaustive scope shape {top, if, if-if, loop entered twice, "
          "loop-if, try/finally, except, function called twice, parameter, block in function, named closure, returned anonymous closure, "
          "called from another function} x 13 assignment forms (:=, let, list destructuring, element write, loop variable, func "
          "declaration, except-as, shadowing block) x 5 places of definition; parameter sets x defaults x argument counts 0..n+1 x "
          "call context; directed closures / recursion / by-value vs by-reference / argument programs; exhaustive container kind (13) x "
          "key (19 bracket keys incl. 1 vs \"1\", negative, out of range, keys containing '.', variables + 30 nested dot/bracket paths) x "
          "read | write-then-read; pairs (thorough: triples) of len/add/del/concat operations with aliases; builtin argument checks; "
          "object templates (single / multiple inheritance, init, super); exhaustive outer context {top level, function, method, method inside blocks, init with super, closure of a method} x 11 inner declarations (helper templates / function literals declared, instantiated and called INSIDE the running outer call, parameters named like outer variables, this/super as parameters, recursion) with marks of the OUTER this/super/params/locals afterwards; random programs mixing all of it (2500 quick, 120000 thorough). "
          "Compared: outcome (value or error TYPE) of the program and of every probe, canonical dump of the global scope, ordered "
          "marker trace. Non-trivial = the trace has at least one entry."),
    exhaustive="scope shape x assignment form x definition place; parameters x argument counts x context; container x key x access form",
    trusted_base=[
        "the tree evaluated by the model is the one the real parser built (serialised by the harness); parser and lexer are not part of C05",
        "theorems are about the scope / heap / frame functions of Model/Eval.lean and Model/EvalObjects.lean that the executable evaluator "
        "calls; that the evaluator as a whole matches rt_*.go, scope/*.go is established by the differential run",
    ],
    assumptions=["programs with unbounded recursion are outside (fuel), as the property allows",
                 "programs that stringify non-integral numbers / mixed-key maps or call inside a longer access chain are outside the model (UNSUP, counted)"],
    decode=decode,
)

META = dict(
    technique="Lean 4 theorems about the scope chain, heap and call-frame functions the executable evaluator model calls + differential "
              "correspondence of the whole model with Runtime.Eval on exhaustive and random programs with probes and scope dumps",
    level_text=("Proof (about the functions the evaluator model executes): call_does_not_write_enclosing_frames (this/super/parameters go into the fresh parentless frame: shadow, never overwrite), lookup_nearest (a read resolves to the first scope of the parent "
                "chain that defines the name, state unchanged), assign_nearest_or_local (+ touches exactly one scope, heap untouched), let_local "
                "(defines in the current scope whatever the outer scopes hold), inner_not_visible_outside (a definition in a scope that is not on "
                "the chain changes no resolution and no value read), call frame = new scope index / chain of a linked frame = frame :: chain of "
                "the DECLARATION scope (partial: whole frame construction cross-checked on every final state by the driver), "
                "args_missing_default_extra_ignored, prims_by_value_containers_by_ref + read_after_write for one map cell with number and "
                "string keys (the key rule repaired by 5e0a7a5), list cells, and read_after_write_paths for any nesting on acyclic tree values."),
    level_note=("Tested only (differential, no theorem): len/add/del/concat against Go slice semantics, `new` (template and super "
                "properties), `this` in methods, `init` once with arguments and the super inits. Number-key theorems assume == is reflexive on "
                "the float of the index (not NaN; Lean's Float is opaque). Keys containing '.' are re-split by the code and by the model alike. "
                "Programs whose result shows an error object / non-integral float text are outside the model (counted as not compared)."),
)


def run(ctx):
    return checklib.standard(ctx, SPEC)
