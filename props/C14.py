"""C14 — string interpolation evaluates only the literal's own expressions, once."""
import checklib


def decode(p):
    f = p.split(" ")
    if f[0] == "LEX":
        try:
            return {"kind": "LEX (literal source through the lexer)", "source": bytes.fromhex(f[1]).decode("utf8", "replace")}
        except Exception:
            return p
    if f[0] in ("REC", "PAR"):
        try:
            return {"kind": f[0] + " (one literal node evaluated re-entrantly / by several goroutines)", "k": int(f[1]),
                    "source": bytes.fromhex(f[2]).decode("utf8", "replace")}
        except Exception:
            return p
    try:
        return {"source": bytes.fromhex(f[0]).decode("utf8", "replace") if f[0] != "-" else "",
                "kind": f[1], "candidates": len(f) - 3}
    except Exception:
        return p


SPEC = dict(
    lean_modules=["Ecal.Props.C14", "Ecal.Props.C14Lex"],
    shards=8,
    rule=("cases = one-literal programs: every sequence of <=3 (quick) / <=4 (thorough) atoms from "
          "{'{{','}}','{','}','\\\"',\"'\",'\\n',a..f (variables holding marker-laden text, one self-reproducing), "
          "1,+,space,x.cnt(1),x.cnt(2) (side-effect counter),'\\\\','\\u007b','\\u007d','é'} in the four literal forms, "
          "plus random longer ones; plus kinds REC (an embedded expression re-evaluates the SAME literal node with n-1, "
          "depth 1..4) and PAR (2..8 goroutines evaluate one literal node 300 times each with their own n); "
          "plus kind LEX (literal sources over escape atoms in all four forms, also ill-formed ones, through the real lexer and "
          "the lexer model: token kinds, string values after escape processing, raw / interpolating flag); "
          "compared: resulting string(s) and ordered side-effect log. "
          "Non-trivial = the literal contains at least one embedded expression (model's segmentation)."),
    exhaustive="all atom sequences up to the stated length in the interpolating double-quoted form",
    trusted_base=[
        "the table of replacement texts handed to the model is computed by the real parser/interpreter on each candidate expression evaluated alone",
        "lexer stage: the interpolation model starts from the token value; the token value itself is compared with the lexer model "
        "(lean/Ecal/Model/Lexer.lean) by the LEX cases",
    ],
    assumptions=["embedded expressions of generated literals do not communicate through variables (the alphabet has no assignment)"],
    decode=decode,
)

META = dict(
    technique="Lean 4 theorems over a structural model of the interpolation loop + differential correspondence with Runtime.Eval",
    level_text=("Proof: segmentation is a function of the literal alone; for every evaluator ev (even one returning markers or the "
                "literal itself) the calls made are exactly the literal's own expressions, once, in order; output is their verbatim "
                "concatenation; total with at most |lit|/4 evaluations. Model tied to rt_value.go by an exhaustive-for-short / random-for-long differential run."),
    level_note=("Trusted: Lean kernel + propext/Classical.choice/Quot.sound; the correspondence harness; the per-expression "
                "evaluation (ev) is the real interpreter, not modelled here."),
)


def run(ctx):
    return checklib.standard(ctx, SPEC)
