"""C14 — string interpolation evaluates only the literal's own expressions, once."""
import checklib


def decode(p):
    f = p.split(" ")
    if f[0] == "LEX":
        try:
            return {"kind": "LEX (literal source through the lexer)", "source": bytes.fromhex(f[1]).decode("utf8", "replace")}
        except Exception:
            return p
    if f[0] == "ST":
        try:
            return {"kind": "ST (expressions of one literal assign and read: shared scope, state threaded left to right)",
                    "source": bytes.fromhex(f[1]).decode("utf8", "replace")}
        except Exception:
            return p
    if f[0] == "OUT":
        try:
            return {"kind": "OUT (output step of one expression against an independent evaluation)",
                    "expression": bytes.fromhex(f[1]).decode("utf8", "replace") if f[1] != "-" else ""}
        except Exception:
            return p
    if f[0] == "CTX":
        try:
            return {"kind": "CTX (literal inside a function / loop body)", "program": bytes.fromhex(f[1]).decode("utf8", "replace")}
        except Exception:
            return p
    if f[0] in ("REC", "PAR"):
        try:
            return {"kind": f[0] + " (one literal node evaluated re-entrantly / by several goroutines)", "k": int(f[1]),
                    "source": bytes.fromhex(f[2]).decode("utf8", "replace")}
        except Exception:
            return p
    try:
        return {"source": bytes.fromhex(f[0]).decode("utf8", "replace") if f[0] != "-" else "",
                "kind": f[1], "candidates": len(f) - 3}
    except Exception:
        return p


SPEC = dict(
    lean_modules=["Ecal.Props.C14", "Ecal.Props.C14Impl", "Ecal.Props.C14Node", "Ecal.Props.C14Lex"],
    shards=8,
    rule=("cases = one-literal programs: every sequence of <=3 (quick) / <=4 (thorough) atoms from "
          "{'{{','}}','{','}','\\\"',\"'\",'\\n',a..f (variables holding marker-laden text, one self-reproducing), "
          "1,+,space,x.cnt(1),x.cnt(2) (side-effect counter),'\\\\','\\u007b','\\u007d' (markers built by escapes),'é'} in the four literal forms, "
          "plus random longer ones; kind BIG (size scaling: 1..300 expressions x.cnt(i) / up to ~8 KB per literal, some expressions "
          "returning marker-laden text or failing); kind ST (the expressions of one literal assign and read variables: state threaded "
          "left to right through the shared scope, final value of v compared); kinds REC (an embedded expression re-evaluates the SAME "
          "literal node with n-1, depth 1..4) and PAR (2..8 goroutines evaluate one literal node 300 times each with their own n); "
          "kind LEX (literal sources over escape atoms in all four forms, also ill-formed ones, through the real lexer and "
          "the lexer model: token kinds, string values after escape processing, raw / interpolating flag); "
          "compared: resulting string(s) and ordered side-effect log. The model side runs the index-level loop "
          "(Ecal.InterpImpl.impl: strings.Index, slice expressions that can panic, fuel) with a stateful evaluator. "
          "The marker put before an error text and the unit name inside it are learnt from the real code by one probe. "
          "Non-trivial = the literal contains at least one embedded expression (model's segmentation)."),
    exhaustive="all atom sequences up to the stated length in the interpolating double-quoted form",
    trusted_base=[
        "the table of replacement texts handed to the model is computed by the real parser/interpreter on each candidate expression evaluated alone",
        "lexer stage: the interpolation model starts from the token value; the token value itself is compared with the lexer model "
        "(lean/Ecal/Model/Lexer.lean) by the LEX cases",
    ],
    assumptions=["a raw newline inside a quoted literal is a lexer error (pinned by lexer_test.go): literals with line ends are written with \\n or raw",
                 "that the expressions of ONE literal share one child scope (a variable first defined by one expression visible to the next, "
                 "and to the next evaluation of the same literal) is neither demanded nor forbidden: not compared",
                 "'written in the literal' is read as: present in the token value, i.e. after the lexer has interpreted the escape "
                 "sequences (a marker built from \\u007b IS a marker; corpus + atoms cover it)",
                 "the error of baseRuntime.Eval (debugger hook) that is returned together with the string is not modelled",
                 "in the general cases the table of replacement texts is computed per expression evaluated ALONE; expressions that "
                 "communicate through variables are covered by kind ST with a model of exactly those expressions"],
    decode=decode,
)

META = dict(
    technique="Lean 4 theorems: refinement of an index-level model of the Go loop to a fold over the literal's segmentation, "
              "uniqueness of that segmentation + differential correspondence with Runtime.Eval",
    level_text=("Proof (Props/C14Impl.lean): the loop of stringValueRuntime.Eval modelled operation by operation (strings.Index, four "
                "slice expressions that can panic, a for loop with fuel) and with a STATEFUL evaluator ev : state -> code -> text x state "
                "never panics, never runs out of fuel |lit|/4+1 and returns exactly the left-to-right fold over the literal's segmentation "
                "(impl_refines_spec); the expressions it evaluates are the literal's own, once, in order, for every evaluator "
                "(impl_calls_own_expressions_once_in_order); the segmentation is pinned by three unfolding laws that interp alone satisfies "
                "(interp_pair, interp_unclosed, interp_no_open, interp_unique, literal_cases); substituted text is never scanned "
                "(substitution_not_rescanned); witnesses for rescan, slice panic and divergence on the loop as it was before the repair. "
                "The string node (Props/C14Node.lean, evalNode = what the driver runs): a raw node is returned untouched; a failing "
                "expression is replaced in its own place by the marker + the message of ITS error, a succeeding one by its text verbatim; "
                "with the lexer in front (C14Lex, lifted to whole sources): a raw literal anywhere in a source evaluates to its body, a quoted "
                "one to the interpolation of its UNESCAPED value (escapes first). "
                "Tested, not proved: the OUTPUT STEP of one expression (value of every kind and size -> fmt.Sprint text; failure at the parser, "
                "Validate, Eval, control-signal, raise, import stage -> marker + that error: kind OUT against an evaluation that does not go "
                "through rt_value.go), the scope the expressions see (kind CTX: literal inside a function / loop body; not inside sinks), that the "
                "unquote model is strconv.Unquote (LEX cases), that rt_value.go is this loop (differential run, exhaustive for short literals, size-scaled to 300 "
                "expressions / 8 KB, stateful, re-entrant and concurrent evaluation of one node); the inline error marker; that the lexer "
                "dispatches to the literal scanner (LEX cases)."),
    level_note=("Trusted: Lean kernel + propext/Classical.choice/Quot.sound; the correspondence harness; the per-expression "
                "evaluation (ev) is the real interpreter, not modelled here (the theorems hold for EVERY ev, pure or stateful; an ev "
                "that panics or does not return is outside them — the property excludes non-terminating user code)."),
)


def run(ctx):
    return checklib.standard(ctx, SPEC)
