"""C19 — the Go function bridge is total and converts numbers faithfully."""
import os
import subprocess

import checklib


def extract(ctx):
    """regenerate lean/Ecal/Gen/C19.lean (three-valued facts about stdlib/*.go) from the tree under test.
    A fact that is merely not established (source shape not understood) is no alarm: it is noted in
    the evidence and the correspondence search is amplified to the thorough enumeration."""
    import json
    binp = checklib.go_build(ctx)
    out = os.path.join(checklib.LEAN, "Ecal", "Gen", "C19.lean")
    if os.path.exists(out):
        os.remove(out)
    p = subprocess.run([binp, "C19", "-tool", out], env=dict(checklib.GOENV, VERIF_REPO=checklib.REPO),
                       stdout=subprocess.PIPE, stderr=subprocess.PIPE, text=True, timeout=120)
    if p.returncode != 0 or not os.path.exists(out):
        raise checklib.CheckError("C19 extractor failed: " + (p.stderr or p.stdout)[-600:])
    facts = json.loads(p.stdout.strip().splitlines()[-1])
    ctx.coverage["source_facts"] = facts
    ctx.c19_amplify = False
    for name, f in sorted(facts.items()):
        if f["fact"] == "unknown":
            ctx.c19_amplify = True
            ctx.notes.append(f"source fact '{name}' NOT ESTABLISHED for this source shape ({f['why']}): the theorems "
                             "assume it; search amplified to the thorough enumeration")
            ctx.log(f"fact '{name}' not established: {f['why']} -> amplified search")
        elif f["fact"] == "no":
            ctx.log(f"fact '{name}' REFUTED: {f['why']}")


def extra_args(ctx):
    # a later -tier overrides the earlier one on the harness command line
    return ["-tier", "thorough"] if getattr(ctx, "c19_amplify", False) else []


def decode(p):
    f = p.split(" ")
    if len(f) > 4 and f[1] == "R":
        return {"mode": "one AST evaluated repeatedly / concurrently, bridged call sites re-entered", "goroutines": f[2],
                "rounds": f[3], "main(postfix)": f[4], "functions(name;params;base;step)": f[5:]}
    try:
        return {"function": f[0], "mode": {"D": "Run called directly", "I": "ECAL call", "T": "ECAL call inside try"}[f[1]],
                "signature(params;variadic;results)": f[2], "body": f[3], "args": f[4:]}
    except Exception:
        return p


SPEC = dict(
    lean_modules=["Ecal.Props.C19", "Ecal.Props.C19b"],
    shards=16,
    extract=extract,
    extra_args=extra_args,
    rule=("cases = (bridged function, mode, argument vector): ~69 synthetic Go functions wrapped with "
          "stdlib.NewECALFunctionAdapter (every numeric parameter kind echoing its argument, string/bool/list/map, "
          "interface and foreign parameter types, several parameters, zero-arg constants of every result kind incl. "
          "2^53 / MaxUint64, trailing error nil/non-nil/not last, six panicking bodies, variadic of several kinds, "
          "defined types of primitive kind (time.Duration style) as parameter and result, results that are slices / arrays / maps of Go numbers ([]int, [2]uint8, [][]int, []time.Duration, map[string]int, map[int8]float32, map[string][]int, also through interface{} and in a multi-result), two non-functions) + 12 plugin functions (util.ECALPluginFunction: returning values, errors, panicking on a missing / NULL / wrong-kind argument, explicit panic, nil-map write, nil dereference) registered through the real stdlib.AddStdlibPluginFunc / LoadStdlibPlugin / LoadStdlibPlugins (with one definition whose symbol is missing: exactly that one must be reported) via the package's pluginTestLookup hook + every function of the generated stdlib (enumerated from GetStdlibSymbols) x all "
          "argument vectors over a 50-value universe (28 core values + 22 further numbers) {null,true,false,0,-1,1,1.5,127,128,255,256,2^31,2^53,1e300,NaN,"
          "'','a','1',[],[1],{},{'a':1},an ECAL function,-129,-0.5,2^63,-Inf,1.5*2^63 | 40000,2^31-1,65536,2^32,2^64,-2^31-1,-2^63,0.1,2^24+1,3.4028235677973366e38 (rounds to +Inf in float32),+Inf,-0.0,1e-40 (float32 subnormal),1e-46 (underflows) | lo, hi, lo-1, hi+1 of every integer kind where exactly a float64 (generated: -128,32767,-32768,-32769,32768,-2^31,65535,2^32-1 …)}: Run called directly for length <=2 "
          "over the whole universe and (thorough) length 3 over the core values exhaustively, 3 / 4,5 sampled, through the interpreter (arguments as ECAL literals "
          "where one exists) and inside try (arguments in variables) for length <=1 over the whole universe and length 2 over the core values exhaustively "
          "(generated stdlib in the quick tier: sampled), 3 (thorough: 3 and 4) sampled. For the 64 real stdlib functions the returned value is compared "
          "(float bits) with a direct reflect call of the wrapped Go function on the converted arguments. Error values returned by the functions: a plain "
          "error, a typed nil pointer, an Error() that panics, a nil *util.RuntimeError / *RuntimeErrorWithDetail, a non-nil *RuntimeErrorWithDetail with nil embedded pointer, runtime errors whose Type is nil, a proper *util.RuntimeError; last results of a concrete (*T) and of a derived (interface{error; Code() int}) error type; panic VALUES typed-nil error and bad Error(). interface{} results (synthetic, in a multi-result, and from plugins) of every Go numeric kind and of defined numeric types. "
          "panic(nil) is run under the harness's own semantics (go >= 1.21) and under GODEBUG=panicnil=1 (modes d/i/t). Compared: outcome class (value / the function's own "
          "error / bridge error / escaped panic), the returned value (float64 bits, canonical structure), and the "
          "Go values the function RECEIVED (kind + exact integer); where an argument is converted out of its parameter kind's range "
          "(implementation-defined in Go) only the outcome class is compared. Plus mode R (interpreter side, rt_identifier.go): small recursive programs "
          "(direct recursion through the 1st / 2nd / middle / last / all arguments of a bridged call, mutual recursion, the call site in a user "
          "function called twice / three times, nested calls at different sites and the same site, random two-function programs) parsed ONCE and "
          "evaluated 1-3 (thorough: up to 6) times by 1, 2, 4, 8 goroutines; compared: the final value and the sequence (one goroutine) / "
          "multiset (several) of argument vectors the bridged Go functions received, against the reference semantics Ecal.Reentry.eval. "
          "Non-trivial = the call reaches the function body."),
    exhaustive="all argument vectors up to the stated length for every function",
    trusted_base=[
        "reflect's behaviour (Call panics, TypeOf, Kind) as modelled in Ecal.Bridge — tied by the correspondence run",
        "Go's defer/recover semantics: a deferred function that calls recover() itself stops a panic of the deferring function; totality (bridge_total) is that semantics + the regenerated source facts, the model of reflect's panics adds nothing to it",
        "panic(nil): with go >= 1.21 semantics it is an ordinary panic (*runtime.PanicNilError); in a binary whose main module declares go < 1.21 (GODEBUG panicnil=1; /repo's go.mod says go 1.12) recover() returns nil — modelled as BodyOut.panicNil and run under both settings",
        "float32 conversion: Num.toF32 is IEEE round-to-nearest-even with subnormals, overflow and signed zero; proved exact for representable values (float32_exact_when_representable), the rounding itself is tied by the correspondence run (0.1, 2^24+1, 2^31-1, MaxFloat32+, 1e-40, 1e-46)",
        "the go/ast extractor of three source facts (harness C19 -tool, go/cmd/harness/c19extract.go), decided semantically and three-valued: Run defers a function (literal or same-package) that itself calls recover() and assigns the named error result; the argument count is compared with NumIn() before Call (Run or one level of helpers); plugin functions are registered as ECALFunctionAdapter. Only a refuted fact breaks an obligation; an unestablished one is assumed, noted, and answered with an amplified search",
        "the harness sets stdlib.pluginTestLookup (unexported test hook) by go:linkname; a real plugin (.so built with -buildmode=plugin, opened by plugin.Open) cannot be built in the offline sandbox (needs cgo and the plugin toolchain; the harness is built with CGO_ENABLED=0), so plugin.Open itself and the symbol lookup of a real shared object are not exercised — everything after the lookup (type assertion to util.ECALPluginFunction, wrapping, registration, calls) is",
        "the deferred function of Run does not panic itself: it formats the recovered value with fmt's %v, which guards panicking Error() methods — proved for the MODEL of the handler over five kinds of panic value (deferred_handler_cannot_panic, finish_is_handler); that the source uses %v and nothing else on the recovered value is not a regenerated fact but tied by the run (panic values typed-nil error and an error whose Error() panics; seeded C19d-1)",
        "out-of-range float->integer conversion is implementation-defined in Go; with the range check of fixes/C19-argument-out-of-range.patch the code never performs one (proved for the model: out_of_range_argument_is_error). The harness still marks such arguments (`!`) and the model must agree with the marker; the `oob` oracle parameter of the model is not consulted any more",
        "interpreter/rt_identifier.go executeFunction: the Debugger hooks (VisitStepInState / VisitStepOutState) are not attached in the runs and not modelled; rerr.Type = err for iterator error texts is not modelled",
        "bodies of the generated stdlib (math.*) are assumed not to panic (checked by every run); math.jn/math.yn with |order| > 256 are left out (slow bodies)",
    ],
    assumptions=[
        "int, uint and uintptr are 64 bits wide (amd64/arm64)",
        "no argument value has a defined type whose underlying type is []interface{} (reflect would accept it for a []interface{} parameter; ECAL programs cannot make one)",
        "fatal runtime errors that recover() cannot intercept (stack exhaustion, concurrent map writes, os.Exit, runtime.Goexit) and panics in goroutines started by the wrapped function are outside the property",
    ],
    decode=decode,
)

META = dict(
    technique="Lean 4 theorems over a step-by-step model of ECALFunctionAdapter.Run and of executeFunction's handling of the returned error value, for arbitrary signatures, bodies, error values and argument vectors + five go/ast-regenerated three-valued source facts as side obligations + differential correspondence with the real adapter, plugin registration and interpreter (direct, ECAL call, inside try, re-entered call sites, concurrent evaluation, both panic(nil) semantics)",
    level_text=("Proof about the model: for every signature, function body, argument vector of any length and out-of-range oracle — too many / too few "
                "arguments, an argument of an incompatible kind (also a non-list for a []interface{} parameter), NULL anywhere, or a body that panics on "
                "what it receives (also panic(nil) with the pre-1.21 semantics) give a bridge error without running the function further; a fitting "
                "call runs the function; numbers whose truncation is in range arrive as exactly that Go integer for every integer kind (fractions "
                "truncated), float64 unchanged, float32 IEEE-rounded (proved exact when representable); results whose STATIC type is numeric — and "
                "numbers inside a result declared as interface{} (every plugin function) — come back as ECAL numbers, integers exactly up to 2^53, "
                "for every position of a multi-result (NOT numbers nested in returned slices / maps: known finding); a trailing error is delivered as the call's error, nil as none; whatever kind of error value "
                "comes back (typed nil, panicking Error(), nil *RuntimeError), executeFunction yields a value or a catchable runtime error. "
                "Totality itself (no panic escapes Run / the interpreter) is NOT a consequence of the model of reflect: it is Go's defer/recover "
                "semantics plus the regenerated source facts (recover shape, completion flag for panic(nil), guarded Error()/AddTrace, plugin "
                "registration behind the adapter), and the differential run. Model tied to adapter.go, stdlib.go and rt_identifier.go by a run that is "
                "exhaustive for short vectors over a 50-value universe (not over all ECAL values)."),
    level_note=("Trusted: Lean kernel + propext/Classical.choice/Quot.sound; the model of reflect's checks; the extractor; the harness; Go's defer/recover and "
                "GODEBUG panicnil semantics. Out-of-range float->int conversions are implementation-defined and only covered by totality. The theorems "
                "describe /repo WITH fixes/C19-error-value-after-recover.patch, C19-panic-nil.patch and C19-iface-result-numbers.patch; on a tree without "
                "them the check reports the three defects (findings/C19-defect-E1/E2/E3-*.json). KNOWN FINDING nested-result-numbers: a result that is a slice / array / map of Go values ([]int, [2]uint8, map[string]int — declared so or "
                "through interface{}) is passed to ECAL raw: not a container for ECAL at all, its numbers unconverted (proved about the code as it is: "
                "nested_results_are_passed_raw; those cases carry kf= and spec= what the property demands). The candidate repair "
                "fixes/C19-nested-result-numbers.patch (convert such results into ECAL lists / maps) is NOT applied: it would break Go->Go round trips "
                "through ECAL that work today (a raw []string result of one bridged function handed to a []string parameter of another; []byte results "
                "handed back), because the adapter's parameter check compares types for identity. Also passed on raw, by design: Go numbers a function "
                "has put INTO a []interface{} / map[interface{}]interface{}, complex numbers, struct fields. The theorems describe /repo WITH fixes/C19-runtime-error-without-type.patch and fixes/C19-argument-out-of-range.patch (a number outside the "
                "parameter kind's range is an error: out_of_range_argument_is_error; before, it was silently wrapped, platform dependent). "
                "'A descriptive error' has a formal reading in the model only: run_error_is_descriptive (Props/C19b.lean) proves that each of Run's own three errors "
                "carries the right DATA (the call's counts; the first offending position, its parameter type and its argument's type / number), tied to "
                "the driver's model by erasure (buildArgsD_erase). The Go message TEXTS are still never compared ('Error: <nil>' for panic(nil) passes). "
                "interpreter_never_crashes / try_except_never_crashes range over the SIX kinds of error value the model distinguishes and end at "
                "executeFunction's return resp. at try/except's reading of Type; other consumers of the error (sink error maps) are not modelled. "
                "Whole classes of well-formed calls are always answered with an error by the code (the property text permits 'results OR a descriptive "
                "error', so these are limitations, not known findings; a repair of them is accepted via spec= only for defined numeric parameter types): "
                "Limitations proved as theorems, each answered with an error: parameters of interface type — including plain interface{} — reject every "
                "argument; a variadic ...interface{} function (plugins) accepts at most one variadic argument; numeric variadics (...int, ...float64) and "
                "parameters of a defined numeric type (time.Duration) accept no number. Mode R's reference semantics (Ecal.Reentry) is a specification; "
                "the evidence that resolveFunction follows it is the differential run only."),
)


def run(ctx):
    return checklib.standard(ctx, SPEC)
