"""C19 — the Go function bridge is total and converts numbers faithfully."""
import os
import subprocess

import checklib


def extract(ctx):
    """regenerate lean/Ecal/Gen/C19.lean (three-valued facts about stdlib/*.go) from the tree under test.
    A fact that is merely not established (source shape not understood) is no alarm: it is noted in
    the evidence and the correspondence search is amplified to the thorough enumeration."""
    import json
    binp = checklib.go_build(ctx)
    out = os.path.join(checklib.LEAN, "Ecal", "Gen", "C19.lean")
    if os.path.exists(out):
        os.remove(out)
    p = subprocess.run([binp, "C19", "-tool", out], env=dict(checklib.GOENV, VERIF_REPO=checklib.REPO),
                       stdout=subprocess.PIPE, stderr=subprocess.PIPE, text=True, timeout=120)
    if p.returncode != 0 or not os.path.exists(out):
        raise checklib.CheckError("C19 extractor failed: " + (p.stderr or p.stdout)[-600:])
    facts = json.loads(p.stdout.strip().splitlines()[-1])
    ctx.coverage["source_facts"] = facts
    ctx.c19_amplify = False
    for name, f in sorted(facts.items()):
        if f["fact"] == "unknown":
            ctx.c19_amplify = True
            ctx.notes.append(f"source fact '{name}' NOT ESTABLISHED for this source shape ({f['why']}): the theorems "
                             "assume it; search amplified to the thorough enumeration")
            ctx.log(f"fact '{name}' not established: {f['why']} -> amplified search")
        elif f["fact"] == "no":
            ctx.log(f"fact '{name}' REFUTED: {f['why']}")


def extra_args(ctx):
    # a later -tier overrides the earlier one on the harness command line
    return ["-tier", "thorough"] if getattr(ctx, "c19_amplify", False) else []


def decode(p):
    f = p.split(" ")
    if len(f) > 4 and f[1] == "R":
        return {"mode": "one AST evaluated repeatedly / concurrently, bridged call sites re-entered", "goroutines": f[2],
                "rounds": f[3], "main(postfix)": f[4], "functions(name;params;base;step)": f[5:]}
    try:
        return {"function": f[0], "mode": {"D": "Run called directly", "I": "ECAL call", "T": "ECAL call inside try"}[f[1]],
                "signature(params;variadic;results)": f[2], "body": f[3], "args": f[4:]}
    except Exception:
        return p


SPEC = dict(
    lean_modules=["Ecal.Props.C19"],
    shards=16,
    extract=extract,
    extra_args=extra_args,
    rule=("cases = (bridged function, mode, argument vector): ~69 synthetic Go functions wrapped with "
          "stdlib.NewECALFunctionAdapter (every numeric parameter kind echoing its argument, string/bool/list/map, "
          "interface and foreign parameter types, several parameters, zero-arg constants of every result kind incl. "
          "2^53 / MaxUint64, trailing error nil/non-nil/not last, six panicking bodies, variadic of several kinds, "
          "defined types of primitive kind (time.Duration style) as parameter and result, two non-functions) + 12 plugin functions (util.ECALPluginFunction: returning values, errors, panicking on a missing / NULL / wrong-kind argument, explicit panic, nil-map write, nil dereference) registered through the real stdlib.AddStdlibPluginFunc / LoadStdlibPlugin via the package's pluginTestLookup hook + every function of the generated stdlib (enumerated from GetStdlibSymbols) x all "
          "argument vectors over a 28-value universe {null,true,false,0,-1,1,1.5,127,128,255,256,2^31,2^53,1e300,NaN,"
          "'','a','1',[],[1],{},{'a':1},an ECAL function,-129,-0.5,2^63,-Inf,1.5*2^63}: Run called directly for length <=2 "
          "(quick) / <=3 (thorough) exhaustively and 3 / 4,5 sampled, through the interpreter (arguments as ECAL literals "
          "where one exists) and inside try (arguments in variables) for length <=2 exhaustively and 3 (thorough: 3 and 4) sampled. Compared: outcome class (value / the function's own "
          "error / bridge error / escaped panic), the returned value (float64 bits, canonical structure), and the "
          "Go values the function RECEIVED (kind + exact integer); where an argument is converted out of its parameter kind's range "
          "(implementation-defined in Go) only the outcome class is compared. Plus mode R (interpreter side, rt_identifier.go): small recursive programs "
          "(direct recursion through the 1st / 2nd / middle / last / all arguments of a bridged call, mutual recursion, the call site in a user "
          "function called twice / three times, nested calls at different sites and the same site, random two-function programs) parsed ONCE and "
          "evaluated 1-3 (thorough: up to 6) times by 1, 2, 4, 8 goroutines; compared: the final value and the sequence (one goroutine) / "
          "multiset (several) of argument vectors the bridged Go functions received, against the reference semantics Ecal.Reentry.eval. "
          "Non-trivial = the call reaches the function body."),
    exhaustive="all argument vectors up to the stated length for every function",
    trusted_base=[
        "reflect's behaviour (Call panics, TypeOf, Kind) as modelled in Ecal.Bridge — tied by the correspondence run",
        "the go/ast extractor of three source facts (harness C19 -tool, go/cmd/harness/c19extract.go), decided semantically and three-valued: Run defers a function (literal or same-package) that itself calls recover() and assigns the named error result; the argument count is compared with NumIn() before Call (Run or one level of helpers); plugin functions are registered as ECALFunctionAdapter. Only a refuted fact breaks an obligation; an unestablished one is assumed, noted, and answered with an amplified search",
        "the harness sets stdlib.pluginTestLookup (unexported test hook) by go:linkname",
        "out-of-range float->integer conversion is implementation-defined in Go: the platform's value is handed to the model as an oracle and no exactness theorem covers it",
        "bodies of the generated stdlib (math.*) are assumed not to panic (checked by every run); math.jn/math.yn with |order| > 256 are left out (slow bodies)",
    ],
    assumptions=[
        "int, uint and uintptr are 64 bits wide (amd64/arm64)",
        "no argument value has a defined type whose underlying type is []interface{} (reflect would accept it for a []interface{} parameter; ECAL programs cannot make one)",
        "fatal runtime errors that recover() cannot intercept (stack exhaustion, concurrent map writes, os.Exit, runtime.Goexit) and panics in goroutines started by the wrapped function are outside the property",
    ],
    decode=decode,
)

META = dict(
    technique="Lean 4 theorems over a step-by-step model of ECALFunctionAdapter.Run for arbitrary signatures, bodies and argument vectors + go/ast-regenerated side obligation (defer/recover shape) + differential correspondence with the real adapter and interpreter",
    level_text=("Proof: for every signature, function body, argument vector of any length and out-of-range oracle, Run returns "
                "(no panic escapes; needs the regenerated fact that Run's first statement defers a recover closure assigning the named "
                "result err); too many / too few arguments, an argument of an incompatible kind, NULL anywhere, or a panicking body give "
                "a bridge error without (re)running the function; in-range integral numbers arrive as exactly that Go integer for every "
                "integer kind, float64 unchanged; integer results up to 2^53 and float results come back exactly; a trailing error is "
                "delivered as the call's error, nil as none. Model tied to adapter.go and rt_identifier.go by an exhaustive-for-short differential run."),
    level_note=("Trusted: Lean kernel + propext/Classical.choice/Quot.sound; the model of reflect's checks; the extractor; the harness. "
                "Out-of-range float->int conversions are implementation-defined and only covered by totality. "
                "Observation (not a violation of C19): parameters of interface type — including plain interface{} — reject every argument, "
                "a variadic ...interface{} function (the shape of plugin functions) accepts at most one variadic argument (NumIn counts the slice once), "
                "and a parameter of a defined numeric type (time.Duration) never accepts a number — all three answered with an error, proved as theorems."),
)


def run(ctx):
    return checklib.standard(ctx, SPEC)
