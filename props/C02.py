"""C02 — waiting on an event returns after its whole cascade, with exactly its errors."""
import json
import os
import re
import subprocess

import checklib


def decode(p):
    try:
        f = p.split(" ")
        return {"config": f[0], "cascades": f[1:]}
    except Exception:
        return p


RULE = ("a case = 1..4 cascade plans run concurrently on one real engine.Processor (workers 1..16, failOnFirstError on/off), through the "
        "Go API or (20%) through ECAL sinks: event trees with fan-out <=4, depth <=4; children added with NewChildMonitor(prio)+AddEvent "
        "from inside rule actions; skipped and zero-rule child events; failing rules at any position; blocking actions; nested waits "
        "(AddEventAndWait / addEventAndWait inside an action, workers >= nested waits + 1); detached events (nil monitor, new root "
        "monitor, ECAL scope argument, ECAL addEvent inside a for loop / a user function of the sink); ECAL sinks ending in return; "
        "events sharing name and kind with one rule serving both (every event carries a state id; two-segment kinds); "
        "AddEventAndWait(ev, nil); one cascade with 300 failing children; thorough: an action parked for 2.2 s; "
        "AddEventAndWait or AddEvent+finish handler, with/without finish handler and error observer (which polls AllErrors()). "
        "Schedule modes: random yields/sleeps at the hook points; directed: hold a failing task between SetErrors and Finish until "
        "another task's error observer called AllErrors; hold the adder after pool.AddTask until the cascade posted; hold a finisher "
        "inside the root lock with one monitor outstanding, the zero-seer before PostEvent, a non-last finisher after Unlock; PCT "
        "priorities. Tiny plans (<=3 events, <=2 workers) are explored exhaustively on the transition system and run 24x each. "
        "Compared with the model per root monitor (unit), sampled at the unit's own return: wait returned, action completion stamps "
        "later than the return, finish handler count and IsFinished of every monitor handed to AddEvent (Go API mode only; ECAL mode "
        "prints handler=- fin=-), AllErrors() as a sorted list of (event node by state id, rule, error class; name, kind and event "
        "path of the entry must be those of its event), entries of another cascade, nil entries seen by the error observer, number of completed "
        "actions of detached cascades, units that must not start; a process death is CRASH, a wait that does not return is a hang. "
        "Non-trivial = some cascade has >=3 events and a failing rule.")

SPEC = dict(
    lean_modules=["Ecal.Props.C02"],
    shards=12,
    rule=RULE,
    trusted_base=[
        "the transition system lean/Ecal/Model/Cascade.lean is sequentially consistent; the Go memory model is not modelled (monitorBase.finished / Err / RootMonitor.finished are written and read without a common lock; the thorough tier runs the harness with -race in addition)",
        "granularity of the model's events: tied to the Go text by the source facts of lean/Ecal/Gen/C02.lean (go/ast extractor go/cmd/harness/c02tool.go, regenerated on every run: zero test inside the critical section, post outside it, counter writes under the lock, error attached before it is registered, Finish after ProcessEvent, HandleError order, observers registered before the hand-over, AllErrors calls no asserting accessor, PostEvent filters by source, monitor ids allocated in a critical section) and by replaying hook-recorded traces; the extractor itself is trusted",
        "Finish() sets monitorBase.finished before descendantFinished decrements the counter; the model has one event (unfinished_counts is transiently false in the safe direction in Go)",
        "post / observerRuns are separate model events; Go runs the callbacks synchronously on the posting goroutine in registration order (the replay enforces that order)",
        "hook call sites (hooks/C02.patch, hooks/C02b.patch: add-only verifhook.At lines) report the arguments they are given",
        "the rules a triggering event executes (C01) and their order (C10) are inputs of the model's addEvent",
    ],
    assumptions=[
        "NewChildMonitor on a monitor is only called by an action executing under that monitor (what the ECAL addEvent builtin and the harness do); the method is public and unguarded in Go: a monitor reference used after its action returned is outside the model (the model's newChild is not enabled then). Probed on every run (evidence limitation_probes.late_child.*): the late event runs, the message is posted a second time, the handler is not called again and the error report grows after the wait returned",
        "the processor is running while the cascade is in flight: AddEvent on a stopping/stopped pool returns an error, the child monitor created for it is never finished and an enclosing wait never returns (func_provider.go addEvent path) — excluded; probed on every run (evidence limitation_probes.stopping_pool.*)",
        "'the wait does return' is proved as wait_returns_fair over infinite executions of the shared system under explicit hypotheses: Exec.Fair (whenever an engine step is enabled an engine step is eventually taken: Go scheduler + pool liveness C09, assumed), Exec.AddsStopAt (the actions make finitely many NewChildMonitor/AddEvent calls), every created monitor handed to AddEvent, >= 1 worker",
        "DECLARED READING: a root event that does not trigger (AddEvent returns nil; engine.md: 'discarded right away') starts no cascade: AddEventAndWait returns at once, the root monitor ends finished, the finished message is posted to nobody and a finish handler set on that monitor is NOT called (0 calls is in the statement of finish_notification_exactly_once); the doc comment of SetFinishHandler read literally would ask for a call",
        "a rule action calling AddEventAndWait occupies its worker while it waits: with workers <= simultaneous nested waits the processor deadlocks by design (not generated; limitation)",
        "ECAL: addEvent executed inside a for loop, inside a user function called by the sink, or inside a call argument runs with a FRESH instance state (rt_statements.go loopRuntime.Eval, rt_func.go, rt_identifier.go) and therefore starts a NEW root monitor: such events are not 'added under the monitor' of the sink's event; an enclosing addEventAndWait neither waits for them nor reports their errors (confirmed by the harness, modelled as detached cascades). The property as stated does not cover them; a user reading 'use addEvent for event cascades' may expect otherwise",
    ],
    decode=decode,
)

META = dict(
    technique=("Lean 4 invariant proof over an executable transition system of the cascade protocol (monitors, counter, error map, "
               "queue, observer table, waiter), a shared-structure system (one observer table / pending-callback list / queue map) "
               "with a projection theorem, source facts regenerated with go/ast and decided in Lean, exhaustive exploration of tiny "
               "plans on the transition system, and a correspondence: generated cascade plans run on the real engine.Processor (Go API "
               "and ECAL sinks) under random, PCT and directed schedules, observables compared with the model, hook-recorded global "
               "traces replayed on the single-cascade and on the shared transition system"),
    level_text=("Proof (all cascade shapes, worker counts, interleavings of the sequentially consistent model): unfinished = number of "
                "created unfinished monitors; finished message posted at most once and exactly when all monitors are finished; finish "
                "handler observer registered before the root's task can run, handler runs exactly once (negative witness for the late "
                "registration); the wait is released only after every action returned and every monitor finished; at that time (and "
                "when the handler runs) AllErrors = exactly the failed (event, rule) entries, failed being the history of failing "
                "ruleReturns; AllErrors never yields a nil entry; progress while a worker is free, engine runs bounded by a measure, "
                "quiescent => released and handler ran (wait_returns_partial; fairness assumed); conc_refines: with ONE observer table, "
                "pending list and queue map every step projects to a step of the cascade's own system and leaves other roots' views "
                "alone (negative witness: PostEvent without the source filter). Model tied to the Go code by 13 source facts, "
                "differential runs and trace replay on every run. Liveness: wait_returns_fair — in every fair execution of the "
                "shared system (Exec.Fair: an enabled engine step is eventually followed by an engine step; hypothesis) in which the "
                "program stops adding work, a state is reached where every waiter is released with an exact report and every handler "
                "ran once; wait_returns_fair_from needs the hand-over only at the tick the additions stop; "
                "fairFrom_of_scheduler_and_pool / wait_returns_scheduler_and_pool split fairness into a scheduler side and a pool side "
                "(the interface to C09's no_stuck_task / pop_within_bound / fair_queued_task_started; the refinement between the two "
                "models is not built); fair_execution_witness exhibits a concrete non-stuttering fair execution (root + two children, "
                "one failing) satisfying all hypotheses; poolStartsFrom_of_C09 / wait_returns_with_C09_pool derive the pool side from "
                "C09's fair_queued_task_started for executions coupled with a pool-level execution (PoolCoupling, a hypothesis; "
                "queue_tracks_queued proves the queue component of the step-level simulation, reducing the hypothesis to PoolSyncFrom)."),
    level_note=("A change that moves the zero test of descendantFinished out of the critical section of its decrement (read after Unlock, "
                "or in a second critical section) cannot be forced by a hook-point scheduler; it is refuted deterministically, hook-free, "
                "by the regenerated facts zeroTestInsideCriticalSection / zeroTestInCriticalSectionOfTheDecrement (go/ast, every run) "
                "and only probabilistically by traces/crashes. Facts are three-valued: only `some false` breaks an obligation, `none` "
                "is a note + 4 more case sets. ECAL-mode cases (about 5 %) compare neither the handler count nor IsFinished (the root "
                "monitor lives inside the builtin): they print handler=- fin=-; their report entries are compared by state id, name, "
                "kind, rule and error class. A single stuck wait of a run that returns when the case is run alone and in 100 "
                "repetitions is forgiven (note in the evidence): a lost notification rarer than that passes. A wait with a time-out "
                "longer than the parked action of the thorough tier (2.2 s) is caught only by the fact waitIsUnconditional. "
                "Trusted: Lean kernel + propext/Classical.choice/Quot.sound; the go/ast fact extractor; the hook call sites; Go memory "
                "model not modelled (-race run in the thorough tier); liveness only under the stated fairness assumption (full statement "
                "in the comment at wait_returns_partial); NewChildMonitor outside an action, AddEvent on a stopping pool, nested waits "
                "with too few workers and ECAL addEvent inside loops/functions (new root monitor, not waited for) are outside the "
                "property as modelled — see assumptions; rule selection/order per event are inputs (C01/C10)."),
)


C02_FILES = ("engine/monitor.go", "engine/taskqueue.go", "engine/processor.go", "pubsub/eventpump.go",
             "interpreter/func_provider.go", "cmd/harness/c02.go", "cmd/harness/c02run.go")


def race_run(ctx, shards):
    """the quick-sized generator under the race detector. Reports are collected (GORACE log_path) instead of ending
    the process; a report touching the code of this property is a violation, others are noted."""
    import glob
    import re
    ctx.log("go: building harness with -race")
    rbin = checklib.go_build(ctx, out="harness-race", race=True)
    sub = checklib.Ctx("C02", "quick", ctx.seed + 1000)
    saved = checklib.GOENV.get("GORACE")
    checklib.GOENV["GORACE"] = "exitcode=0 log_path=" + os.path.join(sub.work, "racelog")
    try:
        rc_cases, rc_go, _, _ = checklib.run_cases(sub, rbin, "C02", shards=shards, budget_s=1500)
        rmodel = checklib.run_driver(sub, "C02", rc_cases, shards=shards)
        ctx.coverage["race_build_cases"] = len(rc_cases)
        for i in sorted(rc_cases):
            g = rc_go.get(i, "MISSING-RESULT").split(" ~ ")[0]
            if g != rmodel.get(i, ("MISSING", {}))[0]:
                rp = checklib.write_replay(ctx, "input", {"payload": rc_cases[i], "readable": decode(rc_cases[i]), "build": "-race"},
                                           rmodel.get(i, ("MISSING", {}))[0], g, "./check C02 --replay <this file>", tag="race")
                checklib.violation(ctx, rp, f"race-build go={g[:100]!r}")
                break
        reports = []
        for f in glob.glob(os.path.join(sub.work, "racelog.*")):
            reports += [b for b in open(f, errors="replace").read().split("==================") if "DATA RACE" in b]
        mine, other = [], {}
        for b in reports:
            # the innermost non-runtime frame of each of the two conflicting accesses
            acc = [st for st in b.split("\n\n") if re.search(r"(?m)^\s*(Previous )?(atomic )?([Rr]ead|[Ww]rite) at", st)]
            frames = []
            for st in acc:
                fr = [x for x in re.findall(r"\s(/\S+\.go:\d+)", st) if "/src/runtime/" not in x and "/src/sync/" not in x]
                frames += fr[:1]
            if any(any(x in fr for x in C02_FILES) for fr in frames):
                mine.append(b)
            else:
                names = sorted(set(fr.split("/ecal/")[-1] if "/ecal/" in fr else os.path.basename(fr) for fr in frames))
                key = " vs ".join(names[:4])
                other[key] = other.get(key, 0) + 1
        ctx.coverage["race_reports_in_c02_code"] = len(mine)
        ctx.coverage["race_reports_elsewhere"] = other
        if other:
            ctx.notes.append("race detector reports outside the code of C02 (not part of this property, see C09): " + json.dumps(other)[:600])
        if mine:
            rp = checklib.write_replay(ctx, "race", {"report": mine[0][:3000]}, "no data race in the cascade protocol code",
                                       "race detector report", "./check C02 --tier thorough", tag="racereport")
            checklib.violation(ctx, rp, "data race reported in the cascade protocol code")
    finally:
        if saved is None:
            checklib.GOENV.pop("GORACE", None)
        else:
            checklib.GOENV["GORACE"] = saved
        sub.cleanup()


GEN = os.path.join(checklib.LEAN, "Ecal", "Gen", "C02.lean")


def extract(ctx, binp):
    """regenerate lean/Ecal/Gen/C02.lean from the tree under test"""
    import subprocess
    if os.path.exists(GEN):
        os.remove(GEN)
    p = subprocess.run([binp, "C02", "-tool", "facts", GEN], env=dict(checklib.GOENV, VERIF_REPO=checklib.REPO),
                       stdout=subprocess.PIPE, stderr=subprocess.STDOUT, text=True, timeout=120)
    if p.returncode != 0 or not os.path.exists(GEN):
        raise checklib.CheckError("source fact extraction failed: " + p.stdout[-500:])


def probes(ctx, binp):
    """what the real code does in the two situations the model declares outside the property (assumptions):
    NewChildMonitor after the action returned, AddEvent on a stopping pool. Recorded, not compared."""
    import subprocess
    try:
        p = subprocess.run([binp, "C02", "-tool", "probe"], env=dict(checklib.GOENV, VERIF_REPO=checklib.REPO), cwd=ctx.work,
                           stdout=subprocess.PIPE, stderr=subprocess.DEVNULL, text=True, timeout=60)
        line = [l for l in p.stdout.splitlines() if l.startswith("{")]
        return json.loads(line[-1]) if line else {"error": "no output, rc %d" % p.returncode}
    except Exception as e:  # a probe must never fail the check
        return {"error": str(e)[:200]}


def read_facts():
    import re
    src = open(GEN).read() if os.path.exists(GEN) else ""
    out = {m.group(1): m.group(2) for m in re.finditer(r'\("(\w+)", (some true|some false|none)\)', src)}
    m = re.search(r"def allErrorsCalls : List String := \[(.*)\]", src)
    out["allErrorsCalls"] = m.group(1) if m else None
    return out


def amplify(ctx, binp, shards):
    """four more quick-sized case sets (other seeds), observables only"""
    extra = 0
    for k in range(1, 5):
        sub = checklib.Ctx("C02", "quick", ctx.seed + 7919 * k)
        try:
            c2, g2, _, _ = checklib.run_cases(sub, binp, "C02", shards=shards, budget_s=900)
            m2 = checklib.run_driver(sub, "C02", c2, shards=shards)
            extra += len(c2)
            for i in sorted(c2):
                g = g2.get(i, "MISSING-RESULT").split(" ~ ")[0]
                if g != m2.get(i, ("MISSING", {}))[0]:
                    rp = checklib.write_replay(ctx, "input", {"payload": c2[i], "readable": decode(c2[i])},
                                               m2.get(i, ("MISSING", {}))[0], g, "./check C02 --replay <this file>", tag="amp")
                    checklib.violation(ctx, rp, f"(amplified search) go={g[:100]!r}")
                    return
        finally:
            sub.cleanup()
    ctx.coverage["amplified_search_cases"] = extra


def run(ctx):
    thorough = ctx.tier == "thorough"
    ctx.log("go: building harness against", checklib.REPO)
    binp = checklib.go_build(ctx)
    ctx.harness = binp
    extract(ctx, binp)
    ctx.log("lean: building", SPEC["lean_modules"])
    lres = checklib.lean_check(ctx, SPEC["lean_modules"], leanchecker=thorough)
    cov = ctx.coverage
    cov["obligations"] = lres["obligations"]
    cov["discharged"] = lres["discharged"]
    cov["checker_cmd"] = lres.get("checker_cmd", "")
    cov["theorems"] = lres["theorems"]
    cov["axioms_used"] = lres["axioms"]
    cov["trusted_base"] = checklib.BASE_TRUSTED + SPEC["trusted_base"]
    if lres.get("leanchecker"):
        cov["leanchecker_ok"] = lres["leanchecker"]
    ctx.assumptions += SPEC["assumptions"]
    proof_broken = bool(lres["failures"]) or lres["discharged"] != lres["obligations"]
    if proof_broken:
        ctx.log("LEAN FAILURES:", lres["failures"])
    cov["source_facts"] = read_facts()
    not_established = sorted(k for k, v in cov["source_facts"].items() if v == "none")
    cov["source_facts_not_established"] = not_established
    cov["limitation_probes"] = probes(ctx, binp)
    shards = SPEC["shards"]
    cases, gores, stats, infos = checklib.run_cases(ctx, binp, "C02", shards=shards, budget_s=3000 if thorough else 600)
    crashes = sum(len(i["crashes"]) for i in infos.values())
    ctx.log(f"harness: {len(cases)} cases, {crashes} crashes")
    # checklib re-runs a crashed case alone and forgives it when it then passes. A schedule dependent
    # panic of the code under test (or a wait that never returned) is not forgiven here: the process
    # death happened, whatever a second run does.
    # full stderr of the harness processes (c02.stderr.<pid>): the message of a panic and the case it hit
    import glob
    deaths = []
    for f in glob.glob(os.path.join(ctx.work, "c02.stderr.*")):
        txt = open(f, errors="replace").read()
        for m in re.finditer(r"(?m)^(panic: .*|fatal error: .*)$", txt):
            k = txt.rfind("CASE ", 0, m.start())
            payload = txt[k + 5:txt.find("\n", k)] if k >= 0 else ""
            deaths.append((payload, m.group(1), " ".join(txt[m.start():m.start() + 1500].split())))
    for payload, head, full in deaths:
        ctx.log(f"panic in a harness process: {head[:200]}")
        idx = next((i for i in cases if cases[i] == payload), None)
        if idx is not None and "C02: " not in head:
            gores[idx] = "CRASH " + full[:300]
    kept, hangs = 0, []
    for f in glob.glob(os.path.join(ctx.work, "c02.stderr.*")):
        txt = open(f, errors="replace").read()
        for m in re.finditer(r"(?m)^C02-HANG .*$", txt):
            k = txt.rfind("CASE ", 0, m.start())
            payload = txt[k + 5:txt.find("\n", k)] if k >= 0 else ""
            idx = next((i for i in cases if cases[i] == payload), None)
            if idx is not None:
                hangs.append((idx, " ".join(m.group(0).split())))
    for info in infos.values():
        for c in info["crashes"]:
            ctx.log(f"process death at case {c['idx']} (rc {c.get('rc')})")
    # a wait that did not return: believed when it also hangs alone, or when it is not the only one of the run
    # (one unreproduced stall of a whole process under load is recorded, not reported)
    for idx, o in hangs:
        forgiven = not gores.get(idx, "").startswith("CRASH")
        if not forgiven or len(hangs) >= 2:
            gores[idx] = "CRASH " + o[:300]
            kept += forgiven
        else:
            # before a single stuck wait is forgiven the case is repeated 100 times alone (same plan, same schedule seed)
            again = 0
            for _ in range(100):
                try:
                    pr = subprocess.run([binp, "C02", "-one", cases[idx]], cwd=ctx.work, env=checklib.GOENV, stdout=subprocess.PIPE,
                                        stderr=subprocess.DEVNULL, text=True, timeout=120)
                    if pr.returncode != 0 or not pr.stdout.startswith("ret="):
                        again += 1
                        break
                except subprocess.TimeoutExpired:
                    again += 1
                    break
            if again:
                gores[idx] = "CRASH " + o[:300]
                kept += 1
            else:
                ctx.notes.append("one wait was declared stuck under load; the case returned when run alone and in 100 repetitions: " + o[:300])
    if kept:
        ctx.notes.append(f"{kept} process deaths were not reproduced when the case was run alone; they are still reported")
    if thorough:
        race_run(ctx, shards)

    if not_established:
        # a fact the extractor can no longer establish is NOT a violation: evidence note + amplified search
        ctx.notes.append("source facts not established for this tree (extractor cannot follow the code): " + ", ".join(not_established)
                         + " — search amplified with 4 more case sets")
        amplify(ctx, binp, shards)
    model = checklib.run_driver(ctx, "C02", cases, shards=shards)
    canon, traces = {}, {}
    for i, g in gores.items():
        parts = g.split(" ~ ", 1)
        canon[i] = parts[0]
        if len(parts) == 2:
            traces[i] = parts[1]
    bad, nontrivial = [], set()
    for i in sorted(cases):
        g = canon.get(i, "MISSING-RESULT")
        m, attrs = model.get(i, ("MISSING-MODEL-RESULT", {}))
        if attrs.get("nt") == "1":
            nontrivial.add(cases[i].split(" ", 1)[1])
        if g != m:
            bad.append(i)
    # tiny plans: exhaustive exploration of the plan on the transition system + coverage by the real runs
    groups = {}
    for i in sorted(cases):
        hdr = cases[i].split(" ", 1)[0]
        if ",T1" in hdr and i in traces:
            k = re.sub(r",S\d+,D\d+", "", cases[i])
            groups.setdefault(k, []).append(traces[i])
    cover = {}
    if groups:
        keys = sorted(groups)
        cres = checklib.run_driver(ctx, "C02", {n: keys[n] + " ~ " + " | ".join(groups[keys[n]]) for n in range(len(keys))},
                                   args=["cover"], shards=shards)
        agg = dict(reach=0, visited=0, outside=0, traces=0, rejected=0, distinct=0, trans=0, plans=0, not_same=0, stuck=0, bad=0)
        worst = None
        for n in range(len(keys)):
            r = cres.get(n, ("", {}))[0]
            f = dict(x.split("=") for x in r.split() if "=" in x)
            if "reach" not in f:
                continue
            agg["plans"] += 1
            for k2 in ("reach", "visited", "outside", "traces", "rejected", "distinct", "trans", "stuck", "bad"):
                agg[k2] += int(f[k2])
            agg["not_same"] += 1 - int(f["same"])
            if int(f["outside"]) or int(f["stuck"]) or int(f["bad"]) or f["same"] != "1":
                worst = worst or (keys[n], r)
        cover = agg
        ctx.log(f"tiny plans: {agg['plans']} plans explored exhaustively on the model ({agg['reach']} states, {agg['trans']} transitions); "
                f"{agg['traces']} runs of the real code ({agg['distinct']} distinct schedules) visited {agg['visited']} of these states, {agg['outside']} outside")
        cov["states"] = agg["reach"]
        cov["exhaustive_part"] = ("every interleaving of the transition system for each explored cascade plan with <= 3 events, <= 2 workers "
                                  "(model side); the real code's runs of the same plans are mapped into that state space")
        cov["tiny_plans_explored"] = agg["plans"]
        cov["tiny_model_transitions"] = agg["trans"]
        cov["tiny_impl_runs"] = agg["traces"]
        cov["schedules_explored_distinct"] = agg["distinct"]
        cov["tiny_states_visited_by_impl"] = agg["visited"]
        cov["tiny_state_coverage"] = round(agg["visited"] / max(1, agg["reach"]), 3)
        if worst:
            rp = checklib.write_replay(ctx, "explore", {"payload": worst[0], "readable": decode(worst[0])},
                                       "every terminal state of the exhaustive exploration has the expected observables; the real runs stay inside the explored space",
                                       worst[1], "lean/.lake/build/bin/driver C02 explore", tag="explore")
            checklib.violation(ctx, rp, f"exploration: {worst[1][:160]}")
    # trace replay on the transition system
    tcases = {i: cases[i] + " ~ " + traces[i] for i in traces}
    replayed = checklib.run_driver(ctx, "C02", tcases, args=["replay"], shards=shards) if tcases else {}
    ok_traces, events, rejects, legacy = 0, 0, [], 0
    for i in sorted(tcases):
        r = replayed.get(i, ("MISSING", {}))[0]
        if r.startswith("ok "):
            ok_traces += len(cases[i].split(" ")) - 1
            events += int(r.split()[1])
            legacy += int(r.split("legacy=")[1]) if "legacy=" in r else 0
        else:
            rejects.append((i, r))
    ctx.log(f"traces: {ok_traces} cascade traces replayed ({events} events), {len(rejects)} rejected; "
            f"{len(bad)} result disagreements")
    if legacy:
        ctx.notes.append(f"{legacy} traces come from a tree without the call sites cascade.handler.registered / cascade.added "
                         "(hooks/C02b.patch): the order 'finish-handler observer before pool.AddTask' was not observable there")
    cov["traces_without_c02b_hooks"] = legacy
    if not traces:
        ctx.notes.append("no hook events were observed: the tree under test does not contain the call sites of hooks/C02.patch; "
                         "the correspondence ran on property-level observables only (no trace replay, no directed schedule)")

    cov["evaluations"] = len(cases)
    cov["distinct_nontrivial"] = len(nontrivial)
    cov["rule"] = RULE
    cov["input_distribution"] = stats
    cov["schedule_modes"] = {k[len("schedule mode "):]: v for k, v in stats.items() if k.startswith("schedule mode ")}
    cov["directed_schedule_steps_effective"] = {k[len("sched: "):]: v for k, v in stats.items() if k.startswith("sched: ")}
    cov["disagreements"] = len(bad)
    cov["crashes"] = crashes
    cov["traces_validated_against_impl"] = ok_traces
    cov["global_traces_replayed_on_shared_system"] = sum(1 for i in tcases if replayed.get(i, ("", {}))[0].startswith("ok "))
    cov["trace_events_replayed"] = events
    cov["trace_rejects"] = len(rejects)
    cov["exhaustive"] = False
    sample_idx = sorted(cases)[:: max(1, len(cases) // 6)][:6]
    cov["samples"] = [{"case": decode(cases[i]), "go": canon.get(i), "model": model.get(i, ("", {}))[0],
                       "trace_events": len(traces.get(i, "").split(","))} for i in sample_idx]

    bad.sort(key=lambda i: (len(cases[i]), i))
    for i in bad[:3]:
        rp = checklib.write_replay(ctx, "input", {"payload": cases[i], "readable": decode(cases[i]),
                                                 "schedule": "seed S in the payload (yields/parks at hook points); trace: " + traces.get(i, "-")[:2000]},
                                   model.get(i, ("MISSING", {}))[0], canon.get(i, "MISSING"),
                                   "./check C02 --replay <this file>")
        checklib.violation(ctx, rp, f"go={canon.get(i, 'MISSING')[:100]!r} model={model.get(i, ('MISSING', {}))[0][:100]!r}")
    rejects.sort(key=lambda x: (len(tcases[x[0]]), x[0]))
    for i, r in rejects[:2]:
        rp = checklib.write_replay(ctx, "trace", {"payload": cases[i], "readable": decode(cases[i]), "trace": traces[i]},
                                   "every recorded step is an enabled event of the transition system with the recorded counter values",
                                   r, "./check C02 --replay <this file>", tag="trace")
        checklib.violation(ctx, rp, f"trace not accepted by the model: {r[:120]}")
    if proof_broken:
        # a source fact / theorem does not hold for this tree: reported on its own (deterministic), the
        # failing inputs found by the schedules above (if any) are the VIOLATION lines before this one
        facts = read_facts()
        broken = {k: v for k, v in facts.items() if v == "some false"}
        rp = checklib.write_replay(ctx, "obligation", {"failures": lres["failures"], "source_facts_not_true": broken,
                                                      "theorems": lres["theorems"]},
                                   "all property theorems and source facts check with allowed axioms", "see failures",
                                   "cd lean && lake build Ecal.Props.C02", theorem="; ".join(lres["failures"])[:500])
        checklib.violation(ctx, rp, ("source facts not true: " + ",".join(sorted(broken))) if broken else "",
                           no_input=not (bad or rejects))
    checklib.write_evidence(ctx)
    return 1 if ctx.violations else 0


def replay(ctx, path):
    obj = json.load(open(path))
    case = obj.get("case", {})
    if obj.get("kind") == "trace":
        lock = checklib._lean_lock()
        try:
            checklib.sh(["lake", "build", "driver"], cwd=checklib.LEAN)
        finally:
            lock.close()
        r = checklib.run_driver(ctx, "C02", {0: case["payload"] + " ~ " + case["trace"]}, args=["replay"], shards=1)
        print("case  :", case.get("readable"))
        print("replay:", r.get(0))
        ok = r.get(0, ("", {}))[0].startswith("ok ")
        if not ok:
            print(f"VIOLATION property=C02 replay={os.path.relpath(path, checklib.VERIF)}")
        return 0 if ok else 1
    if "payload" not in case:
        return checklib.replay(ctx, SPEC, path)
    # schedules are not deterministic: repeat the case until it deviates (or 40 times)
    import subprocess
    binp = checklib.go_build(ctx, race=case.get("build") == "-race")
    lock = checklib._lean_lock()
    try:
        checklib.sh(["lake", "build", "driver"], cwd=checklib.LEAN)
    finally:
        lock.close()
    m, _ = checklib.run_driver(ctx, "C02", {0: case["payload"]}, shards=1).get(0, ("MISSING", {}))
    print("case  :", case.get("readable", case["payload"]))
    print("model :", m)
    for k in range(40):
        p = subprocess.run([binp, "C02", "-one", case["payload"]], stdout=subprocess.PIPE, stderr=subprocess.STDOUT,
                           text=True, cwd=ctx.work, env=checklib.GOENV, timeout=600)
        lines = [l for l in p.stdout.splitlines() if l.startswith("ret=")]
        go = lines[0].split(" ~ ")[0] if (lines and p.returncode == 0) else "CRASH " + " ".join(p.stdout.split())[:300]
        if go != m:
            print(f"go    : {go}   (run {k + 1})")
            print(f"VIOLATION property=C02 replay={os.path.relpath(path, checklib.VERIF)}")
            return 1
    print("go    : agreed with the model in 40 runs")
    return 0
