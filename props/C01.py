"""C01 — exactly the matching, in-scope, unsuppressed rules fire once per event."""
import checklib


def _unhex(s):
    if s == "-":
        return ""
    try:
        return bytes.fromhex(s).decode("utf8", "replace")
    except Exception:
        return s


def _lst(s):
    return [] if s == "_" else [_unhex(x) for x in s.split(",")]


def _kvs(s):
    if s in ("_", "N"):
        return None if s == "N" else {}
    return {_unhex(e.split(":", 1)[0]): e.split(":", 1)[1] for e in s.split(",")}


def decode(p):
    try:
        f = dict(x.split("=", 1) for x in p.split(" "))
        rules = []
        if f["r"] != "_":
            for r in f["r"].split("|"):
                n, k, sc, st, pr, su = r.split(";")
                rules.append({"name": _unhex(n), "kindmatch": _lst(k), "scopematch": _lst(sc), "statematch": _kvs(st),
                              "priority": int(pr), "suppresses": _lst(su)})
        events = []
        if f["e"] != "_":
            for e in f["e"].split("|"):
                n, k, st = e.split(";")
                events.append({"name": _unhex(n), "kind": ".".join(_lst(k)), "state": _kvs(st)})
        if len(rules) > 6:
            rules = rules[:6] + ["… %d rules in all" % len(rules)]
        return {"workers": f["w"], "mode": f["m"], "rules": rules, "scope": _kvs(f["s"]), "events": events[:8],
                "values": "Z/A nil, H<class>i<n> hashable, D<class>i<n> list/map, X<n> regex (tables in go/cmd/harness/c01.go)"}
    except Exception:
        return p


SPEC = dict(
    lean_modules=["Ecal.Props.C01"],
    shards=16,
    rule=("case = rule set + cascade scope + history of events + worker count 1..4, run through a real Processor "
          "(AddEventAndWait, or AddEvent for all and Finish) and a RuleIndex; compared per event: IsTriggering, the sorted "
          "multiset of Match names, whether AddEvent returned a monitor, the sorted multiset of executed rule names. "
          "ECAL-level cases (l=e, ~2 % of the quick tier): the same kind of rule set declared as sinks (kindmatch / scopematch / "
          "statematch incl. lists and maps / priority / suppresses) in a real interpreter runtime, events added with addEvent / "
          "addEventAndWait and a scope map with true and false entries at nested paths (or omitted); compared: the sorted executed "
          "sink names per event (x.mark in the sink body). Regex state patterns exist only at the engine level (createRule copies values). "
          "Non-trivial = for at least one event of the case a kind pattern of some rule matches."),
    exhaustive=("every single rule over segments {a,b,*}, depth <=2, <=2 patterns, state keys {k,l} values {nil,1,'x',[1],{'a':1}} "
                "x every event of depth <=2 over {a,b} x 9 states; rule pairs / triples over reduced universes with suppression, "
                "scopes, priorities; every 2-event history over 8 kinds sharing / not sharing the event name"),
    trusted_base=[
        "regular expressions are ids in the model; the truth table for the (regex, value) pairs of a case is computed by Go's regexp on fmt.Sprint(value)",
        "values are equality classes (Go == for hashable values, reflect.DeepEqual for lists/maps), assigned by the harness",
        "fmt.Sprintf(\"%q\", kind) is injective in the kind (the model keys the trigger cache by the kind itself); tested with segments containing quotes and blanks",
    ],
    assumptions=["rule actions do not add further events (cascades are the subject of C02/C10); the cascade scope is the root monitor's scope"],
    decode=decode,
)

META = dict(
    technique="Lean 4 refinement theorems (index tree + bit masks + scope trie + trigger cache = reference matcher) and differential correspondence through the public engine API",
    level_text=("Proof at full strength over the executable model of engine/rule.go, util.go, processor.go, for all rule lists, events, "
                "histories: the index (kind tree with spilling of full state leaves + BitVec-64 key matchers incl. deep values, regex loop, "
                "early exit, collection loop) returns a rule once per matching kind pattern iff its state pattern admits the event "
                "(match_eq_spec; leaf level: bitmask_faithful — invariant holds for the empty leaf, is kept by addRule below 63 rules, "
                "implies match = filter of admitted rules in rule order, no hang/panic); ProcessEvent executes a duplicate-free sequence "
                "whose name set is exactly Spec.fires (processEvent_exact); IsTriggering over-approximates Match and depends on the kind "
                "only, hence the cache is sound after every history and a firing event is never skipped (fired_event_not_skipped); the "
                "scope trie answers with the flag of the longest defined prefix. Hypotheses: Rule.WF (kind patterns non-empty as produced by "
                "strings.Split, state keys distinct as in a Go map). Model tied to the real Processor / RuleIndex by exhaustive small "
                "universes and random large rule sets (up to 200 state rules per kind), workers 1..4; the driver also cross-checks the "
                "model against the executable Spec on every case."),
    level_note=("Trusted: Lean kernel + propext/Classical.choice/Quot.sound; the correspondence harness; Go's regexp (truth table); "
                "value equality classes computed by the harness."),
)


def run(ctx):
    return checklib.standard(ctx, SPEC)
