"""C01 — exactly the matching, in-scope, unsuppressed rules fire once per event."""
import importlib.util
import os
import subprocess

import checklib


def _unhex(s):
    if s == "-":
        return ""
    try:
        return bytes.fromhex(s).decode("utf8", "replace")
    except Exception:
        return s


def _lst(s):
    return [] if s == "_" else [_unhex(x) for x in s.split(",")]


def _kvs(s):
    if s in ("_", "N"):
        return None if s == "N" else {}
    def key(k):
        return "(non-string) " + _unhex(k[1:]) if k.startswith("!") else _unhex(k)
    return {key(e.split(":", 1)[0]): e.split(":", 1)[1] for e in s.split(",")}


def decode(p):
    try:
        f = dict(x.split("=", 1) for x in p.split(" "))
        rules = []
        if f["r"] != "_":
            for r in f["r"].split("|"):
                n, k, sc, st, pr, su = r.split(";")
                rules.append({"name": _unhex(n), "kindmatch": _lst(k), "scopematch": _lst(sc), "statematch": _kvs(st),
                              "priority": int(pr), "suppresses": _lst(su)})
        events = []
        if f["e"] != "_":
            for e in f["e"].split("|"):
                p = e.split(";")
                n, k, st = p[0], p[1], p[2]
                ev = {"name": _unhex(n), "kind": ".".join(_lst(k)), "state": _kvs(st)}
                if len(p) == 5:
                    ev["own scope"], ev["added by (event.rule)"] = (None if p[3] == "-" else _kvs(p[3])), p[4]
                events.append(ev)
        if len(rules) > 6:
            rules = rules[:6] + ["… %d rules in all" % len(rules)]
        extra = {k: f[k] for k in ("l", "z", "f", "g") if k in f}
        return {"workers": f["w"], "mode": f["m"], **({"level/schedule/failOnFirstError/failing rules": extra} if extra else {}), "rules": rules, "scope": _kvs(f["s"]), "events": events[:8],
                "values": "Z/A nil, H<class>i<n> hashable, D<class>i<n> list/map, X<n> regex (tables in go/cmd/harness/c01.go)"}
    except Exception:
        return p


def _conc():
    sp = importlib.util.spec_from_file_location("props_conc", os.path.join(checklib.VERIF, "props", "_conc.py"))
    m = importlib.util.module_from_spec(sp)
    sp.loader.exec_module(m)
    return m


def extract(ctx):
    """regenerate lean/Ecal/Gen/C01Facts.lean (how IsTriggering keys its cache) from the tree under test"""
    _conc().extract(ctx, "C01", "C01Facts.lean")


def stress(ctx):
    """the trigger cache written while read: plain build in the quick tier, -race build in the thorough tier"""
    race = ctx.tier == "thorough"
    binp = checklib.go_build(ctx, out="harness-race", race=True) if race else ctx.harness
    args = ["16", "5000"] if race else ["16", "20000"]
    try:
        p = subprocess.run([binp, "C01", "-tool", "stress"] + args, cwd=ctx.work, env=dict(checklib.GOENV, VERIF_REPO=checklib.REPO),
                           stdout=subprocess.PIPE, stderr=subprocess.STDOUT, text=True, errors="replace", timeout=600)
        rc, out = p.returncode, p.stdout
    except subprocess.TimeoutExpired:
        rc, out = -9, "stress run exceeded 600 s"
    ctx.coverage["stress"] = {"race_build": race, "goroutines_x_kinds": "x".join(args), "rc": rc,
                              "summary": [l for l in out.splitlines() if l.startswith("STRESS")][-1:]}
    if rc != 0 or "DATA RACE" in out or "fatal error" in out:
        rp = checklib.write_replay(ctx, "stress", {"command": "harness C01 -tool stress " + " ".join(args), "race_build": race},
                                   "STRESS-OK (no data race, no skipped event, right pre-check answers)", out[-1500:],
                                   "go build" + (" -race" if race else "") + " -tags verif ./cmd/harness && harness C01 -tool stress " + " ".join(args))
        checklib.violation(ctx, rp, "trigger cache under concurrent AddEvent / IsTriggering: " + " ".join(out.split())[-200:])
        return 1
    return 0


STRATA = ["kind", "state", "scope", "suppression", "dedupe", "spill", "cachehit", "ruleafter", "failstop", "fires", "child"]


def post(ctx, cases, gores, model):
    """per-stratum counters: in how many cases did this clause decide something (model's view)"""
    counts = {k: 0 for k in STRATA}
    for i, (_, attrs) in model.items():
        for k in attrs.get("st", "").split(","):
            if k in counts:
                counts[k] += 1
    ctx.coverage["strata"] = counts
    ctx.coverage["strata_meaning"] = (
        "cases in which: a kind pattern matched / a state pattern rejected a kind-matching rule / the scope rejected a "
        "matching rule / a triggering rule was suppressed / two patterns of one rule matched / more than 63 state rules "
        "matched the kind (several leaves) / the trigger cache was hit / a rule was added after an event / a failing action "
        "cut the execution short / at least one rule ran / an event was added by a sink")
    empty = [k for k, v in counts.items() if v == 0]
    if empty:
        raise checklib.CheckError("C01: no generated case exercises the clause(s) " + ", ".join(empty))
    stalls = ctx.coverage.get("input_distribution", {}).get("stalled-attempt-repeated", 0)
    if stalls:
        ctx.notes.append(f"{stalls} processor run(s) stalled for more than 4 s and were repeated once with a fresh processor "
                         "(only a reproducible hang is reported as HANG)")


SPEC = dict(
    lean_modules=["Ecal.Props.C01", "Ecal.Props.C01Sink"],
    shards=16,
    rule=("case = rule set + cascade scope + history of events + worker count 1..4, run through a real Processor "
          "(AddEventAndWait, or AddEvent for all and Finish) and a RuleIndex; a schedule may put Finish/AddRule/Start or Reset "
          "between events; AddEvent also from one goroutine per event (mode c); Rules()/Workers() must report the accepted rules / the worker count; actions of chosen rules return an error under both values of failOnFirstError (distinct priorities then). "
          "Compared per event: the sorted multiset of executed rule names, the SET of Match names and — only when some rule ran — "
          "IsTriggering and whether AddEvent returned a monitor (the property leaves the pre-check free when nothing fires); per rule: "
          "whether AddRule returned an error. "
          "ECAL-level cases (l=e, ~2 % of the quick tier): the same kind of rule set declared as sinks (kindmatch / scopematch / "
          "statematch incl. lists and maps / priority / suppresses) in a real interpreter runtime, events added with addEvent / "
          "addEventAndWait and a scope map with true and false entries at nested paths (or omitted); compared: the sorted executed "
          "sink names per event (x.mark in the sink body); also non-string statematch / state / scope keys, numeric kindmatch and "
          "scopematch items and event kinds, nested lists/maps as state values, negative and fractional priorities, unknown names in suppresses, `scopematch []`, raising sinks under both flag values, sinks that add events as children of the cascade "
          "or with a scope map of their own. Regex state patterns exist only at the engine level (createRule copies values). "
          "Non-trivial = for at least one event of the case a kind pattern of some rule matches."),
    exhaustive=("every single rule over segments {a,b,*}, depth <=2, <=2 patterns, state keys {k,l} values {nil,1,'x',[1],{'a':1}} "
                "x every event of depth <=2 over {a,b} x 9 states; rule pairs / triples over reduced universes with suppression, "
                "scopes, priorities; every 2-event history over 8 kinds sharing / not sharing the event name"),
    trusted_base=[
        "value equality: the classes are assigned by the harness with its own structural comparison (c01Equal: element by element, nil and empty "
        "lists/maps alike — the property's reading; c01EqualAsIs additionally separates nil from empty, the code's reading, known finding empty-list-not-equal) over a fixed universe of values; a kind of value outside that universe (pointer, func, struct) is not covered",
        "the cache key: a regenerated three-valued fact (Gen.C01.cacheKey, theorem cacheKey_not_refuted) reads the key expression of IsTriggering; "
        "'established' rests on the claim that fmt's %q rendering of a []string is injective (not proved, sampled by the corpus-cache-key family)",
        "regular expressions are ids in the model; the truth table for the (regex, value) pairs of a case is computed by Go's regexp on fmt.Sprint(value)",
        "values are equality classes (Go == for hashable values, reflect.DeepEqual for lists/maps), assigned by the harness",
        "fmt.Sprintf(\"%q\", kind) is injective in the kind (the model keys the trigger cache by the kind itself); tested with segments containing quotes and blanks",
    ],
    assumptions=[
        "which rules RUN is decided here; the order in which they run (ascending priority) and the bookkeeping of cascades are C10/C02's: "
        "with failOnFirstError on and a failing action the executed set depends on that order, the generated cases then use distinct priorities",
        "self-suppression: Spec.fires reads 'not named in the suppression list of ANY rule whose kind, state and scope are satisfied', the rule "
        "itself included, as the code does (a rule naming itself never runs); the property text says 'another such rule'",
        "values: Go equality on hashable values / reflect.DeepEqual on lists and maps is taken as an equivalence whose classes the harness "
        "assigns; NaN (not equal to itself) is a fresh class per occurrence; +0/-0 are one class and -0 is replaced by +0 where a regex looks "
        "at the value's text; a value for which reflect's Comparable() holds but hashing panics (array/struct holding a slice) is outside ECAL's value universe",
        "unobservable by construction: the cache invalidation inside Reset (after Reset there are no rules, a stale 'triggering' entry only "
        "processes an event that runs nothing, and the next AddRule drops the cache anyway) — a mutant removing it is not caught and cannot be; "
        "likewise a cached 'triggering' for an event that fires nothing (the property leaves the pre-check free there)",
        "not reached on purpose: getters eventProcessor.ID, UnitTestResetIDs (no clause depends on them); ECAL function values as statematch values",
        "event and rule objects: Rule.Action non-nil (a nil Action is a nil call in a worker = process death); rule and event values are not mutated "
        "after AddRule / AddEvent by the caller (at ECAL level a list/map statematch value is stored by reference: known finding statematch-values-aliased; "
        "an event state map is shared with the worker); AddRule / Reset only on a stopped processor (the harness finishes it first; Go refuses otherwise)",
        "concurrency: the theorems are about sequential semantics; workers 1..16 and AddEvent from many goroutines are exercised by the tie, the trigger "
        "cache by a stress run (16 goroutines x fresh kinds; -race build in the thorough tier)",
        "theorems: events are processed one at a time (AddEvent = pre-check + ProcessEvent atomically); concurrency of workers is only exercised by the tie",
    ],
    decode=decode,
    post=post,
    extract=extract,
)

META = dict(
    technique="Lean 4 refinement theorems (index tree + bit masks + scope trie + trigger cache = reference matcher) and differential correspondence through the public engine API",
    level_text=("Proof over the executable model of engine/rule.go, util.go, processor.go, for all rule lists, events and histories — a history "
                "being any interleaving of AddEvent (each with the scope of its cascade), AddRule and Reset: the index (kind tree with "
                "spilling of full state leaves + BitVec-64 key matchers incl. deep values, regex loop, early exit, collection loop; result "
                "independent of Go's map iteration order) returns a rule once per matching kind pattern iff its state pattern admits the event "
                "(match_eq_spec, bitmask_faithful, stateMatch_perm); ProcessEvent determines a duplicate-free list whose name set is exactly "
                "Spec.fires and calls the actions of all of it when failOnFirstError is off or no action fails, else of the prefix up to and "
                "including the first failing rule (processEvent_runs; the flag is ON in every ECAL runtime, interpreter/provider.go); "
                "IsTriggering over-approximates Match, the cache (keyed injectively by the kind: regenerated fact cacheKey_not_refuted) is dropped by AddRule/Reset, hence a firing "
                "event is never skipped after any history (cache_sound_ops, fired_event_not_skipped_ops); the scope trie answers with the flag "
                "of the longest defined prefix (processEvent_exact_scope). Spec.fires ranges over the rules AddRule accepted "
                "(indexed_characterised: a rule with kind and scope match whose name no earlier accepted rule has; a refused rule does not block its name since b2c3167). Hypotheses: Rule.WF (kind "
                "patterns non-empty as produced by strings.Split, state keys distinct as in a Go map). Sink level (lean/Ecal/Model/Sink.lean, Props/C01Sink.lean): createRule's attribute "
                "translation and addEvent's arguments / scope map are modelled, and sinks_fire_exact proves that exactly the accepted sinks whose "
                "DECLARED kindmatch / statematch / scopematch match and which are not suppressed fire — under the explicit hypotheses string "
                "statematch keys (DeclOK) and ValuesFaithful, which exclude the known findings statematch-nonstring-key, empty-list-not-equal, "
                "statematch-values-aliased (each with a negative example); that translation model is NOT run by the driver, its tie to rt_sink.go / "
                "func_provider.go is the ECAL-level correspondence. Constants 63, '*', '.' are typed into the model, not extracted."),
    level_note=("Trusted: Lean kernel + propext/Classical.choice/Quot.sound; the correspondence harness; Go's regexp (truth table); "
                "value equality classes computed by the harness. Readings: a self-suppressing rule never runs (spec follows the code, "
                "property text says 'another'); known findings statematch-nonstring-key, scope-lost-in-nested-instance-state, empty-list-not-equal, statematch-values-aliased (see known_findings.txt)."),
)


def run(ctx):
    # a case may admit several outcomes that keep the property (spec=, spec2=, …): the framework knows one
    # `spec` per case, so the alternative the real code produced (if any) is put there
    go = {}
    orig_cases, orig_driver = checklib.run_cases, checklib.run_driver

    def run_cases(*a, **k):
        res = orig_cases(*a, **k)
        go.update(res[1])
        return res

    def run_driver(*a, **k):
        out = orig_driver(*a, **k)
        for i, (_, attrs) in out.items():
            alts = [v for key, v in attrs.items() if key.startswith("spec")]
            if len(alts) > 1 and go.get(i) in alts:
                attrs["spec"] = go[i]
        return out

    checklib.run_cases, checklib.run_driver = run_cases, run_driver
    try:
        rc = checklib.standard(ctx, SPEC)
    finally:
        checklib.run_cases, checklib.run_driver = orig_cases, orig_driver
    if stress(ctx):
        rc = 1
    checklib.write_evidence(ctx)
    return rc
