"""C03 — expressions evaluate per the documented operator semantics and precedence."""
import os
import re
import subprocess

import checklib


def decode(p):
    f = p.split(" ")
    try:
        src = _field(p, "src")
        d = {"source": bytes.fromhex(src).decode("utf8", "replace") if src != "-" else ""}
        if _field(p, "env"):
            d["evaluated_in_turn_under"] = _field(p, "env").split("|")
        return d
    except Exception:
        return p


GEN = os.path.join(checklib.LEAN, "Ecal", "Gen", "C03.lean")


def extract(ctx):
    """regenerate lean/Ecal/Gen/C03.lean from $VERIF_REPO/parser/parser.go (go/ast)"""
    binp = checklib.go_build(ctx)
    env = dict(checklib.GOENV, VERIF_REPO=checklib.REPO)
    p = subprocess.run([binp, "C03", "-tool", "extract", GEN], env=env, stdout=subprocess.PIPE,
                       stderr=subprocess.STDOUT, text=True, timeout=120)
    if p.returncode != 0:
        # the extractor could not evaluate something: not an error of the code under test and not a
        # failure of the check — keep the committed table (the model then may disagree with the code
        # in the differential run, which is a real disagreement) and search harder
        subprocess.run(["git", "-C", checklib.VERIF, "checkout", "--", "lean/Ecal/Gen/C03.lean"],
                       stdout=subprocess.PIPE, stderr=subprocess.STDOUT)
        ctx.notes.append("C03: binding table could NOT be extracted from parser.go (" + " ".join(p.stdout.split())[-300:] +
                         "); the committed table lean/Ecal/Gen/C03.lean was used and the search over the documented "
                         "grammar's writings (all operator pairs, prefix forms and triples) was run in addition")
        ctx.c03_amplify = True


def _field(payload, key):
    for f in payload.split(" "):
        if f.startswith(key + "="):
            return f[len(key) + 1:]
    return None


def _lower_names(res):
    """error operand names compared without letter case (keyword spelling variants)"""
    def low(m):
        try:
            return m.group(1) + bytes.fromhex(m.group(2)).decode("utf8", "replace").lower().encode().hex() + " "
        except ValueError:
            return m.group(0)
    return re.sub(r"(E \w+ )([0-9a-f]+) ", low, res)


def equal(g, m, attrs):
    """same tree; every outcome equal to the model's or one of the admissible alternatives the model
    lists for that evaluation (alt=<index>:<outcome>~<outcome>;… — an error about ANY offending operand)"""
    if g == m:
        return True
    alt = attrs.get("alt")
    if not alt or " " not in g or " " not in m:
        return False
    gt, go = g.split(" ", 1)
    mt, mo = m.split(" ", 1)
    if gt != mt:
        return False
    gos, mos = go.split("|"), mo.split("|")
    if len(gos) != len(mos):
        return False
    alts = {}
    for part in alt.split(";"):
        i, _, rest = part.partition(":")
        alts[int(i)] = rest.split("~")
    return all(x == y or x in alts.get(i, ()) for i, (x, y) in enumerate(zip(gos, mos)))


def post(ctx, cases, gores, model):
    # layout / keyword-spelling variants against their single-blank writing: the REAL code alone must
    # give the same tree and outcome for every member of a group (independent of model and of both lexers)
    groups = {}
    for i, p in cases.items():
        gid = _field(p, "grp")
        if gid:
            groups.setdefault(gid, []).append(i)
    ngroups = nvariants = 0
    reported = 0
    for gid, idxs in sorted(groups.items()):
        if len(idxs) < 2:
            continue
        ngroups += 1
        nvariants += len(idxs) - 1
        ref = _lower_names(gores.get(idxs[0], "MISSING"))
        for i in idxs[1:]:
            if _lower_names(gores.get(i, "MISSING")) != ref and reported < 2:
                reported += 1
                rp = checklib.write_replay(ctx, "input", {"payload": cases[i], "readable": decode(cases[i]),
                                                          "plain_writing": decode(cases[idxs[0]])},
                                           gores.get(idxs[0]), gores.get(i),
                                           f"./check {ctx.prop} --replay <this file> (compare with the plain writing)", tag="layout")
                checklib.violation(ctx, rp, "layout / spelling variant differs from its single-blank writing")
    ctx.coverage["layout_groups"] = ngroups
    ctx.coverage["layout_variants_compared_with_plain_writing"] = nvariants
    if getattr(ctx, "c03_amplify", False):
        found = search(ctx, big=True)
        if found:
            checklib.violation(ctx, found, "documented grammar vs. real parser (table not extractable)")


def search(ctx, big=False):
    """the table obligations broke: find a concrete expression. The driver prints, for all operator
    pairs and prefix/binary pairs, the minimal writing per the documented grammar (Spec.pr — it does
    not look at the table) with the tree it stands for; the real parser must build that tree."""
    if not os.path.exists(checklib.DRIVER):
        return None
    p = subprocess.run([checklib.DRIVER, "C03", "specprints"] + (["big"] if big else []), stdout=subprocess.PIPE, stderr=subprocess.STDOUT,
                       text=True, timeout=300)
    path = os.path.join(ctx.work, "specprints.txt")
    with open(path, "w") as f:
        f.write(p.stdout)
    binp = ctx.harness or checklib.go_build(ctx)
    q = subprocess.run([binp, "C03", "-tool", "parsecheck", path], env=dict(checklib.GOENV), stdout=subprocess.PIPE,
                       stderr=subprocess.STDOUT, text=True, timeout=300)
    for line in q.stdout.splitlines():
        if line.startswith("FOUND\t"):
            _, src, want, got = line.split("\t")
            return checklib.write_replay(ctx, "search", {"source": src, "readable": src}, want, got,
                                         "driver C03 specprints | harness C03 -tool parsecheck",
                                         theorem="table obligations in Ecal.Props.C03 (documented grammar vs. astNodeMap)")
    return None


SPEC = dict(
    lean_modules=["Ecal.Props.C03"],
    shards=16,
    extract=extract,
    search=search,
    post=post,
    equal=equal,
    rule=("cases = one-expression programs (some `r := <expr>`): every binary operator on every pair of literal kinds "
          "{num,str,bool,null,list} x several values, every prefix operator on every operand of the universe, all 19x19 operator "
          "pairs x {no brackets, left, right} x operand triples over {num,str,bool,null,var,list}, all 3x19 prefix/binary forms, "
          "all 3x19x19 prefix-in-pair forms, random operator triples, random typed trees to depth 6 with random (also redundant / "
          "missing) brackets and random blank/tab/newline layout; operands include 0, fractions, 1e+308, 2^53+1, a 30-digit integer, "
          "negative and numeric-looking strings, '', invalid patterns; plus multi-evaluation cases (payload 'M …'): an expression over "
          "variables is parsed ONCE and the SAME tree is evaluated under 2-5 environments in a row with every variable rebound "
          "(patterns of like, operands of every operator), the model evaluating each environment independently — any state kept "
          "on an AST node between evaluations shows. Compared: tree shape of the real parser (node kinds, no "
          "positions) and value (float bit pattern) or error kind + the operand token it names + the operand the error is attached "
          "to (index among the raising operator's children). Also: programs of several expression statements (line rule), number-"
          "literal forms (1e5, 1e+999, 1.2.3, 5., `1 -2`), strings with '=', escapes, UTF-8, values around +-2^63, NaN/Inf/-0 in "
          "environments, `:=` inside pair forms (tree only). Every layout / keyword-spelling variant is also compared with its "
          "single-blank writing on the Go results alone. Non-trivial = the parsed tree has "
          "at least one operator or list."),
    exhaustive="all operator pairs (19x19x3 bracket forms, each also in a random layout), all 19^3 bracket-free triples, all prefix/binary pairs, all operator x literal-kind pairs",
    trusted_base=[
        "the model lexes the source itself with the Lean lexer model Ecal.Lex (tied to lexer.go by C18/C07); for generated "
        "expressions the generator's intended token texts are shipped and must be what the lexer model finds; number text -> "
        "float64 is strconv.ParseFloat (bits shipped per number text)",
        "fmt.Sprint of a float64, regexp.Compile/MatchString and int64(x) for x outside the int64 range are oracles shipped per case "
        "(computed by the Go standard library, not by the interpreter); a missing entry is reported as a disagreement",
        "float arithmetic of the model driver is Lean's Float (IEEE double of the same machine): float rounding, NaN, infinities, "
        "-0 are TESTED, not proved; the theorems hold for every carrier, floor division / truncated remainder are proved for the "
        "exact rational carrier",
        "hand-written parts of the model (trusted through the differential run only): the Pratt loop itself (strictness of "
        "`rightBinding < binding`, skipToken(RPAREN), the comma rule of ndList, the line rule, the identifier guard) and the "
        "operator helpers numOp/boolOp/strOp/genOp/listOp; extracted facts: astNodeMap entries and the four p.run arguments "
        "(go/ast + constant evaluation, harness C03 -tool extract, on every run)",
        "the reference semantics Spec.eval was written from the language reference AND the code (mixed-kind comparison by text, "
        "strict and/or are the code's choices canonised)",
    ],
    assumptions=["no function calls, accesses or nested assignments inside the expression (evaluation has no side effects); an "
                 "assignment elsewhere than `name := <expr>` as the whole program: only the tree is compared",
                 "string literals contain no {{ }} (interpolation is C14)",
                 "the tree is validated (Runtime.Validate) before it is evaluated, as the harness and every caller in the "
                 "repository do: a number literal's value is set in Validate (Eval alone would yield 0)",
                 "all cases of a shard run in one process with one shared ECALRuntimeProvider",
                 "declared reading: list elements without commas between them (`[1 2]`, `[a -b]` = one element) are accepted by "
                 "the parser but not documented; the grammar clause is read over comma-separated lists, the converse theorem "
                 "covers the comma-less forms (PrintsW), which are ambiguous as writings",
                 "every TESTED claim (float carrier, like, text forms of values) holds for the generator's operand universe: about "
                 "45 number texts, 55 string literals (line ends, escapes, UTF-8 included), lists up to 40 elements, plus the "
                 "metamorphic numeric families (x, x +- 1 ulp, x +- 1e-12, quotients around integers, fractional / negative % "
                 "operands) and the environments of the multi-evaluation cases"],
    decode=decode,
)

META = dict(
    technique=("Lean 4 theorems over an executable model of the Pratt loop (driven by the binding table regenerated from "
               "parser.go) and of the operator runtimes + differential correspondence on Runtime.Eval"),
    level_text=("Proof (precedence): for every expression tree of any depth the Pratt loop with the real binding table parses every "
                "admissible writing of the tree (minimal brackets per the documented grammar, arbitrary redundant ones, the tokens on "
                "any LINES) back to that tree, and conversely — for token lists of the fragment's alphabet — everything it accepts is such a writing of the tree it "
                "returns (list elements may lack commas; the forward direction admits a missing comma before an element that starts "
                "with a literal or identifier, the other comma-less forms are line dependent and only in the converse); the "
                "grammar is unambiguous; the driver's parseProgram agrees with parse on one-statement programs; fuel never runs out; table facts re-proved by decide on every "
                "run. Proof (semantics): interpreter-style evaluation (helpers, evaluation order, text fallback of comparisons) = "
                "per-operator reference semantics up to two known findings, for all trees / environments / numeric carriers; wrong-"
                "kind operands are errors naming the operand; every error of the evaluation is an admissible one (about SOME offending "
                "operand) and a tree with a value has no admissible error; every NUMBER token of the lexer model carries a text that "
                "starts with a digit and ParseFloat accepts, and (ASCII) is exactly the longest prefix of the form (digit | . | e+digit)* — "
                "which is the formal statement of the known finding number-exponent-split (`1e5` -> NUMBER 1, then `e5`), proved for "
                "lexWord in every state and for the first token of a complete lexer run; for exact rational arithmetic `//` is the floor of the quotient and `%` "
                "the truncated remainder. Tested, not proved: the model against the code (measured: ~65k quick / ~750k thorough evaluations, see evaluations), "
                "IEEE behaviour of the float carrier, whitespace / keyword case / number splitting (Lean lexer model on the model "
                "side, intended tokens, layout variants against their plain writing on the real code alone)."),
    level_note=("Trusted: Lean kernel + propext/Classical.choice/Quot.sound; the harness and go/ast extractor; the hand-written model "
                "of run/ndList/ndIdentifier-guard and of numOp/boolOp/...; Ecal.Lex (C18/C07); float text / regexp / out-of-range "
                "int64 oracles from the Go standard library. 'Any layout' in the theorems means any line numbers of given tokens."),
)


def run(ctx):
    return checklib.standard(ctx, SPEC)
